/-
  Core/Props/C01.lean — the fee rule: exact (non-wrapping) arithmetic in CalculateFee, in verifyBlock,
  at pool admission and in the reward of a produced block.
-/
import Core.Lemmas.Fee
open Std

namespace Ru

/-- concrete data for the non-vacuity examples: one confirmed output of 10 owned by "A";
    a transaction spending it into 7 for "B" (fee 3) -/
def C01ex.u : Utxo := ⟨"a", 0, ⟨"A", false, 10⟩, 0⟩
def C01ex.reg : UtxoReg :=
  ⟨(∅ : TreeMap String (List (Option Utxo))).insert "a" [some C01ex.u], (∅ : TreeMap String (List Utxo)).insert "A" [C01ex.u]⟩
def C01ex.tx : Tx := ⟨"t", [⟨"a", 0, "pk", "sig", "A", true⟩], [⟨"B", false, 7⟩], 5⟩
def C01ex.val : Nat → Bool → Int → Nat := fun v _ _ => v
def C01ex.env : Env := ⟨C01ex.val, fun b => toString b.ts⟩
def C01ex.cfg : Cfg := ⟨10, 100, 1, 5, "V"⟩
/-- genesis block at 5 creating the output "a"/0, then the ledger holding it (nothing confirmed yet) -/
def C01ex.b0 : Block := ⟨zeroHash, none, none, 5, [⟨"a", [], [⟨"A", false, 10⟩], 5⟩]⟩
/-- the ledger after a second block: the genesis output is confirmed -/
def C01ex.led : Ledger := ⟨[C01ex.b0, ⟨"5", none, none, 10, [⟨"r1", [], [⟨"V", false, 0⟩], 10⟩]⟩], C01ex.reg, .empty⟩
/-- a third block: the transaction (dated 12) and a reward of 3 -/
def C01ex.tx2 : Tx := ⟨"t", [⟨"a", 0, "pk", "sig", "A", true⟩], [⟨"B", false, 7⟩], 12⟩
def C01ex.b2 : Block := ⟨"10", none, none, 15, [C01ex.tx2, ⟨"r2", [], [⟨"V", false, 3⟩], 15⟩]⟩

/-- C01 (fee rule, exact): a successful `CalculateFee` names, input by input, the live outputs it consumed,
    and in exact natural-number arithmetic their value equals fee + outputs, with fee ≥ minimal fee and
    neither side reaching 2^64. -/
theorem C01_fee_exact (val : Nat → Bool → Int → Nat) (minFee : Nat) (r : UtxoReg) (tx : Tx) (ts : Int) (fee : Nat)
    (h : r.calculateFee val minFee tx ts = .ok fee) :
    ∃ us : List Utxo, us.length = tx.inputs.length ∧
      tx.inputs.map (UtxoReg.lookup r.byId) = us.map Except.ok ∧
      (∀ (k : Nat) (hk : k < tx.inputs.length) (hk' : k < us.length),
        UtxoReg.lookup r.byId tx.inputs[k] = .ok us[k]) ∧
      (us.map (fun u => val u.out.value u.out.yielding (ts - u.created))).sum
        = fee + (tx.outputs.map (·.value)).sum ∧
      minFee ≤ fee ∧
      (us.map (fun u => val u.out.value u.out.yielding (ts - u.created))).sum < U64 ∧
      (tx.outputs.map (·.value)).sum < U64 := by
  obtain ⟨us, h1, _, h3, h4, h5⟩ := (UtxoReg.calculateFee_ok_iff val minFee r tx ts fee).mp h
  obtain ⟨hl, hidx⟩ := UtxoReg.lookups_index h1
  simp only [inSum, outSum] at h3 h5
  exact ⟨us, hl, h1, hidx, h3, h4, h5, by omega⟩

example : C01ex.reg.calculateFee C01ex.val 1 C01ex.tx 5 = .ok 3 := by rfl

/-- C01 (bound): outputs + minimal fee ≤ value of the consumed outputs, exactly. -/
theorem C01_tx_bound (val : Nat → Bool → Int → Nat) (minFee : Nat) (r : UtxoReg) (tx : Tx) (ts : Int) (fee : Nat)
    (h : r.calculateFee val minFee tx ts = .ok fee) :
    ∃ us : List Utxo, tx.inputs.map (UtxoReg.lookup r.byId) = us.map Except.ok ∧
      (tx.outputs.map (·.value)).sum + minFee
        ≤ (us.map (fun u => val u.out.value u.out.yielding (ts - u.created))).sum ∧
      (us.map (fun u => val u.out.value u.out.yielding (ts - u.created))).sum < U64 := by
  obtain ⟨us, _, h1, _, h3, h4, h5, _⟩ := C01_fee_exact val minFee r tx ts fee h
  exact ⟨us, h1, by omega, h5⟩

example : ∃ fee, C01ex.reg.calculateFee C01ex.val 1 C01ex.tx 5 = .ok fee := ⟨3, by rfl⟩

/-- C01 (no wrap, output side): outputs whose exact sum reaches 2^64 are refused whatever the inputs. -/
theorem C01_wrap_refused (val : Nat → Bool → Int → Nat) (minFee : Nat) (r : UtxoReg) (tx : Tx) (ts : Int)
    (h : (tx.outputs.map (·.value)).sum ≥ U64) : ∃ e, r.calculateFee val minFee tx ts = .error e := by
  cases hc : r.calculateFee val minFee tx ts with
  | error e => exact ⟨e, rfl⟩
  | ok fee =>
    obtain ⟨us, _, _, _, _, _, _, h7⟩ := C01_fee_exact val minFee r tx ts fee hc
    omega

example : (({ C01ex.tx with outputs := [⟨"B", false, U64 - 1⟩, ⟨"B", false, 1⟩] } : Tx).outputs.map (·.value)).sum ≥ U64 := by
  decide

/-- C01 (no wrap, input side): consumed outputs whose exact value reaches 2^64 are refused. -/
theorem C01_wrap_refused_inputs (val : Nat → Bool → Int → Nat) (minFee : Nat) (r : UtxoReg) (tx : Tx) (ts : Int)
    (us : List Utxo) (hus : tx.inputs.map (UtxoReg.lookup r.byId) = us.map Except.ok)
    (h : (us.map (fun u => val u.out.value u.out.yielding (ts - u.created))).sum ≥ U64) :
    ∃ e, r.calculateFee val minFee tx ts = .error e := by
  cases hc : r.calculateFee val minFee tx ts with
  | error e => exact ⟨e, rfl⟩
  | ok fee =>
    obtain ⟨vs, _, h1, _, _, _, h6, _⟩ := C01_fee_exact val minFee r tx ts fee hc
    have := UtxoReg.lookups_unique hus h1
    subst this
    omega

example : C01ex.tx.inputs.map (UtxoReg.lookup C01ex.reg.byId) = [C01ex.u].map Except.ok ∧
    ([C01ex.u].map (fun u => (fun (_ : Nat) (_ : Bool) (_ : Int) => U64) u.out.value u.out.yielding (5 - u.created))).sum ≥ U64 := by
  constructor
  · rfl
  · decide

/-- `feeOf` is the exact difference whenever the fee rule passes (reading of the sums below). -/
theorem C01_feeOf_exact (val : Nat → Bool → Int → Nat) (minFee : Nat) (r : UtxoReg) (tx : Tx) (ts : Int)
    (h : (r.calculateFee val minFee tx ts).isOk = true) :
    ∃ us : List Utxo, tx.inputs.map (UtxoReg.lookup r.byId) = us.map Except.ok ∧
      (us.map (fun u => val u.out.value u.out.yielding (ts - u.created))).sum
        = feeOf val minFee r ts tx + (tx.outputs.map (·.value)).sum ∧
      minFee ≤ feeOf val minFee r ts tx := by
  obtain ⟨fee, hf⟩ := (fee_isOk_iff_exists _).mp h
  obtain ⟨us, _, h1, _, h3, h4, _, _⟩ := C01_fee_exact val minFee r tx ts fee hf
  rw [feeOf_eq_of_ok hf]
  exact ⟨us, h1, h3, h4⟩

example : (C01ex.reg.calculateFee C01ex.val 1 C01ex.tx 5).isOk = true := by rfl

/-- C01 (adopted blocks): a block that passes `verifyBlock` has exactly one reward transaction; each ordinary
    transaction satisfies the exact bound against the confirmed outputs at the block's timestamp; the reward is
    at most the EXACT (unwrapped) sum of their fees. -/
theorem C01_verifyBlock_bound (env : Env) (cfg : Cfg) (l : Ledger) (b : Block) (prevTs now : Int)
    (h : Ledger.verifyBlock env cfg l b prevTs now = .ok ()) :
    (∀ t ∈ b.txs, t.hasReward = false →
      ∃ (us : List Utxo) (fee : Nat), l.utxos.calculateFee env.val cfg.minFee t b.ts = .ok fee ∧
        t.inputs.map (UtxoReg.lookup l.utxos.byId) = us.map Except.ok ∧
        (us.map (fun u => env.val u.out.value u.out.yielding (b.ts - u.created))).sum
          = fee + (t.outputs.map (·.value)).sum ∧
        cfg.minFee ≤ fee ∧
        (t.outputs.map (·.value)).sum + cfg.minFee
          ≤ (us.map (fun u => env.val u.out.value u.out.yielding (b.ts - u.created))).sum ∧
        (us.map (fun u => env.val u.out.value u.out.yielding (b.ts - u.created))).sum < U64) ∧
    (b.txs.filter (·.hasReward)).length = 1 ∧
    (∃ rt, b.txs.filter (·.hasReward) = [rt] ∧
      rt.rewardValue ≤ ((b.txs.filter (fun t => !t.hasReward)).map (feeOf env.val cfg.minFee l.utxos b.ts)).sum) := by
  obtain ⟨_, _, ⟨rt, hrt, hle⟩, hall⟩ := Ledger.fee_verifyBlock_ok h
  refine ⟨?_, by rw [hrt]; rfl, rt, hrt, hle⟩
  intro t ht hr
  obtain ⟨_, _, _, _, fee, hf⟩ := hall t ht hr
  obtain ⟨us, _, h1, _, h3, h4, h5, _⟩ := C01_fee_exact env.val cfg.minFee l.utxos t b.ts fee hf
  exact ⟨us, fee, hf, h1, h3, h4, by omega, h5⟩

example : Ledger.verifyBlock C01ex.env C01ex.cfg C01ex.led C01ex.b2 10 20 = .ok () := by rfl


/-- a node holding `C01ex.led` with the transaction pooled -/
def C01ex.node : Node := ⟨C01ex.led, []⟩
def C01ex.node1 : Node := ⟨C01ex.led, [C01ex.tx2]⟩

/-- C01 (admission): an admitted transaction satisfies the exact bound, valued at the next block's timestamp,
    against the confirmed outputs AND against the copy that has replayed the last block and the pool. -/
theorem C01_admit_bound (env : Env) (cfg : Cfg) (n : Node) (tx : Tx)
    (h : Node.admitCheck env cfg n tx = .ok ()) :
    ∃ (c1 c2 : UtxoReg) (us us2 : List Utxo) (fee fee2 : Nat),
      n.led.utxos.update n.led.lastTxs (n.led.lastTs + cfg.interval) = .ok c1 ∧
      c1.update n.pool (n.led.lastTs + cfg.interval) = .ok c2 ∧
      -- against the confirmed outputs
      n.led.utxos.calculateFee env.val cfg.minFee tx (n.led.lastTs + cfg.interval) = .ok fee ∧
      tx.inputs.map (UtxoReg.lookup n.led.utxos.byId) = us.map Except.ok ∧
      (us.map (fun u => env.val u.out.value u.out.yielding (n.led.lastTs + cfg.interval - u.created))).sum
        = fee + (tx.outputs.map (·.value)).sum ∧
      cfg.minFee ≤ fee ∧
      (tx.outputs.map (·.value)).sum + cfg.minFee
        ≤ (us.map (fun u => env.val u.out.value u.out.yielding (n.led.lastTs + cfg.interval - u.created))).sum ∧
      (us.map (fun u => env.val u.out.value u.out.yielding (n.led.lastTs + cfg.interval - u.created))).sum < U64 ∧
      -- against the copy
      c2.calculateFee env.val cfg.minFee tx (n.led.lastTs + cfg.interval) = .ok fee2 ∧
      tx.inputs.map (UtxoReg.lookup c2.byId) = us2.map Except.ok ∧
      (us2.map (fun u => env.val u.out.value u.out.yielding (n.led.lastTs + cfg.interval - u.created))).sum
        = fee2 + (tx.outputs.map (·.value)).sum ∧
      cfg.minFee ≤ fee2 ∧
      (tx.outputs.map (·.value)).sum + cfg.minFee
        ≤ (us2.map (fun u => env.val u.out.value u.out.yielding (n.led.lastTs + cfg.interval - u.created))).sum ∧
      (us2.map (fun u => env.val u.out.value u.out.yielding (n.led.lastTs + cfg.interval - u.created))).sum < U64 := by
  obtain ⟨_, _, _, _, _, c1, c2, h1, h2, h3, h4, _⟩ := (Node.admitCheck_ok_iff env cfg n tx).mp h
  obtain ⟨fee2, hf2⟩ := (fee_isOk_iff_exists _).mp h3
  obtain ⟨fee, hf⟩ := (fee_isOk_iff_exists _).mp h4
  obtain ⟨us, _, a1, _, a3, a4, a5, _⟩ := C01_fee_exact _ _ _ _ _ _ hf
  obtain ⟨us2, _, b1, _, b3, b4, b5, _⟩ := C01_fee_exact _ _ _ _ _ _ hf2
  exact ⟨c1, c2, us, us2, fee, fee2, h1, h2, hf, a1, a3, a4, by omega, a5, hf2, b1, b3, b4, by omega, b5⟩

example : Node.admitCheck C01ex.env C01ex.cfg C01ex.node C01ex.tx2 = .ok () := by rfl

/-- C01 (produced blocks): the block a tick appends is `kept ++ [reward]`; every kept transaction satisfies the
    exact bound against the confirmed outputs at the block's timestamp; the reward's value is at most the
    genesis amount (first block only) plus the EXACT sum of the kept transactions' fees.  With a positive
    minimal fee `kept` is exactly the ordinary transactions of the block and the reward is its only reward. -/
theorem C01_produce_reward (env : Env) (cfg : Cfg) (n n' : Node) (ts : Int) (perm : List Tx) (rewardId : String)
    (h : n.produce env cfg ts perm rewardId = some n') :
    ∃ (b : Block) (kept : List Tx) (rt : Tx),
      n'.led.blocks = n.led.blocks ++ [b] ∧ b.txs = kept ++ [rt] ∧ rt.hasReward = true ∧
      rt.rewardValue ≤ (if n.led.lastTs = 0 then cfg.genesis else 0) +
        (kept.map (feeOf env.val cfg.minFee n.led.utxos ts)).sum ∧
      (∀ t ∈ kept, ∃ (us : List Utxo) (fee : Nat),
        n.led.utxos.calculateFee env.val cfg.minFee t ts = .ok fee ∧
        feeOf env.val cfg.minFee n.led.utxos ts t = fee ∧
        t.inputs.map (UtxoReg.lookup n.led.utxos.byId) = us.map Except.ok ∧
        (us.map (fun u => env.val u.out.value u.out.yielding (ts - u.created))).sum
          = fee + (t.outputs.map (·.value)).sum ∧
        cfg.minFee ≤ fee ∧
        (t.outputs.map (·.value)).sum + cfg.minFee
          ≤ (us.map (fun u => env.val u.out.value u.out.yielding (ts - u.created))).sum) ∧
      (1 ≤ cfg.minFee →
        b.txs.filter (·.hasReward) = [rt] ∧ b.txs.filter (fun t => !t.hasReward) = kept) := by
  obtain ⟨_, copy, c, hu, hc, rfl⟩ := Node.fee_produce_some h
  refine ⟨Node.blockOf env cfg n c ts rewardId (Node.keptOf env cfg n ts perm copy), Node.keptOf env cfg n ts perm copy,
    Node.rewardTx rewardId cfg.validator (n.led.lastTs == 0) ts (Node.feesOf env cfg n ts (Node.keptOf env cfg n ts perm copy)),
    ?_, rfl, rfl, ?_, ?_, ?_⟩
  · simp [Ledger.fee_confirmLast_blocks hc, Node.blockOf]
  · have := wrapAdd_le (if n.led.lastTs = 0 then cfg.genesis else 0)
      ((Node.keptOf env cfg n ts perm copy).map (feeOf env.val cfg.minFee n.led.utxos ts))
    simpa [Node.rewardTx, Tx.rewardValue, Node.feesOf, Node.startReward] using this
  · intro t ht
    obtain ⟨_, _, _, fee, hf⟩ := Node.greedy_mem_keeps_parts env cfg n.led.utxos ts n.led.lastTs _ ht
    obtain ⟨us, _, a1, _, a3, a4, _, _⟩ := C01_fee_exact _ _ _ _ _ _ hf
    exact ⟨us, fee, hf, feeOf_eq_of_ok hf, a1, a3, a4, by omega⟩
  · intro hmin
    have hk : ∀ t ∈ Node.keptOf env cfg n ts perm copy, t.hasReward = false := by
      intro t ht
      obtain ⟨_, _, _, f, hf⟩ := Node.greedy_mem_keeps_parts env cfg n.led.utxos ts n.led.lastTs _ ht
      cases hr : t.hasReward with
      | false => rfl
      | true =>
        obtain ⟨e, he⟩ := UtxoReg.calculateFee_noInputs_error env.val cfg.minFee hmin n.led.utxos t ts hr
        rw [he] at hf; cases hf
    exact ⟨Node.filter_hasReward_append_reward _ _ hk rfl, Node.filter_not_hasReward_append_reward _ _ hk rfl⟩

example : ((C01ex.node1.produce C01ex.env C01ex.cfg 15 [C01ex.tx2] "r2").map
    (fun n' => n'.led.blocks.getLast?.map (fun b => b.txs.map (·.rewardValue)))) = some (some [7, 3]) := by rfl


/-- C01 (adopted blocks, conservation): in exact arithmetic, the reward plus everything the ordinary
    transactions of an accepted block pay out is at most the value (at the block's timestamp) of the confirmed
    outputs they consume — `consumedOf` lists, input by input, the outputs named. -/
theorem C01_verifyBlock_conservation (env : Env) (cfg : Cfg) (l : Ledger) (b : Block) (prevTs now : Int)
    (h : Ledger.verifyBlock env cfg l b prevTs now = .ok ()) :
    ∃ rt, b.txs.filter (·.hasReward) = [rt] ∧
      rt.rewardValue + ((b.txs.filter (fun t => !t.hasReward)).map (fun t => (t.outputs.map (·.value)).sum)).sum
        ≤ ((b.txs.filter (fun t => !t.hasReward)).map (fun t =>
            ((consumedOf l.utxos t).map (fun u => env.val u.out.value u.out.yielding (b.ts - u.created))).sum)).sum := by
  obtain ⟨_, _, ⟨rt, hrt, hle⟩, hall⟩ := Ledger.fee_verifyBlock_ok h
  refine ⟨rt, hrt, ?_⟩
  have hok : ∀ t ∈ b.txs.filter (fun t => !t.hasReward),
      (l.utxos.calculateFee env.val cfg.minFee t b.ts).isOk = true := by
    intro t ht
    obtain ⟨ht1, ht2⟩ := List.mem_filter.mp ht
    obtain ⟨_, _, _, _, hf⟩ := hall t ht1 (by simpa using ht2)
    exact (fee_isOk_iff_exists _).mpr hf
  have := fees_conservation env.val cfg.minFee l.utxos b.ts _ hok
  have e : outSum = fun t => (t.outputs.map (·.value)).sum := rfl
  rw [e] at this
  simp only [inSum] at this
  omega

example : consumedOf C01ex.led.utxos C01ex.tx2 = [C01ex.u] := by rfl

/-- C01 (produced blocks, conservation): reward + payouts of the kept transactions ≤ genesis amount (first block
    only) + value of the confirmed outputs they consume, exactly. -/
theorem C01_produce_conservation (env : Env) (cfg : Cfg) (n n' : Node) (ts : Int) (perm : List Tx) (rewardId : String)
    (h : n.produce env cfg ts perm rewardId = some n') :
    ∃ (b : Block) (kept : List Tx) (rt : Tx),
      n'.led.blocks = n.led.blocks ++ [b] ∧ b.txs = kept ++ [rt] ∧ rt.hasReward = true ∧
      rt.rewardValue + (kept.map (fun t => (t.outputs.map (·.value)).sum)).sum
        ≤ (if n.led.lastTs = 0 then cfg.genesis else 0) +
          (kept.map (fun t =>
            ((consumedOf n.led.utxos t).map (fun u => env.val u.out.value u.out.yielding (ts - u.created))).sum)).sum := by
  obtain ⟨b, kept, rt, h1, h2, h3, h4, h5, _⟩ := C01_produce_reward env cfg n n' ts perm rewardId h
  refine ⟨b, kept, rt, h1, h2, h3, ?_⟩
  have hok : ∀ t ∈ kept, (n.led.utxos.calculateFee env.val cfg.minFee t ts).isOk = true := by
    intro t ht
    obtain ⟨_, fee, hf, _⟩ := h5 t ht
    exact (fee_isOk_iff_exists _).mpr ⟨fee, hf⟩
  have := fees_conservation env.val cfg.minFee n.led.utxos ts kept hok
  have e : outSum = fun t => (t.outputs.map (·.value)).sum := rfl
  rw [e] at this
  simp only [inSum] at this
  omega

example : (C01ex.node1.produce C01ex.env C01ex.cfg 15 [C01ex.tx2] "r2").isSome = true := by rfl

end Ru
