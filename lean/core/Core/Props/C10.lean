/-
  Core/Props/C10.lean — property C10 on the output registry's address index and the address registry.

  C10: "In every chain a node produces or adopts, no address ever owns two unspent yielding outputs at once,
  and an ordinary transaction's yielding output is accepted only if its address is registered in that chain's
  confirmed state or is listed as newly registered by the very block that contains it.  Every address to
  which an honest producer's block gives a yielding output is listed by that block as newly registered unless
  it already is, and addresses a block lists as removed stop being registered once that block is confirmed."

  Definitions used (Core/Lemmas/Registry.lean): `UtxoReg.live`, `UtxoReg.Indexed` (the index invariant as first
  specified), `UtxoReg.IndexedW` (its unconditionally true part), `UtxoReg.IndexedS` (the exact correspondence,
  true while every created output is useful), `UtxoReg.UsefulOutputs`.
-/
import Core.Lemmas.Registry
import Core.Lemmas.AddBlock
open Std

namespace Ru
open UtxoReg RegEx

/-! ## one yielding output per address -/

/-- After an accepted `UpdateUtxos` no address list holds two yielding outputs. -/
theorem C10_update_one_yielding (r r' : UtxoReg) (txs : List Tx) (ts : Int) (h : UtxoReg.update r txs ts = .ok r') :
    ∀ a, countYielding (r'.utxos a) ≤ 1 :=
  fun a => countYielding_utxos_le_one (update_ok_iff.1 h).2 a

/-- and a batch that would give an address a second yielding output is refused as a whole -/
theorem C10_update_refuses_two_yielding (r st : UtxoReg) (txs : List Tx) (ts : Int) (a : String)
    (h : applyTxs r txs ts = .ok st) (h2 : 2 ≤ countYielding (st.utxos a)) :
    ∃ e, UtxoReg.update r txs ts = .error e := by
  cases hu : UtxoReg.update r txs ts with
  | error e => exact ⟨e, rfl⟩
  | ok r' =>
    obtain ⟨h1, h3⟩ := update_ok_iff.1 hu
    rw [h] at h1; injection h1 with h1; subst h1
    have := countYielding_utxos_le_one h3 a
    omega

example : (UtxoReg.update xSt [xTxA] 1).toOption.isSome = true := by decide
example : UtxoReg.update xSt [⟨"Y1", [xIn "G" 0 "X"], [⟨"B", true, 1⟩], 1⟩] 1 = .error "multi-income" := rfl

/-! ## the index invariant -/

/-- The index invariant as first specified: `Indexed` is preserved by every accepted transaction.
    FALSE of the model — see `C10_index_invariant_counterexample`. -/
def C10_index_invariant_full : Prop :=
  ∀ (st st' : UtxoReg) (tx : Tx) (ts : Int), Indexed st → applyTx st tx ts = .ok st' → Indexed st'

/-- The empty registry satisfies all three forms. -/
theorem C10_index_invariant_empty :
    Indexed UtxoReg.empty ∧ IndexedW UtxoReg.empty ∧ IndexedS UtxoReg.empty :=
  ⟨indexed_empty, indexedW_empty, indexedS_empty⟩

/-- The strongest part of the invariant that holds UNCONDITIONALLY (any transactions, ids re-created or not):
    every live slot `byId[id][idx] = some u` has `u.txId = id`, `u.index = idx` and `u ∈ byAddr[u.out.address]`;
    every `byAddr[a]` list is non-empty and holds only outputs of address `a`. -/
theorem C10_index_invariant (st st' : UtxoReg) (tx : Tx) (ts : Int) (hW : IndexedW st)
    (h : applyTx st tx ts = .ok st') : IndexedW st' :=
  applyTx_indexedW hW h

theorem C10_index_invariant_applyTxs (st st' : UtxoReg) (txs : List Tx) (ts : Int) (hW : IndexedW st)
    (h : applyTxs st txs ts = .ok st') : IndexedW st' :=
  applyTxs_indexedW hW h

theorem C10_index_invariant_update (r r' : UtxoReg) (txs : List Tx) (ts : Int) (hW : IndexedW r)
    (h : UtxoReg.update r txs ts = .ok r') : IndexedW r' :=
  applyTxs_indexedW hW (update_ok_iff.1 h).1

example : ∃ r, UtxoReg.update .empty cxTxs 1 = .ok r ∧ IndexedW r ∧ live r "V" 0 ≠ none := by
  have h : (UtxoReg.update .empty cxTxs 1).toOption.isSome = true := by decide
  cases hu : UtxoReg.update .empty cxTxs 1 with
  | error e => rw [hu] at h; cases h
  | ok r =>
    refine ⟨r, rfl, C10_index_invariant_update _ _ _ _ indexedW_empty hu, ?_⟩
    have : ((UtxoReg.update .empty cxTxs 1).toOption.bind (fun r => live r "V" 0)).isSome = true := by decide
    rw [hu] at this
    intro e; rw [Except.toOption, Option.bind_some, e] at this; cases this

/-- The exact correspondence (`IndexedS`: additionally every element of every `byAddr` list is a live slot of
    `byId`, every live output is useful, and no `byAddr` list holds one reference twice) is preserved as long
    as the transaction creates no useless output (`UsefulOutputs`: no zero-valued non-yielding output in a
    transaction that creates an entry — the excluded case, decidable).  `IndexedS` implies `Indexed`. -/
theorem C10_index_invariant_partial (st st' : UtxoReg) (tx : Tx) (ts : Int) (hS : IndexedS st)
    (huse : UsefulOutputs tx) (h : applyTx st tx ts = .ok st') : IndexedS st' ∧ Indexed st' :=
  have := applyTx_indexedS hS huse h
  ⟨this, this.toIndexed⟩

theorem C10_index_invariant_partial_applyTxs (st st' : UtxoReg) (txs : List Tx) (ts : Int) (hS : IndexedS st)
    (huse : ∀ t ∈ txs, UsefulOutputs t) (h : applyTxs st txs ts = .ok st') : IndexedS st' ∧ Indexed st' :=
  have := applyTxs_indexedS hS huse h
  ⟨this, this.toIndexed⟩

theorem C10_index_invariant_partial_update (r r' : UtxoReg) (txs : List Tx) (ts : Int) (hS : IndexedS r)
    (huse : ∀ t ∈ txs, UsefulOutputs t) (h : UtxoReg.update r txs ts = .ok r') : IndexedS r' ∧ Indexed r' :=
  C10_index_invariant_partial_applyTxs r r' txs ts hS huse (update_ok_iff.1 h).1

example : (∀ t ∈ [xTxG, xTxA], UsefulOutputs t) ∧ (UtxoReg.update .empty [xTxG, xTxA] 1).toOption.isSome = true := by
  decide

/-- COUNTEREXAMPLE (finding).  From the empty registry, five well-formed transactions, accepted by
    `UpdateUtxos`, lead to a registry in which `byAddr["A"]` holds a useful (yielding) output that is not a
    live slot of `byId`: the id "T" is pruned while its zero-valued output to A is still unspent (it stays,
    stale, in `byAddr["A"]`), "T" is created again, and the spend of the new (T,0) erases the stale element
    instead of the new one.  Hence `Indexed` is not an invariant, and the ghost output counts in the income
    check for ever: a later yielding output to A is refused ("multi-income") although A owns no live yielding
    output.  (The second creation of "T" carries other outputs than the first: possible in the model, where
    ids are data; in the Go node it needs two transactions with one sha256 id.) -/
theorem C10_index_invariant_counterexample :
    (∀ t ∈ cxTxs, t.WF) ∧
    (∃ r, UtxoReg.update .empty cxTxs 1 = .ok r ∧
      r.byAddr["A"]? = some [cxGhost] ∧ slotLive (some cxGhost) = true ∧ live r "T" 0 = none ∧ r.byId["T"]? = none ∧
      ¬ Indexed r ∧
      UtxoReg.update r [cxLater] 1 = .error "multi-income") ∧
    ¬ C10_index_invariant_full := by
  have hex : ∃ r, UtxoReg.update .empty cxTxs 1 = .ok r ∧
      r.byAddr["A"]? = some [cxGhost] ∧ slotLive (some cxGhost) = true ∧ live r "T" 0 = none ∧ r.byId["T"]? = none ∧
      ¬ Indexed r ∧ UtxoReg.update r [cxLater] 1 = .error "multi-income" := by
    refine ⟨_, rfl, by decide, by decide, by decide, by decide, ?_, rfl⟩
    intro hI
    have := (hI.2 "A" [cxGhost] (by decide) cxGhost (by simp)).2 (by decide)
    revert this
    decide
  refine ⟨by decide, hex, ?_⟩
  intro hfull
  obtain ⟨r, hu, -, -, -, -, hn, -⟩ := hex
  exact hn (applyTxs_induct (P := Indexed) (Q := fun _ => True) (fun st tx st' _ hp hc => hfull st st' tx 1 hp hc)
    (fun _ _ => trivial) indexed_empty (update_ok_iff.1 hu).1)

/-- COUNTEREXAMPLE (finding), the stale part alone: without any id being created twice, `byAddr` keeps a
    zero-valued output whose `byId` entry has been pruned — `Utxos("A")` reports an output that no input can
    consume.  So `IndexedS` needs `UsefulOutputs`. -/
theorem C10_stale_entry_counterexample :
    (∀ t ∈ cxTxs.take 3, t.WF) ∧ ¬ (∀ t ∈ cxTxs.take 3, UsefulOutputs t) ∧
    ∃ r, UtxoReg.update .empty (cxTxs.take 3) 1 = .ok r ∧ r.utxos "A" = [cxStale] ∧
      live r cxStale.txId cxStale.index = none ∧ ¬ IndexedS r := by
  refine ⟨by decide, by decide, _, rfl, by decide, by decide, ?_⟩
  intro hS
  have := ((hS.2.1 "A" [cxStale] (by decide)).2 cxStale (by simp)).2
  revert this
  decide

/-- No address owns two live yielding outputs: from the (unconditional) invariant and the income check. -/
theorem C10_no_two_yielding_live (r : UtxoReg) (hW : IndexedW r) (hinc : incomesOk r.byAddr = true)
    (id1 id2 : String) (idx1 idx2 : Nat) (u1 u2 : Utxo)
    (h1 : live r id1 idx1 = some u1) (h2 : live r id2 idx2 = some u2) (hne : (id1, idx1) ≠ (id2, idx2))
    (ha : u1.out.address = u2.out.address) (hy1 : u1.out.yielding = true) (hy2 : u2.out.yielding = true) : False := by
  obtain ⟨a1, b1, c1⟩ := hW.1 _ _ _ h1
  obtain ⟨a2, b2, c2⟩ := hW.1 _ _ _ h2
  have hneu : u1 ≠ u2 := by
    intro e
    apply hne
    rw [← a1, ← b1, ← a2, ← b2, e]
  rw [← ha] at c2
  have := two_le_countYielding c1 c2 hneu hy1 hy2
  have := countYielding_utxos_le_one hinc u1.out.address
  omega

/-- the same for every registry reached from the empty one by accepted updates (one step shown; `IndexedW`
    is carried along by `C10_index_invariant_update`) -/
theorem C10_no_two_yielding_live_update (r r' : UtxoReg) (txs : List Tx) (ts : Int) (hW : IndexedW r)
    (h : UtxoReg.update r txs ts = .ok r')
    (id1 id2 : String) (idx1 idx2 : Nat) (u1 u2 : Utxo)
    (h1 : live r' id1 idx1 = some u1) (h2 : live r' id2 idx2 = some u2) (hne : (id1, idx1) ≠ (id2, idx2))
    (ha : u1.out.address = u2.out.address) (hy1 : u1.out.yielding = true) (hy2 : u2.out.yielding = true) : False :=
  C10_no_two_yielding_live r' (applyTxs_indexedW hW (update_ok_iff.1 h).1) (update_ok_iff.1 h).2
    id1 id2 idx1 idx2 u1 u2 h1 h2 hne ha hy1 hy2

-- `xSt` holds one yielding output (T,2) of B next to a non-yielding one (T,1) of B: hypotheses satisfiable
example : incomesOk xSt.byAddr = true ∧ live xSt "T" 2 = some xU2 ∧ xU2.out.yielding = true ∧
    live xSt "T" 1 = some xU1 ∧ xU1.out.address = xU2.out.address := by decide

/-! ## the address registry -/

/-- `Filter` lists exactly the addresses of `l` that are not registered, in order (duplicates kept), and is
    nil exactly when all are registered. -/
theorem C10_filter_spec (r : AddrReg) (l : List String) :
    (AddrReg.filter r l).getD [] = l.filter (fun a => !r.isRegistered a) ∧
    (AddrReg.filter r l = none ↔ ∀ a ∈ l, r.isRegistered a = true) ∧
    (∀ l', AddrReg.filter r l = some l' → l' ≠ []) ∧
    (∀ a, a ∈ (AddrReg.filter r l).getD [] ↔ a ∈ l ∧ r.isRegistered a = false) := by
  refine ⟨AddrReg.filter_getD r l, AddrReg.filter_eq_none_iff r l, fun l' h => (AddrReg.filter_eq_some h).2, ?_⟩
  intro a
  rw [AddrReg.filter_getD, List.mem_filter]
  simp

example : AddrReg.filter (AddrReg.update .empty ["b"] []) ["a", "b", "c", "a"] = some ["a", "c", "a"] ∧
    AddrReg.filter (AddrReg.update .empty ["b"] []) ["b"] = none := by decide

/-- `unionAdded` contains every address of either argument and nothing else. -/
theorem C10_union_added_spec (a b : Option (List String)) (x : String) :
    x ∈ (Ledger.unionAdded a b).getD [] ↔ x ∈ a.getD [] ∨ x ∈ b.getD [] :=
  Ledger.mem_unionAdded a b x

example : Ledger.unionAdded (some ["a", "b"]) (some ["b", "c"]) = some ["a", "b", "c"] ∧
    Ledger.unionAdded none none = none ∧ Ledger.unionAdded none (some ["c"]) = some ["c"] := by decide

/-- registration status after `Update(added, removed)`, exactly -/
theorem C10_update_registered_iff (r : AddrReg) (added removed : List String) (a : String) :
    (AddrReg.update r added removed).isRegistered a = true ↔
      a ∈ added ∨ (r.isRegistered a = true ∧ a ∉ removed) := by
  rw [AddrReg.update_isRegistered]
  simp

/-- An address a block lists as removed (and does not list as added) is not registered after the update. -/
theorem C10_update_removed_effective (r : AddrReg) (added removed : List String) (a : String)
    (hr : a ∈ removed) (ha : a ∉ added) : (AddrReg.update r added removed).isRegistered a = false := by
  cases h : (AddrReg.update r added removed).isRegistered a with
  | false => rfl
  | true =>
    rcases (C10_update_registered_iff r added removed a).1 h with h1 | ⟨-, h2⟩
    · exact absurd h1 ha
    · exact absurd hr h2

/-- An address a block lists as added is registered after the update (even if it is also listed as removed:
    removals are applied first). -/
theorem C10_update_added_effective (r : AddrReg) (added removed : List String) (a : String)
    (ha : a ∈ added) : (AddrReg.update r added removed).isRegistered a = true :=
  (C10_update_registered_iff r added removed a).2 (Or.inl ha)

/-- Addresses listed neither as added nor as removed keep their status. -/
theorem C10_update_frame (r : AddrReg) (added removed : List String) (a : String)
    (ha : a ∉ added) (hr : a ∉ removed) :
    (AddrReg.update r added removed).isRegistered a = r.isRegistered a := by
  rw [AddrReg.update_isRegistered]
  simp [ha, hr]

/-- The registered set after `Update` does not depend on the pending-removals list. -/
theorem C10_update_independent_of_pending (s : TreeSet String) (p p' : Option (List String))
    (added removed : List String) :
    (AddrReg.update ⟨s, p⟩ added removed).registered = (AddrReg.update ⟨s, p'⟩ added removed).registered := by
  rw [AddrReg.update_registered, AddrReg.update_registered]

/-- `Update` removes from the pending list (first occurrence each) what it removes from the registered set;
    `appendPending` (Synchronize) does not touch the registered set. -/
theorem C10_update_pending (r : AddrReg) (added removed : List String) :
    (AddrReg.update r added removed).pending = removed.foldl AddrReg.removeAddress r.pending := by
  unfold AddrReg.update
  exact AddrReg.applyRemovals_pending r removed

theorem C10_appendPending_registered (r : AddrReg) (newly : List String) (a : String) :
    (AddrReg.appendPending r newly).isRegistered a = r.isRegistered a := by
  unfold AddrReg.appendPending
  split <;> rfl

example : (AddrReg.update (AddrReg.update .empty ["a", "b", "c"] []) ["d", "b"] ["a", "b"]).registered.toList = ["b", "c", "d"] := by
  decide
example : (AddrReg.update ⟨(AddrReg.update .empty ["a", "b"] []).registered, some ["a", "x", "a"]⟩ [] ["a"]).pending
    = some ["x", "a"] := by decide

/-! ## the verifier's and the producer's rule -/

/-- The verifier accepts a transaction's yielding outputs exactly when each goes to an address listed by the
    block as newly registered or registered in the confirmed state. -/
theorem C10_verifier_yield_rule (reg : AddrReg) (added : List String) (tx : Tx) :
    Ledger.yieldsRegistered reg added tx = true ↔
      ∀ o ∈ tx.outputs, o.yielding = true → o.address ∈ added ∨ reg.isRegistered o.address = true := by
  unfold Ledger.yieldsRegistered
  rw [List.all_eq_true]
  constructor
  · intro h o ho hy
    have := h o ho
    simp only [hy, Bool.not_true, Bool.false_or, Bool.or_eq_true, List.contains_iff_mem] at this
    exact this
  · intro h o ho
    cases hy : o.yielding with
    | false => simp
    | true =>
      have := h o ho hy
      simp only [Bool.not_true, Bool.false_or, Bool.or_eq_true, List.contains_iff_mem]
      exact this

example : Ledger.yieldsRegistered (AddrReg.update .empty ["b"] []) ["a"]
      ⟨"t", [], [⟨"a", true, 1⟩, ⟨"b", true, 1⟩, ⟨"z", false, 1⟩], 1⟩ = true ∧
    Ledger.yieldsRegistered (AddrReg.update .empty ["b"] []) ["a"] ⟨"t", [], [⟨"z", true, 1⟩], 1⟩ = false := by decide

/-- `verifyBlock`'s transactions loop enforces the rule on every ordinary (non-reward) transaction. -/
theorem C10_verifyTxs_yield_rule (env : Env) (cfg : Cfg) (l : Ledger) (b : Block) (prevTs : Int) (txs : List Tx)
    (rewarded : Bool) (reward total : Nat) (res : Bool × Nat × Nat)
    (h : Ledger.verifyTxs env cfg l b prevTs txs rewarded reward total = .ok res) :
    ∀ t ∈ txs, t.hasReward = false → ∀ o ∈ t.outputs, o.yielding = true →
      o.address ∈ b.addedL ∨ l.reg.isRegistered o.address = true := by
  induction txs generalizing rewarded reward total with
  | nil => intro t ht; cases ht
  | cons t0 txs ih =>
    unfold Ledger.verifyTxs at h
    split at h
    · rename_i hrw
      split at h
      · cases h
      · intro t ht hnr
        rcases List.mem_cons.1 ht with e | hm
        · subst e; rw [hrw] at hnr; cases hnr
        · exact ih _ _ _ h t hm hnr
    · split at h
      · cases h
      split at h
      · cases h
      split at h
      · cases h
      split at h
      · cases h
      rename_i hyr
      split at h
      · cases h
      intro t ht hnr
      rcases List.mem_cons.1 ht with e | hm
      · subst e
        have hyr' : Ledger.yieldsRegistered l.reg b.addedL t = true := by simpa using hyr
        exact (C10_verifier_yield_rule _ _ _).1 hyr'
      · exact ih _ _ _ h t hm hnr

theorem C10_verifyBlock_yield_rule (env : Env) (cfg : Cfg) (l : Ledger) (b : Block) (prevTs now : Int)
    (h : Ledger.verifyBlock env cfg l b prevTs now = .ok ()) :
    ∀ t ∈ b.txs, t.hasReward = false → ∀ o ∈ t.outputs, o.yielding = true →
      o.address ∈ b.addedL ∨ l.reg.isRegistered o.address = true := by
  unfold Ledger.verifyBlock at h
  split at h
  · cases h
  split at h
  · cases h
  split at h
  · cases h
  split at h
  · cases h
  · rename_i hv
    exact C10_verifyTxs_yield_rule env cfg l b prevTs b.txs false 0 0 _ hv

/-- The block the producer builds lists exactly the proposed addresses that are unregistered in the state
    before (`l`) or after (`c`) confirming the previous block. -/
theorem C10_producer_lists_exact (env : Env) (l c : Ledger) (ts : Int) (txs : List Tx) (newAddresses : List String)
    (a : String) :
    a ∈ (Ledger.mkBlock env l c ts txs newAddresses).addedL ↔
      a ∈ newAddresses ∧ (l.reg.isRegistered a = false ∨ c.reg.isRegistered a = false) := by
  unfold Ledger.mkBlock Block.addedL
  simp only
  rw [Ledger.mem_unionAdded, (C10_filter_spec l.reg newAddresses).2.2.2 a, (C10_filter_spec c.reg newAddresses).2.2.2 a]
  constructor
  · rintro (⟨h1, h2⟩ | ⟨h1, h2⟩)
    · exact ⟨h1, Or.inl h2⟩
    · exact ⟨h1, Or.inr h2⟩
  · rintro ⟨h1, h2 | h2⟩
    · exact Or.inl ⟨h1, h2⟩
    · exact Or.inr ⟨h1, h2⟩

/-- Every yielding recipient of the kept transactions that is unregistered in `c.reg` (previous block
    confirmed) or in `l.reg` (before) is listed by the produced block as newly registered. -/
theorem C10_producer_lists (env : Env) (l c : Ledger) (ts : Int) (txs kept : List Tx) (pre : List String)
    (t : Tx) (ht : t ∈ kept) (o : Output) (ho : o ∈ t.outputs) (hy : o.yielding = true)
    (hun : c.reg.isRegistered o.address = false ∨ l.reg.isRegistered o.address = false) :
    o.address ∈ (Ledger.mkBlock env l c ts txs (pre ++ Node.yieldingAddrs kept)).addedL := by
  rw [C10_producer_lists_exact]
  refine ⟨List.mem_append_right _ ((Node.mem_yieldingAddrs kept o.address).2 ⟨t, ht, o, ho, hy, rfl⟩), ?_⟩
  rcases hun with h | h
  · exact Or.inr h
  · exact Or.inl h

example : (Ledger.mkBlock xEnv ⟨[], .empty, AddrReg.update .empty ["a", "b"] []⟩ ⟨[], .empty, AddrReg.update .empty ["b", "c"] []⟩ 5 []
    ([] ++ Node.yieldingAddrs [⟨"t", [], [⟨"a", true, 1⟩, ⟨"b", true, 1⟩, ⟨"c", true, 1⟩, ⟨"d", false, 1⟩], 1⟩])).addedL
      = ["c", "a"] := by decide

/-- End to end for `Validate`: in the block an honest producer appends, every yielding output (of the kept
    transactions and of the reward transaction) goes to an address the block lists as newly registered,
    unless the address is registered both before and after confirming the previous block. -/
theorem C10_produce_lists (env : Env) (cfg : Cfg) (n n' : Node) (ts : Int) (perm : List Tx) (rid : String)
    (h : Node.produce env cfg n ts perm rid = some n') :
    ∃ c b, n.led.confirmLast = .ok c ∧ n'.led.blocks = c.blocks ++ [b] ∧
      ∀ t ∈ b.txs, ∀ o ∈ t.outputs, o.yielding = true →
        o.address ∈ b.addedL ∨ (c.reg.isRegistered o.address = true ∧ n.led.reg.isRegistered o.address = true) := by
  unfold Node.produce at h
  dsimp only at h
  split at h
  · cases h
  split at h
  · cases h
  split at h
  · cases h
  rename_i copy hcopy
  split at h
  · cases h
  rename_i led' hadd
  injection h with h
  subst h
  generalize (Node.produceLoop env cfg n.led.utxos ts n.led.lastTs (n.led.lastTs + cfg.interval) perm copy
            (if (n.led.lastTs == 0) = true then cfg.genesis else 0) []) = loop at hadd
  obtain ⟨_, c, hc, hadd⟩ := Ledger.addBlock_inv hadd
  subst hadd
  refine ⟨c, _, hc, rfl, ?_⟩
  intro t ht o ho hy
  by_cases hreg : c.reg.isRegistered o.address = true ∧ n.led.reg.isRegistered o.address = true
  · exact Or.inr hreg
  left
  have hun : n.led.reg.isRegistered o.address = false ∨ c.reg.isRegistered o.address = false := by
    cases h1 : c.reg.isRegistered o.address <;> cases h2 : n.led.reg.isRegistered o.address <;> simp_all
  rw [C10_producer_lists_exact]
  refine ⟨?_, hun⟩
  have ht' : t ∈ loop.fst ++ [Node.rewardTx rid cfg.validator (n.led.lastTs == 0) ts loop.2.fst] := ht
  rcases List.mem_append.1 ht' with hk | hr
  · exact List.mem_append_right _ ((Node.mem_yieldingAddrs _ _).2 ⟨t, hk, o, ho, hy, rfl⟩)
  · simp only [List.mem_singleton] at hr
    subst hr
    simp only [Node.rewardTx, List.mem_singleton] at ho
    subst ho
    simp only at hy
    rw [hy]
    simp

example : (Node.produce xEnv xCfg xNodeFree 30 [⟨"A1", [xIn "G" 0 "X"], [⟨"Y", true, 9⟩], 25⟩] "R2").map
    (fun n' => n'.led.blocks.getLast?.map (fun b => (b.addedL, b.txs.map (·.id)))) = some (some (["Y"], ["A1", "R2"])) := by
  decide

/-- Addresses the last block lists as removed (and not as added) are not registered once that block is
    confirmed — by the producer's `confirmLastBlock` and by `addBlock` alike; listed-as-added ones are. -/
theorem C10_confirm_removed_effective (l c : Ledger) (last : Block) (a : String)
    (hl : l.blocks.getLast? = some last) (h : l.confirmLast = .ok c) :
    (a ∈ last.removedL → a ∉ last.addedL → c.reg.isRegistered a = false) ∧
    (a ∈ last.addedL → c.reg.isRegistered a = true) ∧
    (a ∉ last.addedL → a ∉ last.removedL → c.reg.isRegistered a = l.reg.isRegistered a) := by
  unfold Ledger.confirmLast at h
  rw [hl] at h
  dsimp only at h
  split at h
  · cases h
  · injection h with h
    subst h
    exact ⟨fun h1 h2 => C10_update_removed_effective _ _ _ _ h1 h2,
      fun h1 => C10_update_added_effective _ _ _ _ h1,
      fun h1 h2 => C10_update_frame _ _ _ _ h1 h2⟩

theorem C10_addBlockRaw_removed_effective (l c : Ledger) (last b : Block) (a : String)
    (hl : l.blocks.getLast? = some last) (h : l.addBlockRaw b = .ok c) :
    (a ∈ last.removedL → a ∉ last.addedL → c.reg.isRegistered a = false) ∧
    (a ∈ last.addedL → c.reg.isRegistered a = true) ∧
    (a ∉ last.addedL → a ∉ last.removedL → c.reg.isRegistered a = l.reg.isRegistered a) := by
  unfold Ledger.addBlockRaw at h
  rw [hl] at h
  dsimp only at h
  split at h
  · cases h
  · injection h with h
    subst h
    exact ⟨fun h1 h2 => C10_update_removed_effective _ _ _ _ h1 h2,
      fun h1 => C10_update_added_effective _ _ _ _ h1,
      fun h1 h2 => C10_update_frame _ _ _ _ h1 h2⟩

example : (Ledger.confirmLast ⟨[xB0, ⟨"h", some ["n"], some ["a"], 20, [xTxR]⟩], xConf, AddrReg.update .empty ["a", "b"] []⟩).toOption.map
    (fun c => c.reg.registered.toList) = some ["b", "n"] := by decide

end Ru
