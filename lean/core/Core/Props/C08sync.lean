/-
  Core/Props/C08sync.lean — sync rounds over time:
  * C13 (state part, iterated): any number of consecutive sync rounds in which no answer verifies leave the
    node exactly as it was;
  * C08 (progress): a node behind honest, paging neighbours catches up by one page minus one block per
    round, and the number of rounds needed is bounded.
-/
import Core.Lemmas.Shape
open Std

set_option maxRecDepth 100000

namespace Ru
open SL.SyncEx

/-- Any number of consecutive sync rounds (each with its own time, answers and map order) in which every
    answer fails verification leaves the node — chain, outputs, registered and pending addresses, pool —
    exactly as it was. -/
theorem C13_state_invariant_over_rounds (env : Env) (cfg : Cfg) (n : Node)
    (rounds : List (Int × List Resp × Nat))
    (hfail : ∀ rd ∈ rounds, ∀ r ∈ rd.2.1,
      (∀ nb, r.first = some nb →
        ∃ e, Ledger.verify env cfg n.led n.led.blocks.getLast?.toList nb n.led.blocks.dropLast rd.1 = .error e) ∧
      (∀ nb, r.second = some nb →
        ∃ e, Ledger.verify env cfg n.led n.led.blocks.dropLast nb [] rd.1 = .error e)) :
    Ru.run env cfg n (rounds.map (fun rd => .sync rd.1 rd.2.1 rd.2.2)) = n := by
  induction rounds with
  | nil => rfl
  | cons rd rest ih =>
    have h1 : Ru.step env cfg n (.sync rd.1 rd.2.1 rd.2.2) = n := by
      rw [SL.step_sync, C13_no_candidate_unchanged env cfg n.led rd.1 rd.2.1 (hfail rd (by simp))]
      cases rd.2.2 with
      | zero => rfl
      | succ k => rfl
    simp only [List.map_cons, Ru.run, List.foldl_cons]
    rw [h1]
    exact ih (fun rd' h' => hfail rd' (by simp [h']))

/-- non-vacuity: three rounds at different times with silent and empty-handed neighbours -/
example : Ru.run env cfg n3 [.sync 300 [⟨"p:1", none, none⟩] 0, .sync 360 [⟨"p:1", some [], some []⟩, ⟨"p:2", none, none⟩] 1,
    .sync 420 [] 0] = n3 := by
  apply C13_state_invariant_over_rounds env cfg n3
    [(300, [⟨"p:1", none, none⟩], 0), (360, [⟨"p:1", some [], some []⟩, ⟨"p:2", none, none⟩], 1), (420, [], 0)]
  intro rd hrd r hr
  refine ⟨fun nb h => ?_, fun nb h => ?_⟩
  · have hnb : nb = [] := by
      simp only [List.mem_cons, List.not_mem_nil, or_false] at hrd
      rcases hrd with rfl | rfl | rfl <;> simp at hr <;> (try rcases hr with rfl | rfl) <;> simp_all
    subst hnb
    cases hv : Ledger.verify env cfg n3.led n3.led.blocks.getLast?.toList [] n3.led.blocks.dropLast rd.1 with
    | error e => exact ⟨e, rfl⟩
    | ok v => exact absurd rfl (SL.verify_ok hv).2.2.1
  · have hnb : nb = [] := by
      simp only [List.mem_cons, List.not_mem_nil, or_false] at hrd
      rcases hrd with rfl | rfl | rfl <;> simp at hr <;> (try rcases hr with rfl | rfl) <;> simp_all
    subst hnb
    cases hv : Ledger.verify env cfg n3.led n3.led.blocks.dropLast [] [] rd.1 with
    | error e => exact ⟨e, rfl⟩
    | ok v => exact absurd rfl (SL.verify_ok hv).2.2.1

/-- C08 progress, one round.  The host holds the first `k ≥ 3` blocks of a chain `C` and is behind; every
    neighbour answers `GetBlocks(k-1)` with the honest page `page p C (k-1)` (page size `p ≥ 2`), and `verify`
    accepts that window (hypothesis `hacc` — what C05 provides for an honest chain); the extended chain has a
    positive age (fork choice never selects a chain of age 0).  Then EVERY outcome of the round, whatever
    the map order, holds the first `min |C| (k - 1 + p)` blocks of `C`: the node gains `p - 1` blocks. -/
theorem C08_sync_progress (env : Env) (cfg : Cfg) (host : Ledger) (now : Int) (resps : List Resp)
    (C : List Block) (k p : Nat) (hk : 3 ≤ k) (hkL : k < C.length) (hp : 2 ≤ p)
    (hhost : host.blocks = C.take k) (hne : resps ≠ []) (ht : ∀ r ∈ resps, r.target ≠ "host")
    (hresp : ∀ r ∈ resps, r.first = some (Ledger.page p C (k - 1)))
    (hacc : Ledger.verify env cfg host host.blocks.getLast?.toList (Ledger.page p C (k - 1))
      host.blocks.dropLast now = .ok (Ledger.page p C (k - 1)))
    (hage : 0 < Sync.age (C.take (min C.length (k - 1 + p)))) :
    ∀ l ∈ Sync.outcomes env cfg host now resps, l.blocks = C.take (min C.length (k - 1 + p)) := by
  have hmin : C.take (min C.length (k - 1 + p)) = C.take (k - 1 + p) := by
    rcases Nat.le_total C.length (k - 1 + p) with h | h
    · rw [Nat.min_eq_left h, List.take_of_length_le h, List.take_of_length_le (Nat.le_refl _)]
    · rw [Nat.min_eq_right h]
  have hX : host.blocks.dropLast ++ Ledger.page p C (k - 1) = C.take (k - 1 + p) := by
    rw [hhost]; exact ProgressL.window_chain p C k (by omega) hkL
  have hlenk : host.blocks.length = k := by rw [hhost, List.length_take]; omega
  rw [hmin] at hage ⊢
  rw [← hX] at hage ⊢
  refine ProgressL.uniform_round (by omega) hne ht hresp hacc ?_ ?_ hage
  · rw [hX, hlenk, List.length_take]; omega
  · rw [hX, hlenk, hhost]
    unfold Sync.prevHashAt
    rw [List.getElem?_take, List.getElem?_take, if_pos (by omega), if_pos (by omega)]

/-- the same with the age condition discharged: it holds whenever `C` is shaped (C04), because the block
    below the new tip is then not a first block and carries a reward transaction -/
theorem C08_sync_progress_shaped (env : Env) (cfg : Cfg) (host : Ledger) (now : Int) (resps : List Resp)
    (C : List Block) (k p : Nat) (hk : 3 ≤ k) (hkL : k < C.length) (hp : 2 ≤ p) (hC : Shape cfg C)
    (hhost : host.blocks = C.take k) (hne : resps ≠ []) (ht : ∀ r ∈ resps, r.target ≠ "host")
    (hresp : ∀ r ∈ resps, r.first = some (Ledger.page p C (k - 1)))
    (hacc : Ledger.verify env cfg host host.blocks.getLast?.toList (Ledger.page p C (k - 1))
      host.blocks.dropLast now = .ok (Ledger.page p C (k - 1))) :
    ∀ l ∈ Sync.outcomes env cfg host now resps, l.blocks = C.take (min C.length (k - 1 + p)) := by
  apply C08_sync_progress env cfg host now resps C k p hk hkL hp hhost hne ht hresp hacc
  apply ProgressL.age_pos_of_shape (cfg := cfg)
  · intro i a b ha hb
    rw [List.getElem?_take] at ha hb
    split at ha
    · split at hb
      · exact hC i a b ha hb
      · cases hb
    · cases ha
  · rw [List.length_take]; omega

/-- non-vacuity: `C` = the four-block chain, the host holds its first three blocks, two neighbours serve
    the page of size 2 from height 2; the round ends with all four blocks -/
example : n3.led.blocks = n4.led.blocks.take 3 ∧ 3 < n4.led.blocks.length ∧
    (∀ r ∈ [respAhead, ⟨"p:2", respAhead.first, none⟩], r.first = some (Ledger.page 2 n4.led.blocks (3 - 1))) ∧
    (Ledger.verify env cfg n3.led n3.led.blocks.getLast?.toList (Ledger.page 2 n4.led.blocks (3 - 1))
      n3.led.blocks.dropLast 300).toOption = some (Ledger.page 2 n4.led.blocks (3 - 1)) ∧
    0 < Sync.age (n4.led.blocks.take (min n4.led.blocks.length (3 - 1 + 2))) ∧
    (Sync.outcomes env cfg n3.led 300 [respAhead, ⟨"p:2", respAhead.first, none⟩]).map (·.blocks) =
      [n4.led.blocks, n4.led.blocks] := by decide

/-- C08 round bound (arithmetic): iterating `k ↦ min L (k - 1 + p)` (page size `p ≥ 2`) from `1 ≤ k₀ ≤ L`
    gains `p - 1` per round and stays at `L` once reached; in particular `⌈L / (p-1)⌉` rounds suffice. -/
theorem C08_round_bound (L p k0 : Nat) (hp : 2 ≤ p) (h1 : 1 ≤ k0) (hL : k0 ≤ L) :
    (∀ n, L ≤ k0 + n * (p - 1) → Nat.repeat (fun k => min L (k - 1 + p)) n k0 = L) ∧
    Nat.repeat (fun k => min L (k - 1 + p)) ((L + (p - 2)) / (p - 1)) k0 = L := by
  have key : ∀ n, L ≤ k0 + n * (p - 1) → Nat.repeat (fun k => min L (k - 1 + p)) n k0 = L := by
    intro n hn
    obtain ⟨i1, i2⟩ := ProgressL.iter_ge L p hp k0 h1 hL n
    rw [Nat.min_eq_left hn] at i1
    omega
  refine ⟨key, key _ ?_⟩
  have hd := Nat.div_add_mod (L + (p - 2)) (p - 1)
  have hm := Nat.mod_lt (L + (p - 2)) (show 0 < p - 1 by omega)
  rw [Nat.mul_comm] at hd
  generalize (L + (p - 2)) / (p - 1) * (p - 1) = q at hd ⊢
  omega

example : Nat.repeat (fun k => min 10 (k - 1 + 4)) ((10 + (4 - 2)) / (4 - 1)) 1 = 10 := by decide

end Ru
