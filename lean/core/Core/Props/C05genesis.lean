/-
  Core/Props/C05genesis.lean — C05's full re-sync clause for producer histories that start at the EMPTY node: the
  acceptability hypothesis of `C05_solo_history` ("the chain the history starts from is acceptable from height 0") is
  discharged by carrying, instead of `verify`'s verdict (which refuses chains of fewer than two blocks), the success of
  its LOOP — true of the one-block chain a first tick produces.
-/
import Core.Props.C05hist
open Std

set_option maxRecDepth 100000

namespace Ru
open SL.SyncEx

/-- the loop of `verify`, run from height 0 on the empty state, succeeds on `bs` at every time from `t` on -/
def LoopAcceptedFrom (env : Env) (cfg : Cfg) (lastHost : List Block) (bs : List Block) (t : Int) : Prop :=
  ∀ now, t ≤ now → ∃ nl, Ledger.verifyLoop env cfg now lastHost ⟨[], .empty, .empty⟩ none bs 0 = .ok nl

/-- `C05_resync_general` from the success of the LOOP on the producer's previous chain (no lower bound on its
    length): after the on-schedule tick the new chain is accepted by `verify` from height 0 -/
theorem C05_resync_loop (env : Env) (cfg : Cfg) (n n' : Node) (host : Ledger) (lastHost : List Block)
    (ts : Int) (perm : List Tx) (rid : String) (old : List Block) (tip : Block) (now : Int) (nl : Ledger)
    (hn : Reachable env cfg n)
    (hchain : n.led.blocks = old ++ [tip])
    (hprod : n.produce env cfg ts perm rid = some n')
    (hsched : ts = tip.ts + cfg.interval) (hmin : 1 ≤ cfg.minFee) (htip0 : tip.ts ≠ 0) (hts0 : ts ≠ 0)
    (hnow : ts ≤ now)
    (hfresh : ∀ blk ∈ n.led.blocks, ∀ t ∈ blk.txs, t.id ≠ rid) (hfreshP : ∀ t ∈ perm, t.id ≠ rid)
    (hl : Ledger.verifyLoop env cfg now lastHost ⟨[], .empty, .empty⟩ none n.led.blocks 0 = .ok nl) :
    ∃ b, n'.led.blocks = n.led.blocks ++ [b] ∧ b.ts = ts ∧
      Ledger.verify env cfg host lastHost n'.led.blocks [] now = .ok n'.led.blocks := by
  have hdn := C07_invariant env cfg n hn
  have hf1 : n.led.utxos.byId[rid]? = none := by
    apply agree_derived_byId_none hdn
    intro b hb
    exact hfresh b (List.dropLast_subset _ hb)
  have hf2 : ∀ t ∈ tip.txs, t.id ≠ rid := hfresh tip (by rw [hchain]; simp)
  have hlast : n.led.blocks.getLast? = some tip := by rw [hchain]; simp
  obtain ⟨hnb, hnr⟩ := verifyLoop_replays env cfg now lastHost _ nl none n.led.blocks hl
  have hconf : nl.conf = n.led.conf := by
    unfold Derived at hdn
    have e : (⟨[], UtxoReg.empty, AddrReg.empty⟩ : Ledger).conf = Conf.empty := rfl
    rw [e, hdn] at hnr
    injection hnr with hnr
    exact hnr.symm
  have hnu : nl.utxos = n.led.utxos := congrArg Conf.utxos hconf
  have hnreg : nl.reg.registered = n.led.reg.registered := congrArg Conf.registered hconf
  have hnlast : nl.blocks.getLast? = some tip := by rw [hnb]; simpa using hlast
  have hlen : n.led.blocks.length ≠ 0 := by rw [hchain]; simp
  obtain ⟨b, hb, hbts, nl2, fin, hloop, hadd⟩ := Ledger.agree_last_iteration env cfg n n' ts perm rid old tip now nl
    lastHost (0 + n.led.blocks.length) (by omega) hprod hchain hsched hmin htip0 hts0 hnow hf1 hf2 hfreshP hnlast hnu hnreg
  have hb' : n'.led.blocks = n.led.blocks ++ [b] := by rw [hb, hchain]; simp
  refine ⟨b, hb', hbts, ?_⟩
  rw [hb', SL.verify_eq]
  have e1 : (([] : List Block).isEmpty && decide ((n.led.blocks ++ [b]).length < 2)) = false := by
    simp; omega
  rw [e1]
  simp only [List.isEmpty_nil, Bool.not_true, Bool.false_and, Bool.false_eq_true, if_false, if_true,
    List.getLast?_nil]
  rw [Ledger.agree_verifyLoop_append, hl]
  simp only [hlast, Option.some_or]
  rw [hloop]
  simp only
  rw [hadd]

/-- the invariant carried through a producer history: the loop succeeds, and `verify` accepts once there are two blocks -/
def GenInv (env : Env) (cfg : Cfg) (host : Ledger) (lastHost : List Block) (l : Ledger) : Prop :=
  LoopAcceptedFrom env cfg lastHost l.blocks l.lastTs ∧
  (2 ≤ l.blocks.length → AcceptedFrom env cfg host lastHost l.blocks l.lastTs)

/-- one solo step keeps the invariant -/
theorem C05_solo_step_loop (env : Env) (cfg : Cfg) (hmin : 1 ≤ cfg.minFee) (hI : 0 ≤ cfg.interval)
    (host : Ledger) (lastHost : List Block) (n : Node) (hn : Reachable env cfg n) (op : Op) (hs : SoloStep cfg n op)
    (hinv : GenInv env cfg host lastHost n.led) :
    GenInv env cfg host lastHost (Ru.step env cfg n op).led := by
  obtain ⟨hacc, hver⟩ := hinv
  cases op with
  | tick ts perm rid =>
    obtain ⟨hne, hsched, htip0, hts0, hfresh, hfreshP⟩ := hs
    simp only [step]
    split
    · cases hprod : n.produce env cfg ts perm rid with
      | none => simpa using ⟨hacc, hver⟩
      | some n' =>
        simp only [Option.getD_some]
        obtain ⟨tip, hlast⟩ : ∃ tip, n.led.blocks.getLast? = some tip := by
          cases h : n.led.blocks.getLast? with
          | none => exact absurd (List.getLast?_eq_none_iff.mp h) hne
          | some t => exact ⟨t, rfl⟩
        have hchain : n.led.blocks = n.led.blocks.dropLast ++ [tip] := Ru.dropLast_append_getLast? n.led.blocks tip hlast
        have hlt : n.led.lastTs = tip.ts := ShapeL.lastTs_of_getLast hlast
        have hsched' : ts = tip.ts + cfg.interval := by rw [hsched, hlt]
        have htip0' : tip.ts ≠ 0 := by rw [← hlt]; exact htip0
        obtain ⟨nl0, hl0⟩ := hacc ts (by rw [hsched]; omega)
        obtain ⟨b, hb, hbts, _⟩ := C05_resync_loop env cfg n n' host lastHost ts perm rid n.led.blocks.dropLast tip
          ts nl0 hn hchain hprod hsched' hmin htip0' hts0 (Int.le_refl _) hfresh hfreshP hl0
        have hl' : n'.led.lastTs = ts := by
          have : n'.led.blocks.getLast? = some b := by rw [hb]; simp
          rw [ShapeL.lastTs_of_getLast this, hbts]
        have hverify : AcceptedFrom env cfg host lastHost n'.led.blocks n'.led.lastTs := by
          intro now hnow
          rw [hl'] at hnow
          obtain ⟨nl1, hl1⟩ := hacc now (by rw [hsched] at hnow; omega)
          obtain ⟨_, _, _, h⟩ := C05_resync_loop env cfg n n' host lastHost ts perm rid n.led.blocks.dropLast tip
            now nl1 hn hchain hprod hsched' hmin htip0' hts0 hnow hfresh hfreshP hl1
          exact h
        refine ⟨?_, fun _ => hverify⟩
        intro now hnow
        obtain ⟨_, nl2, _, hl2, _⟩ := verify_inv env cfg _ lastHost _ [] _ now (hverify now hnow)
        simp only [List.isEmpty_nil, if_true, List.getLast?_nil] at hl2
        exact ⟨nl2, hl2⟩
    · exact ⟨hacc, hver⟩
  | submit tx =>
    have : (Ru.step env cfg n (.submit tx)).led = n.led := by
      simp only [step, Node.admitTx]; split <;> rfl
    rw [this]; exact ⟨hacc, hver⟩
  | regsync newly =>
    have hb : (Ru.step env cfg n (.regsync newly)).led.blocks = n.led.blocks := by
      simp only [step]; split <;> rfl
    have hl : (Ru.step env cfg n (.regsync newly)).led.lastTs = n.led.lastTs := by
      unfold Ledger.lastTs; rw [hb]
    unfold GenInv
    rw [hb, hl]; exact ⟨hacc, hver⟩
  | sync now resps pick => exact absurd hs (by simp [SoloStep])

theorem C05_solo_history_loop (env : Env) (cfg : Cfg) (hmin : 1 ≤ cfg.minFee) (hI : 0 ≤ cfg.interval)
    (host : Ledger) (lastHost : List Block) :
    ∀ (ops : List Op) (n : Node), Reachable env cfg n → (∀ o ∈ ops, o.WF) → Along env cfg (SoloStep cfg) n ops →
      GenInv env cfg host lastHost n.led → GenInv env cfg host lastHost (Ru.run env cfg n ops).led := by
  intro ops
  induction ops with
  | nil => intro n _ _ _ h; simpa [run] using h
  | cons o os ih =>
    intro n hn hw ha hacc
    obtain ⟨ho, hrest⟩ := ha
    have : Ru.run env cfg n (o :: os) = Ru.run env cfg (Ru.step env cfg n o) os := by simp [run]
    rw [this]
    exact ih _ (hn.next o (hw o (by simp))) (fun x hx => hw x (by simp [hx])) hrest
      (C05_solo_step_loop env cfg hmin hI host lastHost n hn o ho hacc)

/-- the loop accepts the one-block chain a first tick produces (nothing is verified in a first block) -/
theorem loop_accepts_first_block (env : Env) (cfg : Cfg) (lastHost : List Block) (ts : Int) (perm : List Tx) (rid : String)
    (n1 : Node) (hprod : Node.empty.produce env cfg ts perm rid = some n1) :
    ∃ g, n1.led.blocks = [g] ∧ ∀ now, ∃ nl, Ledger.verifyLoop env cfg now lastHost ⟨[], .empty, .empty⟩ none [g] 0 = .ok nl := by
  obtain ⟨_, copy, c, _, hc, hn'⟩ := Node.fee_produce_some hprod
  have hce : c = Node.empty.led := by
    have : Node.empty.led.confirmLast = .ok Node.empty.led := rfl
    rw [this] at hc
    exact (Except.ok.inj hc).symm
  subst hce
  refine ⟨Node.blockOf env cfg Node.empty Node.empty.led ts rid (Node.keptOf env cfg Node.empty ts perm copy), ?_, ?_⟩
  · rw [hn']; rfl
  · intro now
    rw [verifyLoop_cons]
    have hcheck : Ledger.loopCheck env cfg now lastHost ⟨[], .empty, .empty⟩ none
        (Node.blockOf env cfg Node.empty Node.empty.led ts rid (Node.keptOf env cfg Node.empty ts perm copy)) 0 = .ok () := by
      rw [Ledger.agree_loopCheck_eq]
      have hp : (Node.blockOf env cfg Node.empty Node.empty.led ts rid (Node.keptOf env cfg Node.empty ts perm copy)).prevHash
          = SL.prevHashOpt env none := rfl
      rw [if_neg (by rw [hp]; exact fun h => h rfl)]
      simp
    rw [hcheck]
    simp only [Ledger.loopAppend, beq_self_eq_true, if_true]
    simp only [Ledger.verifyLoop]
    exact ⟨_, rfl⟩

/-- **C05 over producer histories from the empty node.**  A node that starts empty, produces its first block (at a
    time ≠ 0) and then goes through any history of on-schedule ticks, submissions and registry refreshes holds, as soon
    as it has two blocks, a chain that every peer asking for the whole chain accepts — at every time not before its
    tip.  No acceptability hypothesis is left. -/
theorem C05_solo_history_from_genesis (env : Env) (cfg : Cfg) (hmin : 1 ≤ cfg.minFee) (hI : 0 ≤ cfg.interval)
    (host : Ledger) (lastHost : List Block)
    (ts0 : Int) (perm0 : List Tx) (rid0 : String) (n1 : Node)
    (hprod : Node.empty.produce env cfg ts0 perm0 rid0 = some n1) (hperm0 : perm0.isPerm Node.empty.pool = true)
    (ops : List Op) (hw : ∀ o ∈ ops, o.WF) (ha : Along env cfg (SoloStep cfg) n1 ops)
    (h2 : 2 ≤ (Ru.run env cfg n1 ops).led.blocks.length) :
    AcceptedFrom env cfg host lastHost (Ru.run env cfg n1 ops).led.blocks (Ru.run env cfg n1 ops).led.lastTs := by
  have hstep1 : Ru.step env cfg Node.empty (.tick ts0 perm0 rid0) = n1 := by
    simp only [step, hperm0, if_true, hprod, Option.getD_some]
  have hn1 : Reachable env cfg n1 := by
    rw [← hstep1]; exact (Reachable.empty env cfg).next _ (by simp [Op.WF])
  obtain ⟨g, hg, hloop⟩ := loop_accepts_first_block env cfg lastHost ts0 perm0 rid0 n1 hprod
  have hinv1 : GenInv env cfg host lastHost n1.led := by
    refine ⟨?_, ?_⟩
    · intro now _
      rw [hg]; exact hloop now
    · intro h; rw [hg] at h; simp at h
  exact (C05_solo_history_loop env cfg hmin hI host lastHost ops n1 hn1 hw ha hinv1).2 h2

end Ru
