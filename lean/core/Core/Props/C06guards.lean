/-
  Core/Props/C06guards.lean — the integer conditions of the fork choice in `(*Blockchain).Update`, regenerated from the
  source (`Gen.updateGuards`, Core/GenBlocks.lean: Go `int` values built from `len` as unbounded integers, `/` as
  truncated division), are the conditions the model's `choose`, `majorityFilter`, `isDifferent` test.  A threshold
  computed from another count, a relaxed comparison or a shifted bound in the source changes the definition and
  breaks a theorem here; an equivalent rewrite does not.
-/
import Core.GenBlocks
import Core.Sync
open Std

namespace Ru
open Sync

theorem Gen_updateGuards_spec (minL maxL same : Int) (age maxAge : UInt64) (hostLen cands blocksLen neighbors selLen : Nat) :
    Gen.updateGuards minL maxL same age maxAge hostLen cands blocksLen neighbors selLen =
      [decide (hostLen > 2), decide (hostLen > 0) && decide (cands < 2) && decide (neighbors > 0), decide (cands > 0),
       decide ((blocksLen : Int) < minL), decide ((blocksLen : Int) > maxL), decide (same < ((cands / 2 : Nat) : Int)),
       decide ((blocksLen : Int) < maxL), decide (age.toNat > maxAge.toNat), decide (hostLen < selLen), decide (selLen ≥ 2),
       decide (hostLen < selLen)] := by
  have hdiv : Int.tdiv (cands : Int) 2 = ((cands / 2 : Nat) : Int) := by
    rw [Int.tdiv_eq_ediv_of_nonneg (by omega)]; omega
  simp only [Gen.updateGuards, hdiv, gt_iff_lt, ge_iff_le, UInt64.lt_iff_toNat_lt]
  have e1 : ∀ (a : Nat) (k : Nat), decide ((a : Int) > (k : Int)) = decide (a > k) := fun a k => decide_eq_decide.mpr (by omega)
  have e2 : ∀ (a : Nat) (k : Nat), decide ((a : Int) < (k : Int)) = decide (a < k) := fun a k => decide_eq_decide.mpr (by omega)
  have e3 : ∀ (a : Nat) (k : Nat), decide ((k : Int) ≤ (a : Int)) = decide (k ≤ a) := fun a k => decide_eq_decide.mpr (by omega)
  have := e1 hostLen 2; have := e1 hostLen 0; have := e2 cands 2; have := e1 neighbors 0; have := e1 cands 0
  have := e2 hostLen selLen; have := e3 selLen 2
  simp_all

/-- the candidates after the incremental phase, as `choose` computes them -/
def chooseC1 (env : Env) (cfg : Cfg) (host : Ledger) (now : Int) (resps : List Resp) : Cands :=
  let c0 : Cands := if host.blocks.length > 2 then [("host", host.blocks)] else []
  if host.blocks.length > 2 then phase1 env cfg host now resps c0 else c0

/-- **C06 (regenerated guards).**  The host's own chain is a candidate exactly when the first regenerated condition
    holds, and the all-forks fallback (full verification from the first block) is taken exactly when the second does. -/
theorem C06_isFork_gen (env : Env) (cfg : Cfg) (host : Ledger) (now : Int) (resps : List Resp)
    (mn mx same : Int) (age maxAge : UInt64) (blocksLen selLen : Nat) :
    (choose env cfg host now resps).isFork =
      (match Gen.updateGuards mn mx same age maxAge host.blocks.length (chooseC1 env cfg host now resps).length blocksLen
          resps.length selLen with
       | _ :: g1 :: _ => g1
       | _ => false) := by
  rw [Gen_updateGuards_spec]
  simp only [choose, chooseC1]
  rfl

/-- **C06 (regenerated guards).**  The majority filter keeps a candidate exactly when the regenerated threshold
    test `samePreviousHashCount < len(blocksByTarget) / 2` is false for it. -/
theorem C06_majority_gen (c : Cands) (minL : Nat) (mn mx : Int) (age maxAge : UInt64)
    (hostLen blocksLen neighbors selLen : Nat) :
    majorityFilter c minL = c.filter (fun kv =>
      match Gen.updateGuards mn mx
          ((c.filter (fun other => prevHashAt kv.2 (minL - 1) == prevHashAt other.2 (minL - 1))).length : Nat)
          age maxAge hostLen c.length blocksLen neighbors selLen with
      | _ :: _ :: _ :: _ :: _ :: g5 :: _ => !g5
      | _ => false) := by
  unfold majorityFilter
  apply List.filter_congr
  intro kv _
  rw [Gen_updateGuards_spec]
  simp only [Int.ofNat_lt]

/-- **C06 (regenerated guards).**  The longest filter keeps a candidate exactly when the regenerated test
    `len(blocks) < maxLength` is false for it. -/
theorem C06_longest_gen (s : Cands) (maxL : Nat) (mn same : Int) (age maxAge : UInt64)
    (hostLen cands neighbors selLen : Nat) :
    s.filter (fun kv => !(decide (kv.2.length < maxL))) = s.filter (fun kv =>
      match Gen.updateGuards mn maxL same age maxAge hostLen cands kv.2.length neighbors selLen with
      | _ :: _ :: _ :: _ :: _ :: _ :: g6 :: _ => !g6
      | _ => false) := by
  apply List.filter_congr
  intro kv _
  rw [Gen_updateGuards_spec]
  simp only [Int.ofNat_lt]

/-- **C06 (regenerated guards).**  The shortest / longest bookkeeping is `min` / `max`. -/
theorem C06_minmax_gen (m n : Nat) (same : Int) (age maxAge : UInt64) (hostLen cands neighbors selLen : Nat) :
    (match Gen.updateGuards m m same age maxAge hostLen cands n neighbors selLen with
     | _ :: _ :: _ :: g3 :: g4 :: _ => (min m n = if g3 then n else m) ∧ (max m n = if g4 then n else m)
     | _ => False) := by
  rw [Gen_updateGuards_spec]
  simp only [Int.ofNat_lt, gt_iff_lt]
  constructor
  · by_cases h : n < m <;> simp [h] <;> omega
  · by_cases h : m < n <;> simp [h] <;> omega

/-- **C06 (regenerated guards).**  "Is the selected chain different": longer than the host's, or at least two blocks
    with another tip — conditions 8 and 9 regenerated from the source. -/
theorem C06_isDifferent_gen (env : Env) (hb sel : List Block) (mn mx same : Int) (age maxAge : UInt64)
    (cands blocksLen neighbors : Nat) :
    isDifferent env hb sel =
      (match Gen.updateGuards mn mx same age maxAge hb.length cands blocksLen neighbors sel.length with
       | [_, _, _, _, _, _, _, _, g8, g9, _] =>
         if g8 then true
         else if g9 then
           (match sel.getLast?, hb.getLast? with
            | some a, some b => env.hash a != env.hash b
            | _, _ => false)
         else false
       | _ => false) := by
  rw [Gen_updateGuards_spec]
  unfold isDifferent
  by_cases h8 : hb.length < sel.length
  · simp [h8]
  · by_cases h9 : sel.length ≥ 2
    · simp [h8, h9]
      rfl
    · simp [h8, h9]

example : Gen.updateGuards 3 5 1 4 2 3 4 6 2 7 = [true, false, true, false, true, true, false, true, true, true, true] := by decide
example : Gen.updateGuards 3 5 2 1 2 0 1 3 1 0 = [false, false, true, false, false, false, true, false, false, false, false] := by decide

end Ru
