/-
  Core/Props/C08genesis.lean — C08's bound with every hypothesis about the served chain discharged for chains built
  from the EMPTY node by an on-schedule producer: composition of `C08_converges_within_bound` (Core/Props/C08honest),
  `C05_solo_history_from_genesis` (Core/Props/C05genesis) and `solo_shape`.
-/
import Core.Props.C08honest
import Core.Props.C05genesis
import Core.Lemmas.InjHash
open Std

set_option maxRecDepth 100000

namespace Ru
open SL.SyncEx

/-- **C08 for every chain an on-schedule producer builds from the empty node.**  `C` = the chain after the first
    tick and any history of on-schedule ticks (any pool, any shuffle), submissions and registry refreshes, at least
    three blocks long.  A derived node holding any non-empty prefix of `C`, against any positive number of honest
    neighbours serving `C` by pages of `p ≥ 3`, holds exactly `C` — and the state of every node that holds `C` — after
    `1 + ⌈|C| / (p − 1)⌉` rounds held at times not before `C`'s tip, whatever the times and Go's map order.
    Hypotheses left: minimal fee ≥ 1, validation interval > 0, injective block hash, fresh reward ids (inside
    `SoloStep`), first tick not dated 0. -/
theorem C08_converges_within_bound_genesis (env : Env) (cfg : Cfg) (hmin : 1 ≤ cfg.minFee) (hI : 0 < cfg.interval)
    (hinj : Function.Injective env.hash)
    (ts0 : Int) (perm0 : List Tx) (rid0 : String) (n1 : Node)
    (hprod : Node.empty.produce env cfg ts0 perm0 rid0 = some n1) (hperm0 : perm0.isPerm Node.empty.pool = true)
    (ops : List Op) (hw : ∀ o ∈ ops, o.WF) (ha : Along env cfg (SoloStep cfg) n1 ops)
    (p : Nat) (targets : List String) (hp : 3 ≤ p) (hne : targets ≠ []) (ht : ∀ t ∈ targets, t ≠ "host")
    (hL : 3 ≤ (Ru.run env cfg n1 ops).led.blocks.length) :
    ∀ (k : Nat) (l l' : Ledger), 1 ≤ k → k ≤ (Ru.run env cfg n1 ops).led.blocks.length →
      l.blocks = (Ru.run env cfg n1 ops).led.blocks.take k → Derived l →
      C08.RoundsFrom env cfg (Ru.run env cfg n1 ops).led.blocks p targets (Ru.run env cfg n1 ops).led.lastTs
        (((Ru.run env cfg n1 ops).led.blocks.length + (p - 2)) / (p - 1) + 1) l l' →
      l'.blocks = (Ru.run env cfg n1 ops).led.blocks ∧ Derived l' := by
  have hstep1 : Ru.step env cfg Node.empty (.tick ts0 perm0 rid0) = n1 := by
    simp only [step, hperm0, if_true, hprod, Option.getD_some]
  have hn1 : Reachable env cfg n1 := by
    rw [← hstep1]; exact (Reachable.empty env cfg).next _ (by simp [Op.WF])
  obtain ⟨g, hg, _⟩ := loop_accepts_first_block env cfg [] ts0 perm0 rid0 n1 hprod
  have hshape1 : Shape cfg n1.led.blocks := by
    rw [hg, ShapeL.shape_cons]
    exact ⟨by intro c hc; simp at hc, ShapeL.shape_nil cfg⟩
  exact C08_converges_within_bound env cfg hI Node.empty.led _ p targets _ hp
    (solo_shape env cfg hmin hinj (Int.le_of_lt hI) ops n1 hn1 hw ha hshape1) hL hne ht
    (C05_solo_history_from_genesis env cfg hmin (Int.le_of_lt hI) Node.empty.led [] ts0 perm0 rid0 n1 hprod hperm0
      ops hw ha (by omega))

namespace C08gen
/-- the producer's history after its first block: two empty on-schedule blocks, a submitted transaction spending the
    first reward, the block that includes it, one more empty block -/
def ops : List Op := [.tick 120 [] "r1", .tick 180 [] "r2", .submit C05ex.tx, .tick 240 [C05ex.tx] "r3", .tick 300 [] "r4"]
noncomputable def n1 : Node := Ru.step InjHash.env cfg Node.empty (.tick 60 [] "r0")
end C08gen

open C08gen in
/-- **non-vacuity: every hypothesis of `C08_converges_within_bound_genesis` holds together** for an environment with an
    injective block hash (`InjHash.env`) and a concrete five-block history — the instance below is the theorem's
    conclusion for that chain, pages of 3 and one neighbour -/
example : (Node.empty.produce InjHash.env cfg 60 [] "r0").isSome = true ∧
    (Ru.run InjHash.env cfg n1 ops).led.blocks.length = 5 ∧
    ∀ (k : Nat) (l l' : Ledger), 1 ≤ k → k ≤ (Ru.run InjHash.env cfg n1 ops).led.blocks.length →
      l.blocks = (Ru.run InjHash.env cfg n1 ops).led.blocks.take k → Derived l →
      C08.RoundsFrom InjHash.env cfg (Ru.run InjHash.env cfg n1 ops).led.blocks 3 ["p:1"] (Ru.run InjHash.env cfg n1 ops).led.lastTs
        (((Ru.run InjHash.env cfg n1 ops).led.blocks.length + (3 - 2)) / (3 - 1) + 1) l l' →
      l'.blocks = (Ru.run InjHash.env cfg n1 ops).led.blocks ∧ Derived l' := by
  have hsome : (Node.empty.produce InjHash.env cfg 60 [] "r0").isSome = true := by decide
  have hprod : Node.empty.produce InjHash.env cfg 60 [] "r0" = some n1 := by
    cases h : Node.empty.produce InjHash.env cfg 60 [] "r0" with
    | none => rw [h] at hsome; cases hsome
    | some x =>
      show some x = some (Ru.step InjHash.env cfg Node.empty (.tick 60 [] "r0"))
      simp only [step]
      have : ([] : List Tx).isPerm Node.empty.pool = true := by decide
      rw [if_pos this, h]; rfl
  have hlen : (Ru.run InjHash.env cfg n1 ops).led.blocks.length = 5 := by decide
  have hw : ∀ o ∈ ops, o.WF := by
    intro o ho
    simp only [ops, List.mem_cons, List.mem_nil_iff, or_false] at ho
    rcases ho with rfl | rfl | rfl | rfl | rfl
    · simp [Op.WF]
    · simp [Op.WF]
    · simp only [Op.WF]; decide
    · simp [Op.WF]
    · simp [Op.WF]
  have ha : Along InjHash.env cfg (SoloStep cfg) n1 ops := by
    refine ⟨?_, ?_, trivial, ?_, ?_, trivial⟩
    · show SoloStep cfg n1 (.tick 120 [] "r1")
      simp only [SoloStep]
      refine ⟨by decide, by decide, by decide, by decide, by decide, by decide⟩
    · show SoloStep cfg (Ru.run InjHash.env cfg n1 [.tick 120 [] "r1"]) (.tick 180 [] "r2")
      simp only [SoloStep]
      refine ⟨by decide, by decide, by decide, by decide, by decide, by decide⟩
    · show SoloStep cfg (Ru.run InjHash.env cfg n1 [.tick 120 [] "r1", .tick 180 [] "r2", .submit C05ex.tx]) (.tick 240 [C05ex.tx] "r3")
      simp only [SoloStep]
      refine ⟨by decide, by decide, by decide, by decide, by decide, by decide⟩
    · show SoloStep cfg (Ru.run InjHash.env cfg n1 [.tick 120 [] "r1", .tick 180 [] "r2", .submit C05ex.tx, .tick 240 [C05ex.tx] "r3"]) (.tick 300 [] "r4")
      simp only [SoloStep]
      refine ⟨by decide, by decide, by decide, by decide, by decide, by decide⟩
  exact ⟨hsome, hlen, C08_converges_within_bound_genesis InjHash.env cfg (by decide) (by decide) InjHash.env_injective
    60 [] "r0" n1 hprod (by decide) ops hw ha 3 ["p:1"] (by decide) (by simp) (by simp) (by rw [hlen]; decide)⟩

end Ru
