/-
  Core/Props/Cguards11.lean — the regenerated integer guards of addTransaction and Validate are the conditions the
  model's admission check and block production test (see Cguards.lean for the approach).
-/
import Core.GenBlocks
import Core.Pool
import Core.Props.GuardsBase
open Std

namespace Ru

/-! ### addTransaction -/

theorem Gen_addTransactionGuards_spec (last iv tts : Int64) (hno : I64ok (last.toInt + iv.toInt)) :
    Gen.addTransactionGuards last iv tts =
      [decide (last.toInt = 0), decide (last.toInt + iv.toInt < tts.toInt), decide (tts.toInt < last.toInt)] := by
  simp only [Gen.addTransactionGuards, Int64.beq_iff, Int64.toInt_add_of_ok last iv hno, Int64.toInt_zero,
    Int64.lt_iff_toInt_lt]

/-- what `addTransaction` does once the date window is passed -/
def admitRest (env : Env) (cfg : Cfg) (n : Node) (tx : Tx) : Except String Unit :=
  let next := n.led.lastTs + cfg.interval
  if n.pool.any (fun p => p.id == tx.id) then .error "duplicate"
  else if !(tx.inputs.all (·.sigValid)) then .error "bad-signature"
  else
    match n.led.utxos.update n.led.lastTxs next with
    | .error e => .error ("update-failed:" ++ e)
    | .ok c1 =>
      match c1.update n.pool next with
      | .error e => .error ("update-failed:" ++ e)
      | .ok c2 =>
        match c2.calculateFee env.val cfg.minFee tx next with
        | .error e => .error e
        | .ok _ =>
          match n.led.utxos.calculateFee env.val cfg.minFee tx next with
          | .error e => .error e
          | .ok _ =>
            match c2.update [tx] next with
            | .error e => .error ("update-failed:" ++ e)
            | .ok _ => .ok ()

/-- **C11 (regenerated guards).**  Admission's date window — the chain is not empty, the transaction is dated no
    later than the next block time and no earlier than the last block — is the three conditions regenerated from
    `addTransaction`. -/
theorem C11_admitCheck_gen (env : Env) (cfg : Cfg) (n : Node) (tx : Tx) (last iv tts : Int64)
    (hl : n.led.lastTs = last.toInt) (hi : cfg.interval = iv.toInt) (ht : tx.ts = tts.toInt)
    (hno : I64ok (last.toInt + iv.toInt)) :
    n.admitCheck env cfg tx =
      match Gen.addTransactionGuards last iv tts with
      | true :: _ => .error "empty-chain"
      | _ :: true :: _ => .error "tx-future"
      | _ :: _ :: true :: _ => .error "tx-old"
      | _ => admitRest env cfg n tx := by
  rw [Gen_addTransactionGuards_spec last iv tts hno]
  unfold Node.admitCheck admitRest
  simp only [hl, hi, ht]
  by_cases h0 : last.toInt = 0
  · simp [h0]
  · by_cases h1 : last.toInt + iv.toInt < tts.toInt
    · simp [h0, h1]
    · by_cases h2 : tts.toInt < last.toInt
      · simp [h0, h1, h2]
      · simp [h0, h1, h2]
        rfl

/-! ### Validate -/

theorem Gen_validateGuards_spec (ts last iv tts : Int64) (hno : I64ok (last.toInt + iv.toInt)) :
    Gen.validateGuards ts last iv tts =
      [decide (last.toInt = 0), decide (last.toInt = ts.toInt), decide (ts.toInt > last.toInt + iv.toInt),
       decide (ts.toInt < tts.toInt), decide (tts.toInt < last.toInt)] := by
  simp only [Gen.validateGuards, Int64.beq_iff, Int64.toInt_add_of_ok last iv hno, Int64.toInt_zero,
    gt_iff_lt, Int64.lt_iff_toInt_lt]

/-- **C11 (regenerated guards).**  Block production refuses the tick — on a non-empty chain — when the tick is
    dated as the last block or later than the next block time: conditions 0–2 regenerated from `Validate`. -/
theorem C11_produce_refusals_gen (env : Env) (cfg : Cfg) (n : Node) (perm : List Tx) (rid : String)
    (ts last iv tts : Int64) (hl : n.led.lastTs = last.toInt) (hi : cfg.interval = iv.toInt)
    (hno : I64ok (last.toInt + iv.toInt)) :
    (match Gen.validateGuards ts last iv tts with
      | false :: true :: _ => True
      | false :: _ :: true :: _ => True
      | _ => False) →
    n.produce env cfg ts.toInt perm rid = none := by
  intro hg
  rw [Gen_validateGuards_spec ts last iv tts hno] at hg
  have h0 : last.toInt ≠ 0 := by intro e; simp [e] at hg
  have h12 : last.toInt = ts.toInt ∨ ts.toInt > last.toInt + iv.toInt := by
    by_cases h1 : last.toInt = ts.toInt
    · exact .inl h1
    · by_cases h2 : ts.toInt > last.toInt + iv.toInt
      · exact .inr h2
      · simp [h0, h1, h2] at hg
  unfold Node.produce
  simp only [hl, hi]
  rcases h12 with h1 | h2
  · have h0' : ts.toInt ≠ 0 := h1 ▸ h0
    simp [h1, h0']
  · simp [h0, h2]

/-- **C11 (regenerated guards).**  A pooled transaction dated after the tick or before the last block is left out
    of the block being produced: conditions 3 and 4 regenerated from `Validate`. -/
theorem C11_produceLoop_window_gen (env : Env) (cfg : Cfg) (confirmed copy : UtxoReg) (t : Tx) (rest kept : List Tx)
    (reward : Nat) (next : Int) (ts last iv tts : Int64) (ht : t.ts = tts.toInt)
    (hno : I64ok (last.toInt + iv.toInt)) :
    (match (Gen.validateGuards ts last iv tts).drop 3 with
      | true :: _ => True
      | _ :: true :: _ => True
      | _ => False) →
    Node.produceLoop env cfg confirmed ts.toInt last.toInt next (t :: rest) copy reward kept =
      Node.produceLoop env cfg confirmed ts.toInt last.toInt next rest copy reward kept := by
  intro hg
  rw [Gen_validateGuards_spec ts last iv tts hno] at hg
  simp only [List.drop_succ_cons, List.drop_zero] at hg
  rw [Node.produceLoop]
  simp only [ht]
  by_cases h3 : ts.toInt < tts.toInt
  · simp [h3]
  · by_cases h4 : tts.toInt < last.toInt
    · simp [h3, h4]
    · simp [h3, h4] at hg

/-! ### every branch is taken -/

example : Gen.addTransactionGuards 100 60 161 = [false, true, false] ∧ Gen.addTransactionGuards 100 60 99 = [false, false, true]
    ∧ Gen.addTransactionGuards 0 60 5 = [true, false, false] ∧ Gen.addTransactionGuards 100 60 160 = [false, false, false] := by decide
example : Gen.validateGuards 160 100 60 100 = [false, false, false, false, false]
    ∧ Gen.validateGuards 100 100 60 100 = [false, true, false, false, false]
    ∧ Gen.validateGuards 161 100 60 162 = [false, false, true, true, false] := by decide

end Ru
