/-
  Core/Props/Cinter.lean — the history theorems extended to histories that contain a validation tick running to
  completion INSIDE a sync round (`OpX.syncTick`, Core/Interleave.lean): by `runX_simulated` every such history
  reaches a state a sequential history of the same ticks, rounds and submissions reaches, so every invariant of the
  sequential machine is an invariant of the interleaved one.
-/
import Core.Lemmas.Interleave
import Core.Props.C07
import Core.Props.C02chain
import Core.Props.C12
import Core.Props.Cchain
import Core.Props.C06
open Std

set_option maxRecDepth 100000

namespace Ru
open SL Sync SL.Sync SL.SyncEx UtxoReg

/-- **C07 with interleaving.**  After any history of operations — block production inside sync rounds included —
    the node's outputs and registered addresses are the replay of its chain minus the last block. -/
theorem C07_invariant_interleaved (env : Env) (cfg : Cfg) (n : Node) (h : ReachableX env cfg n) : Derived n.led :=
  C07_invariant env cfg n h.reachable

theorem C07_reported_outputs_interleaved (env : Env) (cfg : Cfg) (n : Node) (h : ReachableX env cfg n) :
    ∃ c, Conf.replay Conf.empty n.led.blocks.dropLast = .ok c ∧
      (∀ a, n.led.utxos.utxos a = c.utxos.utxos a) ∧
      (∀ a, n.led.reg.isRegistered a = c.registered.contains a) :=
  C07_reported_outputs env cfg n h.reachable

/-- one step, in the words of the code: when the tick produced a block during the round, the round's commit is
    given up — the node is exactly what the tick alone leaves; when the tick was refused the round behaves as if it
    ran alone -/
theorem C07_syncTick_step (env : Env) (cfg : Cfg) (n : Node) (now : Int) (resps : List Resp) (pick : Nat)
    (ts : Int) (perm : List Tx) (rid : String) :
    stepX env cfg n (.syncTick now resps pick ts perm rid) = step env cfg n (.tick ts perm rid) ∨
    stepX env cfg n (.syncTick now resps pick ts perm rid) = step env cfg n (.sync now resps pick) :=
  stepX_syncTick_cases env cfg n now resps pick ts perm rid

/-- a submission admitted while a round waits is the submission followed by the round -/
theorem C16_syncSubmit_step (env : Env) (cfg : Cfg) (n : Node) (now : Int) (resps : List Resp) (pick : Nat) (tx : Tx) :
    stepX env cfg n (.syncSubmit now resps pick tx) = run env cfg n [.submit tx, .sync now resps pick] := by
  simp only [stepX, run, List.foldl_cons, List.foldl_nil, step, admitTx_led]
  cases (Sync.outcomes env cfg n.led now resps)[pick]? <;> rfl

/-- **C12 with interleaving**: the served chain is hash-linked at every moment -/
theorem C12_chain_linked_interleaved (env : Env) (cfg : Cfg) (n : Node) (h : ReachableX env cfg n) :
    Linked env n.led.blocks :=
  C12_chain_linked_invariant env cfg n h.reachable

/-- **C10 with interleaving**: at most one yielding output per address among the confirmed outputs -/
theorem C10_chain_one_yielding_interleaved (env : Env) (cfg : Cfg) (n : Node) (h : ReachableX env cfg n) :
    ∀ a, countYielding (n.led.utxos.utxos a) ≤ 1 :=
  C10_chain_one_yielding env cfg n h.reachable

/-- **C02 with interleaving** (no double spend in the confirmed chain, every input created earlier in it) -/
theorem C02_chain_interleaved (env : Env) (cfg : Cfg) (n : Node) (hr : ReachableX env cfg n) :
    (∀ (q1 k1 m1 q2 k2 m2 : Nat) (b1 b2 : Block) (t1 t2 : Tx) (i j : Input),
        n.led.blocks.dropLast[q1]? = some b1 → b1.txs[k1]? = some t1 → t1.inputs[m1]? = some i →
        n.led.blocks.dropLast[q2]? = some b2 → b2.txs[k2]? = some t2 → t2.inputs[m2]? = some j →
        (q1, k1, m1) ≠ (q2, k2, m2) → i.txId = j.txId → i.index = j.index →
        ∃ b ∈ n.led.blocks.dropLast, ∃ t ∈ b.txs, t.id = i.txId) ∧
    (∀ (q k : Nat) (b : Block) (t : Tx) (i : Input),
        n.led.blocks.dropLast[q]? = some b → b.txs[k]? = some t → i ∈ t.inputs →
        ∃ (p : Nat) (b' : Block) (k' : Nat) (t' : Tx) (o : Output),
          n.led.blocks.dropLast[p]? = some b' ∧ b'.txs[k']? = some t' ∧ t'.id = i.txId ∧ UtxoReg.creates t' = true ∧
          t'.outputs[i.index]? = some o ∧ (p < q ∨ (p = q ∧ k' ≤ k))) :=
  C02_chain env cfg n hr.reachable

/-- no operation shortens the chain (C06's "never to a shorter chain", for every operation) -/
theorem C06_step_never_shorter (env : Env) (cfg : Cfg) (n : Node) (o : Op) (hw : o.WF) :
    n.led.blocks.length ≤ (Ru.step env cfg n o).led.blocks.length := by
  have h := C12_step_prefix env cfg n o hw
  cases o with
  | submit tx => simp only at h; rw [h]
  | regsync newly => simp only at h; rw [h]
  | tick ts perm rid =>
    simp only at h
    rcases h with h | ⟨b, h, _⟩
    · rw [h]
    · rw [h]; simp
  | sync now resps pick =>
    simp only [step]
    split
    · rename_i l hl
      exact C06_never_shorter env cfg n.led now resps l (List.mem_of_getElem? hl)
    · exact Nat.le_refl _

/-- **C06 with interleaving**: a round during which the node's own tick (or a submission) ran never leaves the node
    with a chain shorter than the one it held when the round started -/
theorem C06_never_shorter_interleaved (env : Env) (cfg : Cfg) (n : Node) (x : OpX) (hw : x.WF) :
    n.led.blocks.length ≤ (stepX env cfg n x).led.blocks.length := by
  obtain ⟨os, hos, hstep⟩ := stepX_shadow env cfg n x
  rw [hstep]
  clear hstep
  induction os generalizing n with
  | nil => exact Nat.le_refl _
  | cons o os ih =>
    have h1 := C06_step_never_shorter env cfg n o (hw o (hos o List.mem_cons_self))
    have h2 := ih (Ru.step env cfg n o) (fun o' ho' => hos o' (List.mem_cons_of_mem _ ho'))
    show n.led.blocks.length ≤ (Ru.run env cfg (Ru.step env cfg n o) os).led.blocks.length
    exact Nat.le_trans h1 h2

/-- ticks of an extended operation are never dated 0 -/
def OpX.TickNonzero (x : OpX) : Prop := ∀ o ∈ x.shadows, Ru.TickNonzero o

/-- **the chain-level invariant with interleaving**: every block of every chain a node holds after any history —
    block production inside sync rounds included — was judged (C01, C03, C04-transactions, C10 yield rule follow as
    for `C01_chain_judged`) -/
theorem C01_chain_judged_interleaved (env : Env) (cfg : Cfg) (hmin : 1 ≤ cfg.minFee) (hinj : Function.Injective env.hash)
    (xs : List OpX) (hw : ∀ x ∈ xs, x.WF) (hnz : ∀ x ∈ xs, x.TickNonzero) :
    ChainJudged env cfg (runX env cfg Node.empty xs).led.blocks := by
  obtain ⟨ops, hrun, hP⟩ := runX_simulated_with env cfg (fun o => o.WF ∧ Ru.TickNonzero o) xs Node.empty
    (fun x hx o ho => ⟨hw x hx o ho, hnz x hx o ho⟩)
  rw [hrun]
  exact C01_chain_judged env cfg hmin hinj ops (fun o ho => (hP o ho).1) (fun o ho => (hP o ho).2)

-- non-vacuity: a concrete history with a tick inside a round, in both regimes.
-- (a) the tick produces a block at 240 while the round (offered nothing) waits: the round gives up, 4 blocks
example : (stepX SL.SyncEx.env SL.SyncEx.cfg SL.SyncEx.n3 (.syncTick 300 [] 0 240 [] "r3")).led.blocks.length = 4 := by
  decide
-- (b) the tick is refused (dated as the tip): the round runs alone
example : (stepX SL.SyncEx.env SL.SyncEx.cfg SL.SyncEx.n3 (.syncTick 300 [] 0 180 [] "r3")).led.blocks.length = 3 := by
  decide

end Ru
