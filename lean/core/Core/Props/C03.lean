/-
  Core/Props/C03.lean — ownership and signatures: a transaction is admitted to the pool, placed in a produced
  block, or accepted in an adopted block only if every input carries a valid signature (`sigValid`) and names
  a public key whose address (`address`) is the recipient of the output it consumes.
-/
import Core.Lemmas.Fee
import Core.Props.C01
import Core.Props.C11
open Std

namespace Ru

/-- C03 (adopted blocks): every input of every ordinary transaction of a block that passes `verifyBlock` is
    validly signed and its address is the recipient of the confirmed output it names. -/
theorem C03_verifyBlock_owner (env : Env) (cfg : Cfg) (l : Ledger) (b : Block) (prevTs now : Int)
    (h : Ledger.verifyBlock env cfg l b prevTs now = .ok ()) :
    ∀ t ∈ b.txs, t.hasReward = false → ∀ i ∈ t.inputs,
      i.sigValid = true ∧ ∃ u, UtxoReg.lookup l.utxos.byId i = .ok u ∧ u.out.address = i.address := by
  obtain ⟨_, _, _, hall⟩ := Ledger.fee_verifyBlock_ok h
  intro t ht hr i hi
  obtain ⟨_, _, hs, _, fee, hf⟩ := hall t ht hr
  exact ⟨List.all_eq_true.mp hs i hi, UtxoReg.calculateFee_owner hf i hi⟩

example : Ledger.verifyBlock C01ex.env C01ex.cfg C01ex.led C01ex.b2 10 20 = .ok () ∧
    C01ex.tx2 ∈ C01ex.b2.txs ∧ C01ex.tx2.hasReward = false ∧ C01ex.tx2.inputs ≠ [] := by
  refine ⟨rfl, by decide, rfl, by decide⟩

/-- a wrong owner is refused -/
example : (Ledger.verifyBlock C01ex.env C01ex.cfg C01ex.led
    { C01ex.b2 with txs := [{ C01ex.tx2 with inputs := [⟨"a", 0, "pk", "sig", "Z", true⟩] }, ⟨"r2", [], [⟨"V", false, 3⟩], 15⟩] }
    10 20).isOk = false := by rfl

/-- an invalid signature is refused -/
example : (Ledger.verifyBlock C01ex.env C01ex.cfg C01ex.led
    { C01ex.b2 with txs := [{ C01ex.tx2 with inputs := [⟨"a", 0, "pk", "sig", "A", false⟩] }, ⟨"r2", [], [⟨"V", false, 3⟩], 15⟩] }
    10 20).isOk = false := by rfl

/-- C03 (admission): every input of an admitted transaction is validly signed and its address is the recipient
    of the output it names, both in the confirmed outputs and in the copy that has replayed the last block
    and the pool. -/
theorem C03_admit_owner (env : Env) (cfg : Cfg) (n : Node) (tx : Tx)
    (h : Node.admitCheck env cfg n tx = .ok ()) :
    ∃ c1 c2, n.led.utxos.update n.led.lastTxs (n.led.lastTs + cfg.interval) = .ok c1 ∧
      c1.update n.pool (n.led.lastTs + cfg.interval) = .ok c2 ∧
      ∀ i ∈ tx.inputs, i.sigValid = true ∧
        (∃ u, UtxoReg.lookup n.led.utxos.byId i = .ok u ∧ u.out.address = i.address) ∧
        (∃ u, UtxoReg.lookup c2.byId i = .ok u ∧ u.out.address = i.address) := by
  obtain ⟨_, _, _, _, hs, c1, c2, h1, h2, h3, h4, _⟩ := (Node.admitCheck_ok_iff env cfg n tx).mp h
  obtain ⟨f3, hf3⟩ := (fee_isOk_iff_exists _).mp h3
  obtain ⟨f4, hf4⟩ := (fee_isOk_iff_exists _).mp h4
  exact ⟨c1, c2, h1, h2, fun i hi =>
    ⟨hs i hi, UtxoReg.calculateFee_owner hf4 i hi, UtxoReg.calculateFee_owner hf3 i hi⟩⟩

example : Node.admitCheck C11ex.env C11ex.cfg C11ex.node C11ex.tx = .ok () ∧ C11ex.tx.inputs ≠ [] :=
  ⟨rfl, by decide⟩

/-- C03 (production): every input of every transaction placed in a produced block is validly signed and its
    address is the recipient of the confirmed output it names. -/
theorem C03_produce_owner (env : Env) (cfg : Cfg) (n n' : Node) (ts : Int) (perm : List Tx) (rewardId : String)
    (h : n.produce env cfg ts perm rewardId = some n') :
    ∃ b, n'.led.blocks = n.led.blocks ++ [b] ∧
      ∀ t ∈ b.txs, t.hasReward = false → ∀ i ∈ t.inputs,
        i.sigValid = true ∧ ∃ u, UtxoReg.lookup n.led.utxos.byId i = .ok u ∧ u.out.address = i.address := by
  obtain ⟨_, copy, c, kept, fees, _, _, hb, _, _, _, _, hk, _⟩ := C11_produce_spec env cfg n n' ts perm rewardId h
  refine ⟨_, hb, ?_⟩
  intro t ht hr i hi
  simp only [Ledger.mkBlock, List.mem_append, List.mem_singleton] at ht
  rcases ht with ht | rfl
  · obtain ⟨_, _, hs, hf⟩ := hk t ht
    obtain ⟨f, hf⟩ := (fee_isOk_iff_exists _).mp hf
    exact ⟨hs i hi, UtxoReg.calculateFee_owner hf i hi⟩
  · simp [Node.rewardTx, Tx.hasReward] at hr

example : (C11ex.node1.produce C11ex.env C11ex.cfg 15 [C11ex.tx] "r2").isSome = true := by rfl

end Ru
