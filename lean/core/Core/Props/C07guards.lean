/-
  Core/Props/C07guards.lean — the conditions `(*UtxosRegistry).UpdateUtxos` tests over counts, initial values and
  income flags, regenerated from the source (`Gen.updateUtxosGuards`, Core/GenBlocks.lean), are the conditions of the
  model's `creates`, `consume` (index bound, `slotLive`, empty owner list).  Dropping the income flag from the
  "still useful" test (seed C18-e), a changed bound or a relaxed comparison changes the definition and breaks a theorem.
-/
import Core.GenBlocks
import Core.Utxos
open Std

namespace Ru
open UtxoReg

theorem Gen_updateUtxosGuards_spec (oc : Nat) (fv : UInt64) (fy : Bool) (ii sc : Nat) (op : Bool) (iv : UInt64) (y : Bool) (al : Nat) :
    Gen.updateUtxosGuards oc fv fy ii sc op iv y al =
      [decide (oc > 1) || decide (fv.toNat > 0) || fy, decide (ii < sc), op && (decide (iv.toNat > 0) || y), decide (al = 0)] := by
  have e1 : decide ((oc : Int) > 1) = decide (oc > 1) := decide_eq_decide.mpr (by omega)
  have e2 : decide ((ii : Int) < (sc : Int)) = decide (ii < sc) := decide_eq_decide.mpr (by omega)
  have e3 : ((al : Int) == 0) = decide (al = 0) := by
    by_cases h : al = 0
    · subst h; simp
    · have : (al : Int) ≠ 0 := by omega
      simp [h, this]
  have e4 : ∀ v : UInt64, decide (v > 0) = decide (v.toNat > 0) := fun v => decide_eq_decide.mpr (by
    rw [gt_iff_lt, UInt64.lt_iff_toNat_lt]; simp)
  simp only [Gen.updateUtxosGuards, e1, e2, e3, e4]

/-- **C07 (regenerated guard).**  A transaction creates outputs exactly when condition 0 regenerated from
    `UpdateUtxos` holds of its outputs (more than one, or a first one that has a value or earns income). -/
theorem C07_creates_gen (tx : Tx) (o : Output) (rest : List Output) (fv : UInt64) (ii sc : Nat) (op : Bool)
    (iv : UInt64) (y : Bool) (al : Nat) (ho : tx.outputs = o :: rest) (hv : o.value = fv.toNat) :
    creates tx = (match Gen.updateUtxosGuards tx.outputs.length fv o.yielding ii sc op iv y al with
      | g0 :: _ => g0
      | _ => false) := by
  rw [Gen_updateUtxosGuards_spec]
  unfold creates
  rw [ho]
  cases rest <;> simp [hv]

/-- **C07 (regenerated guard).**  A slot is "still useful" — the transaction's entry is kept while any slot is —
    exactly when condition 2 regenerated from `UpdateUtxos` holds of it: present, and with a value or earning income. -/
theorem C07_slotLive_gen (s : Option Utxo) (oc : Nat) (fv : UInt64) (fy : Bool) (ii sc : Nat) (iv : UInt64) (al : Nat)
    (hv : ∀ u, s = some u → u.out.value = iv.toNat) :
    slotLive s = (match Gen.updateUtxosGuards oc fv fy ii sc s.isSome iv
        (match s with | some u => u.out.yielding | none => false) al with
      | _ :: _ :: g2 :: _ => g2
      | _ => false) := by
  rw [Gen_updateUtxosGuards_spec]
  cases s with
  | none => simp [slotLive]
  | some u => simp [slotLive, hv u rfl]

/-- **C02 (regenerated guard).**  An input's index resolves to a slot exactly when condition 1 regenerated from
    `UpdateUtxos` holds (`int(index) < len(slots)`). -/
theorem C02_index_bound_gen (slots : List (Option Utxo)) (idx : Nat) (oc : Nat) (fv : UInt64) (fy op : Bool) (iv : UInt64)
    (y : Bool) (al : Nat) :
    (slots[idx]?).isSome = (match Gen.updateUtxosGuards oc fv fy idx slots.length op iv y al with
      | _ :: g1 :: _ => g1
      | _ => false) := by
  rw [Gen_updateUtxosGuards_spec]
  by_cases h : idx < slots.length
  · simp [h]
  · simp [h]

/-- **C07 (regenerated guard).**  The owner's list is dropped exactly when condition 3 holds (it is empty). -/
theorem C07_owner_list_gen (l : List Utxo) (oc : Nat) (fv : UInt64) (fy : Bool) (ii sc : Nat) (op : Bool) (iv : UInt64) (y : Bool) :
    l.isEmpty = (match Gen.updateUtxosGuards oc fv fy ii sc op iv y l.length with
      | [_, _, _, g3] => g3
      | _ => false) := by
  rw [Gen_updateUtxosGuards_spec]
  cases l <;> simp

example : Gen.updateUtxosGuards 1 0 true 0 1 true 0 true 0 = [true, true, true, true] := by decide
example : Gen.updateUtxosGuards 1 0 false 2 2 true 0 false 3 = [false, false, false, false] := by decide
example : Gen.updateUtxosGuards 2 0 false 1 2 false 5 false 1 = [true, true, false, false] := by decide

end Ru
