/-
  Core/Props/C08conv.lean — C08, convergence of catch-up sync over SEVERAL rounds (prefix case):
  a node holding the first `k₀ ≥ 3` blocks of `C`, whose neighbours are honest nodes holding `C` (they answer
  `GetBlocks(h)` with the page of `C` from `h`), holds after `j` rounds the first `iter j k₀` blocks of `C`
  (`iter` = `k ↦ min |C| (k − 1 + p)`), whatever the times, the number of neighbours and Go's map order — hence
  exactly `C` after `⌈|C| / (p − 1)⌉` rounds, with the spendable outputs and registered addresses of every node
  that holds `C`.

  Acceptance of each honest window by `verify` is hypothesis `hacc` (it is what C05 establishes for blocks an
  honest producer appended: `C05_extension`, `C05_resync_general`); everything else — fork choice, commit, the
  derived state — is proved here from the model.  Partial: the starts `k₀ < 3` and the private-chain start go
  through the full-verification phase and are covered by the correspondence (profile catchup) only.
-/
import Core.Props.C08sync
import Core.Props.C07
open Std

set_option maxRecDepth 100000

namespace Ru
open SL.SyncEx

/-- what honest neighbours holding `C` (page size `p`) answer to a host of `k` blocks -/
def C08.honestResps (C : List Block) (p k : Nat) (targets : List String) : List Resp :=
  targets.map (fun t => ⟨t, some (Ledger.page p C (k - 1)), some (Ledger.page p C 0)⟩)

/-- one catch-up round: ANY outcome of a sync round against honest neighbours (map order = which outcome) -/
def C08.Round (env : Env) (cfg : Cfg) (C : List Block) (p : Nat) (targets : List String) (l l' : Ledger) : Prop :=
  ∃ now, l' ∈ Sync.outcomes env cfg l now (C08.honestResps C p l.blocks.length targets)

/-- `j` consecutive rounds -/
inductive C08.Rounds (env : Env) (cfg : Cfg) (C : List Block) (p : Nat) (targets : List String) :
    Nat → Ledger → Ledger → Prop
  | zero (l : Ledger) : C08.Rounds env cfg C p targets 0 l l
  | succ {j : Nat} {l l1 l2 : Ledger} : C08.Round env cfg C p targets l l1 →
      C08.Rounds env cfg C p targets j l1 l2 → C08.Rounds env cfg C p targets (j + 1) l l2

/-- the length after `j` rounds from length `k` -/
def C08.iter (L p : Nat) : Nat → Nat → Nat
  | 0, k => k
  | j + 1, k => C08.iter L p j (min L (k - 1 + p))

theorem C08.honest_targets {C : List Block} {p k : Nat} {targets : List String} (ht : ∀ t ∈ targets, t ≠ "host") :
    ∀ r ∈ C08.honestResps C p k targets, r.target ≠ "host" := by
  intro r hr
  simp only [C08.honestResps, List.mem_map] at hr
  obtain ⟨t, htm, rfl⟩ := hr
  exact ht t htm

/-- a round of a host that already holds `C` leaves it with `C` -/
theorem C08_round_at_goal (env : Env) (cfg : Cfg) (C : List Block) (p : Nat) (targets : List String)
    (ht : ∀ t ∈ targets, t ≠ "host") (l l' : Ledger) (hl : l.blocks = C)
    (hr : C08.Round env cfg C p targets l l') : l'.blocks = C := by
  obtain ⟨now, hm⟩ := hr
  have hlen := C06_never_shorter env cfg l now _ l' hm
  rcases C13_unchanged_or_verified env cfg l now _ (C08.honest_targets ht) l' hm with h | ⟨hne, _, h⟩
  · rw [h]; exact hl
  · exfalso
    apply hne
    rcases h with ⟨_, h2, r, hr, nb, hf, _, hb⟩ | ⟨_, r, hr, nb, hf, _, hb⟩
    · -- the honest answer from height |C|-1 is at most the tip: the candidate is no longer than the host's chain,
      -- and a prefix of it
      simp only [C08.honestResps, List.mem_map] at hr
      obtain ⟨t, _, rfl⟩ := hr
      simp only [Option.some.injEq] at hf
      have hne0 : C ≠ [] := by intro e; rw [hl, e] at h2; simp at h2
      have hpage : nb = (C.drop (C.length - 1)).take p := by
        rw [← hf, C08_page_spec, hl, if_pos (by have := List.length_pos_iff.mpr hne0; omega)]
      have hsplit : C = C.dropLast ++ C.drop (C.length - 1) := by
        rw [List.dropLast_eq_take]
        exact (List.take_append_drop (C.length - 1) C).symm
      rw [hb, hl, hpage]
      -- lengths: |dropLast| + |take p (drop …)| ≥ |C| forces the take to be the whole one-element rest
      have hdl : (C.drop (C.length - 1)).length = 1 := by
        have := List.length_pos_iff.mpr hne0
        simp; omega
      have hlen' : C.length ≤ (C.dropLast ++ (C.drop (C.length - 1)).take p).length := by
        rw [hb, hl, hpage] at hlen; exact hlen
      have htk : ((C.drop (C.length - 1)).take p).length = 1 := by
        have h1 : ((C.drop (C.length - 1)).take p).length ≤ 1 := by
          rw [List.length_take]; omega
        simp only [List.length_append, List.length_dropLast] at hlen'
        have := List.length_pos_iff.mpr hne0
        omega
      have : (C.drop (C.length - 1)).take p = C.drop (C.length - 1) := by
        apply List.take_of_length_le
        rw [List.length_take] at htk
        omega
      rw [this]
      exact hsplit.symm
    · -- full verification: the honest answer is the first page of `C`, a prefix; never shorter ⇒ all of `C`
      simp only [C08.honestResps, List.mem_map] at hr
      obtain ⟨t, _, rfl⟩ := hr
      simp only [Option.some.injEq] at hf
      rw [hb, hl] at hlen ⊢
      rw [← hf, C08_page_spec] at hlen ⊢
      by_cases h0 : 0 < C.length
      · rw [if_pos h0] at hlen ⊢
        simp only [List.drop_zero] at hlen ⊢
        apply List.take_of_length_le
        rw [List.length_take] at hlen
        omega
      · have : C = [] := List.eq_nil_of_length_eq_zero (by omega)
        rw [if_neg h0]; exact this.symm

/-- **C08, convergence (prefix start, partial).**  `hacc`: `verify` accepts the honest window offered to a
    derived host that holds a proper prefix of `C` of at least 3 blocks, at every time used.  Then after `j` rounds
    — whatever the times, the answers' order and the map order — the node holds exactly the first `iter j k₀`
    blocks of `C`, and its spendable outputs and registered addresses are the replay of that chain minus its tip. -/
theorem C08_convergence_partial (env : Env) (cfg : Cfg) (C : List Block) (p : Nat) (targets : List String)
    (hp : 2 ≤ p) (hC : Shape cfg C) (hne : targets ≠ []) (ht : ∀ t ∈ targets, t ≠ "host")
    (hacc : ∀ (host : Ledger) (k : Nat) (now : Int), 3 ≤ k → k < C.length → host.blocks = C.take k → Derived host →
      Ledger.verify env cfg host host.blocks.getLast?.toList (Ledger.page p C (k - 1)) host.blocks.dropLast now
        = .ok (Ledger.page p C (k - 1))) :
    ∀ (j k : Nat) (l l' : Ledger), 3 ≤ k → k ≤ C.length → l.blocks = C.take k → Derived l →
      C08.Rounds env cfg C p targets j l l' →
      l'.blocks = C.take (C08.iter C.length p j k) ∧ Derived l' := by
  intro j
  induction j with
  | zero =>
    intro k l l' _ _ hl hd hr
    cases hr
    exact ⟨hl, hd⟩
  | succ j ih =>
    intro k l l' hk hkL hl hd hr
    cases hr with
    | succ hround hrest =>
      rename_i l1
      have hklen : l.blocks.length = k := by rw [hl, List.length_take]; omega
      obtain ⟨now, hm⟩ := hround
      have hd1 : Derived l1 := outcomes_derived env cfg l now _ hd l1 hm
      have hk' : 3 ≤ min C.length (k - 1 + p) := by omega
      have hkL' : min C.length (k - 1 + p) ≤ C.length := Nat.min_le_left _ _
      have hb1 : l1.blocks = C.take (min C.length (k - 1 + p)) := by
        by_cases hlt : k < C.length
        · rw [hklen] at hm
          have hresp : ∀ r ∈ C08.honestResps C p k targets, r.first = some (Ledger.page p C (k - 1)) := by
            intro r hr
            simp only [C08.honestResps, List.mem_map] at hr
            obtain ⟨t, _, rfl⟩ := hr
            rfl
          have hne' : C08.honestResps C p k targets ≠ [] := by
            intro e; apply hne
            simpa [C08.honestResps] using e
          exact C08_sync_progress_shaped env cfg l now _ C k p hk hlt hp hC hl hne' (C08.honest_targets ht) hresp
            (hacc l k now hk hlt hl hd) l1 hm
        · have hkeq : k = C.length := by omega
          have hlC : l.blocks = C := by rw [hl, hkeq, List.take_length]
          have := C08_round_at_goal env cfg C p targets ht l l1 hlC ⟨now, hm⟩
          rw [this, hkeq]
          have : min C.length (C.length - 1 + p) = C.length := by omega
          rw [this, List.take_length]
      exact ih (min C.length (k - 1 + p)) l1 l' hk' hkL' hb1 hd1 hrest

/-- the number of rounds: `⌈|C| / (p − 1)⌉` rounds (one fewer than the bound of the property) reach `C` from any
    prefix of at least 3 blocks -/
theorem C08_convergence_rounds (L p k : Nat) (hp : 2 ≤ p) (hk : 1 ≤ k) (hkL : k ≤ L) :
    C08.iter L p ((L + (p - 2)) / (p - 1)) k = L := by
  have h := (C08_round_bound L p k hp hk hkL).2
  have e : ∀ j k, C08.iter L p j k = Nat.repeat (fun k => min L (k - 1 + p)) j k := by
    intro j
    induction j with
    | zero => intro k; rfl
    | succ j ih =>
      intro k
      show C08.iter L p j (min L (k - 1 + p)) = _
      rw [ih]
      -- repeat f (j+1) k = f (repeat f j k); and repeat f j (f k) = f (repeat f j k)
      have comm : ∀ (f : Nat → Nat) (j k : Nat), Nat.repeat f j (f k) = f (Nat.repeat f j k) := by
        intro f j
        induction j with
        | zero => intro k; rfl
        | succ j ih => intro k; show f (Nat.repeat f j (f k)) = f (f (Nat.repeat f j k)); rw [ih]
      rw [comm]; rfl
  rw [e]; exact h

/-- two derived ledgers holding the same chain report the same spendable outputs and registered addresses -/
theorem C08_same_chain_same_state (l1 l2 : Ledger) (h1 : Derived l1) (h2 : Derived l2) (hb : l1.blocks = l2.blocks) :
    l1.conf = l2.conf := by
  unfold Derived at h1 h2
  rw [hb] at h1
  rw [h1] at h2
  exact (Except.ok.inj h2)

-- non-vacuity of the round relation and of `iter`: from 3 of 10 blocks with pages of 4, three rounds reach 10
example : C08.iter 10 4 3 3 = 10 := by decide
example : C08.iter 10 4 ((10 + (4 - 2)) / (4 - 1)) 3 = 10 := by decide
/-- the concrete scenario of `C08_sync_progress`: `n3` holds 3 of the 4 blocks of `n4`; one round against two
    honest neighbours with pages of 2 is a `Round` ending with all four blocks -/
example : ∃ l', C08.Round env cfg n4.led.blocks 2 ["p:1", "p:2"] n3.led l' ∧ l'.blocks = n4.led.blocks := by
  have hsome : ((Sync.outcomes env cfg n3.led 300
      (C08.honestResps n4.led.blocks 2 n3.led.blocks.length ["p:1", "p:2"]))[0]?.map (·.blocks)) = some n4.led.blocks := by
    decide
  obtain ⟨l', hl', hb⟩ := Option.map_eq_some_iff.mp hsome
  exact ⟨l', ⟨300, List.mem_of_getElem? hl'⟩, hb⟩

end Ru
