/-
  Core/Props/C04chain.lean — C04 at chain level:
  "Every chain a node holds is hash-linked from its first block and its consecutive block timestamps differ
   by exactly the validation interval; no block is adopted whose timestamp lies after the adopting node's
   current time. Every non-genesis block carries exactly one reward transaction, and every ordinary
   transaction is dated no earlier than the previous block and no later than its own block."
  Quantifier: all candidate chains (ANY neighbour answers) and all honest production histories driven by
  aligned clock ticks (`TickAligned`: repeated, on-time, skipped and late ticks on the block grid).
  Hash-linking is `C12_chain_linked_invariant`; this file proves `Shape`.
-/
import Core.Lemmas.Shape
open Std

set_option maxRecDepth 100000

namespace Ru
open SL.SyncEx

/-- FULL statement (false of the model, see `C04_chain_invariant_counterexample`): every state reached by a
    well-formed history whose ticks are aligned — with no assumption on what the clock reads — has a shaped
    chain. -/
def C04_chain_invariant_full (env : Env) (cfg : Cfg) : Prop :=
  1 ≤ cfg.minFee → Function.Injective env.hash → 0 ≤ cfg.interval →
  ∀ ops : List Op, (∀ o ∈ ops, o.WF) → Along env cfg (TickAligned cfg) Node.empty ops →
    Shape cfg (Ru.run env cfg Node.empty ops).led.blocks

/-- Under an honest clock (no tick is dated 0) and an injective block hash, `lastTs = 0` — what `Validate`
    and the pool read as "no block yet" — holds of the empty chain only, in every reachable state and
    whatever the neighbours offer: produced blocks are dated at the tick, adopted blocks above a first
    block passed `verifyBlock` (which refuses a block dated 0 since the fix: commit) or are the host's own
    blocks at the same height, and an adopted chain has at least two blocks. -/
theorem C04_tip_nonzero_invariant (env : Env) (cfg : Cfg) (hinj : Function.Injective env.hash)
    (ops : List Op) (hw : ∀ o ∈ ops, o.WF) (hnz : ∀ o ∈ ops, TickNonzero o) :
    TsOk (Ru.run env cfg Node.empty ops).led.blocks ∧
    ((Ru.run env cfg Node.empty ops).led.blocks ≠ [] → (Ru.run env cfg Node.empty ops).led.lastTs ≠ 0) := by
  have h : TsOk (Ru.run env cfg Node.empty ops).led.blocks :=
    ShapeL.tsok_run hinj ops Node.empty ShapeL.tsok_nil hw hnz
  refine ⟨h, fun hne => ?_⟩
  have hl := List.getLast?_eq_some_getLast hne
  rw [ShapeL.lastTs_of_getLast hl]
  exact ShapeL.tsok_tip h hl

/-- PARTIAL (the excluded case is a clock reading 0): every state reached by a well-formed history whose ticks
    are aligned and never dated 0 has a shaped chain. -/
theorem C04_chain_invariant_partial (env : Env) (cfg : Cfg) (hmin : 1 ≤ cfg.minFee)
    (hinj : Function.Injective env.hash) (hI : 0 ≤ cfg.interval)
    (ops : List Op) (hw : ∀ o ∈ ops, o.WF) (ha : Along env cfg (TickAligned cfg) Node.empty ops)
    (hnz : ∀ o ∈ ops, TickNonzero o) :
    Shape cfg (Ru.run env cfg Node.empty ops).led.blocks :=
  ShapeL.shape_tsok_run hmin hinj hI ops Node.empty (Reachable.empty env cfg)
    (ShapeL.shape_nil cfg) ShapeL.tsok_nil hw ha hnz

/-- the invariant under the requested name (= `C04_chain_invariant_partial`) -/
theorem C04_chain_invariant (env : Env) (cfg : Cfg) (hmin : 1 ≤ cfg.minFee)
    (hinj : Function.Injective env.hash) (hI : 0 ≤ cfg.interval)
    (ops : List Op) (hw : ∀ o ∈ ops, o.WF) (ha : Along env cfg (TickAligned cfg) Node.empty ops)
    (hnz : ∀ o ∈ ops, TickNonzero o) :
    Shape cfg (Ru.run env cfg Node.empty ops).led.blocks :=
  C04_chain_invariant_partial env cfg hmin hinj hI ops hw ha hnz

/-- non-vacuity: three on-time ticks, a sync round adopting a peer's fourth block, a repeated tick (refused),
    a skipped tick (refused) and an on-time tick: well-formed, aligned, no tick dated 0; five blocks -/
example : let ops := ops3 ++ [.sync 300 [respAhead] 0, .tick 240 [] "x", .tick 360 [] "y", .tick 300 [] "r4"]
    (∀ o ∈ ops, o.WF) ∧ Along env cfg (TickAligned cfg) Node.empty ops ∧ (∀ o ∈ ops, TickNonzero o) ∧
    (Ru.run env cfg Node.empty ops).led.blocks.map (·.ts) = [60, 120, 180, 240, 300] := by
  intro ops
  refine ⟨?_, ?_, ?_, by decide⟩
  · intro o ho
    simp only [ops, ops3, List.cons_append, List.nil_append, List.mem_cons, List.not_mem_nil, or_false] at ho
    rcases ho with rfl | rfl | rfl | rfl | rfl | rfl | rfl <;> try trivial
    simp only [Op.WF, Resp.WF, Block.WF, respAhead, List.mem_singleton, forall_eq]
    decide
  · refine ⟨fun h => absurd rfl h, ⟨fun _ => ⟨1, by decide⟩, ⟨fun _ => ⟨1, by decide⟩, ⟨trivial,
      ⟨fun _ => ⟨0, by decide⟩, ⟨fun _ => ⟨2, by decide⟩, ⟨fun _ => ⟨1, by decide⟩, trivial⟩⟩⟩⟩⟩⟩⟩
  · intro o ho
    simp only [ops, ops3, List.cons_append, List.nil_append, List.mem_cons, List.not_mem_nil, or_false] at ho
    rcases ho with rfl | rfl | rfl | rfl | rfl | rfl | rfl <;> first | trivial | (show (_ : Int) ≠ 0; decide)

/-- COUNTEREXAMPLE to the full statement (outside honest clocks), for EVERY environment with an injective
    hash: a first tick dated 0
    leaves a non-empty chain with `lastTs = 0`; the aligned tick at `0 + 2·interval` (a skipped tick, which
    must be refused) is then treated as a genesis tick and appends a block two intervals after the tip. -/
theorem C04_chain_invariant_counterexample (env : Env) (hinj : Function.Injective env.hash) :
    ¬ C04_chain_invariant_full env ⟨2, 100, 1, 60, "v"⟩ := by
  intro hfull
  have hs := hfull (by decide) hinj (by decide) [.tick 0 [] "r0", .tick 120 [] "r1"]
    (fun o ho => by
      simp only [List.mem_cons, List.not_mem_nil, or_false] at ho
      rcases ho with rfl | rfl <;> trivial)
    ⟨fun h => absurd rfl h, ⟨fun _ => ⟨2, rfl⟩, trivial⟩⟩
  have e0 : (Ru.run env ⟨2, 100, 1, 60, "v"⟩ Node.empty [.tick 0 [] "r0", .tick 120 [] "r1"]).led.blocks[0]?.map (·.ts)
      = some 0 := by rfl
  have e1 : (Ru.run env ⟨2, 100, 1, 60, "v"⟩ Node.empty [.tick 0 [] "r0", .tick 120 [] "r1"]).led.blocks[1]?.map (·.ts)
      = some 120 := by rfl
  obtain ⟨a, ha, hat⟩ := Option.map_eq_some_iff.mp e0
  obtain ⟨b, hb, hbt⟩ := Option.map_eq_some_iff.mp e1
  have := (hs 0 a b ha hb).1
  rw [hat, hbt] at this
  exact absurd this (by decide)

/-- REGRESSION (defect found by this proof, repaired by the fix: commit).  Before the repair a neighbour could
    offer a two-block chain whose unverified first block is dated one interval before 0 and whose verified
    tip is dated 0 ≤ now; it was adopted after a declared fork, `Validate` then read `lastTs = 0` as "no block
    yet", accepted a late tick as a genesis tick and minted the genesis amount a second time.  `verifyBlock`
    now refuses a block dated 0: the offer is rejected, the ledger is left as it was and the late tick is
    refused. -/
example :
    let g : Block := ⟨zeroHash, some ["v"], none, -60, [⟨"g0", [], [⟨"v", true, 100⟩], -60⟩]⟩
    let b1 : Block := ⟨env.hash g, none, none, 0, [⟨"g1", [], [⟨"v", false, 0⟩], 0⟩]⟩
    (Ledger.verify env cfg m1.led m1.led.blocks.dropLast [g, b1] [] 30).toOption = none ∧
    (Sync.outcomes env cfg m1.led 30 [⟨"p:1", none, some [g, b1]⟩]).map (·.blocks) = [m1.led.blocks] ∧
    (Ru.run env cfg Node.empty [.tick 60 [] "q0", .sync 30 [⟨"p:1", none, some [g, b1]⟩] 0, .tick 600 [] "q1"]
      ).led.blocks.map (fun b => (b.ts, b.txs.map (·.rewardValue))) = [(60, [100])] := by
  decide

/-- the same offer leaves the WHOLE ledger untouched (`outcomes = [host]`) -/
example :
    let g : Block := ⟨zeroHash, some ["v"], none, -60, [⟨"g0", [], [⟨"v", true, 100⟩], -60⟩]⟩
    let b1 : Block := ⟨env.hash g, none, none, 0, [⟨"g1", [], [⟨"v", false, 0⟩], 0⟩]⟩
    Sync.outcomes env cfg m1.led 30 [⟨"p:1", none, some [g, b1]⟩] = [m1.led] := by
  intro g b1
  apply C13_no_candidate_unchanged
  intro r hr
  simp only [List.mem_singleton] at hr
  subst hr
  constructor <;> intro nb h <;> simp only [Option.some.injEq] at h
  · cases h
  subst h
  have hv : (Ledger.verify env cfg m1.led m1.led.blocks.dropLast [g, b1] [] 30).toOption = none := by decide
  cases hx : Ledger.verify env cfg m1.led m1.led.blocks.dropLast [g, b1] [] 30 with
  | error e => exact ⟨e, rfl⟩
  | ok v => rw [hx] at hv; cases hv

/-- All candidate chains: whatever the neighbours answer, every candidate of a sync round run by a node
    with a shaped chain is shaped (blocks that are not re-verified are, by injectivity of the hash, the
    host's own blocks on the host's own predecessors). -/
theorem C04_candidate_shape (env : Env) (cfg : Cfg) (hinj : Function.Injective env.hash) (n : Node)
    (hr : Reachable env cfg n) (hs : Shape cfg n.led.blocks) (now : Int) (resps : List Resp)
    (ht : ∀ r ∈ resps, r.target ≠ "host") (t : String) (bs : List Block)
    (h : (t, bs) ∈ (Sync.choose env cfg n.led now resps).cands) : Shape cfg bs := by
  have hlinked := (C12_chain_linked_invariant env cfg n hr).2
  rcases C06_cand_origin env cfg n.led now resps ht t bs h with ⟨_, e, _⟩ | ⟨_, h2, r, _, nb, _, _, hv, e⟩ |
      ⟨_, r, _, nb, _, _, hv, e⟩
  · rw [e]; exact hs
  · rw [e]; exact ShapeL.shape_phase1 hinj hlinked hs h2 hv
  · rw [e]; exact ShapeL.shape_phase2 hinj hlinked hs hv

example : Reachable env cfg n3 ∧ (∀ r ∈ [respAhead], r.target ≠ "host") ∧
    ("p:1", n4.led.blocks) ∈ (Sync.choose env cfg n3.led 300 [respAhead]).cands :=
  ⟨⟨ops3, by simp [ops3, Op.WF], rfl⟩, by decide, by decide⟩

/-- Every block `verify` accepts as NEW (it has a predecessor and its hash differs from the host block it is
    compared with, or there is none) is dated at or before `now` and not at 0, exactly one interval after its
    predecessor, carries exactly one reward transaction, and its ordinary transactions are dated between
    the two blocks. -/
theorem C04_adopted_not_future (env : Env) (cfg : Cfg) (host : Ledger) (lastHost nb oldHost : List Block)
    (now : Int) (h : Ledger.verify env cfg host lastHost nb oldHost now = .ok nb)
    (j : Nat) (b p : Block) (hb : nb[j]? = some b)
    (hp : (if j = 0 then oldHost.getLast? else nb[j - 1]?) = some p)
    (hnew : ∀ x, lastHost[j]? = some x → env.hash b ≠ env.hash x) :
    b.ts ≤ now ∧ b.ts ≠ 0 ∧ BlockStep cfg p b := by
  have hf := ShapeL.loopFacts_get nb _ 0 (ShapeL.verify_facts h) j b hb
  rcases hf.2 p hp with ⟨x, hx, he⟩ | ⟨h1, h2, h3⟩
  · rw [Nat.zero_add] at hx
    exact absurd he (hnew x hx)
  · exact ⟨h2, h3, h1⟩

example : (Ledger.verify env cfg n3.led n3.led.blocks.getLast?.toList (n4.led.blocks.drop 2)
    n3.led.blocks.dropLast 300).toOption = some (n4.led.blocks.drop 2) ∧
    (n4.led.blocks.drop 2)[1]?.map (·.ts) = some 240 := by decide

/-- No block is adopted whose timestamp lies after the adopting node's current time: a sync round of a
    node with a shaped chain leaves the ledger as it was, or installs a chain ALL of whose blocks are dated
    at or before the round's `now`. -/
theorem C04_adopted_chain_not_future (env : Env) (cfg : Cfg) (hinj : Function.Injective env.hash)
    (hI : 0 ≤ cfg.interval) (n : Node) (hr : Reachable env cfg n) (hs : Shape cfg n.led.blocks)
    (now : Int) (resps : List Resp) (ht : ∀ r ∈ resps, r.target ≠ "host")
    (l : Ledger) (h : l ∈ Sync.outcomes env cfg n.led now resps) :
    l = n.led ∨ ∀ b ∈ l.blocks, b.ts ≤ now :=
  ShapeL.adopted_not_future hinj hI hr hs ht h

/-- non-vacuity: the adoption at `now = 300` of a fourth block dated 240; the same offer at `now = 200`
    (the block would lie in the future) changes nothing -/
example : (Sync.outcomes env cfg n3.led 300 [respAhead]).map (fun l => l.blocks.map (·.ts)) = [[60, 120, 180, 240]] ∧
    (Sync.outcomes env cfg n3.led 200 [respAhead]).map (fun l => l.blocks.map (·.ts)) = [[60, 120, 180]] := by
  decide

end Ru
