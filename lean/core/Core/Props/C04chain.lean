/-
  Core/Props/C04chain.lean — C04 at chain level:
  "Every chain a node holds is hash-linked from its first block and its consecutive block timestamps differ
   by exactly the validation interval; no block is adopted whose timestamp lies after the adopting node's
   current time. Every non-genesis block carries exactly one reward transaction, and every ordinary
   transaction is dated no earlier than the previous block and no later than its own block."
  Quantifier: all candidate chains (ANY neighbour answers) and all honest production histories driven by
  aligned clock ticks (`TickAligned`: repeated, on-time, skipped and late ticks on the block grid).
  Hash-linking is `C12_chain_linked_invariant`; this file proves `Shape`.
-/
import Core.Lemmas.Shape
open Std

set_option maxRecDepth 100000

namespace Ru
open SL.SyncEx

/-- FULL statement (false of the model, see `C04_chain_invariant_counterexample`): every state reached by a
    well-formed history whose ticks are aligned has a shaped chain. -/
def C04_chain_invariant_full (env : Env) (cfg : Cfg) : Prop :=
  1 ≤ cfg.minFee → Function.Injective env.hash → 0 ≤ cfg.interval →
  ∀ ops : List Op, (∀ o ∈ ops, o.WF) → Along env cfg (TickAligned cfg) Node.empty ops →
    Shape cfg (Ru.run env cfg Node.empty ops).led.blocks

/-- PARTIAL: the same, excluding ticks applied to a non-empty chain whose tip is dated 0 (`TipNonzero`;
    `Validate` reads `lastTs = 0` as "no block yet" and then accepts any tick and mints the genesis amount). -/
theorem C04_chain_invariant_partial (env : Env) (cfg : Cfg) (hmin : 1 ≤ cfg.minFee)
    (hinj : Function.Injective env.hash) (hI : 0 ≤ cfg.interval)
    (ops : List Op) (hw : ∀ o ∈ ops, o.WF) (ha : Along env cfg (TickAligned cfg) Node.empty ops)
    (hz : Along env cfg TipNonzero Node.empty ops) :
    Shape cfg (Ru.run env cfg Node.empty ops).led.blocks :=
  ShapeL.shape_run hmin hinj hI ops Node.empty (Reachable.empty env cfg)
    (fun i a b ha _ => by cases ha) hw ha hz

/-- the invariant under the requested name (= `C04_chain_invariant_partial`) -/
theorem C04_chain_invariant (env : Env) (cfg : Cfg) (hmin : 1 ≤ cfg.minFee)
    (hinj : Function.Injective env.hash) (hI : 0 ≤ cfg.interval)
    (ops : List Op) (hw : ∀ o ∈ ops, o.WF) (ha : Along env cfg (TickAligned cfg) Node.empty ops)
    (hz : Along env cfg TipNonzero Node.empty ops) :
    Shape cfg (Ru.run env cfg Node.empty ops).led.blocks :=
  C04_chain_invariant_partial env cfg hmin hinj hI ops hw ha hz

/-- non-vacuity: three on-time ticks, a sync round adopting a peer's fourth block, a repeated tick (refused),
    a skipped tick (refused) and an on-time tick: well-formed, aligned, tips never dated 0; five blocks -/
example : let ops := ops3 ++ [.sync 300 [respAhead] 0, .tick 240 [] "x", .tick 360 [] "y", .tick 300 [] "r4"]
    (∀ o ∈ ops, o.WF) ∧ Along env cfg (TickAligned cfg) Node.empty ops ∧ Along env cfg TipNonzero Node.empty ops ∧
    (Ru.run env cfg Node.empty ops).led.blocks.map (·.ts) = [60, 120, 180, 240, 300] := by
  intro ops
  refine ⟨?_, ?_, ?_, by decide⟩
  · intro o ho
    simp only [ops, ops3, List.cons_append, List.nil_append, List.mem_cons, List.not_mem_nil, or_false] at ho
    rcases ho with rfl | rfl | rfl | rfl | rfl | rfl | rfl <;> try trivial
    simp only [Op.WF, Resp.WF, Block.WF, respAhead, List.mem_singleton, forall_eq]
    decide
  · refine ⟨fun h => absurd rfl h, ⟨fun _ => ⟨1, by decide⟩, ⟨fun _ => ⟨1, by decide⟩, ⟨trivial,
      ⟨fun _ => ⟨0, by decide⟩, ⟨fun _ => ⟨2, by decide⟩, ⟨fun _ => ⟨1, by decide⟩, trivial⟩⟩⟩⟩⟩⟩⟩
  · refine ⟨fun h => absurd rfl h, ⟨fun _ => by decide, ⟨fun _ => by decide, ⟨trivial,
      ⟨fun _ => by decide, ⟨fun _ => by decide, ⟨fun _ => by decide, trivial⟩⟩⟩⟩⟩⟩⟩

/-- COUNTEREXAMPLE to the full statement, for EVERY environment with an injective hash: a first tick dated 0
    leaves a non-empty chain with `lastTs = 0`; the aligned tick at `0 + 2·interval` (a skipped tick, which
    must be refused) is then treated as a genesis tick and appends a block two intervals after the tip. -/
theorem C04_chain_invariant_counterexample (env : Env) (hinj : Function.Injective env.hash) :
    ¬ C04_chain_invariant_full env ⟨2, 100, 1, 60, "v"⟩ := by
  intro hfull
  have hs := hfull (by decide) hinj (by decide) [.tick 0 [] "r0", .tick 120 [] "r1"]
    (fun o ho => by
      simp only [List.mem_cons, List.not_mem_nil, or_false] at ho
      rcases ho with rfl | rfl <;> trivial)
    ⟨fun h => absurd rfl h, ⟨fun _ => ⟨2, rfl⟩, trivial⟩⟩
  have e0 : (Ru.run env ⟨2, 100, 1, 60, "v"⟩ Node.empty [.tick 0 [] "r0", .tick 120 [] "r1"]).led.blocks[0]?.map (·.ts)
      = some 0 := by rfl
  have e1 : (Ru.run env ⟨2, 100, 1, 60, "v"⟩ Node.empty [.tick 0 [] "r0", .tick 120 [] "r1"]).led.blocks[1]?.map (·.ts)
      = some 120 := by rfl
  obtain ⟨a, ha, hat⟩ := Option.map_eq_some_iff.mp e0
  obtain ⟨b, hb, hbt⟩ := Option.map_eq_some_iff.mp e1
  have := (hs 0 a b ha hb).1
  rw [hat, hbt] at this
  exact absurd this (by decide)

/-- OBSERVATION (the excluded case is reachable by adoption, with a first tick dated normally): a neighbour
    offers a two-block chain whose unverified first block is dated one interval before 0; the verified tip
    is dated 0 ≤ now and the chain is adopted after a declared fork.  `Validate` then reads `lastTs = 0` as
    "no block yet": the next aligned tick (ten intervals later — a late tick that must be refused) is
    accepted as a genesis tick and mints the genesis amount a second time. -/
example :
    let g : Block := ⟨zeroHash, some ["v"], none, -60, [⟨"g0", [], [⟨"v", true, 100⟩], -60⟩]⟩
    let b1 : Block := ⟨env.hash g, none, none, 0, [⟨"g1", [], [⟨"v", false, 0⟩], 0⟩]⟩
    (Ru.run env cfg Node.empty [.tick 60 [] "q0", .sync 30 [⟨"p:1", none, some [g, b1]⟩] 0, .tick 600 [] "q1"]
      ).led.blocks.map (fun b => (b.ts, b.txs.map (·.rewardValue))) = [(-60, [100]), (0, [0]), (600, [100])] := by
  decide

/-- All candidate chains: whatever the neighbours answer, every candidate of a sync round run by a node
    with a shaped chain is shaped (blocks that are not re-verified are, by injectivity of the hash, the
    host's own blocks on the host's own predecessors). -/
theorem C04_candidate_shape (env : Env) (cfg : Cfg) (hinj : Function.Injective env.hash) (n : Node)
    (hr : Reachable env cfg n) (hs : Shape cfg n.led.blocks) (now : Int) (resps : List Resp)
    (ht : ∀ r ∈ resps, r.target ≠ "host") (t : String) (bs : List Block)
    (h : (t, bs) ∈ (Sync.choose env cfg n.led now resps).cands) : Shape cfg bs := by
  have hlinked := (C12_chain_linked_invariant env cfg n hr).2
  rcases C06_cand_origin env cfg n.led now resps ht t bs h with ⟨_, e, _⟩ | ⟨_, h2, r, _, nb, _, _, hv, e⟩ |
      ⟨_, r, _, nb, _, _, hv, e⟩
  · rw [e]; exact hs
  · rw [e]; exact ShapeL.shape_phase1 hinj hlinked hs h2 hv
  · rw [e]; exact ShapeL.shape_phase2 hinj hlinked hs hv

example : Reachable env cfg n3 ∧ (∀ r ∈ [respAhead], r.target ≠ "host") ∧
    ("p:1", n4.led.blocks) ∈ (Sync.choose env cfg n3.led 300 [respAhead]).cands :=
  ⟨⟨ops3, by simp [ops3, Op.WF], rfl⟩, by decide, by decide⟩

/-- Every block `verify` accepts as NEW (it has a predecessor and its hash differs from the host block it is
    compared with, or there is none) is dated at or before `now`, exactly one interval after its
    predecessor, carries exactly one reward transaction, and its ordinary transactions are dated between
    the two blocks. -/
theorem C04_adopted_not_future (env : Env) (cfg : Cfg) (host : Ledger) (lastHost nb oldHost : List Block)
    (now : Int) (h : Ledger.verify env cfg host lastHost nb oldHost now = .ok nb)
    (j : Nat) (b p : Block) (hb : nb[j]? = some b)
    (hp : (if j = 0 then oldHost.getLast? else nb[j - 1]?) = some p)
    (hnew : ∀ x, lastHost[j]? = some x → env.hash b ≠ env.hash x) :
    b.ts ≤ now ∧ BlockStep cfg p b := by
  have hf := ShapeL.loopFacts_get nb _ 0 (ShapeL.verify_facts h) j b hb
  rcases hf.2 p hp with ⟨x, hx, he⟩ | ⟨h1, h2⟩
  · rw [Nat.zero_add] at hx
    exact absurd he (hnew x hx)
  · exact ⟨h2, h1⟩

example : (Ledger.verify env cfg n3.led n3.led.blocks.getLast?.toList (n4.led.blocks.drop 2)
    n3.led.blocks.dropLast 300).toOption = some (n4.led.blocks.drop 2) ∧
    (n4.led.blocks.drop 2)[1]?.map (·.ts) = some 240 := by decide

/-- No block is adopted whose timestamp lies after the adopting node's current time: a sync round of a
    node with a shaped chain leaves the ledger as it was, or installs a chain ALL of whose blocks are dated
    at or before the round's `now`. -/
theorem C04_adopted_chain_not_future (env : Env) (cfg : Cfg) (hinj : Function.Injective env.hash)
    (hI : 0 ≤ cfg.interval) (n : Node) (hr : Reachable env cfg n) (hs : Shape cfg n.led.blocks)
    (now : Int) (resps : List Resp) (ht : ∀ r ∈ resps, r.target ≠ "host")
    (l : Ledger) (h : l ∈ Sync.outcomes env cfg n.led now resps) :
    l = n.led ∨ ∀ b ∈ l.blocks, b.ts ≤ now :=
  ShapeL.adopted_not_future hinj hI hr hs ht h

/-- non-vacuity: the adoption at `now = 300` of a fourth block dated 240; the same offer at `now = 200`
    (the block would lie in the future) changes nothing -/
example : (Sync.outcomes env cfg n3.led 300 [respAhead]).map (fun l => l.blocks.map (·.ts)) = [[60, 120, 180, 240]] ∧
    (Sync.outcomes env cfg n3.led 200 [respAhead]).map (fun l => l.blocks.map (·.ts)) = [[60, 120, 180]] := by
  decide

end Ru
