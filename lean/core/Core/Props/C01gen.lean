/-
  Core/Props/C01gen.lean — the uint64 arithmetic of `(*UtxosRegistry).CalculateFee` REGENERATED from utxos_registry.go
  on every run (`Gen.feeInputStep`, `Gen.feeOutputStep`, `Gen.feeFinal`, Core/GenBlocks.lean, Lean `UInt64` = Go's
  wrapping arithmetic) against the exact-arithmetic model of Core/Utxos.lean:
    * the wrap test `acc + v < acc` of the code IS the model's `acc + v ≥ 2^64` (`C01_fee_input_step`, `C01_fee_output_step`),
    * the whole loop over the outputs is the model's `sumOutputs` (`C01_fee_outputs_loop`),
    * the final rule is the model's (`C01_fee_final`): no fee is ever computed by a wrapped subtraction.
-/
import Core.GenBlocks
import Core.Utxos
open Std

namespace Ru

theorem C01_fee_input_step (a v : UInt64) :
    (Gen.feeInputStep a v).map (·.toNat) = if a.toNat + v.toNat ≥ U64 then none else some (a.toNat + v.toNat) := by
  unfold Gen.feeInputStep U64
  have ha := UInt64.toNat_lt a
  have hv := UInt64.toNat_lt v
  have hlt : (a + v < a) ↔ a.toNat + v.toNat ≥ 18446744073709551616 := by
    rw [UInt64.lt_iff_toNat_lt, UInt64.toNat_add]
    omega
  by_cases h : a.toNat + v.toNat ≥ 18446744073709551616
  · have : decide (a + v < a) = true := by simpa using hlt.mpr h
    simp [this, h]
  · have : decide (a + v < a) = false := by simpa using fun x => h (hlt.mp x)
    simp only [this, Bool.false_eq_true, if_false, Option.map_some, h]
    rw [UInt64.toNat_add]
    congr 1
    omega

theorem C01_fee_output_step (a v : UInt64) :
    (Gen.feeOutputStep a v).map (·.toNat) = if a.toNat + v.toNat ≥ U64 then none else some (a.toNat + v.toNat) := by
  unfold Gen.feeOutputStep U64
  have ha := UInt64.toNat_lt a
  have hv := UInt64.toNat_lt v
  have hlt : (a + v < a) ↔ a.toNat + v.toNat ≥ 18446744073709551616 := by
    rw [UInt64.lt_iff_toNat_lt, UInt64.toNat_add]
    omega
  by_cases h : a.toNat + v.toNat ≥ 18446744073709551616
  · have : decide (a + v < a) = true := by simpa using hlt.mpr h
    simp [this, h]
  · have : decide (a + v < a) = false := by simpa using fun x => h (hlt.mp x)
    simp only [this, Bool.false_eq_true, if_false, Option.map_some, h]
    rw [UInt64.toNat_add]
    congr 1
    omega

/-- the loop over the outputs, iterating the generated step -/
def Gen.outputsLoop : List UInt64 → UInt64 → Option UInt64
  | [], acc => some acc
  | v :: vs, acc =>
    match Gen.feeOutputStep acc v with
    | none => none
    | some acc' => Gen.outputsLoop vs acc'

/-- **the outputs loop of the code is the model's `sumOutputs`** (output values are uint64 on the wire) -/
theorem C01_fee_outputs_loop : ∀ (os : List Output) (acc : UInt64), (∀ o ∈ os, o.value < U64) →
    (Gen.outputsLoop (os.map (fun o => UInt64.ofNat o.value)) acc).map (·.toNat) =
      (UtxoReg.sumOutputs os acc.toNat).toOption
  | [], acc, _ => by simp [Gen.outputsLoop, UtxoReg.sumOutputs, Except.toOption]
  | o :: os, acc, h => by
    have ho : o.value < U64 := h o List.mem_cons_self
    have hon : (UInt64.ofNat o.value).toNat = o.value := by
      rw [UInt64.toNat_ofNat']
      unfold U64 at ho
      omega
    have hstep := C01_fee_output_step acc (UInt64.ofNat o.value)
    rw [hon] at hstep
    simp only [List.map_cons, Gen.outputsLoop, UtxoReg.sumOutputs]
    by_cases hov : acc.toNat + o.value ≥ U64
    · rw [if_pos hov] at hstep
      rw [if_pos hov]
      cases hs : Gen.feeOutputStep acc (UInt64.ofNat o.value) with
      | none => simp [Except.toOption]
      | some x => rw [hs] at hstep; simp at hstep
    · rw [if_neg hov] at hstep
      rw [if_neg hov]
      cases hs : Gen.feeOutputStep acc (UInt64.ofNat o.value) with
      | none => rw [hs] at hstep; simp at hstep
      | some x =>
        rw [hs] at hstep
        simp only [Option.map_some, Option.some.injEq] at hstep
        simp only []
        rw [← hstep]
        exact C01_fee_outputs_loop os x (fun o' ho' => h o' (List.mem_cons_of_mem _ ho'))

/-- **the final rule of the code is the model's**: negative fee, fee below the minimum, or the exact difference -/
theorem C01_fee_final (i o m : UInt64) :
    (Gen.feeFinal i o m).map (·.toNat) =
      (if i.toNat < o.toNat then (Except.error "fee-negative" : Except String Nat)
       else if i.toNat - o.toNat < m.toNat then .error "fee-low" else .ok (i.toNat - o.toNat)).toOption := by
  unfold Gen.feeFinal
  have hi := UInt64.toNat_lt i
  have ho := UInt64.toNat_lt o
  by_cases h1 : i.toNat < o.toNat
  · have : decide (i < o) = true := by simpa using UInt64.lt_iff_toNat_lt.mpr h1
    simp [this, h1, Except.toOption]
  · have : decide (i < o) = false := by simpa using fun x => h1 (UInt64.lt_iff_toNat_lt.mp x)
    simp only [this, Bool.false_eq_true, if_false, h1]
    have hsub : (i - o).toNat = i.toNat - o.toNat := by
      rw [UInt64.toNat_sub]; omega
    by_cases h2 : i.toNat - o.toNat < m.toNat
    · have : decide (i - o < m) = true := by
        simpa using UInt64.lt_iff_toNat_lt.mpr (by rw [hsub]; exact h2)
      simp [this, h2, Except.toOption]
    · have hnlt : ¬ (i - o < m) := by
        intro x
        have := UInt64.lt_iff_toNat_lt.mp x
        rw [hsub] at this
        exact h2 this
      have : decide (i - o < m) = false := by simpa using hnlt
      simp [this, h2, Except.toOption, hsub]

-- non-vacuity: the boundary values
example : Gen.feeInputStep 18446744073709551615 1 = none := by decide
example : Gen.feeInputStep 18446744073709551614 1 = some 18446744073709551615 := by decide
example : Gen.feeFinal 100 90 1 = some 10 := by decide
example : Gen.feeFinal 90 100 1 = none := by decide
example : Gen.feeFinal 100 100 1 = none := by decide

end Ru
