/-
  Core/Props/C06.lean — fork choice (C06).
  "A sync round changes a node's chain only to a candidate that passed full verification, and never to a
   shorter chain. The adopted chain is as long as the longest verified candidate, is not on a branch shared
   by fewer than half (rounded down) of the candidates, and among such chains its latest validator has gone
   at least as long without validating as any other's; in every other case, including an identical
   candidate, the chain is left exactly as it was."
-/
import Core.Lemmas.SyncL
open Std

set_option maxRecDepth 100000

namespace Ru
open SL Sync SL.Sync SL.SyncEx

/-- Every candidate of a sync round is the host's own chain, or was returned by `verify` in phase 1
    (tip-incremental, only when no fork was declared) or in phase 2 (from height 0, only in the fork case). -/
theorem C06_cand_origin (env : Env) (cfg : Cfg) (host : Ledger) (now : Int) (resps : List Resp)
    (ht : ∀ r ∈ resps, r.target ≠ "host") (t : String) (bs : List Block)
    (h : (t, bs) ∈ (Sync.choose env cfg host now resps).cands) :
    (t = "host" ∧ bs = host.blocks ∧ host.blocks.length > 2) ∨
    ((Sync.choose env cfg host now resps).isFork = false ∧ host.blocks.length > 2 ∧
      ∃ r ∈ resps, ∃ nb, r.first = some nb ∧ t = r.target ∧
        Ledger.verify env cfg host host.blocks.getLast?.toList nb host.blocks.dropLast now = .ok nb ∧
        bs = host.blocks.dropLast ++ nb) ∨
    ((Sync.choose env cfg host now resps).isFork = true ∧
      ∃ r ∈ resps, ∃ nb, r.second = some nb ∧ t = r.target ∧
        Ledger.verify env cfg host host.blocks.dropLast nb [] now = .ok nb ∧ bs = nb) := by
  rcases Sync.cand_origin ht h with ⟨h1, h2⟩ | ⟨hf, h2, r, hr, nb, h3, hv, h1⟩ | ⟨hf, r, hr, nb, h3, hv, h1⟩
  · have := Prod.mk.inj h1
    left; exact ⟨this.1, this.2, h2⟩
  · have := Prod.mk.inj h1
    right; left; exact ⟨hf, h2, r, hr, nb, h3, this.1, hv, this.2⟩
  · have := Prod.mk.inj h1
    right; right; exact ⟨hf, r, hr, nb, h3, this.1, hv, this.2⟩

/-- non-vacuity: a peer one block ahead; its chain is a phase-1 candidate -/
example : (∀ r ∈ [respAhead], r.target ≠ "host") ∧
    ("p:1", n4.led.blocks) ∈ (Sync.choose env cfg n3.led 300 [respAhead]).cands := by decide
/-- non-vacuity of the phase-2 case: a host on another genesis declares a fork and verifies from height 0 -/
example : (Sync.choose env cfg m1.led 300 [respFull]).isFork = true ∧
    ("p:1", n3.led.blocks) ∈ (Sync.choose env cfg m1.led 300 [respFull]).cands := by decide

/-- What any admissible selection satisfies: it is a candidate, never shorter than the host chain, as long as
    the longest candidate, passes the majority test exactly as coded, and has the maximal (non-zero) age
    among the survivors of the majority and longest filters. -/
theorem C06_selected_spec (env : Env) (cfg : Cfg) (host : Ledger) (now : Int) (resps : List Resp)
    (sel : List Block) (h : sel ∈ Sync.selectionSet (Sync.choose env cfg host now resps)) :
    let ch := Sync.choose env cfg host now resps
    let minL := Sync.minLen host.blocks.length ch.cands
    (∃ t, (t, sel) ∈ ch.cands) ∧
    host.blocks.length ≤ sel.length ∧
    sel.length = Sync.maxLen host.blocks.length ch.cands ∧
    (∀ t bs, (t, bs) ∈ ch.cands → bs.length ≤ sel.length) ∧
    ¬ ((ch.cands.filter (fun other =>
          Sync.prevHashAt sel (minL - 1) == Sync.prevHashAt other.2 (minL - 1))).length < ch.cands.length / 2) ∧
    Sync.age sel = ch.maxAge ∧ 0 < ch.maxAge ∧
    (∀ t' bs', (t', bs') ∈ ch.survivors → Sync.age bs' ≤ Sync.age sel) := by
  intro ch minL
  obtain ⟨hpos, t, hsv, hage⟩ := Sync.mem_selectionSet.mp h
  have hc : (t, sel) ∈ ch.cands := Sync.survivors_sub_cands hsv
  have hsv' := hsv
  rw [Sync.choose_survivors] at hsv'
  obtain ⟨hmaj, hlong⟩ := List.mem_filter.mp hsv'
  unfold Sync.majorityFilter at hmaj
  have hmaj2 := (List.mem_filter.mp hmaj).2
  simp only [Bool.not_eq_true', decide_eq_false_iff_not, Nat.not_lt] at hlong
  have hle : sel.length ≤ Sync.maxLen host.blocks.length ch.cands := Sync.maxLen_ge_mem _ _ hc
  have heq : sel.length = Sync.maxLen host.blocks.length ch.cands := Nat.le_antisymm hle hlong
  refine ⟨⟨t, hc⟩, Nat.le_trans (Sync.maxLen_ge _ _) hlong, heq, ?_, ?_, hage, Nat.pos_of_ne_zero hpos, ?_⟩
  · intro t' bs' h'
    rw [heq]; exact Sync.maxLen_ge_mem _ _ h'
  · simpa using hmaj2
  · intro t' bs' h'
    rw [hage, Sync.choose_maxAge]
    exact Sync.foldl_max_ge_mem (fun (kv : String × List Block) => Sync.age kv.2) _ 0 h'

/-- non-vacuity: the longer chain is selected; with two competing longer chains both are admissible -/
example : n4.led.blocks ∈ Sync.selectionSet (Sync.choose env cfg n3.led 300 [respAhead]) := by decide
example : Sync.selectionSet (Sync.choose env cfg n3.led 300 [respAhead, respAhead']) =
    [n4.led.blocks, n4'.led.blocks] := by decide

/-- Every ledger a sync round can end in is the host ledger itself (chain, outputs, registry and pending
    removals untouched), or carries a selected chain that `isDifferent` reports as different. -/
theorem C06_outcome_spec (env : Env) (cfg : Cfg) (host : Ledger) (now : Int) (resps : List Resp)
    (ht : ∀ r ∈ resps, r.target ≠ "host") (l : Ledger) (h : l ∈ Sync.outcomes env cfg host now resps) :
    l = host ∨ ∃ sel ∈ Sync.selectionSet (Sync.choose env cfg host now resps),
      Sync.isDifferent env host.blocks sel = true ∧ l.blocks = sel := by
  rcases Sync.outcome_cases ht h with h | ⟨sel, hs, hd, _, hb⟩
  · left; exact h
  · right; exact ⟨sel, hs, hd, hb⟩

/-- non-vacuity: an adoption (second disjunct) and a round that keeps the host (first disjunct) -/
example : (∀ r ∈ [respAhead], r.target ≠ "host") ∧
    (Sync.outcomes env cfg n3.led 300 [respAhead]).map (·.blocks) = [n4.led.blocks] ∧
    n4.led.blocks ≠ n3.led.blocks := by decide
example : (Sync.outcomes env cfg n3.led 300 [⟨"p:1", none, none⟩]).map (·.blocks) = [n3.led.blocks] := by decide

/-- An identical candidate (same tip hash, not longer) leaves the ledger exactly as it was. -/
theorem C06_identical_kept (env : Env) (isFork : Bool) (host : Ledger) (sel : List Block)
    (hlen : sel.length ≤ host.blocks.length)
    (hhash : sel.getLast?.map env.hash = host.blocks.getLast?.map env.hash) :
    Sync.commit env isFork host sel = host := by
  apply Sync.commit_not_different
  unfold Sync.isDifferent
  rw [if_neg (by omega)]
  split
  · cases h1 : sel.getLast? <;> cases h2 : host.blocks.getLast? <;> simp_all
  · rfl

example : n3.led.blocks.length ≤ n3.led.blocks.length ∧
    n3.led.blocks.getLast?.map env.hash = n3.led.blocks.getLast?.map env.hash := ⟨Nat.le_refl _, rfl⟩

/-- A sync round never shortens the chain (no hypothesis on the responses at all). -/
theorem C06_never_shorter (env : Env) (cfg : Cfg) (host : Ledger) (now : Int) (resps : List Resp)
    (l : Ledger) (h : l ∈ Sync.outcomes env cfg host now resps) : host.blocks.length ≤ l.blocks.length := by
  rcases Sync.mem_outcomes h with h | ⟨sel, hs, rfl⟩
  · rw [h]; exact Nat.le_refl _
  · rcases Sync.commit_blocks_cases env (Sync.choose env cfg host now resps).isFork host sel with h | ⟨_, h⟩
    · rw [h]; exact Nat.le_refl _
    · rw [h]; exact (C06_selected_spec env cfg host now resps sel hs).2.1

example : ∃ l ∈ Sync.outcomes env cfg n3.led 300 [respAhead], n3.led.blocks.length < l.blocks.length := by decide

/-- A node with an empty chain never adopts anything in a sync round (`len(hostBlocks) > 0` guards the
    full verification and `len(hostBlocks) > 2` the incremental one). -/
theorem C06_empty_host_unchanged (env : Env) (cfg : Cfg) (host : Ledger) (now : Int) (resps : List Resp)
    (h0 : host.blocks = []) : Sync.outcomes env cfg host now resps = [host] := by
  apply Sync.outcomes_of_host_cands
  have hf : (Sync.choose env cfg host now resps).isFork = false := by
    rw [Sync.choose_isFork, h0]; rfl
  rw [Sync.choose_cands_nofork hf]
  unfold Sync.cands1
  rw [if_neg (by rw [h0]; simp)]

example : Sync.outcomes env cfg Ledger.empty 300 [respFull] = [Ledger.empty] :=
  C06_empty_host_unchanged _ _ _ _ _ rfl

/-- The Go loop indexes `blocks[minLength-1]` for every candidate: the index is always in range. -/
theorem C06_index_safe (env : Env) (cfg : Cfg) (host : Ledger) (now : Int) (resps : List Resp)
    (ht : ∀ r ∈ resps, r.target ≠ "host") (t : String) (bs : List Block)
    (h : (t, bs) ∈ (Sync.choose env cfg host now resps).cands) :
    let minL := Sync.minLen host.blocks.length (Sync.choose env cfg host now resps).cands
    1 ≤ minL ∧ minL ≤ bs.length ∧ host.blocks ≠ [] ∧ bs ≠ [] ∧
    ∃ b, bs[minL - 1]? = some b ∧ Sync.prevHashAt bs (minL - 1) = b.prevHash := by
  intro minL
  have h1 : 1 ≤ minL := Sync.minLen_ge _ 1 _ (Sync.cand_nonempty ht h).2
    (fun kv hkv => (Sync.cand_nonempty ht hkv).1)
  have h2 : minL ≤ bs.length := Sync.minLen_le_mem _ _ h
  have h3 := Sync.cand_nonempty ht h
  refine ⟨h1, h2, ?_, ?_, ?_⟩
  · intro e; rw [e] at h3; simp at h3
  · intro e; rw [e] at h3; simp at h3
  · have hlt : minL - 1 < bs.length := by omega
    refine ⟨bs[minL - 1], List.getElem?_eq_getElem hlt, ?_⟩
    unfold Sync.prevHashAt
    rw [List.getElem?_eq_getElem hlt]

example : Sync.minLen n3.led.blocks.length (Sync.choose env cfg n3.led 300 [respAhead]).cands = 3 ∧
    (Sync.choose env cfg n3.led 300 [respAhead]).cands.length = 2 := by decide

/-- Go's selection loop (`Sync.pickFirstMax`: first strictly greater age wins, starting from 0) run over
    ANY iteration order of the surviving chains yields an element of `selectionSet` (nothing exactly when it
    is empty), and every element of `selectionSet` is the loop's result for some iteration order. -/
theorem C06_order_set (env : Env) (cfg : Cfg) (host : Ledger) (now : Int) (resps : List Resp) :
    let ch := Sync.choose env cfg host now resps
    (∀ order : List (List Block), order.Perm (ch.survivors.map (·.2)) →
      match Sync.pickFirstMax order with
      | some sel => sel ∈ Sync.selectionSet ch
      | none => Sync.selectionSet ch = []) ∧
    (∀ sel ∈ Sync.selectionSet ch, ∃ order : List (List Block),
      order.Perm (ch.survivors.map (·.2)) ∧ Sync.pickFirstMax order = some sel) := by
  intro ch
  exact ⟨fun order hp => Sync.pick_sound (Sync.choose_maxAge env cfg host now resps) hp,
    fun sel hs => Sync.pick_complete (Sync.choose_maxAge env cfg host now resps) hs⟩

/-- non-vacuity: two survivors of equal age; each iteration order picks its first one -/
example : Sync.pickFirstMax [n4.led.blocks, n4'.led.blocks] = some n4.led.blocks ∧
    Sync.pickFirstMax [n4'.led.blocks, n4.led.blocks] = some n4'.led.blocks ∧
    (Sync.choose env cfg n3.led 300 [respAhead, respAhead']).survivors.map (·.2) = [n4.led.blocks, n4'.led.blocks] := by
  decide

end Ru
