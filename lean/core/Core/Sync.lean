/-
  Core/Sync.lean — model of Blockchain.Update (fork choice and commit).

  A neighbour's behaviour in one round is what it answered to the (at most two) GetBlocks calls:
  `none` = error / timeout / undecodable, `some blocks` = ANY list of blocks.  "Offered by arbitrary
  neighbours" is therefore literally ∀ resps.  Go's map iteration order over candidates only matters for
  ties in the oldest-validator selection; `selectionSet` returns every chain an iteration order can pick.
-/
import Core.Pool
open Std

namespace Ru

structure Resp where
  target : String
  first  : Option (List Block)     -- answer to GetBlocks(len-1) (only asked when the host has more than 2 blocks)
  second : Option (List Block)     -- answer to GetBlocks(0) (only asked in the full-verification phase)

abbrev Cands := List (String × List Block)      -- blocksByTarget (insertion = map assignment)

def Cands.set (c : Cands) (t : String) (bs : List Block) : Cands :=
  if c.any (fun kv => kv.1 == t) then c.map (fun kv => if kv.1 == t then (t, bs) else kv) else c ++ [(t, bs)]

namespace Sync

/-- phase 1: incremental verification from the tip -/
def phase1 (env : Env) (cfg : Cfg) (host : Ledger) (now : Int) : List Resp → Cands → Cands
  | [], c => c
  | r :: rs, c =>
    let old := host.blocks.dropLast
    let last := match host.blocks.getLast? with | some b => [b] | none => []
    let c' := match r.first with
      | none => c
      | some nb =>
        match Ledger.verify env cfg host last nb old now with
        | .error _ => c
        | .ok verified => c.set r.target (old ++ verified)
    phase1 env cfg host now rs c'

/-- phase 2: full verification from height 0 -/
def phase2 (env : Env) (cfg : Cfg) (host : Ledger) (now : Int) : List Resp → Cands → Cands
  | [], c => c
  | r :: rs, c =>
    let c' := match r.second with
      | none => c
      | some nb =>
        match Ledger.verify env cfg host host.blocks.dropLast nb [] now with
        | .error _ => c
        | .ok verified => c.set r.target verified
    phase2 env cfg host now rs c'

def prevHashAt (bs : List Block) (i : Nat) : Hash :=
  match bs[i]? with
  | some b => b.prevHash
  | none => "PANIC:index"

/-- reward recipient of a block as the selection loop computes it: the LAST reward transaction -/
def tipRecipient (b : Block) : String :=
  b.txs.foldl (fun acc t => if t.hasReward then t.rewardRecipient else acc) ""

/-- first reward transaction of a block -/
def firstReward (b : Block) : Option Tx := b.txs.find? (·.hasReward)

/-- scan from block len-2 down to 0 (`rev` = blocks below the tip, newest first) -/
def ageScan (who : String) : List Block → Nat → Nat
  | [], age => age
  | b :: rest, age =>
    match firstReward b with
    | none => ageScan who rest age
    | some t => if t.rewardRecipient == who then age + 1 else ageScan who rest (age + 1)

def age (bs : List Block) : Nat :=
  match bs.getLast? with
  | none => 0
  | some tip => ageScan (tipRecipient tip) bs.dropLast.reverse 0

structure Choice where
  isFork   : Bool
  cands    : Cands          -- after phase 1/2
  survivors : Cands         -- after majority and longest filters
  maxAge   : Nat

def minLen (hostLen : Nat) (c : Cands) : Nat := c.foldl (fun m kv => min m kv.2.length) hostLen
def maxLen (hostLen : Nat) (c : Cands) : Nat := c.foldl (fun m kv => max m kv.2.length) hostLen

def majorityFilter (c : Cands) (minL : Nat) : Cands :=
  let half := c.length / 2
  c.filter (fun kv =>
    let same := (c.filter (fun other => prevHashAt kv.2 (minL - 1) == prevHashAt other.2 (minL - 1))).length
    !(same < half))

def choose (env : Env) (cfg : Cfg) (host : Ledger) (now : Int) (resps : List Resp) : Choice :=
  let hb := host.blocks
  let c0 : Cands := if hb.length > 2 then [("host", hb)] else []
  let c1 := if hb.length > 2 then phase1 env cfg host now resps c0 else c0
  let isFork := hb.length > 0 && c1.length < 2 && resps.length > 0
  let c2 := if isFork then phase2 env cfg host now resps c1 else c1
  let minL := minLen hb.length c2
  let maxL := maxLen hb.length c2
  let s1 := majorityFilter c2 minL
  let s2 := s1.filter (fun kv => !(kv.2.length < maxL))
  let mAge := s2.foldl (fun m kv => max m (age kv.2)) 0
  ⟨isFork, c2, s2, mAge⟩

/-- every chain some map-iteration order selects: a survivor of maximal, non-zero age -/
def selectionSet (ch : Choice) : List (List Block) :=
  if ch.maxAge == 0 then [] else (ch.survivors.filter (fun kv => age kv.2 == ch.maxAge)).map (·.2)

def isDifferent (env : Env) (hb sel : List Block) : Bool :=
  if hb.length < sel.length then true
  else if sel.length ≥ 2 then
    match sel.getLast?, hb.getLast? with
    | some a, some b => env.hash a != env.hash b
    | _, _ => false
  else false

def replay (l : Ledger) : List Block → Ledger × Bool
  | [] => (l, true)
  | b :: rest =>
    match l.utxos.update b.txs b.ts with
    | .error _ => let (l', _) := replay l rest; (l', false)          -- Go logs, sets isReplaced=false, continues
    | .ok u' => replay ⟨l.blocks, u', l.reg.update b.addedL b.removedL⟩ rest

/-- commit of a selected chain (`sel` ∈ selectionSet or [] when nothing is selected) -/
def commit (env : Env) (isFork : Bool) (host : Ledger) (sel : List Block) : Ledger :=
  if !(isDifferent env host.blocks sel && sel.length != 0) then host
  else
    let base : Ledger := if isFork then ⟨host.blocks, .empty, .empty⟩ else host
    let newBlocks :=
      if isFork then sel.dropLast
      else if host.blocks.length < sel.length then (sel.drop (host.blocks.length - 1)).dropLast
      else []
    let (l', ok) := replay base newBlocks
    if ok then { l' with blocks := sel } else l'

/-- all ledgers `Update(now)` can end in (one per admissible selection; `[host]` when nothing is selected) -/
def outcomes (env : Env) (cfg : Cfg) (host : Ledger) (now : Int) (resps : List Resp) : List Ledger :=
  let ch := choose env cfg host now resps
  match selectionSet ch with
  | [] => [host]
  | sels => sels.map (commit env ch.isFork host)

end Sync
end Ru
