/-
  Core/Machine.lean — the node as a state machine over operations; `Reachable` = every state some
  history of operations produces.  History theorems (C01–C07, C10–C13) quantify over `Reachable`.

  Everything the environment chooses is an argument of the operation, so "for all neighbours / shuffles /
  map orders / submitted transactions" is literally ∀ over `Op`:
    tick    ts perm rewardId : block production; `perm` = the pool after rand.Shuffle (any permutation)
    submit  tx               : a client or peer submits ANY well-formed transaction
    sync    now resps pick   : a sync round; `resps` = what each neighbour answered (ANY block lists);
                               `pick` = which of the admissible selections Go's map order produced
    regsync newly            : registry refresh appends `newly` (any sublist of registered addresses, any order)
-/
import Core.Sync
open Std

namespace Ru

inductive Op where
  | tick (ts : Int) (perm : List Tx) (rewardId : String)
  | submit (tx : Tx)
  | sync (now : Int) (resps : List Resp) (pick : Nat)
  | regsync (newly : List String)

/-- well-formedness the boundary guarantees: decoders establish `Tx.WF` for every transaction; neighbour
    targets are host:port strings, never the reserved map key "host" -/
def Block.WF (b : Block) : Prop := ∀ t ∈ b.txs, t.WF

def Resp.WF (r : Resp) : Prop :=
  r.target ≠ "host" ∧ (∀ bs, r.first = some bs → ∀ b ∈ bs, b.WF) ∧ (∀ bs, r.second = some bs → ∀ b ∈ bs, b.WF)

def Op.WF : Op → Prop
  | .tick _ _ _ => True
  | .submit tx => tx.WF
  | .sync _ resps _ => ∀ r ∈ resps, r.WF
  | .regsync _ => True

def step (env : Env) (cfg : Cfg) (n : Node) : Op → Node
  | .tick ts perm rewardId =>
    if perm.isPerm n.pool then (n.produce env cfg ts perm rewardId).getD n else n
  | .submit tx => n.admitTx env cfg tx
  | .sync now resps pick =>
    match (Sync.outcomes env cfg n.led now resps)[pick]? with
    | some l => { n with led := l }
    | none => n
  | .regsync newly =>
    if newly.all (fun a => n.led.reg.isRegistered a) then
      { n with led := { n.led with reg := n.led.reg.appendPending newly } }
    else n

def run (env : Env) (cfg : Cfg) (n : Node) (ops : List Op) : Node := ops.foldl (step env cfg) n

/-- states reachable from the empty node by well-formed operations -/
def Reachable (env : Env) (cfg : Cfg) (n : Node) : Prop :=
  ∃ ops : List Op, (∀ o ∈ ops, o.WF) ∧ n = run env cfg Node.empty ops

theorem Reachable.empty (env : Env) (cfg : Cfg) : Reachable env cfg Node.empty := ⟨[], by simp, rfl⟩

theorem Reachable.next {env : Env} {cfg : Cfg} {n : Node} (h : Reachable env cfg n) (o : Op) (ho : o.WF) :
    Reachable env cfg (Ru.step env cfg n o) := by
  obtain ⟨ops, hw, rfl⟩ := h
  refine ⟨ops ++ [o], ?_, ?_⟩
  · intro x hx
    rcases List.mem_append.mp hx with h1 | h1
    · exact hw x h1
    · simp at h1; subst h1; exact ho
  · simp [run, List.foldl_append]

/-- induction principle: a predicate true of the empty node and preserved by every well-formed step
    holds of every reachable state -/
theorem Reachable.induction {env : Env} {cfg : Cfg} (P : Node → Prop) (h0 : P Node.empty)
    (hs : ∀ n (o : Op), Reachable env cfg n → P n → o.WF → P (Ru.step env cfg n o)) :
    ∀ n, Reachable env cfg n → P n := by
  intro n ⟨ops, hw, hn⟩
  subst hn
  suffices ∀ (ops : List Op) (m : Node), Reachable env cfg m → P m → (∀ o ∈ ops, o.WF) →
      P (run env cfg m ops) from this ops Node.empty (Reachable.empty env cfg) h0 hw
  intro ops
  induction ops with
  | nil => intro m _ hp _; simpa [run] using hp
  | cons o os ih =>
    intro m hr hp hw
    have ho : o.WF := hw o (by simp)
    have : run env cfg m (o :: os) = run env cfg (Ru.step env cfg m o) os := by simp [run]
    rw [this]
    exact ih _ (hr.next o ho) (hs m o hr hp ho) (fun x hx => hw x (by simp [hx]))

end Ru
