/-
  Core/Addr.lean — model of verification/addresses_registry.go (after the fix: commits:
  RemovedAddresses() and Copy() hand out copies, so the pure value semantics below is what the code does).
-/
import Std.Data.TreeSet
import Core.Basic
open Std

namespace Ru

structure AddrReg where
  registered : TreeSet String             -- registeredAddresses (map[string]bool used as a set)
  pending    : Option (List String)       -- removedAddresses; none = Go nil slice

namespace AddrReg

def empty : AddrReg := ⟨{}, none⟩

def isRegistered (r : AddrReg) (a : String) : Bool := r.registered.contains a

/-- `Filter`: the not-yet-registered addresses, in order, duplicates kept; nil when there is none -/
def filter (r : AddrReg) (addresses : List String) : Option (List String) :=
  match addresses.filter (fun a => !r.registered.contains a) with
  | [] => none
  | l => some l

/-- `removeAddress`: first occurrence removed; a nil slice stays nil -/
def removeAddress (p : Option (List String)) (a : String) : Option (List String) :=
  match p with
  | none => none
  | some l => some (eraseFirst (fun x => x == a) l)

def applyRemovals : AddrReg → List String → AddrReg
  | r, [] => r
  | r, a :: as => applyRemovals ⟨r.registered.erase a, removeAddress r.pending a⟩ as

/-- `Update(added, removed)`: removals first, then additions -/
def update (r : AddrReg) (added removed : List String) : AddrReg :=
  let r1 := applyRemovals r removed
  ⟨added.foldl (fun s a => s.insert a) r1.registered, r1.pending⟩

/-- `Synchronize`: appends, in map-iteration order (parameter `newly`), every registered address the
    proof-of-humanity oracle calls invalid.  `appendPending` is the effect for a given order. -/
def appendPending (r : AddrReg) (newly : List String) : AddrReg :=
  match newly with
  | [] => r                                           -- nothing appended: nil stays nil
  | _ => ⟨r.registered, some (r.pending.getD [] ++ newly)⟩

/-- the set `Synchronize` must append (as a sorted list): registered ∧ invalid ∧ oracle did not fail -/
def toAppend (r : AddrReg) (invalid failing : List String) : List String :=
  r.registered.toList.filter (fun a => invalid.contains a && !failing.contains a)

def clear (_ : AddrReg) : AddrReg := empty

end AddrReg
end Ru
