/-
  Core/Interleave.lean — the node's state machine extended with ONE interleaving below operation granularity:
  a sync round during which the node's own validation tick runs to completion.

  `Blockchain.Update` snapshots the chain, then waits for its neighbours WITHOUT holding the chain lock; the
  validation engine may produce a block meanwhile.  The round's commit section (under the write lock) gives up
  when the chain is no longer the snapshot ("blockchain kept, it has changed during the verification"); when it
  is, nothing the round read has changed (a refused tick leaves the node as it was), so the round commits as if it
  ran alone.  Wherever between the snapshot and the commit the tick lands, the outcome is the same, which is why one
  operation suffices:
    syncTick now resps pick ts perm rewardId
-/
import Core.Machine
open Std

namespace Ru

inductive OpX where
  | base (o : Op)
  | syncTick (now : Int) (resps : List Resp) (pick : Nat) (ts : Int) (perm : List Tx) (rewardId : String)
  /-- a submission admitted while the round waits for its neighbours (`AddTransaction` reads the chain and the
      confirmed outputs, which the round does not touch before its commit section) -/
  | syncSubmit (now : Int) (resps : List Resp) (pick : Nat) (tx : Tx)

/-- the sequential operations an extended operation is made of -/
def OpX.shadows : OpX → List Op
  | .base o => [o]
  | .syncTick now resps pick ts perm rewardId => [.tick ts perm rewardId, .sync now resps pick]
  | .syncSubmit now resps pick tx => [.submit tx, .sync now resps pick]

def OpX.WF (x : OpX) : Prop := ∀ o ∈ x.shadows, o.WF

def stepX (env : Env) (cfg : Cfg) (n : Node) : OpX → Node
  | .base o => step env cfg n o
  | .syncTick now resps pick ts perm rewardId =>
    -- the tick, run to completion after the round took its snapshot `n.led.blocks`
    let n1 := step env cfg n (.tick ts perm rewardId)
    -- the commit section: give up when the chain is no longer the snapshot (block production only appends, so
    -- comparing lengths is comparing chains)
    if n1.led.blocks.length = n.led.blocks.length then
      match (Sync.outcomes env cfg n.led now resps)[pick]? with
      | some l => { n1 with led := l }
      | none => n1
    else n1
  | .syncSubmit now resps pick tx =>
    -- admission against the ledger the round started from (the round has not committed yet) …
    let n1 := n.admitTx env cfg tx
    -- … then the round's commit, on the snapshot (admission leaves the ledger alone)
    match (Sync.outcomes env cfg n.led now resps)[pick]? with
    | some l => { n1 with led := l }
    | none => n1

def runX (env : Env) (cfg : Cfg) (n : Node) (xs : List OpX) : Node := xs.foldl (stepX env cfg) n

/-- states reachable by well-formed histories that may contain tick-inside-sync interleavings -/
def ReachableX (env : Env) (cfg : Cfg) (n : Node) : Prop :=
  ∃ xs : List OpX, (∀ x ∈ xs, x.WF) ∧ n = runX env cfg Node.empty xs


/-! ### the converse interleaving: a sync round committing inside block production

`TransactionsPool.Validate` reads the last block's timestamp and transactions and the confirmed outputs, selects
transactions against them, and only then calls `Blockchain.AddBlock`; the chain lock is not held in between, so a sync
round may commit in between.  `produceOn r w` is block production whose reads saw ledger `r` and whose final `AddBlock`
acts on ledger `w` (`produceOn l l` is `produce`, `produce_eq_produceOn`).  This interleaving is NOT simulated by a
sequential history: `Core/Props/Cinter.lean` proves a concrete counterexample (the known finding of C16). -/

namespace Node

def produceOn (env : Env) (cfg : Cfg) (r w : Ledger) (ts : Int) (perm : List Tx) (rewardId : String) : Option Ledger :=
  let last := r.lastTs
  let next := last + cfg.interval
  let genesis := last == 0
  if !genesis && last == ts then none
  else if !genesis && ts > next then none
  else
    match r.utxos.update r.lastTxs next with
    | .error _ => none
    | .ok copy =>
      let (kept, fees, _) := produceLoop env cfg r.utxos ts last next perm copy (if genesis then cfg.genesis else 0) []
      let newAddrs := (if genesis then [cfg.validator] else []) ++ yieldingAddrs kept
      let rtx := rewardTx rewardId cfg.validator genesis ts fees
      match w.addBlock env ts (kept ++ [rtx]) newAddrs with
      | .error _ => none
      | .ok led' => some led'

end Node

/-- a tick (reads on the node's ledger) inside which the sync round `now resps pick` commits before `AddBlock` -/
def stepTickSync (env : Env) (cfg : Cfg) (n : Node) (ts : Int) (perm : List Tx) (rewardId : String)
    (now : Int) (resps : List Resp) (pick : Nat) : Node :=
  if perm.isPerm n.pool then
    match (Sync.outcomes env cfg n.led now resps)[pick]? with
    | some l' =>
      match Node.produceOn env cfg n.led l' ts perm rewardId with
      | some led => ⟨led, []⟩
      | none => { n with led := l' }
    | none => step env cfg n (.tick ts perm rewardId)
  else n

end Ru
