/-
  Core/Interleave.lean — the node's state machine extended with ONE interleaving below operation granularity:
  a sync round during which the node's own validation tick runs to completion.

  `Blockchain.Update` snapshots the chain, then waits for its neighbours WITHOUT holding the chain lock; the
  validation engine may produce a block meanwhile.  The round's commit section (under the write lock) gives up
  when the chain is no longer the snapshot ("blockchain kept, it has changed during the verification"); when it
  is, nothing the round read has changed (a refused tick leaves the node as it was), so the round commits as if it
  ran alone.  Wherever between the snapshot and the commit the tick lands, the outcome is the same, which is why one
  operation suffices:
    syncTick now resps pick ts perm rewardId
-/
import Core.Machine
open Std

namespace Ru

inductive OpX where
  | base (o : Op)
  | syncTick (now : Int) (resps : List Resp) (pick : Nat) (ts : Int) (perm : List Tx) (rewardId : String)

/-- the sequential operations an extended operation is made of -/
def OpX.shadows : OpX → List Op
  | .base o => [o]
  | .syncTick now resps pick ts perm rewardId => [.tick ts perm rewardId, .sync now resps pick]

def OpX.WF (x : OpX) : Prop := ∀ o ∈ x.shadows, o.WF

def stepX (env : Env) (cfg : Cfg) (n : Node) : OpX → Node
  | .base o => step env cfg n o
  | .syncTick now resps pick ts perm rewardId =>
    -- the tick, run to completion after the round took its snapshot `n.led.blocks`
    let n1 := step env cfg n (.tick ts perm rewardId)
    -- the commit section: give up when the chain is no longer the snapshot (block production only appends, so
    -- comparing lengths is comparing chains)
    if n1.led.blocks.length = n.led.blocks.length then
      match (Sync.outcomes env cfg n.led now resps)[pick]? with
      | some l => { n1 with led := l }
      | none => n1
    else n1

def runX (env : Env) (cfg : Cfg) (n : Node) (xs : List OpX) : Node := xs.foldl (stepX env cfg) n

/-- states reachable by well-formed histories that may contain tick-inside-sync interleavings -/
def ReachableX (env : Env) (cfg : Cfg) (n : Node) : Prop :=
  ∃ xs : List OpX, (∀ x ∈ xs, x.WF) ∧ n = runX env cfg Node.empty xs

end Ru
