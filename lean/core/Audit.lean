import Core
