/-
  Driver.lean — `rudriver`: replays a trace of operations (one JSON object per line on stdin) on the model
  and, per line, prints one JSON object with
    diffs : where the implementation's observed state differs from the model's prediction,
    props : RuSpec clauses that are false of the IMPLEMENTATION's observed state,
    miss  : true when the valuation table shipped with the trace did not cover what the model asked.
  Core Lean + Lean.Data.Json only (no Mathlib), so it links as a lean_exe.
-/
import Lean.Data.Json
import Core.Spec
import Core.Sync
import Core.Interleave
open Lean Std Ru

namespace Drv

abbrev E := Except String

def jget (j : Json) (k : String) : E Json := j.getObjVal? k
def jgetD (j : Json) (k : String) : Json := (j.getObjVal? k).toOption.getD Json.null
def jstr (j : Json) : E String := j.getStr?
def jint (j : Json) : E Int := j.getInt?
def jnat (j : Json) : E Nat := j.getNat?
def jbool (j : Json) : E Bool := j.getBool?
def jarr (j : Json) : E (Array Json) := if j.isNull then pure #[] else j.getArr?

def jstrList (j : Json) : E (List String) := do
  let a ← jarr j
  a.toList.mapM jstr

def jOptStrList (j : Json) : E (Option (List String)) :=
  if j.isNull then pure none else do pure (some (← jstrList j))

structure DS where
  cfg     : Cfg := ⟨100, 0, 0, 1, ""⟩
  vals    : TreeMap String Nat := {}
  txs     : TreeMap String Tx := {}
  blocks  : TreeMap String Block := {}       -- by hash
  hashOf  : TreeMap String String := {}      -- content key → hash
  nodes   : TreeMap String Node := {}
  valid   : TreeMap String String := {}      -- node → validator address
  monitorsOn : Bool := true                  -- off for traces outside the properties' quantifiers (off-grid ticks)
  notes   : List String := []

def blockKey (b : Block) : String :=
  let l (o : Option (List String)) : String := match o with | none => "~" | some x => "[" ++ ",".intercalate x ++ "]"
  s!"{b.prevHash}|{l b.added}|{l b.removed}|{b.ts}|{",".intercalate (b.txs.map (·.id))}"

def valKey (a : Nat) (y : Bool) (e : Int) : String := s!"{a}|{if y then 1 else 0}|{e}"

def mkEnv (ds : DS) (dflt : Nat) : Env :=
  { val := fun a y e => if e == 0 then a else (ds.vals.get? (valKey a y e)).getD dflt,
    hash := fun b => (ds.hashOf.get? (blockKey b)).getD ("?" ++ blockKey b) }

def parseTx (j : Json) : E Tx := do
  let id ← jstr (← jget j "id")
  let ts ← jint (← jget j "ts")
  let ins ← (← jarr (jgetD j "in")).toList.mapM fun i => do
    pure ({ txId := ← jstr (← jget i "t"), index := ← jnat (← jget i "i"), pk := ← jstr (← jget i "pk"),
            sig := ← jstr (← jget i "sg"), address := ← jstr (← jget i "a"), sigValid := ← jbool (← jget i "ok") } : Input)
  let outs ← (← jarr (jgetD j "out")).toList.mapM fun o => do
    pure ({ address := ← jstr (← jget o "a"), yielding := ← jbool (← jget o "y"), value := ← jnat (← jget o "v") } : Output)
  pure { id := id, inputs := ins, outputs := outs, ts := ts }

def parseBlock (ds : DS) (j : Json) : E (String × Block) := do
  let h ← jstr (← jget j "h")
  let ids ← jstrList (← jget j "tx")
  let txs ← ids.mapM fun id => match ds.txs.get? id with
    | some t => pure t
    | none => throw s!"block {h}: unknown tx {id}"
  pure (h, { prevHash := ← jstr (← jget j "p"), added := ← jOptStrList (jgetD j "ad"),
             removed := ← jOptStrList (jgetD j "rm"), ts := ← jint (← jget j "ts"), txs := txs })

def loadDefs (ds : DS) (j : Json) : E DS := do
  if j.isNull then return ds
  let mut ds := ds
  for t in (← jarr (jgetD j "txs")) do
    let tx ← parseTx t
    match ds.txs.get? tx.id with
    | some old => if old != tx then ds := { ds with notes := ds.notes ++ [s!"tx id {tx.id} redefined with different content"] }
    | none => ds := { ds with txs := ds.txs.insert tx.id tx }
  for b in (← jarr (jgetD j "blocks")) do
    let (h, blk) ← parseBlock ds b
    let key := blockKey blk
    match ds.hashOf.get? key with
    | some h' => if h' != h then ds := { ds with notes := ds.notes ++ [s!"same block content, two hashes {h} {h'}"] }
    | none => pure ()
    match ds.blocks.get? h with
    | some old => if blockKey old != key then ds := { ds with notes := ds.notes ++ [s!"hash {h} names two different blocks"] }
    | none => pure ()
    ds := { ds with blocks := ds.blocks.insert h blk, hashOf := ds.hashOf.insert key h }
  for v in (← jarr (jgetD j "vals")) do
    let a ← jarr v
    if a.size == 4 then
      let k := valKey (← jnat a[0]!) ((← jnat a[1]!) == 1) (← jint a[2]!)
      ds := { ds with vals := ds.vals.insert k (← jnat a[3]!) }
  pure ds

-- ---------------------------------------------------------------- observed state

structure ObsSt where
  chain   : List String
  pool    : List String
  byId    : List (String × List (Option Utxo))
  byAddr  : List (String × List Utxo)
  reg     : List String
  pending : Option (List String)
  log     : List String

def parseObsUtxo (j : Json) : E (Option Utxo) :=
  if j.isNull then pure none else do
    pure (some { txId := ← jstr (← jget j "t"), index := ← jnat (← jget j "i"),
                 out := ⟨← jstr (← jget j "a"), ← jbool (← jget j "y"), ← jnat (← jget j "v")⟩,
                 created := ← jint (← jget j "c") })

def parseObs (j : Json) : E ObsSt := do
  let ent (x : Json) : E (String × List (Option Utxo)) := do
    pure (← jstr (← jget x "k"), ← (← jarr (← jget x "s")).toList.mapM parseObsUtxo)
  let byId ← (← jarr (jgetD j "byId")).toList.mapM ent
  let byAddrO ← (← jarr (jgetD j "byAddr")).toList.mapM ent
  let byAddr := byAddrO.map fun (k, l) => (k, l.filterMap id)
  pure { chain := ← jstrList (← jget j "chain"), pool := ← jstrList (← jget j "pool"), byId := byId, byAddr := byAddr,
         reg := ← jstrList (jgetD j "reg"), pending := ← jOptStrList (jgetD j "pending"),
         log := (jstrList (jgetD j "log")).toOption.getD [] }

def showU (u : Utxo) : String := s!"{u.txId.take 8}:{u.index}:{u.out.address.take 10}:{u.out.yielding}:{u.out.value}@{u.created}"
def showOU (u : Option Utxo) : String := match u with | none => "nil" | some u => showU u

def short (l : List String) : String := "[" ++ ",".intercalate (l.map (fun (s : String) => (s.take 10).toString)) ++ "]"

/-- compare a model ledger+pool with an observation; returns diffs -/
def compareState (env : Env) (n : Node) (o : ObsSt) : List String :=
  let mchain := n.led.blocks.map env.hash
  let d1 := if mchain != o.chain then [s!"chain model={short mchain} impl={short o.chain}"] else []
  let mpool := n.pool.map (·.id)
  let d2 := if mpool != o.pool then [s!"pool model={short mpool} impl={short o.pool}"] else []
  let mById := n.led.utxos.byId.toList
  let d3 := if mById != o.byId then
      let bad := (mById.filter (fun kv => !o.byId.contains kv)).map (fun kv => s!"{kv.1.take 8}→{kv.2.map showOU}")
      let bad2 := (o.byId.filter (fun kv => !mById.contains kv)).map (fun kv => s!"{kv.1.take 8}→{kv.2.map showOU}")
      [s!"utxosById model-only={bad.take 3} impl-only={bad2.take 3}"] else []
  let mByAddr := n.led.utxos.byAddr.toList
  let d4 := if mByAddr != o.byAddr then
      let bad := (mByAddr.filter (fun kv => !o.byAddr.contains kv)).map (fun kv => s!"{kv.1.take 10}→{kv.2.map showU}")
      let bad2 := (o.byAddr.filter (fun kv => !mByAddr.contains kv)).map (fun kv => s!"{kv.1.take 10}→{kv.2.map showU}")
      [s!"utxosByAddress model-only={bad.take 3} impl-only={bad2.take 3}"] else []
  let mreg := n.led.reg.registered.toList
  let d5 := if mreg != o.reg then [s!"registered model={short mreg} impl={short o.reg}"] else []
  let d6 := if n.led.reg.pending != o.pending then [s!"pending model={n.led.reg.pending} impl={o.pending}"] else []
  d1 ++ d2 ++ d3 ++ d4 ++ d5 ++ d6

def sameNode (env : Env) (a b : Node) : Bool :=
  a.led.blocks.map env.hash == b.led.blocks.map env.hash && a.pool.map (·.id) == b.pool.map (·.id) &&
  a.led.utxos.byId.toList == b.led.utxos.byId.toList && a.led.utxos.byAddr.toList == b.led.utxos.byAddr.toList &&
  a.led.reg.registered.toList == b.led.reg.registered.toList && a.led.reg.pending == b.led.reg.pending

/-- the node exactly as observed (used to re-synchronise the model after a correspondence DIFF, so that the rest of
    the scenario can still be searched for a PROP failure) -/
def nodeOfObs (ds : DS) (o : ObsSt) : Option Node := do
  let bs ← o.chain.mapM (fun h => ds.blocks.get? h)
  let pool ← o.pool.mapM (fun id => ds.txs.get? id)
  pure ⟨⟨bs, ⟨TreeMap.ofList o.byId, TreeMap.ofList o.byAddr⟩, ⟨TreeSet.ofList o.reg, o.pending⟩⟩, pool⟩

-- ---------------------------------------------------------------- monitors on the implementation's state

def obsBlocks (ds : DS) (o : ObsSt) : E (List Block) :=
  o.chain.mapM fun h => match ds.blocks.get? h with
    | some b => pure b
    | none => throw s!"observed block {h} has no definition"

/-- replay (with the model's own update) of all observed blocks but the last, from the empty state -/
def replayAllButLast (bs : List Block) : Except String (UtxoReg × AddrReg) :=
  bs.dropLast.foldlM (fun (st : UtxoReg × AddrReg) b => do
    let u ← st.1.update b.txs b.ts
    pure (u, st.2.update b.addedL b.removedL)) (UtxoReg.empty, AddrReg.empty)

/-- C01/C02/C03/C11 for a transaction the implementation has just admitted: judged, at the next block time,
    against the confirmed outputs + the last block + the transactions pooled before it. -/
def admissionMonitor (env : Env) (cfg : Cfg) (confirmed : UtxoReg) (bs : List Block) (before : List Tx) (t : Tx) : List String :=
  match bs.getLast? with
  | none => ["C11 admitted on an empty chain"]
  | some last =>
    let next := last.ts + cfg.interval
    let live0 : List Utxo := confirmed.byId.toList.flatMap (fun kv => kv.2.filterMap id)
    match Spec.applyTxs live0 last.txs next with
    | none => ["C11 admitted although the last block does not replay on the confirmed outputs"]
    | some live1 =>
      match Spec.applyTxs live1 before next with
      | none => [s!"C11 admitted although the pool does not replay tx={t.id}"]
      | some live2 =>
        let a0 := if before.any (fun p => p.id == t.id) then [s!"C11 pooled twice tx={t.id}"] else []
        let a1 := if t.ts < last.ts || next < t.ts then a0 ++ [s!"C11 admitted outside the window tx={t.id}"] else a0
        match Spec.applyTx live2 t next with
        | none =>
          -- what the transaction can consume at most: each DISTINCT referenced live output once
          let refs := t.inputs.foldl (fun (acc : List Input) i =>
            if acc.any (fun j => j.txId == i.txId && j.index == i.index) then acc else acc ++ [i]) []
          let distinct := refs.filterMap (Spec.find (Spec.create live2 t next))
          let inV := Spec.sumVal env distinct next
          a1 ++ [s!"C02 admitted tx spends a non-live output tx={t.id}"] ++
            (if Spec.sumOut t + cfg.minFee > inV then
              [s!"C01 admitted outputs+fee>inputs tx={t.id} out={Spec.sumOut t} in={inV} (distinct live outputs)"] else [])
        | some (_, consumed) =>
          let inV := Spec.sumVal env consumed next
          let a2 := if Spec.sumOut t + cfg.minFee > inV then a1 ++ [s!"C01 admitted outputs+fee>inputs tx={t.id} out={Spec.sumOut t} in={inV}"] else a1
          if (List.zip t.inputs consumed).all (fun (i, u) => i.sigValid && i.address == u.out.address) then a2
          else a2 ++ [s!"C03 admitted owner-or-signature tx={t.id}"]

def monitors (ds : DS) (env : Env) (cfg : Cfg) (o : ObsSt) (poolBefore : List String) (produced : Bool := false) : List String :=
  match obsBlocks ds o with
  | .error e => ["C15 " ++ e]
  | .ok bs =>
    let (fails, _) := Spec.checkChain env cfg bs
    let derived := match replayAllButLast bs with
      | .error e => [s!"C07 chain minus tip does not replay: {e}"]
      | .ok (u, r) =>
        (if u.byId.toList != o.byId || u.byAddr.toList != o.byAddr then ["C07 outputs differ from replay of chain minus tip"] else []) ++
        (if r.registered.toList != o.reg then [s!"C07 registered differ from replay: replay={short r.registered.toList} impl={short o.reg}"] else [])
    let conf := match replayAllButLast bs with | .ok (u, _) => u | .error _ => UtxoReg.empty
    let adm :=
      if o.pool.length == poolBefore.length + 1 && o.pool.take poolBefore.length == poolBefore then
        match o.pool.getLast? >>= ds.txs.get? with
        | some t => admissionMonitor env cfg conf bs (poolBefore.filterMap (fun id => ds.txs.get? id)) t
        | none => ["C15 admitted transaction has no definition"]
      else if o.pool.length > poolBefore.length then [s!"C11 pool grew irregularly before={short poolBefore} after={short o.pool}"]
      else []
    let prod :=
      if produced then
        match bs.getLast?, (Spec.checkChain env cfg bs).2 with
        | some tip, some conf =>
          Spec.checkProduced env cfg (bs.length == 1) conf tip ++
          (if o.pool.isEmpty then [] else ["C11 pool not empty after a block was produced"])
        | _, _ => []
      else []
    -- C10: addresses a block lists as removed (and not as added) stop being registered once the block is confirmed;
    -- the block just confirmed is the one below the tip
    let removal :=
      match bs.dropLast.getLast? with
      | some cb => ((cb.removedL.filter (fun a => !cb.addedL.contains a)).filter (fun a => o.reg.contains a)).map
          (fun a => s!"C10 removed-address-still-registered-after-confirmation impl={a} h={bs.length - 2}")
      | none => []
    fails ++ derived ++ adm ++ prod ++ removal

-- ---------------------------------------------------------------- operations

structure Out where
  diffs : List String := []
  props : List String := []
  miss  : Bool := false
  info  : List (String × String) := []

def getNode (ds : DS) (name : String) : Node := (ds.nodes.get? name).getD Node.empty
def cfgOf (ds : DS) (name : String) : Cfg := { ds.cfg with validator := (ds.valid.get? name).getD "" }

def lookupBlocks (ds : DS) (j : Json) : E (Option (List Block)) :=
  if j.isNull then pure none else do
    let hs ← jstrList j
    let bs ← hs.mapM fun h => match ds.blocks.get? h with
      | some b => pure b
      | none => throw s!"response block {h} has no definition"
    pure (some bs)

/-- run one op under a given default for missing valuations; returns the candidate post-states
    (several for sync: one per admissible selection) and info -/
def runBase (ds : DS) (env : Env) (j : Json) (o : ObsSt) : E (List Node × List (String × String)) := do
  let op ← jstr (← jget j "op")
  let name ← jstr (← jget j "node")
  let n := getNode ds name
  let cfg := cfgOf ds name
  match op with
  | "tick" =>
    let ts ← jint (← jget j "ts")
    let permIds ← jstrList (← jget j "perm")
    let perm := permIds.filterMap (fun id => n.pool.find? (·.id == id))
    if perm.length != n.pool.length || !(n.pool.all (fun t => permIds.contains t.id)) then
      throw s!"perm {short permIds} is not a permutation of the model pool {short (n.pool.map (·.id))}"
    -- reward id: the last transaction of the observed tip when the chain grew by one
    let rewardId := if o.chain.length == n.led.blocks.length + 1 then
        match o.chain.getLast? >>= ds.blocks.get? with
        | some b => (b.txs.getLast?.map (·.id)).getD "?"
        | none => "?"
      else "?"
    match n.produce env cfg ts perm rewardId with
    | none => pure ([n], [("tick", "refused")])
    | some n' =>
      -- the reward transaction the model built must be the one the implementation built
      let rdiff := match n'.led.blocks.getLast? >>= (·.txs.getLast?), ds.txs.get? rewardId with
        | some mt, some it => if mt == it then "" else s!"reward tx model={mt.outputs.map (fun o => (o.address, o.yielding, o.value))}@{mt.ts} impl={it.outputs.map (fun o => (o.address, o.yielding, o.value))}@{it.ts} inputs={it.inputs.length}"
        | _, _ => "reward tx undefined"
      pure ([n'], [("tick", "produced"), ("rewarddiff", rdiff),
                   ("included", toString ((n'.led.blocks.getLast?.map (·.txs.length)).getD 0 - 1)), ("pooled", toString n.pool.length)])
  | "submit" =>
    let id ← jstr (← jget j "tx")
    match ds.txs.get? id with
    | none => throw s!"submitted tx {id} has no definition"
    | some tx =>
      match n.admitCheck env cfg tx with
      | .ok () => pure ([{ n with pool := n.pool ++ [tx] }], [("submit", "admitted")])
      | .error e => pure ([n], [("submit", e)])
  | "sync" =>
    let now ← jint (← jget j "now")
    let resps ← (← jarr (← jget j "resps")).toList.mapM fun r => do
      pure ({ target := ← jstr (← jget r "t"), first := ← lookupBlocks ds (jgetD r "a"), second := ← lookupBlocks ds (jgetD r "b") } : Resp)
    let ch := Sync.choose env cfg n.led now resps
    let outs := Sync.outcomes env cfg n.led now resps
    let mode :=
      if (Sync.selectionSet ch).isEmpty then "kept-none-selected"
      -- the mode of the outcome the implementation took (map order decides between admissible selections); the
      -- first admissible one when none matches (a DIFF is then reported anyway)
      else match (match outs.find? (fun l => l.blocks.map env.hash == o.chain) with | some l => [l] | none => outs) with
        | l :: _ => if l.blocks.map env.hash == n.led.blocks.map env.hash then "kept-same"
                    else if ch.isFork then "resync"
                    else if l.blocks.length > n.led.blocks.length then "extension" else "tipswap"
        | [] => "?"
    -- C06 monitor: the property's clauses evaluated on the chain the IMPLEMENTATION holds after the round
    let pre := n.led.blocks.map env.hash
    let c06 : List String :=
      if o.chain == pre then []
      else
        let hashesOf (bs : List Block) : List String := bs.map env.hash
        let isCand := ch.cands.any (fun kv => hashesOf kv.2 == o.chain)
        let maxL := Sync.maxLen n.led.blocks.length ch.cands
        let minL := Sync.minLen n.led.blocks.length ch.cands
        let maj := Sync.majorityFilter ch.cands minL
        let inMaj := maj.any (fun kv => hashesOf kv.2 == o.chain)
        let ageOf : Nat := ((ch.cands.find? (fun kv => hashesOf kv.2 == o.chain)).map (fun kv => Sync.age kv.2)).getD 0
        let younger : Bool := ageOf < ch.maxAge
        (if !isCand then [s!"C06 adopted-a-chain-that-is-not-a-verified-candidate impl={short o.chain} candidates={ch.cands.length}"] else []) ++
        (if o.chain.length < pre.length then [s!"C06 adopted-a-shorter-chain impl={o.chain.length} before={pre.length}"] else []) ++
        (if o.chain.length < maxL then [s!"C06 adopted-chain-shorter-than-the-longest-verified-candidate impl={o.chain.length} longest={maxL}"] else []) ++
        (if isCand && !inMaj then [s!"C06 adopted-chain-on-a-branch-shared-by-fewer-than-half-of-the-candidates"] else []) ++
        (if isCand && inMaj && younger then [s!"C06 adopted-chain-validator-waited-less impl={ageOf} max={ch.maxAge}"] else [])
    pure (outs.map (fun l => { n with led := l }),
          [("sync", mode), ("fork", toString ch.isFork),
           ("mustkeep", toString (outs.all (fun l => sameNode env { n with led := l } n))), ("cands", toString ch.cands.length), ("survivors", toString ch.survivors.length),
           ("outcomes", toString outs.length)] ++ c06.map (fun p => ("prop", p)))
  | "regsync" =>
    let invalid ← jstrList (jgetD j "invalid")
    let failing ← jstrList (jgetD j "failing")
    let want := n.led.reg.toAppend invalid failing
    -- the implementation appends in map order: accept any permutation, adopt the observed order
    let oldP := n.led.reg.pending.getD []
    let obsP := o.pending.getD []
    let newly := obsP.drop oldP.length
    let okPerm := obsP.take oldP.length == oldP && newly.length == want.length && want.all newly.contains && newly.all want.contains
    let n' := if okPerm then { n with led := { n.led with reg := n.led.reg.appendPending newly } }
              else { n with led := { n.led with reg := n.led.reg.appendPending want } }
    pure ([n'], [("regsync", toString want.length)])
  | "read" =>
    let h ← jnat (← jget j "h")
    let page ← jstrList (← jget j "page")
    let mp := (Ledger.page cfg.pageSize n.led.blocks h).map env.hash
    -- what a peer received (and decoded) for the same request through the node's blocks controller
    let served := (jstrList (jgetD j "served")).toOption
    let servedDiff := match served with
      | some sv => if sv == mp then [] else [("read2", s!"DIFF served page h={h} model={short mp} impl={short sv}")]
      | none => []
    -- C15 on the implementation alone: the blocks a receiver decodes are the blocks the node holds
    let c15 := match served with
      | some sv => if sv == page then [] else [("prop", s!"C15 served-blocks-are-not-the-blocks-the-node-holds h={h} held={short page} received={short sv}")]
      | none => if (jgetD j "served_error").isNull then [] else [("prop", s!"C15 blocks-request-failed h={h}")]
    pure ([n], [("read", if mp == page then "ok" else s!"DIFF page h={h} model={short mp} impl={short page}")] ++ servedDiff ++ c15)
  | _ => throw s!"unknown op {op}"

/-- `synctick`: a sync round during which the node's own tick ran to completion — the candidates are those of the
    model's `stepX … (.syncTick …)`, one per admissible selection of the round; the information (and the monitors that
    depend on the kind of operation) are those of the sequential operation it behaved as. -/
def runOp (ds : DS) (env : Env) (j : Json) (o : ObsSt) : E (List Node × List (String × String)) := do
  let op ← jstr (← jget j "op")
  if op == "ticksync" then
    -- a whole sync round committed between the tick's reads and its AddBlock: candidates of the model's `stepTickSync`
    -- (the model PREDICTS the outcome, the unserializable one included — C16_tickSync_counterexample)
    let name ← jstr (← jget j "node")
    let n := getNode ds name
    let cfg := cfgOf ds name
    let ts ← jint (← jget j "ts")
    let permIds ← jstrList (← jget j "perm")
    let perm := permIds.filterMap (fun id => n.pool.find? (·.id == id))
    if perm.length != n.pool.length || !(n.pool.all (fun t => permIds.contains t.id)) then
      throw s!"perm {short permIds} is not a permutation of the model pool {short (n.pool.map (·.id))}"
    let rewardId := match o.chain.getLast? >>= ds.blocks.get? with
      | some b => if b.ts == ts then (b.txs.getLast?.map (·.id)).getD "?" else "?"
      | none => "?"
    let now ← jint (← jget j "now")
    let resps ← (← jarr (← jget j "resps")).toList.mapM fun r => do
      pure ({ target := ← jstr (← jget r "t"), first := ← lookupBlocks ds (jgetD r "a"), second := ← lookupBlocks ds (jgetD r "b") } : Resp)
    let outs := Sync.outcomes env cfg n.led now resps
    let cands := (List.range (max 1 outs.length)).map (fun k => stepTickSync env cfg n ts perm rewardId now resps k)
    return (cands, [("ticksync", toString outs.length), ("effop", "ticksync")])
  if op == "syncsubmit" then
    -- a submission admitted while the round waits: candidates of the model's `stepX … (.syncSubmit …)`
    let name ← jstr (← jget j "node")
    let n := getNode ds name
    let cfg := cfgOf ds name
    let id ← jstr (← jget j "tx")
    let tx ← match ds.txs.get? id with
      | some t => pure t
      | none => throw s!"submitted tx {id} has no definition"
    let now ← jint (← jget j "now")
    let resps ← (← jarr (← jget j "resps")).toList.mapM fun r => do
      pure ({ target := ← jstr (← jget r "t"), first := ← lookupBlocks ds (jgetD r "a"), second := ← lookupBlocks ds (jgetD r "b") } : Resp)
    let outs := Sync.outcomes env cfg n.led now resps
    let cands := (List.range (max 1 outs.length)).map (fun k => stepX env cfg n (.syncSubmit now resps k tx))
    let (_, infoSub) ← runBase ds env (j.setObjVal! "op" (Json.str "submit")) o
    let (_, infoS) ← runBase ds env (j.setObjVal! "op" (Json.str "sync")) o
    -- the round's "nothing may change" monitor (C13) compares the whole node: not applicable when a submission ran
    return (cands, infoSub ++ infoS.filter (fun kv => kv.1 != "mustkeep") ++ [("effop", "sync")])
  if op != "synctick" then runBase ds env j o else
  let name ← jstr (← jget j "node")
  let n := getNode ds name
  let cfg := cfgOf ds name
  let (_, infoT) ← runBase ds env (j.setObjVal! "op" (Json.str "tick")) o
  let produced := infoT.any (fun kv => kv.1 == "tick" && kv.2 == "produced")
  let ts ← jint (← jget j "ts")
  let permIds ← jstrList (← jget j "perm")
  let perm := permIds.filterMap (fun id => n.pool.find? (·.id == id))
  let rewardId := if o.chain.length == n.led.blocks.length + 1 then
      match o.chain.getLast? >>= ds.blocks.get? with
      | some b => (b.txs.getLast?.map (·.id)).getD "?"
      | none => "?"
    else "?"
  let now ← jint (← jget j "now")
  let resps ← (← jarr (← jget j "resps")).toList.mapM fun r => do
    pure ({ target := ← jstr (← jget r "t"), first := ← lookupBlocks ds (jgetD r "a"), second := ← lookupBlocks ds (jgetD r "b") } : Resp)
  let outs := Sync.outcomes env cfg n.led now resps
  let picks := if produced then [0] else List.range (max 1 outs.length)
  let cands := picks.map (fun k => stepX env cfg n (.syncTick now resps k ts perm rewardId))
  if produced then
    pure (cands, infoT ++ [("synctick", "round-gave-up"), ("effop", "tick")])
  else
    let (_, infoS) ← runBase ds env (j.setObjVal! "op" (Json.str "sync")) o
    pure (cands, infoS ++ [("synctick", "tick-refused"), ("effop", "sync")])

def step (ds : DS) (j : Json) : E (DS × Out) := do
  let ds ← loadDefs ds (jgetD j "defs")
  let op ← jstr (← jget j "op")
  if op == "init" then
    let c ← jget j "cfg"
    let cfg : Cfg := { pageSize := ← jnat (← jget c "page"), genesis := ← jnat (← jget c "genesis"),
                       minFee := ← jnat (← jget c "minFee"), interval := ← jint (← jget c "interval"), validator := "" }
    let nodes ← jget j "nodes"
    let mut valid : TreeMap String String := {}
    match nodes with
    | .obj kvs => for (k, v) in kvs.toList do valid := valid.insert k (← jstr v)
    | _ => throw "init.nodes must be an object"
    let mon := (jgetD j "monitors").getBool?.toOption.getD true
    return ({ ds with cfg := cfg, valid := valid, nodes := {}, monitorsOn := mon }, {})
  if op == "defs" then return (ds, { info := [("defs", "loaded")] })
  let name ← jstr (← jget j "node")
  let o ← parseObs (← jget j "obs")
  let envLo := mkEnv ds 0
  let envHi := mkEnv ds (U64 - 1)
  let (cands, info) ← runOp ds envLo j o
  let (candsHi, _) ← runOp ds envHi j o
  -- the sequential operation a `synctick` behaved as (a `syncsubmit` is monitored as the round it contains)
  let opOrig := op
  let op := if op == "synctick" || op == "syncsubmit" then ((info.find? (fun kv => kv.1 == "effop")).map (·.2)).getD "sync" else op
  -- valuation-table coverage: the result must not depend on the default for missing entries
  let miss := cands.length != candsHi.length || !((List.zip cands candsHi).all (fun (a, b) => sameNode envLo a b))
  -- pick the candidate matching the observed chain (sync); otherwise the first
  let chosen := match cands.find? (fun n => n.led.blocks.map envLo.hash == o.chain) with
    | some n => n
    | none => cands.headD (getNode ds name)
  let mut diffs := compareState envLo chosen o
  for (k, v) in info do
    if k == "rewarddiff" && v != "" then diffs := diffs ++ [v]
    if k == "read" && v != "ok" then diffs := diffs ++ [v]
    if k == "read2" then diffs := diffs ++ [v]
  if op == "regsync" then
    let n := getNode ds name
    let invalid ← jstrList (jgetD j "invalid")
    let failing ← jstrList (jgetD j "failing")
    let want := n.led.reg.toAppend invalid failing
    let oldP := n.led.reg.pending.getD []
    let obsP := o.pending.getD []
    let newly := obsP.drop oldP.length
    if !(obsP.take oldP.length == oldP && newly.length == want.length && want.all newly.contains && newly.all want.contains) then
      diffs := diffs ++ [s!"regsync appended model-set={short want} impl-suffix={short newly}"]
  -- (the admission monitor judges a pool growth against the chain held AFTER the operation: for a submission inside a
  -- round that adopted a chain it would judge against the wrong ledger — the model comparison covers that case)
  let poolBefore := if opOrig == "syncsubmit" then o.pool else (getNode ds name).pool.map (·.id)
  let produced := op == "tick" && o.chain.length == (getNode ds name).led.blocks.length + 1
  let props := if ds.monitorsOn then monitors ds envLo (cfgOf ds name) o poolBefore produced else []
  let propsHi := if ds.monitorsOn then monitors ds envHi (cfgOf ds name) o poolBefore produced else []
  -- C12 monitors on the implementation's served chain: hash-linked at every moment; chained blocks keep their
  -- content (hashes are recomputed from the served content after every operation); incremental adoption leaves
  -- every block below the fork point untouched
  let preChain := (getNode ds name).led.blocks.map envLo.hash
  let syncFork := ((info.find? (fun kv => kv.1 == "fork")).map (·.2)).getD "" == "true"
  let c12 : List String :=
    (props.filter (fun p => p.startsWith "C04 prev-hash")).map (fun p => "C12 served-chain-not-hash-linked " ++ (p.drop 14).toString) ++
    (if op != "sync" then
       (if o.chain.take preChain.length != preChain then
          [s!"C12 chained-block-altered-by-{op} impl={short o.chain} before={short preChain}"] else [])
     else if !syncFork && o.chain.take (preChain.length - 1) != preChain.dropLast then
       [s!"C12 incremental-adoption-altered-a-block-below-the-fork-point impl={short o.chain} before={short preChain}"]
     else [])
  -- C13 monitor: when every admissible outcome of the round is "ledger unchanged" (no verified better chain was
  -- offered), the implementation's chain, outputs, registered and pending addresses and pool must be as before
  let mustKeep := ((info.find? (fun kv => kv.1 == "mustkeep")).map (·.2)).getD "" == "true"
  let c13 : List String :=
    if op == "sync" && mustKeep then
      match compareState envLo (getNode ds name) o with
      | [] => []
      | d :: _ => [s!"C13 ledger-changed-although-no-verified-better-chain-was-offered impl={d}"]
    else []
  -- C06 for a round during which the node's own tick produced a block: the round never leaves a chain shorter than
  -- the one it found when it committed (the model's chain after the tick)
  let c06tick : List String :=
    if opOrig == "synctick" && info.any (fun kv => kv.1 == "synctick" && kv.2 == "round-gave-up") &&
        o.chain.length < chosen.led.blocks.length then
      [s!"C06 adopted-a-shorter-chain (a block produced during the round was dropped) impl={o.chain.length} before-commit={chosen.led.blocks.length}"]
    else []
  -- C11 for a produced block: every pooled transaction that is valid at its turn of the shuffle (the greedy selection
  -- the C11 theorems are about, computed by the model on the same shuffle) is in the implementation's block
  let c11left : List String :=
    if op == "tick" && produced then
      match chosen.led.blocks.getLast?, o.chain.getLast? >>= ds.blocks.get? with
      | some mb, some ib =>
        ((mb.txs.filter (fun t => !t.hasReward && !(ib.txs.any (fun x => x.id == t.id)))).map
          (fun t => s!"C11 pooled-transaction-valid-at-its-turn-left-out-of-the-produced-block tx={t.id}"))
      | _, _ => []
    else []
  let propsAll := if ds.monitorsOn then props ++ c12 ++ c13 ++ c06tick ++ c11left else props
  let notes := ds.notes.map (fun s => "C15 " ++ s) ++
    (if ds.monitorsOn then (info.filter (fun kv => kv.1 == "prop")).map (·.2) else [])
  let info := info.filter (fun kv => kv.1 != "prop")
  let next := if diffs.isEmpty then chosen else (nodeOfObs ds o).getD chosen
  let ds := { ds with nodes := ds.nodes.insert name next, notes := [] }
  pure (ds, { diffs := diffs, props := propsAll ++ notes, miss := miss || props != propsHi, info := info })

def outJson (n : Nat) (o : Out) : String :=
  (Json.mkObj [("n", toJson n), ("diffs", toJson o.diffs), ("props", toJson o.props), ("miss", toJson o.miss),
               ("info", Json.mkObj (o.info.map (fun (k, v) => (k, Json.str v))))]).compress

partial def loop (h : IO.FS.Stream) (out : IO.FS.Stream) (ds : DS) (n : Nat) : IO Unit := do
  let line ← h.getLine
  if line.isEmpty then return ()
  let t := line.trimAscii.toString
  if t.isEmpty then loop h out ds n else
  match Json.parse t >>= step ds with
  | .ok (ds', o) =>
    out.putStrLn (outJson n o); out.flush
    loop h out ds' (n + 1)
  | .error e =>
    out.putStrLn ((Json.mkObj [("n", toJson n), ("error", Json.str e)]).compress); out.flush
    loop h out ds (n + 1)

end Drv

def main : IO Unit := do
  Drv.loop (← IO.getStdin) (← IO.getStdout) {} 0
