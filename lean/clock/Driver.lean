/-
clockdriver — line protocol around Clock.Model (core Lean only).

  trunc <t> <d>                                   -> <int>
  round <t> <d>                                   -> <int>
  sub <timer> <occ> <skipped>                     -> <int>
  start <timer> <occ> <skipped> <started 0|1> <stop | -1> <r0> <r1> ...
                                                  -> <status> <n> <slot>:<i>:<stamp> ...
  pulse <timer> <occ> <skipped> <started 0|1> <requested 0|1> <r0> ...
                                                  -> <status> <n> <slot>:<i>:<stamp> ...
  quit
One answer line per input line; `ERR ...` for a malformed line.
-/
import Clock.Model

open Clock

def statusStr : Status → String
  | .returned => "returned"
  | .running => "running"
  | .panicked => "panicked"
  | .noFuel => "nofuel"

def resultStr (r : Result) : String :=
  let fs := r.fires.map fun f => s!"{f.slot}:{f.i}:{f.stamp}"
  String.intercalate " " ([statusStr r.status, toString r.fires.length] ++ fs)

def ints (ws : List String) : Option (List Int) := ws.mapM String.toInt?

def answer (line : String) : String :=
  let ws := (line.splitOn " ").filter (· ≠ "")
  match ws with
  | "trunc" :: rest =>
    match ints rest with
    | some [t, d] => toString (trunc t d)
    | _ => "ERR trunc"
  | "round" :: rest =>
    match ints rest with
    | some [t, d] => toString (round t d)
    | _ => "ERR round"
  | "sub" :: rest =>
    match ints rest with
    | some [t, o, s] => toString (subTimer ⟨t, o, s⟩)
    | _ => "ERR sub"
  | "start" :: rest =>
    match ints rest with
    | some (t :: o :: s :: st :: stop :: rs) =>
      let stopOpt : Option Nat := if stop < 0 then none else some stop.toNat
      resultStr (start ⟨t, o, s⟩ (st != 0) rs stopOpt)
    | _ => "ERR start"
  | "pulse" :: rest =>
    match ints rest with
    | some (t :: o :: s :: st :: rq :: rs) => resultStr (pulse ⟨t, o, s⟩ (st != 0) (rq != 0) rs)
    | _ => "ERR pulse"
  | _ => "ERR unknown"

partial def mainLoop (hin hout : IO.FS.Stream) : IO Unit := do
  let line ← hin.getLine
  if line.isEmpty then return
  let l := line.trimAscii.toString
  if l == "quit" then return
  hout.putStrLn (answer l)
  hout.flush
  mainLoop hin hout

def main : IO Unit := do
  mainLoop (← IO.getStdin) (← IO.getStdout)
