import Clock.Props

#print axioms Clock.C20_aligned
#print axioms Clock.C20_aligned_unix
#print axioms Clock.C20_aligned_unix_day
#print axioms Clock.C20_aligned_unix_counterexample
#print axioms Clock.C20_monotone
#print axioms Clock.C20_monotone_not_strict
#print axioms Clock.C20_pulse
#print axioms Clock.C20_pulse_once
#print axioms Clock.C20_skip
#print axioms Clock.C20_stop
#print axioms Clock.C20_stop_partial
#print axioms Clock.C20_stop_late_bound
#print axioms Clock.C20_stop_counterexample
#print axioms Clock.C20_round_near
#print axioms Clock.C20_round_intended
#print axioms Clock.C20_round_late
#print axioms Clock.C20_degenerate_silent
#print axioms Clock.C20_degenerate_panic
#print axioms Clock.C20_no_panic
