import Clock.Model
import Clock.Lemmas
import Clock.Props
