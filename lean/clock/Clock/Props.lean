/-
Clock.Props — property theorems for C20 (periodic timestamps), about `Clock.Model`.

All theorems quantify over every configuration `c : Cfg` (timer, occurrences, skippedOccurrences —
including the ones for which the Go runtime panics or the loop never stamps), every list `rs` of clock
readings returned by `watch.Now()` (no relation to real time is assumed: that is "all scheduling delays
of the ticking goroutine"), every position `stop` of the first check that reads `started == false`,
and every bound `fuel` on the number of simulated loop iterations.
-/
import Clock.Lemmas

namespace Clock

/-! ### alignment -/

/-- Every stamp passed to the function by `Start` is an exact multiple of the sub-period, counted on
the absolute clock Go's `Round` uses (nanoseconds since year 1 = Unix nanoseconds + `Z`); the
sub-period is positive whenever anything is stamped. -/
theorem C20_aligned (fuel : Nat) (c : Cfg) (started : Bool) (rs : List Int) (stop : Option Nat) :
    ∀ f ∈ (startN fuel c started rs stop).fires,
      0 < subTimer c ∧ (f.stamp + Z) % subTimer c = 0 := by
  intro f hf
  rcases startN_shape fuel c started rs stop with h | ⟨_, hs, _, init, rest, _, he⟩
  · rw [h] at hf; cases hf
  · rw [he] at hf
    have := (loop_prefix (subTimer c) c.occurrences c.skipped stop fuel 0 0 0 rest).2 f hf
    exact ⟨hs, by rw [this]; exact round_aligned _ _ hs⟩

example : (startN 100 ⟨10, 3, 1⟩ false [5, 14, 17, 22] none).fires.map Fire.stamp = [15, 18, 21] ∧
    (15 + Z) % 3 = 0 ∧ (18 + Z) % 3 = 0 := by decide

/-- Exact condition for the stamps to be multiples of the sub-period *relative to the Unix epoch*
(i.e. `stamp % sub = 0` on the value the function receives): the sub-period divides `Z`. -/
theorem C20_aligned_unix (fuel : Nat) (c : Cfg) (started : Bool) (rs : List Int) (stop : Option Nat) :
    ∀ f ∈ (startN fuel c started rs stop).fires,
      (f.stamp % subTimer c = 0 ↔ Z % subTimer c = 0) := by
  intro f hf
  obtain ⟨_, h⟩ := C20_aligned fuel c started rs stop f hf
  have hd : subTimer c ∣ f.stamp + Z := Int.dvd_of_emod_eq_zero h
  constructor
  · intro h1
    exact Int.emod_eq_zero_of_dvd ((Int.dvd_add_right (Int.dvd_of_emod_eq_zero h1)).mp hd)
  · intro h1
    have hd' : subTimer c ∣ Z + f.stamp := by rw [Int.add_comm]; exact hd
    exact Int.emod_eq_zero_of_dvd ((Int.dvd_add_right (Int.dvd_of_emod_eq_zero h1)).mp hd')

/-- In particular every sub-period dividing one day (whole seconds, minutes, hours dividing 86400 s;
1, 2, 5 ms …) gives Unix-epoch multiples. -/
theorem C20_aligned_unix_day (fuel : Nat) (c : Cfg) (started : Bool) (rs : List Int) (stop : Option Nat)
    (hday : subTimer c ∣ 86400000000000) :
    ∀ f ∈ (startN fuel c started rs stop).fires, f.stamp % subTimer c = 0 := by
  intro f hf
  refine (C20_aligned_unix fuel c started rs stop f hf).mpr ?_
  apply Int.emod_eq_zero_of_dvd
  rw [Z_days]
  exact Int.dvd_trans hday (Int.dvd_mul_left _ _)

example : subTimer ⟨60000000000, 6, 1⟩ ∣ 86400000000000 ∧
    (startN 100 ⟨60000000000, 6, 1⟩ false [0, 70000000001] none).fires ≠ [] := by decide

/-- A sub-period that does not divide `Z` (7 ms; the same holds for 7 s): no stamp is a Unix multiple.
(Replayed on the real Engine by `ruclock --witness`, same numbers.) -/
theorem C20_aligned_unix_counterexample :
    (startN 100 ⟨7000000, 1, 0⟩ false [0, 7000001] (some 1)).fires.map Fire.stamp = [4000000] ∧
    (4000000 : Int) % 7000000 ≠ 0 ∧ (4000000 + Z) % 7000000 = 0 ∧ Z % 7000000000 ≠ 0 := by decide

example : (startN 100 ⟨60000000000, 6, 1⟩ false [0, 70000000001] none).fires.map Fire.stamp
    = [70000000000] ∧ (70000000000 : Int) % 10000000000 = 0 ∧ Z % 10000000000 = 0 := by decide

/-! ### monotonicity -/

/-- Non-decreasing clock readings give non-decreasing stamps (equal stamps are possible). -/
theorem C20_monotone (fuel : Nat) (c : Cfg) (started : Bool) (rs : List Int) (stop : Option Nat)
    (hrs : rs.Pairwise (· ≤ ·)) :
    ((startN fuel c started rs stop).fires.map Fire.stamp).Pairwise (· ≤ ·) := by
  rcases startN_shape fuel c started rs stop with h | ⟨_, hs, _, init, rest, hrs', he⟩
  · rw [h]; exact List.Pairwise.nil
  · rw [he]
    obtain ⟨hp, hst⟩ := loop_prefix (subTimer c) c.occurrences c.skipped stop fuel 0 0 0 rest
    subst hrs'
    have hrest : rest.Pairwise (· ≤ ·) := (List.pairwise_cons.mp hrs).2
    have hnow := List.Pairwise.sublist hp.sublist hrest
    rw [List.pairwise_map] at hnow ⊢
    refine List.Pairwise.imp_of_mem ?_ hnow
    intro a b ha hb hab
    rw [hst a ha, hst b hb]
    exact round_mono _ _ _ hs hab

example : [5, 14, 17, 17, 22].Pairwise (· ≤ ·) ∧
    (startN 100 ⟨10, 3, 1⟩ false [5, 14, 17, 17, 22] none).fires.map Fire.stamp = [15, 18, 18, 21] := by
  decide

/-- Stamps may repeat: two wake-ups whose readings round to the same boundary (a wake-up 1.2 ms late
on a 2 ms period, then a punctual one).  Replayed on the real Engine by `ruclock --witness`. -/
theorem C20_monotone_not_strict :
    (startN 100 ⟨2000000, 1, 0⟩ false [0, 3200000, 4000000] (some 2)).fires.map Fire.stamp
      = [4000000, 4000000] := by decide

/-! ### Pulse -/

/-- A `Pulse` on an idle engine calls the function exactly once, with the next period boundary of the
reading it started from: `Truncate(now, timer) + timer`, which is strictly after `now`, at most one
period after it, a multiple of the period, and the least such instant; `deadline > 0`, so
`ticker.Reset(deadline)` cannot panic. -/
theorem C20_pulse (c : Cfg) (ht : 0 < c.timer) (now : Int) (more : List Int) :
    pulse c false false (now :: more) =
        ⟨[⟨0, 0, now, trunc now c.timer + c.timer⟩], .returned⟩ ∧
    now < trunc now c.timer + c.timer ∧
    trunc now c.timer + c.timer ≤ now + c.timer ∧
    (trunc now c.timer + c.timer + Z) % c.timer = 0 ∧
    (∀ b, (b + Z) % c.timer = 0 → now < b → trunc now c.timer + c.timer ≤ b) := by
  obtain ⟨h1, h2⟩ := trunc_bounds now c.timer ht
  refine ⟨?_, h2, by omega, ?_, ?_⟩
  · unfold pulse
    simp only [Int.not_le.mpr ht, if_false, Bool.or_self, Bool.false_eq_true]
    split
    · omega
    · rfl
  · have : trunc now c.timer + c.timer + Z = (trunc now c.timer + Z) + c.timer := by omega
    rw [this, Int.add_emod_right]
    exact trunc_aligned now c.timer ht
  · intro b hb hlt
    exact trunc_next_least now b c.timer ht hb hlt

example : pulse ⟨10, 0, 0⟩ false false [7] = ⟨[⟨0, 0, 7, 10⟩], .returned⟩ := by decide
example : pulse ⟨10, 0, 0⟩ false false [10] = ⟨[⟨0, 0, 10, 20⟩], .returned⟩ := by decide

/-- A `Pulse` while the engine is started, or while another pulse is pending, does nothing
(no reading taken, no call). -/
theorem C20_pulse_once (c : Cfg) (started requested : Bool) (rs : List Int)
    (h : (started || requested) = true) :
    (pulse c started requested rs).fires = [] ∧ (pulse c started requested rs).status ≠ .running := by
  unfold pulse
  split
  · exact ⟨rfl, by simp⟩
  · exact ⟨rfl, by simp⟩

example : (pulse ⟨10, 0, 0⟩ true false [7]).fires = [] ∧ (pulse ⟨10, 0, 0⟩ false true [7]).fires = [] ∧
    (pulse ⟨10, 0, 0⟩ false false [7]).fires ≠ [] := by decide

/-! ### skipped occurrences -/

/-- Exactly the occurrences `i ≥ skipped` of each cycle are stamped: every call belongs to an inner
iteration `slot` with `i = slot mod occurrences`, `skipped ≤ i < occurrences`; iterations are stamped
at most once and in order; and no iteration with `i ≥ skipped` before a stamped one is left out. -/
theorem C20_skip (fuel : Nat) (c : Cfg) (started : Bool) (rs : List Int) (stop : Option Nat) :
    let fires := (startN fuel c started rs stop).fires
    (∀ f ∈ fires, (f.i : Int) = (f.slot : Int) % c.occurrences ∧
        c.skipped ≤ (f.i : Int) ∧ (f.i : Int) < c.occurrences) ∧
    (fires.map Fire.slot).Pairwise (· < ·) ∧
    (∀ f ∈ fires, ∀ n : Nat, n < f.slot → c.skipped ≤ (n : Int) % c.occurrences →
        n ∈ fires.map Fire.slot) := by
  intro fires
  rcases startN_shape fuel c started rs stop with h | ⟨_, _, _, init, rest, _, he⟩
  · simp only [fires, h]; simp
  · simp only [fires, he]
    by_cases hocc : c.occurrences ≤ 0
    · rw [loop_deaf _ _ _ _ (Or.inl hocc)]; simp
    · obtain ⟨h1, h2, h3⟩ := loop_slots (subTimer c) c.occurrences c.skipped stop fuel 0 0 0 rest 0
        (by simp) (by simp only [Int.natCast_zero]; omega)
      refine ⟨fun f hf => (h1 f hf).2, h2, fun f hf n hn hsk => h3 f hf n (Nat.zero_le _) hn hsk⟩

example :
    (startN 100 ⟨12, 4, 2⟩ false [0, 1, 2, 3, 4, 5] none).fires.map (fun f => (f.slot, f.i))
      = [(2, 2), (3, 3), (6, 2), (7, 3), (10, 2)] := by decide

/-! ### Stop -/

/-- No call after the first check that observes `started == false`: if check number `k` is that
check, at most `k` calls are ever made (whatever the readings and however long the engine runs), and
`Start` returns only through such a check, right after the `k`-th call. -/
theorem C20_stop (fuel : Nat) (c : Cfg) (started : Bool) (rs : List Int) (k : Nat) :
    (startN fuel c started rs (some k)).fires.length ≤ k ∧
    ((startN fuel c started rs (some k)).status = .returned → started = false → 0 < c.timer →
      (startN fuel c started rs (some k)).fires.length = k) := by
  rcases startN_shape fuel c started rs (some k) with h | ⟨_, _, _, init, rest, _, he⟩
  · refine ⟨by rw [h]; exact Nat.zero_le _, ?_⟩
    intro hret hst ht
    -- with an empty list of fires the only way to return is the check number 0
    subst hst
    unfold startN at hret h ⊢
    simp only [Int.not_le.mpr ht, if_false, Bool.false_eq_true] at hret h ⊢
    cases rs with
    | nil => simp at hret
    | cons init rest =>
      simp only at hret h ⊢
      split at hret
      · simp at hret
      · split at hret
        · simp at hret
        · rename_i h1 h2
          simp only [h1, h2, if_false] at h ⊢
          have := loop_returned _ _ _ _ _ _ _ _ _ hret
          simp only [Nat.zero_add, Option.some.injEq] at this
          omega
  · rw [he]
    have h1 := loop_stop (subTimer c) c.occurrences c.skipped k fuel 0 0 0 rest (Nat.zero_le _)
    refine ⟨by omega, ?_⟩
    intro hret _ _
    have := loop_returned _ _ _ _ _ _ _ _ _ hret
    simp only [Nat.zero_add, Option.some.injEq] at this
    omega

example : (startN 100 ⟨10, 1, 0⟩ false [0, 11, 21, 31, 41] (some 2)) =
    ⟨[⟨0, 0, 11, 10⟩, ⟨1, 0, 21, 20⟩], .returned⟩ := by decide

/-- FULL statement "no call begins once `Stop` has completed", for every landing point of `Stop`. -/
def C20_stop_full : Prop :=
  ∀ (fuel : Nat) (c : Cfg) (rs : List Int) (s : StopAt),
    firesAfterStop s (startN fuel c false rs s.firstFalse).fires = []

/-- It holds whenever `Stop` does not land in the window between a passed check of `started` and the
entry of the function (excluded case explicit and decidable). -/
theorem C20_stop_partial (fuel : Nat) (c : Cfg) (rs : List Int) (s : StopAt)
    (hs : ∀ k, s ≠ .inFlight k) :
    firesAfterStop s (startN fuel c false rs s.firstFalse).fires = [] := by
  cases s with
  | never => rfl
  | beforeCheck k =>
    have := (C20_stop fuel c false rs k).1
    simp only [firesAfterStop, StopAt.firstFalse]
    exact List.drop_eq_nil_of_le this
  | inFlight k => exact absurd rfl (hs k)

example : (∀ k, StopAt.beforeCheck 1 ≠ .inFlight k) := by intro k h; cases h
example :
    (startN 100 ⟨2000000, 1, 0⟩ false [0, 2000001, 4000001] (StopAt.beforeCheck 1).firstFalse).fires.length = 1 ∧
    firesAfterStop (.beforeCheck 1)
      (startN 100 ⟨2000000, 1, 0⟩ false [0, 2000001, 4000001] (StopAt.beforeCheck 1).firstFalse).fires = [] := by
  decide

/-- In the excluded window exactly the one call in flight still goes through: at most one call
begins after `Stop` has completed. -/
theorem C20_stop_late_bound (fuel : Nat) (c : Cfg) (rs : List Int) (s : StopAt) :
    (firesAfterStop s (startN fuel c false rs s.firstFalse).fires).length ≤ 1 := by
  cases s with
  | never => simp [firesAfterStop]
  | beforeCheck k =>
    rw [C20_stop_partial fuel c rs (.beforeCheck k) (by intro k h; cases h)]; simp
  | inFlight k =>
    have := (C20_stop fuel c false rs (k + 1)).1
    simp only [firesAfterStop, StopAt.firstFalse, List.length_drop]
    omega

example : (firesAfterStop (.inFlight 0)
    (startN 100 ⟨2000000, 1, 0⟩ false [0, 2000001] (StopAt.inFlight 0).firstFalse).fires).length = 1 := by decide

/-- Witness: `Stop` completing while the goroutine is inside `watch.Now()` of its first stamped
occurrence — the function is still called once, after `Stop` returned.
(Replayed on the real Engine by `ruclock --witness`: `Stop()` is called from inside `watch.Now()`.) -/
theorem C20_stop_counterexample : ¬ C20_stop_full := by
  intro h
  have := h 100 ⟨2000000, 1, 0⟩ [0, 2000001] (.inFlight 0)
  revert this
  decide

/-! ### Round: which boundary a delayed wake-up is stamped with -/

/-- Every stamp is within half a sub-period of the reading it was computed from
(`-sub/2 < stamp - now ≤ sub/2`). -/
theorem C20_round_near (fuel : Nat) (c : Cfg) (started : Bool) (rs : List Int) (stop : Option Nat) :
    ∀ f ∈ (startN fuel c started rs stop).fires,
      f.stamp = round f.now (subTimer c) ∧
      -(subTimer c) < 2 * (f.stamp - f.now) ∧ 2 * (f.stamp - f.now) ≤ subTimer c := by
  intro f hf
  rcases startN_shape fuel c started rs stop with h | ⟨_, hs, _, init, rest, _, he⟩
  · rw [h] at hf; cases hf
  · rw [he] at hf
    have := (loop_prefix (subTimer c) c.occurrences c.skipped stop fuel 0 0 0 rest).2 f hf
    refine ⟨this, ?_⟩
    rw [this]
    exact round_near _ _ hs

/-- A wake-up intended for the boundary `b` and read within `[b - sub/2, b + sub/2)` is stamped `b`
(so a scheduling delay below half a sub-period is harmless). -/
theorem C20_round_intended (now b sub : Int) (hs : 0 < sub) (hb : (b + Z) % sub = 0)
    (h1 : -sub ≤ 2 * (now - b)) (h2 : 2 * (now - b) < sub) : round now sub = b :=
  round_eq_of_near now b sub hs hb h1 h2

/-- A delay of half a sub-period or more is stamped with a LATER multiple: at least `b + sub`,
still aligned, still within half a sub-period of the reading. -/
theorem C20_round_late (now b sub : Int) (hs : 0 < sub) (hb : (b + Z) % sub = 0)
    (h : sub ≤ 2 * (now - b)) :
    b + sub ≤ round now sub ∧ (round now sub + Z) % sub = 0 ∧ 2 * (round now sub - now) ≤ sub := by
  have hal := round_aligned now sub hs
  obtain ⟨hn1, hn2⟩ := round_near now sub hs
  refine ⟨?_, hal, hn2⟩
  -- round now sub > b (since > now - sub/2 ≥ b) and aligned, hence ≥ b + sub
  have hgt : b < round now sub := by omega
  have := trunc_next_least b (round now sub) sub hs hal hgt
  have htb : trunc b sub = b := by
    rw [trunc_pos b sub hs, hb]; omega
  omega

example : round 14 10 = 10 ∧ round 15 10 = 20 ∧ round 9 10 = 10 ∧ (10 + Z) % 10 = 0 := by decide
-- hypotheses of `C20_round_intended` (b = 10, now = 14 and now = 5) and of `C20_round_late` (now = 15, 27)
example : (0 : Int) < 10 ∧ (10 + Z) % 10 = 0 ∧ -10 ≤ 2 * ((14 : Int) - 10) ∧ 2 * ((14 : Int) - 10) < 10 ∧
    round 14 10 = 10 ∧ round 5 10 = 10 := by decide
example : (10 : Int) ≤ 2 * (15 - 10) ∧ round 15 10 = 20 ∧ round 27 10 = 30 ∧ (30 + Z) % 10 = 0 := by decide
example : (startN 100 ⟨10, 1, 0⟩ false [0, 14, 26] none).fires.map Fire.stamp = [10, 30] := by decide

/-! ### configurations in which nothing is ever stamped -/

/-- `occurrences ≤ 0` (the outer `for` spins with an empty inner loop) or `skipped ≥ occurrences`
(every occurrence is skipped): the engine never takes a reading, never calls the function and never
checks `started` — `Stop` is never observed and `Start` never returns, however long it runs. -/
theorem C20_degenerate_silent (fuel : Nat) (c : Cfg) (rs : List Int) (stop : Option Nat)
    (h : c.occurrences ≤ 0 ∨ c.occurrences ≤ c.skipped) :
    (startN fuel c false rs stop).fires = [] ∧ (startN fuel c false rs stop).status ≠ .returned := by
  rcases startN_shape fuel c false rs stop with h0 | ⟨_, _, _, init, rest, _, he⟩
  · refine ⟨h0, ?_⟩
    unfold startN
    split
    · simp
    · cases rs with
      | nil => simp
      | cons init rest =>
        simp only [Bool.false_eq_true, if_false]
        split
        · simp
        · split
          · simp
          · rw [loop_deaf _ _ _ _ h]; simp
  · rw [he, loop_deaf _ _ _ _ h]; simp

example : startN 60 ⟨2000000, 0, 0⟩ false [0, 1, 2] (some 0) = ⟨[], .noFuel⟩ ∧
    startN 60 ⟨2000000, 1, 1⟩ false [0, 1, 2] (some 0) = ⟨[], .noFuel⟩ := by decide

/-- More occurrences than nanoseconds in the period: `subTimer = 0` and `ticker.Reset(0)` panics in
`Start` (a non-positive period panics in `NewEngine` already). -/
theorem C20_degenerate_panic (fuel : Nat) (c : Cfg) (init : Int) (rest : List Int) (stop : Option Nat)
    (h : c.timer ≤ 0 ∨ c.timer < c.occurrences) :
    startN fuel c false (init :: rest) stop = ⟨[], .panicked⟩ := by
  unfold startN
  split
  · rfl
  · rename_i ht
    rcases h with h | h
    · exact absurd h ht
    · simp only [Bool.false_eq_true, if_false]
      split
      · rfl
      · have : subTimer c ≤ 0 := by
          unfold subTimer
          rw [if_pos (by omega), Int.tdiv_eq_ediv_of_nonneg (by omega)]
          exact Int.le_of_eq (Int.ediv_eq_zero_of_lt (by omega) h)
        rw [if_pos this]

example : startN 100 ⟨1000000, 1000001, 0⟩ false [0, 1] (some 1) = ⟨[], .panicked⟩ := by decide

/-- For every other configuration `Start` cannot panic: the first deadline is positive and the
sub-period is positive. -/
theorem C20_no_panic (fuel : Nat) (c : Cfg) (started : Bool) (rs : List Int) (stop : Option Nat)
    (ht : 0 < c.timer) (ho : c.occurrences ≤ c.timer) :
    (startN fuel c started rs stop).status ≠ .panicked := by
  have hsub : 0 < subTimer c := by
    unfold subTimer
    split
    · rename_i hpos
      rw [Int.tdiv_eq_ediv_of_nonneg (by omega)]
      exact Int.le_ediv_of_mul_le hpos (by omega)
    · exact ht
  unfold startN
  rw [if_neg (by omega)]
  split
  · simp
  · cases rs with
    | nil => simp
    | cons init rest =>
      have hd := (trunc_bounds init c.timer ht).2
      simp only
      rw [if_neg (by omega), if_neg (by omega)]
      exact loop_no_panic _ _ _ _ _ _ _ _ _

example : (startN 100 ⟨10, 10, 0⟩ false [0, 11, 12] none).status = .running := by decide

end Clock
