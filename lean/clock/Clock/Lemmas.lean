import Clock.Model

namespace Clock

theorem Z_pos : 0 < Z := by decide

/-- decomposition used everywhere: `u = d * (u / d) + u % d`, `0 ≤ u % d < d`. -/
theorem divmod (u d : Int) (hd : 0 < d) :
    u = d * (u / d) + u % d ∧ 0 ≤ u % d ∧ u % d < d := by
  refine ⟨?_, Int.emod_nonneg u (by omega), Int.emod_lt_of_pos u hd⟩
  have := Int.emod_add_mul_ediv u d
  omega

theorem trunc_pos (t d : Int) (hd : 0 < d) : trunc t d = t - (t + Z) % d := by
  unfold trunc; simp [Int.not_le.mpr hd]

theorem round_pos (t d : Int) (hd : 0 < d) :
    round t d = if (t + Z) % d + (t + Z) % d < d then t - (t + Z) % d else t + (d - (t + Z) % d) := by
  unfold round; simp [Int.not_le.mpr hd]

theorem trunc_aligned (t d : Int) (hd : 0 < d) : (trunc t d + Z) % d = 0 := by
  rw [trunc_pos t d hd]
  obtain ⟨h1, _, _⟩ := divmod (t + Z) d hd
  have : t - (t + Z) % d + Z = d * ((t + Z) / d) := by omega
  rw [this]; exact Int.mul_emod_right _ _

theorem round_aligned (t d : Int) (hd : 0 < d) : (round t d + Z) % d = 0 := by
  rw [round_pos t d hd]
  obtain ⟨h1, _, _⟩ := divmod (t + Z) d hd
  split
  · have : t - (t + Z) % d + Z = d * ((t + Z) / d) := by omega
    rw [this]; exact Int.mul_emod_right _ _
  · have : t + (d - (t + Z) % d) + Z = d * ((t + Z) / d + 1) := by
      rw [Int.mul_add, Int.mul_one]; omega
    rw [this]; exact Int.mul_emod_right _ _

theorem trunc_bounds (t d : Int) (hd : 0 < d) : trunc t d ≤ t ∧ t < trunc t d + d := by
  rw [trunc_pos t d hd]
  obtain ⟨_, h2, h3⟩ := divmod (t + Z) d hd
  omega

theorem round_near (t d : Int) (hd : 0 < d) :
    -d < 2 * (round t d - t) ∧ 2 * (round t d - t) ≤ d := by
  rw [round_pos t d hd]
  obtain ⟨_, h2, h3⟩ := divmod (t + Z) d hd
  split <;> omega

theorem round_mono (a b d : Int) (hd : 0 < d) (hab : a ≤ b) : round a d ≤ round b d := by
  rw [round_pos a d hd, round_pos b d hd]
  obtain ⟨ha, ha2, ha3⟩ := divmod (a + Z) d hd
  obtain ⟨hb, hb2, hb3⟩ := divmod (b + Z) d hd
  have hq : (a + Z) / d ≤ (b + Z) / d := Int.ediv_le_ediv hd (by omega)
  rcases Int.lt_or_eq_of_le hq with hlt | heq
  · have h1 : (a + Z) / d + 1 ≤ (b + Z) / d := by omega
    have h2 := Int.mul_le_mul_of_nonneg_left h1 (Int.le_of_lt hd)
    rw [Int.mul_add, Int.mul_one] at h2
    split <;> split <;> omega
  · rw [heq] at ha
    split <;> split <;> omega

/-- An aligned instant `b` is the result of `Round` for every reading in `[b - d/2, b + d/2)`. -/
theorem round_eq_of_near (t b d : Int) (hd : 0 < d) (hb : (b + Z) % d = 0)
    (h1 : -d ≤ 2 * (t - b)) (h2 : 2 * (t - b) < d) : round t d = b := by
  rw [round_pos t d hd]
  obtain ⟨m, hm⟩ := Int.dvd_of_emod_eq_zero hb
  rcases Int.lt_or_le (t - b) 0 with hneg | hpos
  · have hr : (t + Z) % d = t - b + d := by
      have e : t + Z = (t - b + d) + d * (m - 1) := by
        rw [Int.mul_sub, Int.mul_one]; omega
      rw [e, Int.add_mul_emod_self_left]
      exact Int.emod_eq_of_lt (by omega) (by omega)
    rw [hr]; split <;> omega
  · have hr : (t + Z) % d = t - b := by
      have e : t + Z = (t - b) + d * m := by omega
      rw [e, Int.add_mul_emod_self_left]
      exact Int.emod_eq_of_lt (by omega) (by omega)
    rw [hr]; split <;> omega

theorem subTimer_le (c : Cfg) (ht : 0 < c.timer) : subTimer c ≤ c.timer := by
  unfold subTimer
  split
  · rename_i h
    rw [Int.tdiv_eq_ediv_of_nonneg (Int.le_of_lt ht)]
    have := Int.ediv_le_self c.occurrences (Int.le_of_lt ht)
    exact Int.ediv_le_self _ (Int.le_of_lt ht)
  · exact Int.le_refl _

end Clock

namespace Clock

/-- (A) the fires are computed, in order, from a prefix of the readings, by `Round(subTimer)`. -/
theorem loop_prefix (sub occ skipped : Int) (stop : Option Nat) :
    ∀ (fuel slot i k : Nat) (rs : List Int),
      ((loop sub occ skipped stop fuel slot i k rs).fires.map Fire.now) <+: rs ∧
      ∀ f ∈ (loop sub occ skipped stop fuel slot i k rs).fires, f.stamp = round f.now sub := by
  intro fuel
  induction fuel with
  | zero => intro slot i k rs; simp [loop]
  | succ fuel ih =>
    intro slot i k rs
    simp only [loop]
    split
    · split
      · split
        · simp
        · cases rs with
          | nil => simp
          | cons now rs' =>
            obtain ⟨h1, h2⟩ := ih (slot + 1) (i + 1) (k + 1) rs'
            refine ⟨?_, ?_⟩
            · simpa using h1
            · intro f hf
              simp only [List.mem_cons] at hf
              rcases hf with rfl | hf
              · rfl
              · exact h2 f hf
      · exact ih _ _ _ _
    · exact ih _ _ _ _

/-- (B) check number `j` reading `false` ends the run: at most `j - k` further fires. -/
theorem loop_stop (sub occ skipped : Int) (j : Nat) :
    ∀ (fuel slot i k : Nat) (rs : List Int), k ≤ j →
      (loop sub occ skipped (some j) fuel slot i k rs).fires.length + k ≤ j := by
  intro fuel
  induction fuel with
  | zero => intro slot i k rs h; simpa [loop] using h
  | succ fuel ih =>
    intro slot i k rs hk
    simp only [loop]
    split
    · split
      · split
        · simpa using hk
        · rename_i hne
          have hkj : k + 1 ≤ j := by
            have : j ≠ k := fun e => hne (by rw [e])
            omega
          cases rs with
          | nil => simpa using hk
          | cons now rs' =>
            have := ih (slot + 1) (i + 1) (k + 1) rs' hkj
            simp only [List.length_cons]
            omega
      · exact ih _ _ _ _ hk
    · exact ih _ _ _ _ hk

end Clock

namespace Clock

theorem slot_mod (slot i : Nat) (q occ : Int) (h : (slot : Int) = q * occ + i) (h1 : (i : Int) < occ) :
    (slot : Int) % occ = i := by
  have e : (slot : Int) = (i : Int) + occ * q := by rw [Int.mul_comm occ q]; omega
  rw [e, Int.add_mul_emod_self_left]
  exact Int.emod_eq_of_lt (by omega) h1

/-- (C) which inner-loop iterations are stamped. -/
theorem loop_slots (sub occ skipped : Int) (stop : Option Nat) :
    ∀ (fuel slot i k : Nat) (rs : List Int) (q : Int),
      (slot : Int) = q * occ + i → (i : Int) ≤ occ →
      (∀ f ∈ (loop sub occ skipped stop fuel slot i k rs).fires,
          slot ≤ f.slot ∧ (f.i : Int) = (f.slot : Int) % occ ∧ skipped ≤ (f.i : Int) ∧ (f.i : Int) < occ) ∧
      List.Pairwise (· < ·) ((loop sub occ skipped stop fuel slot i k rs).fires.map Fire.slot) ∧
      (∀ f ∈ (loop sub occ skipped stop fuel slot i k rs).fires, ∀ n : Nat,
          slot ≤ n → n < f.slot → skipped ≤ (n : Int) % occ →
          n ∈ (loop sub occ skipped stop fuel slot i k rs).fires.map Fire.slot) := by
  intro fuel
  induction fuel with
  | zero => intro slot i k rs q _ _; simp [loop]
  | succ fuel ih =>
    intro slot i k rs q hq hi
    simp only [loop]
    split
    · rename_i hlt
      have hmod := slot_mod slot i q occ hq hlt
      have hq' : ((slot + 1 : Nat) : Int) = q * occ + ((i + 1 : Nat) : Int) := by
        push_cast; omega
      have hi' : ((i + 1 : Nat) : Int) ≤ occ := by push_cast; omega
      split
      · rename_i hsk
        split
        · simp
        · cases rs with
          | nil => simp
          | cons now rs' =>
            obtain ⟨h1, h2, h3⟩ := ih (slot + 1) (i + 1) (k + 1) rs' q hq' hi'
            refine ⟨?_, ?_, ?_⟩
            · intro f hf
              simp only [List.mem_cons] at hf
              rcases hf with rfl | hf
              · exact ⟨Nat.le_refl _, hmod.symm, hsk, hlt⟩
              · obtain ⟨a, b, c, d⟩ := h1 f hf
                exact ⟨by omega, b, c, d⟩
            · simp only [List.map_cons, List.pairwise_cons]
              refine ⟨?_, h2⟩
              intro n hn
              obtain ⟨f, hf, rfl⟩ := List.mem_map.mp hn
              have := (h1 f hf).1
              omega
            · intro f hf n hn1 hn2 hn3
              simp only [List.mem_cons] at hf
              simp only [List.map_cons, List.mem_cons]
              rcases hf with rfl | hf
              · exact absurd hn2 (by simp; omega)
              · rcases Nat.eq_or_lt_of_le hn1 with e | l
                · exact Or.inl e.symm
                · exact Or.inr (h3 f hf n l hn2 hn3)
      · rename_i hsk
        obtain ⟨h1, h2, h3⟩ := ih (slot + 1) (i + 1) k rs q hq' hi'
        refine ⟨?_, h2, ?_⟩
        · intro f hf
          obtain ⟨a, b, c, d⟩ := h1 f hf
          exact ⟨by omega, b, c, d⟩
        · intro f hf n hn1 hn2 hn3
          rcases Nat.eq_or_lt_of_le hn1 with e | l
          · subst e; rw [hmod] at hn3; omega
          · exact h3 f hf n l hn2 hn3
    · rename_i hge
      have hq' : (slot : Int) = (q + 1) * occ + ((0 : Nat) : Int) := by
        rw [Int.add_mul]; push_cast; omega
      have hi' : ((0 : Nat) : Int) ≤ occ := by push_cast; omega
      exact ih slot 0 k rs (q + 1) hq' hi'

/-- (D) `Start` returns only through the check that reads `false`. -/
theorem loop_returned (sub occ skipped : Int) (stop : Option Nat) :
    ∀ (fuel slot i k : Nat) (rs : List Int),
      (loop sub occ skipped stop fuel slot i k rs).status = .returned →
      stop = some (k + (loop sub occ skipped stop fuel slot i k rs).fires.length) := by
  intro fuel
  induction fuel with
  | zero => intro slot i k rs h; simp [loop] at h
  | succ fuel ih =>
    intro slot i k rs
    simp only [loop]
    split
    · split
      · split
        · rename_i h; intro _; simpa using h
        · cases rs with
          | nil => intro h; simp at h
          | cons now rs' =>
            intro h
            have := ih (slot + 1) (i + 1) (k + 1) rs' h
            simp only [List.length_cons]
            exact this.trans (congrArg some (by omega))
      · exact ih _ _ _ _
    · exact ih _ _ _ _

/-- (E) when no `i ∈ [0, occurrences)` satisfies `i ≥ skipped`, the loop never asks for a reading,
never checks `started` and never calls the function, however long it runs. -/
theorem loop_deaf (sub occ skipped : Int) (stop : Option Nat) (h : occ ≤ 0 ∨ occ ≤ skipped) :
    ∀ (fuel slot i k : Nat) (rs : List Int),
      loop sub occ skipped stop fuel slot i k rs = ⟨[], .noFuel⟩ := by
  intro fuel
  induction fuel with
  | zero => intro slot i k rs; simp [loop]
  | succ fuel ih =>
    intro slot i k rs
    simp only [loop]
    split
    · split
      · omega
      · exact ih _ _ _ _
    · exact ih _ _ _ _

end Clock

namespace Clock

/-- `Truncate(d) + d` is the least aligned instant strictly after `t`. -/
theorem trunc_next_least (t b d : Int) (hd : 0 < d) (hb : (b + Z) % d = 0) (hlt : t < b) :
    trunc t d + d ≤ b := by
  rw [trunc_pos t d hd]
  obtain ⟨m, hm⟩ := Int.dvd_of_emod_eq_zero hb
  obtain ⟨h1, h2, h3⟩ := divmod (t + Z) d hd
  have hq : (t + Z) / d < m := by
    apply Int.lt_of_mul_lt_mul_left (a := d) _ (Int.le_of_lt hd)
    omega
  have h4 : (t + Z) / d + 1 ≤ m := by omega
  have h5 := Int.mul_le_mul_of_nonneg_left h4 (Int.le_of_lt hd)
  rw [Int.mul_add, Int.mul_one] at h5
  omega

theorem Z_days : Z = 719162 * 86400000000000 := by decide

/-- what `startN` is when it produces anything. -/
theorem startN_shape (fuel : Nat) (c : Cfg) (started : Bool) (rs : List Int) (stop : Option Nat) :
    (startN fuel c started rs stop).fires = [] ∨
    (0 < c.timer ∧ 0 < subTimer c ∧ started = false ∧ ∃ init rest, rs = init :: rest ∧
      startN fuel c started rs stop =
        loop (subTimer c) c.occurrences c.skipped stop fuel 0 0 0 rest) := by
  unfold startN
  split
  · exact Or.inl rfl
  · split
    · exact Or.inl rfl
    · cases rs with
      | nil => exact Or.inl rfl
      | cons init rest =>
        simp only
        split
        · exact Or.inl rfl
        · split
          · exact Or.inl rfl
          · refine Or.inr ⟨by omega, by omega, ?_, init, rest, rfl, rfl⟩
            cases started <;> simp_all

end Clock

namespace Clock

/-- the loop itself never panics. -/
theorem loop_no_panic (sub occ skipped : Int) (stop : Option Nat) :
    ∀ (fuel slot i k : Nat) (rs : List Int),
      (loop sub occ skipped stop fuel slot i k rs).status ≠ .panicked := by
  intro fuel
  induction fuel with
  | zero => intro slot i k rs; simp [loop]
  | succ fuel ih =>
    intro slot i k rs
    simp only [loop]
    split
    · split
      · split
        · simp
        · cases rs with
          | nil => simp
          | cons now rs' => exact ih _ _ _ _
      · exact ih _ _ _ _
    · exact ih _ _ _ _

end Clock
