/-
Clock.Model — executable model of /repo/validatornode/domain/clock/engine.go (core Lean only).

Times are `Int` nanoseconds since the Unix epoch (what `time.Time.UnixNano()` returns); durations are
`Int` nanoseconds (`time.Duration`).  Go's `Time.Truncate` / `Time.Round` work on the absolute time since
Go's zero time (January 1, year 1 UTC), which is `Z` nanoseconds before the Unix epoch, and return the
receiver unchanged for a non-positive duration.  `Round` rounds half up.

The engine is a function of
  * its configuration `(timer, occurrences, skippedOccurrences)`,
  * the list of clock readings returned by the successive calls of `watch.Now()` (arbitrary: this is
    where all scheduling delays of the ticking goroutine live), and
  * the index of the first check of `engine.started` that observes `false` (where `Stop` lands),
to the list of calls of `engine.function`.  Real time (how long `<-engine.ticker.C` sleeps) does not
influence the stamps, so it is not a parameter.  The two places where the runtime panics
(`time.NewTicker` / `Ticker.Reset` with a non-positive duration) are explicit outcomes.
-/
namespace Clock

/-- Unix epoch minus Go's zero time (year 1), in nanoseconds: 62135596800 s. -/
def Z : Int := 62135596800 * 1000000000

/-- `time.Time.Truncate(d)` on Unix nanoseconds. -/
def trunc (t d : Int) : Int :=
  if d ≤ 0 then t else t - (t + Z) % d

/-- `time.Time.Round(d)` on Unix nanoseconds (`lessThanHalf(r, d)` is `r + r < d`). -/
def round (t d : Int) : Int :=
  if d ≤ 0 then t
  else
    let r := (t + Z) % d
    if r + r < d then t - r else t + (d - r)

/-- Arguments of `NewEngine` (the function and the watch are the environment). -/
structure Cfg where
  timer : Int
  occurrences : Int
  skipped : Int
  deriving Repr, DecidableEq

/-- `NewEngine`: `subTimer = timer.Nanoseconds() / occurrences` (Go integer division, truncating)
when `occurrences > 0`, else `timer`. -/
def subTimer (c : Cfg) : Int :=
  if c.occurrences > 0 then Int.tdiv c.timer c.occurrences else c.timer

/-- One call `engine.function(stamp)`. -/
structure Fire where
  /-- global index of the inner-loop iteration (`cycle * occurrences + i`); 0 for `Pulse` -/
  slot : Nat
  /-- loop variable `i` of the inner `for` -/
  i : Nat
  /-- the reading `engine.watch.Now()` the stamp was computed from -/
  now : Int
  /-- the argument passed to `engine.function` -/
  stamp : Int
  deriving Repr, DecidableEq

inductive Status
  /-- the method returned (for `Start`: a check observed `started == false`, ticker stopped) -/
  | returned
  /-- the script of readings is exhausted: the goroutine is still inside the method -/
  | running
  /-- `time.NewTicker` / `Ticker.Reset` called with a non-positive duration -/
  | panicked
  /-- the simulated number of loop iterations is exhausted without the engine asking for a reading:
      it is iterating without ever checking `started` or calling the function -/
  | noFuel
  deriving Repr, DecidableEq

structure Result where
  fires : List Fire
  status : Status
  deriving Repr, DecidableEq

/-- The nested loop of `Start`:
```go
for {
    for i := 0; i < occurrences; i++ {
        if i >= engine.skippedOccurrences {
            if !engine.started { engine.ticker.Stop(); return }
            now := engine.watch.Now().Round(engine.subTimer)
            engine.function(now.UnixNano())
        }
        <-engine.ticker.C
    }
}
```
`fuel` bounds the number of loop-header evaluations simulated; `slot` counts inner iterations, `k`
counts the checks of `engine.started` performed so far; `stop = some k` means check number `k` is the
first one that reads `false`. -/
def loop (sub occ skipped : Int) (stop : Option Nat) :
    (fuel : Nat) → (slot i k : Nat) → List Int → Result
  | 0, _, _, _, _ => ⟨[], .noFuel⟩
  | fuel + 1, slot, i, k, rs =>
    if (i : Int) < occ then
      if skipped ≤ (i : Int) then
        if stop = some k then ⟨[], .returned⟩
        else
          match rs with
          | [] => ⟨[], .running⟩
          | now :: rs' =>
            let r := loop sub occ skipped stop fuel (slot + 1) (i + 1) (k + 1) rs'
            ⟨⟨slot, i, now, round now sub⟩ :: r.fires, r.status⟩
      else
        -- skipped occurrence: only `<-engine.ticker.C`
        loop sub occ skipped stop fuel (slot + 1) (i + 1) k rs
    else
      -- inner loop finished: next turn of the outer `for`
      loop sub occ skipped stop fuel slot 0 k rs

/-- `Start` with an explicit bound on the simulated loop iterations.
`readings` = values returned by the successive `watch.Now()` calls (the first one is `initialTime`). -/
def startN (fuel : Nat) (c : Cfg) (alreadyStarted : Bool) (readings : List Int) (stop : Option Nat) :
    Result :=
  if c.timer ≤ 0 then ⟨[], .panicked⟩                  -- NewEngine: time.NewTicker(timer) panics
  else if alreadyStarted then ⟨[], .returned⟩          -- if engine.started { return }
  else
    match readings with
    | [] => ⟨[], .running⟩
    | initialTime :: rest =>
      let startTime := trunc initialTime c.timer + c.timer
      let deadline := startTime - initialTime
      if deadline ≤ 0 then ⟨[], .panicked⟩             -- engine.ticker.Reset(deadline)
      else if subTimer c ≤ 0 then ⟨[], .panicked⟩      -- engine.ticker.Reset(engine.subTimer)
      else loop (subTimer c) c.occurrences c.skipped stop fuel 0 0 0 rest

/-- Enough iterations to consume every reading when at least one occurrence per cycle is stamped. -/
def defaultFuel (c : Cfg) (readings : List Int) : Nat :=
  (readings.length + 2) * (c.occurrences.toNat + 2)

def start (c : Cfg) (alreadyStarted : Bool) (readings : List Int) (stop : Option Nat) : Result :=
  startN (defaultFuel c readings) c alreadyStarted readings stop

/-- `Pulse`:
```go
if engine.started || engine.requested { return }
now := engine.watch.Now()
startTime := now.Truncate(engine.timer).Add(engine.timer)
deadline := startTime.Sub(now)
engine.ticker.Reset(deadline)
engine.requested = true
<-engine.ticker.C
engine.function(startTime.UnixNano())
engine.requested = false
```
-/
def pulse (c : Cfg) (started requested : Bool) (readings : List Int) : Result :=
  if c.timer ≤ 0 then ⟨[], .panicked⟩
  else if started || requested then ⟨[], .returned⟩
  else
    match readings with
    | [] => ⟨[], .running⟩
    | now :: _ =>
      let startTime := trunc now c.timer + c.timer
      let deadline := startTime - now
      if deadline ≤ 0 then ⟨[], .panicked⟩
      else ⟨[⟨0, 0, now, startTime⟩], .returned⟩

/-- Where a call of `Stop` (which sets `started = false`) lands relative to the engine goroutine. -/
inductive StopAt
  | never
  /-- `Stop` completes before check number `k` of `engine.started` is performed
      (and after check `k-1`, if any, has passed) and outside the window below -/
  | beforeCheck (k : Nat)
  /-- `Stop` completes after check number `k` has passed (read `true`) and before `engine.function`
      is entered for that check — e.g. while the goroutine is inside `watch.Now()` -/
  | inFlight (k : Nat)
  deriving Repr, DecidableEq

/-- Index of the first check that reads `started == false`. -/
def StopAt.firstFalse : StopAt → Option Nat
  | .never => none
  | .beforeCheck k => some k
  | .inFlight k => some (k + 1)

/-- The calls of `engine.function` that begin after `Stop` has completed
(the `k`-th fire is the one belonging to check `k`). -/
def firesAfterStop (s : StopAt) (fires : List Fire) : List Fire :=
  match s with
  | .never => []
  | .beforeCheck k => fires.drop k
  | .inFlight k => fires.drop k

end Clock
