import Conc.Props.Order
open Conc
#print axioms acyclic_no_deadlock
#print axioms C16_lock_order_table
#print axioms C16_lock_order
