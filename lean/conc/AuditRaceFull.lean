import Conc.Props.RaceFull
open Conc
#print axioms C16_discipline
#print axioms C16_race_free
#print axioms C16_no_race
