-- This module serves as the root of the `Conc` library.
-- Import modules here that should be built as part of the library.
import Conc.Basic
