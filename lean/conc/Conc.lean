import Conc.Model
import Conc.Lockset
import Conc.LockOrder
import Conc.Table
import Conc.Fetch
import Conc.Gen
import Conc.Props
