import Conc.Props.Leak
open Conc
#print axioms reach_in_closed
#print axioms noLeak_sound
#print axioms C13_no_leak
#print axioms C13_no_leak_reach
#print axioms fetch_old_leaks
#print axioms fetch_return_without_buffer_leaks
#print axioms fetch_two_slots_no_leak
