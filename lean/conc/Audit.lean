import Conc.Props
open Conc
#print axioms lockset_race_free
#print axioms static_race_free
#print axioms acyclic_no_deadlock
#print axioms reach_in_closed
#print axioms noLeak_sound
#print axioms C16_tables_complete
#print axioms C16_discipline_partial
#print axioms C16_discipline_counterexamples
#print axioms C16_race_free_protected
#print axioms C16_no_race_outside_list
#print axioms C16_discipline
#print axioms C16_race_free
#print axioms C16_no_race
#print axioms C16_lock_order_table
#print axioms C16_lock_order
#print axioms C16_placement_partial
#print axioms C16_placement_counterexamples
#print axioms C13_no_leak
#print axioms C13_no_leak_reach
#print axioms fetch_old_leaks
#print axioms fetch_return_without_buffer_leaks
#print axioms fetch_two_slots_no_leak
