/-
C16, part 1 — the lockset theorem, proved ONCE for all programs.

`lockset_race_free`: in every well-formed interleaving, two accesses by different threads that each hold a
common mutex in incompatible modes (W/W, R/W, W/R) are ordered by happens-before.
`static_race_free`: the same from the thread-local ("static") locksets of a program whose threads are
straight-line event lists — this is the form the regenerated tables are checked against.
-/
import Conc.Model

namespace Conc

theorem holds_append_single (tr : Trace) (s : Step) (t m : Nat) :
    holds (tr ++ [s]) t m = upd t m (holds tr t m) s := by
  simp [holds, List.foldl_append]

theorem take_succ_some {α : Type} (l : List α) (n : Nat) (x : α) (h : l[n]? = some x) :
    l.take (n + 1) = l.take n ++ [x] := by
  rw [List.take_add_one, h]; rfl

theorem take_succ_none {α : Type} (l : List α) (n : Nat) (h : l[n]? = none) :
    l.take (n + 1) = l.take n := by
  rw [List.take_add_one, h]; simp

theorem holds_step (tr : Trace) (n : Nat) (s : Step) (h : tr[n]? = some s) (t m : Nat) :
    holds (tr.take (n + 1)) t m = upd t m (holds (tr.take n) t m) s := by
  rw [take_succ_some tr n s h, holds_append_single]

/-- how a hold can come about in one step -/
theorem upd_eq_some {t m : Nat} {cur : Option Mode} {s : Step} {md : Mode}
    (h : upd t m cur s = some md) : s = ⟨t, .acq m md⟩ ∨ cur = some md := by
  obtain ⟨tid, ev⟩ := s
  unfold upd at h
  by_cases ht : tid = t
  · subst ht
    simp only [if_true] at h
    cases ev with
    | acq m' md' =>
      by_cases hm : m' = m
      · subst hm; simp at h; subst h; exact Or.inl rfl
      · simp [hm] at h; exact Or.inr h
    | rel m' md' =>
      by_cases hm : m' = m
      · subst hm; simp at h
      · simp [hm] at h; exact Or.inr h
    | acc k l o => exact Or.inr h
    | fork c => exact Or.inr h
    | other => exact Or.inr h
  · simp [ht] at h; exact Or.inr h

/-- a hold changes only by the holder's own acquire / release of that mutex -/
theorem upd_ne {t m : Nat} {s : Step} {md : Mode} (h : upd t m (some md) s ≠ some md) :
    s.tid = t ∧ ((∃ md', s.ev = .acq m md') ∨ (∃ md', s.ev = .rel m md')) := by
  obtain ⟨tid, ev⟩ := s
  unfold upd at h
  by_cases ht : tid = t
  · subst ht
    simp only [if_true] at h
    refine ⟨rfl, ?_⟩
    cases ev with
    | acq m' md' =>
      by_cases hm : m' = m
      · subst hm; exact Or.inl ⟨md', rfl⟩
      · simp [hm] at h
    | rel m' md' =>
      by_cases hm : m' = m
      · subst hm; exact Or.inr ⟨md', rfl⟩
      · simp [hm] at h
    | acc k l o => exact absurd rfl h
    | fork c => exact absurd rfl h
    | other => exact absurd rfl h
  · simp [ht] at h

theorem holds_take_zero (tr : Trace) (t m : Nat) : holds (tr.take 0) t m = none := by
  simp [holds]

/-- mutual exclusion: in a well-formed trace two different threads never hold one mutex incompatibly -/
theorem excl (tr : Trace) (hW : WF tr) (m : Nat) :
    ∀ n a b ma mb, a ≠ b → holds (tr.take n) a m = some ma → holds (tr.take n) b m = some mb →
      ma.incompat mb = false := by
  intro n
  induction n with
  | zero =>
    intro a b ma mb _ ha _
    rw [holds_take_zero] at ha; cases ha
  | succ n ih =>
    intro a b ma mb hab ha hb
    cases hs : tr[n]? with
    | none =>
      rw [take_succ_none tr n hs] at ha hb
      exact ih a b ma mb hab ha hb
    | some s =>
      rw [holds_step tr n s hs] at ha hb
      have hen := hW n s hs
      rcases upd_eq_some ha with hsa | hoa
      · rcases upd_eq_some hb with hsb | hob
        · rw [hsa] at hsb; injection hsb with h1 _; exact absurd h1 hab
        · -- a acquires now, b held before
          subst hsa
          cases ma with
          | W => have := hen b; rw [hob] at this; cases this
          | R =>
            have h2 := hen.2 b
            cases mb with
            | R => rfl
            | W => exact absurd hob h2
      · rcases upd_eq_some hb with hsb | hob
        · subst hsb
          cases mb with
          | W => have := hen a; rw [hoa] at this; cases this
          | R =>
            have h2 := hen.2 a
            cases ma with
            | R => rfl
            | W => exact absurd hoa h2
        · exact ih a b ma mb hab hoa hob

/-- the acquisition behind a hold: the last `acq` of the holder, with the hold stable since then -/
theorem last_acq (tr : Trace) (b m : Nat) (mb : Mode) :
    ∀ j, holds (tr.take j) b m = some mb →
      ∃ k, k < j ∧ tr[k]? = some ⟨b, .acq m mb⟩ ∧
        ∀ n, k < n → n ≤ j → holds (tr.take n) b m = some mb := by
  intro j
  induction j with
  | zero => intro h; rw [holds_take_zero] at h; cases h
  | succ j ih =>
    intro h
    have extend : (∃ k, k < j ∧ tr[k]? = some ⟨b, .acq m mb⟩ ∧
        ∀ n, k < n → n ≤ j → holds (tr.take n) b m = some mb) →
        ∃ k, k < j + 1 ∧ tr[k]? = some ⟨b, .acq m mb⟩ ∧
          ∀ n, k < n → n ≤ j + 1 → holds (tr.take n) b m = some mb := by
      rintro ⟨k, hk, hacq, hr⟩
      refine ⟨k, Nat.lt_succ_of_lt hk, hacq, ?_⟩
      intro n hkn hn
      by_cases hnj : n ≤ j
      · exact hr n hkn hnj
      · have : n = j + 1 := by omega
        subst this; exact h
    cases hs : tr[j]? with
    | none =>
      rw [take_succ_none tr j hs] at h
      exact extend (ih h)
    | some s =>
      have h' := h
      rw [holds_step tr j s hs] at h'
      rcases upd_eq_some h' with hsb | hold
      · subst hsb
        refine ⟨j, Nat.lt_succ_self j, hs, ?_⟩
        intro n hjn hn
        have : n = j + 1 := by omega
        subst this; exact h
      · exact extend (ih hold)

/-- if a hold is gone later, the holder released it in between (well-formed traces have no re-entry) -/
theorem release_between (tr : Trace) (hW : WF tr) (a m : Nat) (ma : Mode) (i : Nat)
    (hi : holds (tr.take i) a m = some ma) :
    ∀ d, holds (tr.take (i + d)) a m ≠ some ma →
      ∃ r, i ≤ r ∧ r < i + d ∧ tr[r]? = some ⟨a, .rel m ma⟩ := by
  intro d
  induction d with
  | zero => intro h; exact absurd hi h
  | succ d ih =>
    intro h
    by_cases hd : holds (tr.take (i + d)) a m = some ma
    · cases hs : tr[i + d]? with
      | none =>
        have : tr.take (i + (d + 1)) = tr.take (i + d) := take_succ_none tr (i + d) hs
        rw [this] at h; exact absurd hd h
      | some s =>
        have hstep : holds (tr.take (i + (d + 1))) a m = upd a m (holds (tr.take (i + d)) a m) s :=
          holds_step tr (i + d) s hs a m
        rw [hstep, hd] at h
        obtain ⟨htid, hev⟩ := upd_ne h
        have hen := hW (i + d) s hs
        obtain ⟨tid, ev⟩ := s
        simp only at htid hev
        subst htid
        rcases hev with ⟨md', hacq⟩ | ⟨md', hrel⟩
        · subst hacq
          cases md' with
          | W => have := hen tid; rw [hd] at this; cases this
          | R => have := hen.1; rw [hd] at this; cases this
        · subst hrel
          have : holds (tr.take (i + d)) tid m = some md' := hen
          rw [hd] at this
          injection this with this
          subst this
          exact ⟨i + d, Nat.le_add_right i d, by omega, hs⟩
    · obtain ⟨r, h1, h2, h3⟩ := ih hd
      exact ⟨r, h1, by omega, h3⟩

/-- **The lockset theorem.**  Two accesses by different threads, each made while holding mutex `m`, in
incompatible modes, are ordered by happens-before in every well-formed interleaving. -/
theorem lockset_race_free (tr : Trace) (hW : WF tr) {i j a b m : Nat} {ma mb : Mode}
    {k₁ k₂ : Kind} {l₁ l₂ o₁ o₂ : Nat}
    (hij : i < j) (hi : tr[i]? = some ⟨a, .acc k₁ l₁ o₁⟩) (hj : tr[j]? = some ⟨b, .acc k₂ l₂ o₂⟩)
    (hab : a ≠ b) (ha : holds (tr.take i) a m = some ma) (hb : holds (tr.take j) b m = some mb)
    (hinc : ma.incompat mb = true) : HB tr i j := by
  obtain ⟨k, hkj, hk, hrange⟩ := last_acq tr b m mb j hb
  rcases Nat.lt_trichotomy k i with hlt | heq | hgt
  · have hbi := hrange i hlt (Nat.le_of_lt hij)
    have := excl tr hW m i a b ma mb hab ha hbi
    rw [this] at hinc; cases hinc
  · subst heq; rw [hi] at hk; cases hk
  · have hen := hW k _ hk
    have hgone : holds (tr.take k) a m ≠ some ma := by
      cases mb with
      | W => have := hen a; rw [this]; intro h; cases h
      | R =>
        cases ma with
        | R => cases hinc
        | W => exact hen.2 a
    have hki : i + (k - i) = k := by omega
    have hgone' : holds (tr.take (i + (k - i))) a m ≠ some ma := by rw [hki]; exact hgone
    obtain ⟨r, hir, hrk, hr⟩ := release_between tr hW a m ma i ha (k - i) hgone'
    rw [hki] at hrk
    have hne : r ≠ i := by
      intro h; subst h; rw [hi] at hr; cases hr
    have hir' : i < r := by omega
    exact HB.trans (HB.trans (HB.po hir' hi hr rfl) (HB.sync hrk hr hk hinc)) (HB.po hkj hk hj rfl)

/-! ### From dynamic holds to the static locksets of straight-line threads -/

theorem upd_eq_updE (t m : Nat) (cur : Option Mode) (s : Step) :
    upd t m cur s = if s.tid = t then updE m cur s.ev else cur := by
  unfold upd updE
  split <;> rfl

theorem foldl_upd_proj (t m : Nat) (tr : Trace) :
    ∀ cur, tr.foldl (upd t m) cur = (proj tr t).foldl (updE m) cur := by
  induction tr with
  | nil => intro cur; rfl
  | cons s tr ih =>
    intro cur
    simp only [List.foldl_cons]
    rw [ih, upd_eq_updE]
    unfold proj
    by_cases h : s.tid = t
    · simp [List.filter_cons, h]
    · simp [List.filter_cons, h]

/-- what a thread holds depends only on its own events -/
theorem holds_eq_heldSeq (tr : Trace) (t m : Nat) : holds tr t m = heldSeq (proj tr t) m :=
  foldl_upd_proj t m tr none

theorem proj_append_single (tr : Trace) (s : Step) (t : Nat) :
    proj (tr ++ [s]) t = if s.tid = t then proj tr t ++ [s.ev] else proj tr t := by
  unfold proj
  by_cases h : s.tid = t <;> simp [List.filter_append, List.filter_cons, h]

theorem proj_take_prefix (tr : Trace) (n t : Nat) : proj (tr.take n) t <+: proj tr t := by
  unfold proj
  exact ((List.take_prefix n tr).filter _).map _

theorem prefix_snoc_get {α : Type} (l L : List α) (e : α) (h : l ++ [e] <+: L) :
    L[l.length]? = some e ∧ l = L.take l.length := by
  obtain ⟨rest, hL⟩ := h
  subst hL
  constructor
  · simp [List.append_assoc]
  · simp [List.append_assoc, List.take_append]

/-- static lockset of position `p` of a straight-line thread -/
def heldAt (evs : List PEv) (p m : Nat) : Option Mode := heldSeq (evs.take p) m

/-- positions `p` of thread `a` and `q` of thread `b` hold a common mutex incompatibly -/
def ProtectedAt (P : Program) (a p b q : Nat) : Prop :=
  ∃ m ma mb, heldAt (P.getD a []) p m = some ma ∧ heldAt (P.getD b []) q m = some mb ∧
    ma.incompat mb = true

/-- an event of thread `a` at trace position `i` sits at some position `p` of the thread's program, and the
dynamic holds at `i` are the static locksets at `p` -/
theorem locate (P : Program) (tr : Trace) (hC : Conforms P tr) {i a : Nat} {e : PEv}
    (hi : tr[i]? = some ⟨a, e⟩) :
    ∃ p, (P.getD a [])[p]? = some e ∧ ∀ m, holds (tr.take i) a m = heldAt (P.getD a []) p m := by
  have h1 : proj (tr.take (i + 1)) a = proj (tr.take i) a ++ [e] := by
    rw [take_succ_some tr i _ hi, proj_append_single]; simp
  have h2 : proj (tr.take i) a ++ [e] <+: P.getD a [] := by
    rw [← h1]; exact (proj_take_prefix tr (i + 1) a).trans (hC a)
  obtain ⟨hget, htake⟩ := prefix_snoc_get _ _ _ h2
  refine ⟨(proj (tr.take i) a).length, hget, ?_⟩
  intro m
  rw [holds_eq_heldSeq]
  unfold heldAt
  rw [← htake]

/-- **Static form.**  If every pair of program positions carrying these two access events is protected by a
common mutex in incompatible modes, the two accesses are ordered in every well-formed interleaving. -/
theorem static_race_free (P : Program) (tr : Trace) (hC : Conforms P tr) (hW : WF tr)
    {i j a b : Nat} {k₁ k₂ : Kind} {l₁ l₂ o₁ o₂ : Nat}
    (hij : i < j) (hi : tr[i]? = some ⟨a, .acc k₁ l₁ o₁⟩) (hj : tr[j]? = some ⟨b, .acc k₂ l₂ o₂⟩)
    (hab : a ≠ b)
    (hprot : ∀ p q, (P.getD a [])[p]? = some (.acc k₁ l₁ o₁) → (P.getD b [])[q]? = some (.acc k₂ l₂ o₂) →
      ProtectedAt P a p b q) : HB tr i j := by
  obtain ⟨p, hp, hpa⟩ := locate P tr hC hi
  obtain ⟨q, hq, hqb⟩ := locate P tr hC hj
  obtain ⟨m, ma, mb, h1, h2, h3⟩ := hprot p q hp hq
  exact lockset_race_free tr hW hij hi hj hab (by rw [hpa]; exact h1) (by rw [hqb]; exact h2) h3

end Conc
