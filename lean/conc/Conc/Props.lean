-- Property theorems of engine `conc` (C16, and the leak part of C13); one module per part so that a broken
-- obligation of one part does not hide the others.
import Conc.Props.Race
import Conc.Props.RaceFull
import Conc.Props.Order
import Conc.Props.Leak
import Conc.Props.Placement
