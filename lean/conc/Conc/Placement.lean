/-
C16, part 3 — placements at table level.

A placement runs an inner root to completion at a collaborator call (`call` / `spawn` / external call event)
of an outer operation.  At table level a placement is

* `excluded`  the outer holds, at that point, a mutex the inner acquires somewhere in an incompatible mode:
              the inner cannot complete there (e.g. a block cannot be appended during Update's commit, which
              runs under the chain lock that AddBlock takes);
* `stale`     the outer reads a location before the point and writes it after, and the inner writes it:
              the classic check-then-act / lost-update shape (e.g. block production between Update's snapshot
              `hostBlocks := blockchain.blocks` and its commit);
* safe        otherwise (at the granularity of these tables).

This is a proxy for atomicity, not a proof of the state invariants C01–C07 after the placement: those are
checked on the real code by `ruconc placements` (see the evidence).
-/
import Conc.Table

namespace Conc

/-- accesses with their positions -/
def accPosFrom : List PEv → Nat → List (Nat × Kind × Nat)
  | [], _ => []
  | .acc k l _ :: es, p => (p, k, l) :: accPosFrom es (p + 1)
  | _ :: es, p => accPosFrom es (p + 1)

def heldAtL (evs : List PEv) (p : Nat) : HeldL := (evs.take p).foldl hstep []

def rootThreads (tbl : Table) (ri : Nat) : List ThreadInfo :=
  match tbl.roots[ri]? with
  | some r => threadsOfRoot tbl ri r
  | none => []

/-- locations the root writes (any of its threads) -/
def rootWrites (tbl : Table) (ri : Nat) : List Nat :=
  (rootThreads tbl ri).flatMap fun t =>
    (accPosFrom t.flat.evs 0).filterMap fun (_, k, l) => if k == .read then none else some l

/-- mutexes the root acquires, with the strongest mode -/
def rootAcqs (tbl : Table) (ri : Nat) : List (Nat × Mode) :=
  (rootThreads tbl ri).flatMap fun t => t.flat.evs.filterMap fun
    | .acq m md => some (m, md)
    | _ => none

def acquiresIncompat (acqs : List (Nat × Mode)) (m : Nat) (md : Mode) : Bool :=
  acqs.any fun x => x.1 == m && md.incompat x.2

def excludedB (held : HeldL) (innerAcqs : List (Nat × Mode)) : Bool :=
  held.any fun x => acquiresIncompat innerAcqs x.1 x.2

def staleB (accs : List (Nat × Kind × Nat)) (pos : Nat) (innerWrites : List Nat) : Bool :=
  accs.any fun a =>
    a.2.1 == .read && a.1 < pos && innerWrites.contains a.2.2 &&
      accs.any fun b => b.2.2 == a.2.2 && b.2.1 != .read && pos < b.1

def placementSafeB (tbl : Table) (p : Placement) : Bool :=
  match (rootThreads tbl p.root).find? (fun t => t.child == p.child) with
  | none => false
  | some t =>
    excludedB (heldAtL t.flat.evs p.pos) (rootAcqs tbl p.inner) ||
      !staleB (accPosFrom t.flat.evs 0) p.pos (rootWrites tbl p.inner)

def innerRoots (tbl : Table) (outer : Nat) : List Nat :=
  (List.range tbl.roots.length).filter fun rj =>
    match tbl.roots[rj]? with
    | some r => r.kind != 2 && (rj != outer || r.multi)
    | none => false

/-- every placement point of the site methods × every inner root -/
def placementPoints (tbl : Table) (sites : List Nat) : List Placement :=
  (List.range tbl.roots.length).flatMap fun ri =>
    (rootThreads tbl ri).flatMap fun t =>
      (t.flat.sites.reverse.filter fun s => sites.contains s.2).flatMap fun s =>
        (innerRoots tbl ri).map fun rj => ⟨ri, t.child, s.1, rj⟩

end Conc
