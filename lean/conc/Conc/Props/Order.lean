/-
C16 — deadlock part (property theorems only).
-/
import Conc.Gen

namespace Conc

/-- table check: the extractor's rank strictly grows along every acquired-while-holding edge of every thread
(all modes, self edges included: `isEmpty()` under the chain lock must not lock again; `Copy()`/`Clear()`
take three RW-mutexes in one fixed order, `Update` two), and every thread releases what it acquired -/
theorem C16_lock_order_table :
    orderB Gen.lockRank Gen.table = true ∧ balancedB Gen.table = true := by decide +kernel

/-- hence, by `acyclic_no_deadlock`: no state of the node's threads is a deadlock on mutexes -/
theorem C16_lock_order (pcs : List Nat) : ¬ Deadlock (programOf Gen.table) pcs :=
  acyclic_no_deadlock _ (rankOf Gen.lockRank) Gen.lockRank.sum (rankOf_le_sum _)
    (orderB_sound _ _ C16_lock_order_table.1) (balancedB_sound _ C16_lock_order_table.2) pcs

-- non-vacuity: there are acquired-while-holding edges to order
example : (edgesOf Gen.table).length ≥ 1 := by decide +kernel
-- and the general theorem rejects an inverted order: two threads taking two mutexes in opposite orders deadlock
example : Deadlock [[.acq 0 .W, .acq 1 .W, .rel 1 .W, .rel 0 .W], [.acq 1 .W, .acq 0 .W, .rel 0 .W, .rel 1 .W]] [1, 1] := by
  refine ⟨⟨0, _, rfl⟩, ?_⟩
  intro t e h
  match t, h with
  | 0, h => simp [nextEv, List.getD] at h; subst h; exact ⟨1, .W, rfl, ⟨1, by decide⟩⟩
  | 1, h => simp [nextEv, List.getD] at h; subst h; exact ⟨0, .W, rfl, ⟨0, by decide⟩⟩
  | t + 2, h => simp [nextEv, List.getD] at h

end Conc
