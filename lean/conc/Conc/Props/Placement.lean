/-
C16 — placement / atomicity part at table level (property theorems only).
-/
import Conc.Gen
import Conc.Placement

namespace Conc

/-- FULL statement: every placement of a root inside a collaborator call of Update / Validate / AddTransaction
is excluded by a held mutex or shows no stale read-then-write.  FALSE on the current tree. -/
def C16_placement_full : Prop :=
  ∀ p ∈ placementPoints Gen.table Gen.placementSites, placementSafeB Gen.table p = true

/-- PARTIAL: it holds for every placement that is not listed in `Gen.knownPlacements` — in particular for
every point inside Update's commit against block production (excluded by the chain lock). -/
theorem C16_placement_partial :
    ∀ p ∈ placementPoints Gen.table Gen.placementSites, p ∉ Gen.knownPlacements →
      placementSafeB Gen.table p = true := by
  have h : ((placementPoints Gen.table Gen.placementSites).all fun p =>
      Gen.knownPlacements.contains p || placementSafeB Gen.table p) = true := by decide +kernel
  intro p hp hn
  rw [List.all_eq_true] at h
  have := h p hp
  rw [Bool.or_eq_true] at this
  rcases this with h1 | h1
  · exact absurd (List.contains_iff_mem.mp h1) hn
  · exact h1

/-- the listed placements are placement points and are NOT safe at table level (witnesses: e.g. Validate
between Update's snapshot of `blockchain.blocks` and its commit) -/
theorem C16_placement_counterexamples :
    (Gen.knownPlacements.all fun p =>
      (placementPoints Gen.table Gen.placementSites).contains p && !placementSafeB Gen.table p) = true := by
  decide +kernel

-- non-vacuity: there are placement points, and some of them are excluded by a held lock
example : 1 ≤ (placementPoints Gen.table Gen.placementSites).length := by decide +kernel

end Conc
