/-
C16 — data-race part, FULL statement (its own module: when a source change introduces an unprotected pair this
theorem stops checking while `Conc.Props.Race` — the partial statement and the list of failing rows — still builds
and names the rows).
-/
import Conc.Props.Race

namespace Conc

/-- **C16 (no data race), full strength over the regenerated tables**: every pair of conflicting accesses
reachable from two concurrently running roots of the node holds a common mutex in incompatible modes.
`decide +kernel` over the table regenerated from the current Go sources. -/
theorem C16_discipline : C16_discipline_full :=
  disciplineB_sound _ _ (by decide +kernel)

/-- hence, by `lockset_race_free`: in EVERY well-formed interleaving of the node's threads any two conflicting
accesses by different threads are ordered by happens-before. -/
theorem C16_race_free (tr : Trace) (hC : Conforms (programOf Gen.table) tr) (hW : WF tr)
    {i j a b : Nat} {k₁ k₂ : Kind} {l o₁ o₂ : Nat} (hij : i < j)
    (hi : tr[i]? = some ⟨a, .acc k₁ l o₁⟩) (hj : tr[j]? = some ⟨b, .acc k₂ l o₂⟩) (hab : a ≠ b)
    (hconf : k₁.conflict k₂ = true) : HB tr i j := by
  apply static_race_free (programOf Gen.table) tr hC hW hij hi hj hab
  intro p q hp hq
  rcases Nat.lt_or_ge a b with h | h
  · exact C16_discipline a b p q k₁ k₂ l o₁ o₂ h hp hq hconf rfl
  · have hba : b < a := by omega
    have hconf' : k₂.conflict k₁ = true := by rw [conflict_comm]; exact hconf
    exact protectedAt_symm (C16_discipline b a q p k₂ k₁ l o₂ o₁ hba hq hp hconf' rfl)

/-- no `Race` at all in any conforming well-formed trace -/
theorem C16_no_race (tr : Trace) (hC : Conforms (programOf Gen.table) tr) (hW : WF tr) (i j : Nat) :
    ¬ Race tr i j := by
  intro hr
  obtain ⟨hij, a, b, k₁, k₂, l, o₁, o₂, hi, hj, hab, hconf, hnhb⟩ := hr
  exact hnhb (C16_race_free tr hC hW hij hi hj hab hconf)

end Conc
