/-
C13 (leak part) — property theorems only.
-/
import Conc.Gen

namespace Conc

/-- for every fault kind of GetBlocks and every schedule, every maximal execution in which GetBlocks returns
ends with the fetch worker terminated (and the receiver never reads a closed empty channel) -/
theorem C13_no_leak : noLeak Gen.fetch = true := by decide +kernel

/-- the same over the inductive reachability relation (lifting lemma `reach_in_closed`) -/
theorem C13_no_leak_reach (s : FState) (h : Reach Gen.fetch s) : bad Gen.fetch s = false :=
  noLeak_sound _ C13_no_leak s h

/-- documentation of the repaired defect D5: the shape before db4bb9e leaks … -/
theorem fetch_old_leaks : noLeak oldFetch = false := by decide +kernel

/-- … a `return` after the error send alone does not help (the timeout arm still strands the sender) … -/
theorem fetch_return_without_buffer_leaks :
    noLeak { oldFetch with worker := [.getBlocks, .brErr 4, .send, .ret, .brErr 7, .send, .jmp 8, .send] } = false := by
  decide +kernel

/-- … and a buffer of two slots would have been enough without the `return` -/
theorem fetch_two_slots_no_leak : noLeak { oldFetch with cap := 2 } = true := by decide +kernel

-- non-vacuity: the explored set is not trivial and contains states in which the worker is blocked-free done
example : 8 ≤ (reachSet Gen.fetch).length := by decide +kernel
example : ((reachSet Gen.fetch).any fun s => s.done && s.recv == .timedOut) = true := by decide +kernel
example : (leakWitness oldFetch).isSome = true := by decide +kernel

end Conc
