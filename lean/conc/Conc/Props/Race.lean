/-
C16 — data-race part (property theorems only).  Everything here is re-checked against the tables
regenerated from the Go sources (`Conc/Gen.lean`).
-/
import Conc.Gen

namespace Conc

/-- FULL statement: every pair of conflicting accesses reachable from two concurrently running roots holds a
common mutex in incompatible modes.  FALSE on the current tree (see `C16_discipline_counterexamples`). -/
def C16_discipline_full : Prop := DisciplineExcept Gen.table []

/-- the flattening of every root ran to completion (no fuel exhaustion): the tables below are whole -/
theorem C16_tables_complete : completeB Gen.table = true := by decide +kernel

/-- PARTIAL: the same statement for every pair that is NOT one of the rows `Gen.knownRaces` (computed by the
extractor as the failing rows).  Checked over the regenerated table: any NEW unprotected pair makes it fail. -/
theorem C16_discipline_partial : DisciplineExcept Gen.table Gen.knownRaces :=
  disciplineB_sound _ _ (by decide +kernel)

/-- the listed rows really are unprotected, and they are ALL the unprotected rows -/
theorem C16_discipline_counterexamples :
    (Gen.knownRaces.all fun r => (failingRows Gen.table).contains r) = true ∧
    ((failingRows Gen.table).all fun r => Gen.knownRaces.contains r) = true := by decide +kernel

/-- From `lockset_race_free`: in EVERY well-formed interleaving of the node's threads, two conflicting accesses
by different threads that are not a listed row are ordered by happens-before — no data race. -/
theorem C16_race_free_protected (tr : Trace) (hC : Conforms (programOf Gen.table) tr) (hW : WF tr)
    {i j a b : Nat} {k₁ k₂ : Kind} {l o₁ o₂ : Nat} (hij : i < j)
    (hi : tr[i]? = some ⟨a, .acc k₁ l o₁⟩) (hj : tr[j]? = some ⟨b, .acc k₂ l o₂⟩) (hab : a ≠ b)
    (hconf : k₁.conflict k₂ = true)
    (hnot : exemptB Gen.knownRaces ⟨k₁, l, o₁, []⟩ ⟨k₂, l, o₂, []⟩ = false) : HB tr i j := by
  apply static_race_free (programOf Gen.table) tr hC hW hij hi hj hab
  intro p q hp hq
  rcases Nat.lt_or_ge a b with h | h
  · exact C16_discipline_partial a b p q k₁ k₂ l o₁ o₂ h hp hq hconf hnot
  · have hba : b < a := by omega
    have hconf' : k₂.conflict k₁ = true := by rw [conflict_comm]; exact hconf
    have hnot' : exemptB Gen.knownRaces ⟨k₂, l, o₂, []⟩ ⟨k₁, l, o₁, []⟩ = false := by
      rw [exemptB_symm Gen.knownRaces ⟨k₂, l, o₂, []⟩ ⟨k₁, l, o₁, []⟩ rfl]; exact hnot
    exact protectedAt_symm (C16_discipline_partial b a q p k₂ k₁ l o₂ o₁ hba hq hp hconf' hnot')

/-- in particular: no `Race` between accesses outside the listed rows -/
theorem C16_no_race_outside_list (tr : Trace) (hC : Conforms (programOf Gen.table) tr) (hW : WF tr)
    (i j : Nat) (hr : Race tr i j) :
    ∃ a b k₁ k₂ l o₁ o₂, tr[i]? = some ⟨a, .acc k₁ l o₁⟩ ∧ tr[j]? = some ⟨b, .acc k₂ l o₂⟩ ∧
      exemptB Gen.knownRaces ⟨k₁, l, o₁, []⟩ ⟨k₂, l, o₂, []⟩ = true := by
  obtain ⟨hij, a, b, k₁, k₂, l, o₁, o₂, hi, hj, hab, hconf, hnhb⟩ := hr
  refine ⟨a, b, k₁, k₂, l, o₁, o₂, hi, hj, ?_⟩
  cases hex : exemptB Gen.knownRaces ⟨k₁, l, o₁, []⟩ ⟨k₂, l, o₂, []⟩ with
  | true => rfl
  | false => exact absurd (C16_race_free_protected tr hC hW hij hi hj hab hconf hex) hnhb

-- non-vacuity: the node has threads, they make accesses, and some conflicting pairs ARE protected
example : 4 ≤ (threads Gen.table).length := by decide +kernel
example : ((accSets Gen.table).any fun A => (accSets Gen.table).any fun B =>
    A.any fun x => B.any fun y => x.loc == y.loc && x.kind.conflict y.kind &&
      protB Gen.table.nMutex x.held y.held) = true := by decide +kernel
-- the general theorem is not vacuous: a two-thread trace with a W/W protected pair is well-formed
example : WF [⟨0, .acq 0 .W⟩, ⟨0, .acc .write 7 0⟩, ⟨0, .rel 0 .W⟩, ⟨1, .acq 0 .W⟩, ⟨1, .acc .write 7 1⟩] := by
  intro n s h
  match n, h with
  | 0, h => simp at h; subst h; intro t'; rfl
  | 1, h => simp at h; subst h; trivial
  | 2, h => simp at h; subst h; rfl
  | 3, h => simp at h; subst h; intro t'; simp [holds, upd]
  | 4, h => simp at h; subst h; trivial
  | n + 5, h => simp at h

end Conc
