/-
C16, part 2 — lock order, proved ONCE for all programs.

State = one program counter per straight-line thread; what a thread holds is the static lockset of its
position.  What is modelled, precisely:

* `Lock` of `m` is blocked while ANY thread (the caller included: Go mutexes are not re-entrant) holds `m`.
* `RLock` of `m` is blocked while a thread holds `m` for writing, and ALSO — Go's writer preference — while
  some thread stands at `Lock m` and `m` is held by anyone (a pending writer blocks new readers, so a
  second `RLock` by a thread that already holds a read lock can deadlock), and, conservatively, whenever the
  caller itself already holds `m`.
  This is a superset of the situations in which Go really blocks, so every Go deadlock on mutexes is a
  `Deadlock` here.
* The acquired-while-holding relation is therefore taken regardless of modes (R-after-R on one mutex and
  R/R cycles count as hazards), and self edges count.

`acyclic_no_deadlock`: if some rank strictly increases along every acquired-while-holding edge of the program
and every thread releases what it acquired, then NO state (reachable or not) is a deadlock on mutexes.
Channels, wait groups and external calls are not part of this statement.
-/
import Conc.Lockset

namespace Conc

def nextEv (P : Program) (pcs : List Nat) (t : Nat) : Option PEv := (P.getD t [])[pcs.getD t 0]?

def heldBy (P : Program) (pcs : List Nat) (t m : Nat) : Option Mode :=
  heldAt (P.getD t []) (pcs.getD t 0) m

/-- thread `t`, standing at `acq m md`, cannot proceed (strict reading, see above) -/
def BlockedOn (P : Program) (pcs : List Nat) (t m : Nat) : Mode → Prop
  | .W => ∃ t', heldBy P pcs t' m ≠ none
  | .R => (∃ t', heldBy P pcs t' m = some .W) ∨ heldBy P pcs t m ≠ none ∨
      (∃ w, nextEv P pcs w = some (.acq m .W) ∧ ∃ t', heldBy P pcs t' m ≠ none)

/-- a deadlock on mutexes: some thread is unfinished and every unfinished thread stands at a blocked acquire -/
def Deadlock (P : Program) (pcs : List Nat) : Prop :=
  (∃ t e, nextEv P pcs t = some e) ∧
  ∀ t e, nextEv P pcs t = some e → ∃ m md, e = .acq m md ∧ BlockedOn P pcs t m md

/-- the rank grows along every acquired-while-holding edge (self edges included) -/
def OrderOK (P : Program) (rank : Nat → Nat) : Prop :=
  ∀ t p m md, (P.getD t [])[p]? = some (.acq m md) →
    ∀ h, heldAt (P.getD t []) p h ≠ none → rank h < rank m

/-- every thread ends holding nothing -/
def Balanced (P : Program) : Prop := ∀ t m, heldSeq (P.getD t []) m = none

theorem blocked_has_holder {P : Program} {pcs : List Nat} {t m : Nat} {md : Mode}
    (h : BlockedOn P pcs t m md) : ∃ t', heldBy P pcs t' m ≠ none := by
  cases md with
  | W => exact h
  | R =>
    rcases h with ⟨t', h⟩ | h | ⟨_, _, h⟩
    · exact ⟨t', by rw [h]; intro h'; cases h'⟩
    · exact ⟨t, h⟩
    · exact h

theorem climb {P : Program} {rank : Nat → Nat} (hO : OrderOK P rank) (hBal : Balanced P)
    {pcs : List Nat} (hD : Deadlock P pcs) {t m : Nat} {md : Mode}
    (ht : nextEv P pcs t = some (.acq m md)) :
    ∃ t' m' md', nextEv P pcs t' = some (.acq m' md') ∧ rank m < rank m' := by
  obtain ⟨m0, md0, he, hb⟩ := hD.2 t _ ht
  injection he with hm hmd
  subst hm
  obtain ⟨t', hh⟩ := blocked_has_holder hb
  cases hn : nextEv P pcs t' with
  | none =>
    -- a finished thread holds nothing
    exfalso
    apply hh
    unfold heldBy heldAt
    unfold nextEv at hn
    have hlen : (P.getD t' []).length ≤ pcs.getD t' 0 := by
      rcases Nat.lt_or_ge (pcs.getD t' 0) (P.getD t' []).length with h | h
      · rw [List.getElem?_eq_getElem h] at hn; cases hn
      · exact h
    rw [List.take_of_length_le hlen]
    exact hBal t' m
  | some e' =>
    obtain ⟨m', md', he', _⟩ := hD.2 t' e' hn
    subst he'
    exact ⟨t', m', md', hn, hO t' _ m' md' hn m hh⟩

/-- **Acyclic lock order ⇒ no deadlock on mutexes**, for every program and every state. -/
theorem acyclic_no_deadlock (P : Program) (rank : Nat → Nat) (B : Nat) (hB : ∀ m, rank m ≤ B)
    (hO : OrderOK P rank) (hBal : Balanced P) (pcs : List Nat) : ¬ Deadlock P pcs := by
  intro hD
  have key : ∀ n t m md, nextEv P pcs t = some (.acq m md) → B - rank m ≤ n → False := by
    intro n
    induction n with
    | zero =>
      intro t m md ht hle
      obtain ⟨t', m', md', _, hlt⟩ := climb hO hBal hD ht
      have := hB m'
      omega
    | succ n ih =>
      intro t m md ht hle
      obtain ⟨t', m', md', ht', hlt⟩ := climb hO hBal hD ht
      have := hB m'
      exact ih t' m' md' ht' (by omega)
  obtain ⟨t, e, ht⟩ := hD.1
  obtain ⟨m, md, he, _⟩ := hD.2 t e ht
  subst he
  exact key B t m md ht (by omega)

end Conc
