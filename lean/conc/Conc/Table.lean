/-
C16 — the regenerated tables (shape of `Conc/Gen.lean`) and what is computed from them:

* `flatGo`     inlines `call` events with a work stack and fuel: one straight-line thread per root (main) and
               per spawned body; private locations (per-root instances) are renamed per instance
* `threads`    every root contributes its threads once, or twice when any number of its goroutines may run
* `disciplineB` every conflicting pair of accesses of two different threads is exempt (listed row) or holds
               a common mutex in incompatible modes
* `orderB` / `balancedB`  the rank grows along every acquired-while-holding edge / nothing is held at the end

and the bridge lemmas from these Boolean table checks to the hypotheses of the general theorems
(`static_race_free`, `acyclic_no_deadlock`).
-/
import Conc.Lockset
import Conc.LockOrder

namespace Conc

/-- events of a method body as written by the extractor -/
inductive Ev
  | acq (m : Nat) (md : Mode)
  | rel (m : Nat) (md : Mode)
  | acc (k : Kind) (loc : Nat)
  | call (meth : Nat)
  | spawn (child : Nat)
  | send (ch : Nat)
  | recv (ch : Nat)
  | close (ch : Nat)
  | ext
  deriving DecidableEq, Repr, Inhabited

structure Method where
  events : List Ev
  deriving Repr, Inhabited

structure Root where
  entries : List Nat
  multi : Bool
  inst : Nat
  kind : Nat   -- 0 engine, 1 host handler, 2 exported method without call site
  deriving Repr, Inhabited

structure Table where
  nMutex : Nat
  privLocs : List Nat
  methods : List Method
  roots : List Root
  fuel : Nat

/-- a row of the race table: location, the two methods containing the accesses -/
structure Row where
  loc : Nat
  a : Nat
  b : Nat
  deriving DecidableEq, Repr

/-- a placement: inner root run to completion at position `pos` of thread (`root`, `child`) -/
structure Placement where
  root : Nat
  child : Nat
  pos : Nat
  inner : Nat
  deriving DecidableEq, Repr

def privStride : Nat := 1000

def locKey (tbl : Table) (inst loc : Nat) : Nat :=
  if tbl.privLocs.contains loc then loc + privStride * inst else loc

structure Flat where
  rev : List PEv := []            -- events so far, reversed
  n : Nat := 0                    -- number of events so far
  sites : List (Nat × Nat) := []  -- (position, method containing the call) of call / spawn / ext events
  children : List Nat := []
  ok : Bool := true
  deriving Repr, Inhabited

def Flat.push (f : Flat) (e : PEv) : Flat := { f with rev := e :: f.rev, n := f.n + 1 }

def Flat.evs (f : Flat) : List PEv := f.rev.reverse

/-- inline calls with an explicit work stack of (method, remaining events) -/
def flatGo (tbl : Table) (inst : Nat) : Nat → List (Nat × List Ev) → Flat → Flat
  | _, [], f => f
  | 0, _ :: _, f => { f with ok := false }
  | fuel + 1, (_, []) :: rest, f => flatGo tbl inst fuel rest f
  | fuel + 1, (o, e :: es) :: rest, f =>
    match e with
    | .acq m md => flatGo tbl inst fuel ((o, es) :: rest) (f.push (.acq m md))
    | .rel m md => flatGo tbl inst fuel ((o, es) :: rest) (f.push (.rel m md))
    | .acc k l => flatGo tbl inst fuel ((o, es) :: rest) (f.push (.acc k (locKey tbl inst l) o))
    | .call c => flatGo tbl inst fuel ((c, (tbl.methods.getD c ⟨[]⟩).events) :: (o, es) :: rest)
        { f with sites := (f.n, o) :: f.sites }
    | .spawn c => flatGo tbl inst fuel ((o, es) :: rest)
        { (f.push (.fork c)) with sites := (f.n, o) :: f.sites, children := c :: f.children }
    | .ext => flatGo tbl inst fuel ((o, es) :: rest) { (f.push .other) with sites := (f.n, o) :: f.sites }
    | _ => flatGo tbl inst fuel ((o, es) :: rest) (f.push .other)

def flatEntries (tbl : Table) (inst : Nat) (entries : List Nat) : Flat :=
  flatGo tbl inst tbl.fuel (entries.map fun e => (e, (tbl.methods.getD e ⟨[]⟩).events)) {}

structure ThreadInfo where
  root : Nat
  child : Nat   -- 0: main thread of the root; otherwise the spawned body
  flat : Flat
  deriving Repr, Inhabited

/-- spawned bodies reachable from a thread, breadth first -/
def childClosure (tbl : Table) (ri inst : Nat) : Nat → List Nat → List Nat → List ThreadInfo
  | 0, _, _ => []
  | _ + 1, [], _ => []
  | n + 1, c :: ps, seen =>
    if seen.contains c then childClosure tbl ri inst n ps seen
    else
      let f := flatEntries tbl inst [c]
      ⟨ri, c, f⟩ :: childClosure tbl ri inst n (ps ++ f.children.reverse) (c :: seen)

def threadsOfRoot (tbl : Table) (ri : Nat) (r : Root) : List ThreadInfo :=
  let main := flatEntries tbl r.inst r.entries
  ⟨ri, 0, main⟩ :: childClosure tbl ri r.inst (tbl.methods.length + 1) main.children.reverse []

def rootsFrom (tbl : Table) : Nat → List Root → List ThreadInfo
  | _, [] => []
  | i, r :: rs =>
    let ts := threadsOfRoot tbl i r
    (if r.multi then ts ++ ts else ts) ++ rootsFrom tbl (i + 1) rs

/-- all threads of the node: a root whose goroutines may be many contributes two copies -/
def threads (tbl : Table) : List ThreadInfo := rootsFrom tbl 0 tbl.roots

def programOf (tbl : Table) : Program := (threads tbl).map (·.flat.evs)

def completeB (tbl : Table) : Bool := (threads tbl).all (·.flat.ok)

/-! ### locksets by scanning -/

abbrev HeldL := List (Nat × Mode)

def hstep (held : HeldL) : PEv → HeldL
  | .acq m md => (m, md) :: held.filter (fun x => x.1 != m)
  | .rel m _ => held.filter (fun x => x.1 != m)
  | _ => held

def lk (held : HeldL) (m : Nat) : Option Mode :=
  match held.find? (fun x => x.1 == m) with
  | some x => some x.2
  | none => none

/-- every event paired with the locks held just before it -/
def scanAll : List PEv → HeldL → List (PEv × HeldL)
  | [], _ => []
  | e :: es, h => (e, h) :: scanAll es (hstep h e)

structure AccInfo where
  kind : Kind
  loc : Nat
  owner : Nat
  held : HeldL
  deriving DecidableEq, Repr

def accsOf (evs : List PEv) : List AccInfo :=
  (scanAll evs []).filterMap fun
    | (.acc k l o, h) => some ⟨k, l, o, h⟩
    | _ => none

def dedup {α : Type} [DecidableEq α] : List α → List α
  | [] => []
  | a :: l => let d := dedup l; if a ∈ d then d else a :: d

def protB (n : Nat) (h₁ h₂ : HeldL) : Bool :=
  (List.range n).any fun m =>
    match lk h₁ m, lk h₂ m with
    | some ma, some mb => ma.incompat mb
    | _, _ => false

def exemptB (exempt : List Row) (x y : AccInfo) : Bool :=
  exempt.any fun r => r.loc == x.loc % privStride &&
    ((r.a == x.owner && r.b == y.owner) || (r.a == y.owner && r.b == x.owner))

def pairOK (exempt : List Row) (n : Nat) (x y : AccInfo) : Bool :=
  !(x.loc == y.loc && x.kind.conflict y.kind) || exemptB exempt x y || protB n x.held y.held

def pairsB {α : Type} (f : α → α → Bool) : List α → Bool
  | [] => true
  | a :: rest => rest.all (f a) && pairsB f rest

def accSets (tbl : Table) : List (List AccInfo) := (threads tbl).map fun t => dedup (accsOf t.flat.evs)

/-- every conflicting pair of accesses of two different threads is exempt or protected -/
def disciplineB (exempt : List Row) (tbl : Table) : Bool :=
  pairsB (fun A B => A.all fun x => B.all fun y => pairOK exempt tbl.nMutex x y) (accSets tbl)

/-- the failing rows as computed here (used by the driver and by `C16_discipline_counterexamples`) -/
def rowOf (x y : AccInfo) : Row :=
  if x.owner ≤ y.owner then ⟨x.loc % privStride, x.owner, y.owner⟩ else ⟨x.loc % privStride, y.owner, x.owner⟩

def failingPairs (n : Nat) (A B : List AccInfo) : List Row :=
  A.flatMap fun x => B.filterMap fun y =>
    if x.loc == y.loc && x.kind.conflict y.kind && !protB n x.held y.held then some (rowOf x y) else none

def failingFrom (n : Nat) : List (List AccInfo) → List Row
  | [] => []
  | A :: rest => (rest.flatMap (failingPairs n A)) ++ failingFrom n rest

def failingRows (tbl : Table) : List Row := dedup (failingFrom tbl.nMutex (accSets tbl))

/-! ### lock order by scanning -/

def rankOf (ranks : List Nat) (m : Nat) : Nat := ranks.getD m 0

def orderThreadB (ranks : List Nat) (evs : List PEv) : Bool :=
  (scanAll evs []).all fun
    | (.acq m _, h) => h.all fun x => rankOf ranks x.1 < rankOf ranks m
    | _ => true

def orderB (ranks : List Nat) (tbl : Table) : Bool := (threads tbl).all fun t => orderThreadB ranks t.flat.evs

def balancedB (tbl : Table) : Bool := (threads tbl).all fun t => (t.flat.evs.foldl hstep []).isEmpty

/-- the acquired-while-holding edges (for the driver / documentation) -/
def edgesOf (tbl : Table) : List (Nat × Nat) :=
  dedup ((threads tbl).flatMap fun t => (scanAll t.flat.evs []).flatMap fun
    | (.acq m _, h) => h.map fun x => (x.1, m)
    | _ => [])

/-! ### bridge lemmas -/

theorem lk_filter (held : HeldL) (m' m : Nat) :
    lk (held.filter (fun x => x.1 != m')) m = if m' = m then none else lk held m := by
  induction held with
  | nil => simp [lk]
  | cons x xs ih =>
    unfold lk at ih ⊢
    by_cases h1 : x.1 = m'
    · -- x is dropped
      have hx : (x.1 != m') = false := by simp [h1]
      simp only [List.filter_cons, hx]
      by_cases h2 : m' = m
      · simp [h2] at ih ⊢; exact ih
      · have : (x.1 == m) = false := by simp; omega
        simp [List.find?_cons, this, h2] at ih ⊢; exact ih
    · have hx : (x.1 != m') = true := by simp [h1]
      simp only [List.filter_cons, hx, if_true]
      by_cases h3 : x.1 = m
      · have hx3 : (x.1 == m) = true := by simp [h3]
        have : ¬ m' = m := by omega
        simp [List.find?_cons, hx3, this]
      · have hx3 : (x.1 == m) = false := by simp [h3]
        simp only [List.find?_cons, hx3]
        exact ih

theorem lk_hstep (held : HeldL) (e : PEv) (m : Nat) : lk (hstep held e) m = updE m (lk held m) e := by
  cases e with
  | acq m' md =>
    unfold hstep updE
    by_cases h : m' = m
    · subst h; simp [lk, List.find?_cons]
    · have h' : (m' == m) = false := by simp [h]
      have := lk_filter held m' m
      simp only [h, if_false] at this
      unfold lk at this ⊢
      simp only [List.find?_cons, h', h, if_false]
      exact this
  | rel m' md =>
    unfold hstep updE
    exact lk_filter held m' m
  | acc k l o => rfl
  | fork c => rfl
  | other => rfl

theorem lk_foldl (evs : List PEv) (m : Nat) :
    ∀ h0, lk (evs.foldl hstep h0) m = evs.foldl (updE m) (lk h0 m) := by
  induction evs with
  | nil => intro h0; rfl
  | cons e es ih => intro h0; simp only [List.foldl_cons]; rw [ih, lk_hstep]

theorem lk_heldList (evs : List PEv) (m : Nat) : lk (evs.foldl hstep []) m = heldSeq evs m := by
  rw [lk_foldl]; rfl

/-- `scanAll` lists every position with the locks held before it -/
theorem scanAll_get (evs : List PEv) :
    ∀ h0 p e, evs[p]? = some e → (e, (evs.take p).foldl hstep h0) ∈ scanAll evs h0 := by
  induction evs with
  | nil => intro h0 p e h; simp at h
  | cons x xs ih =>
    intro h0 p e h
    cases p with
    | zero =>
      simp at h; subst h
      simp [scanAll]
    | succ p =>
      simp at h
      have := ih (hstep h0 x) p e h
      simp only [scanAll, List.take_succ_cons, List.foldl_cons, List.mem_cons]
      exact Or.inr this

theorem mem_dedup {α : Type} [DecidableEq α] (a : α) (l : List α) : a ∈ dedup l ↔ a ∈ l := by
  induction l with
  | nil => simp [dedup]
  | cons x xs ih =>
    simp only [dedup]
    by_cases h : x ∈ dedup xs
    · simp only [h, if_true, List.mem_cons]
      constructor
      · intro ha; exact Or.inr (ih.mp ha)
      · rintro (rfl | ha)
        · exact h
        · exact ih.mpr ha
    · simp only [h, if_false, List.mem_cons, ih]

theorem pairsB_get {α : Type} (f : α → α → Bool) (l : List α) (h : pairsB f l = true) :
    ∀ (i j : Nat) (a b : α), i < j → l[i]? = some a → l[j]? = some b → f a b = true := by
  induction l with
  | nil => intro i j a b _ hi; simp at hi
  | cons x xs ih =>
    simp only [pairsB, Bool.and_eq_true, List.all_eq_true] at h
    intro i j a b hij hi hj
    cases j with
    | zero => omega
    | succ j =>
      simp at hj
      cases i with
      | zero =>
        simp at hi; subst hi
        exact h.1 b (List.mem_of_getElem? hj)
      | succ i =>
        simp at hi
        exact ih h.2 i j a b (by omega) hi hj

theorem protB_sound {n : Nat} {h₁ h₂ : HeldL} (h : protB n h₁ h₂ = true) :
    ∃ m ma mb, lk h₁ m = some ma ∧ lk h₂ m = some mb ∧ ma.incompat mb = true := by
  unfold protB at h
  rw [List.any_eq_true] at h
  obtain ⟨m, _, hm⟩ := h
  cases h1 : lk h₁ m with
  | none => simp [h1] at hm
  | some ma =>
    cases h2 : lk h₂ m with
    | none => simp [h1, h2] at hm
    | some mb =>
      simp [h1, h2] at hm
      exact ⟨m, ma, mb, h1, h2, hm⟩

theorem programOf_getD (tbl : Table) (a : Nat) (t : ThreadInfo) (h : (threads tbl)[a]? = some t) :
    (programOf tbl).getD a [] = t.flat.evs := by
  unfold programOf
  simp [List.getD, List.getElem?_map, h]

theorem programOf_getD_none (tbl : Table) (a : Nat) (h : (threads tbl)[a]? = none) :
    (programOf tbl).getD a [] = [] := by
  unfold programOf
  simp [List.getD, List.getElem?_map, h]

/-- the accesses of a thread are all in its (deduplicated) access set, with their static locksets -/
theorem acc_in_set (evs : List PEv) (p : Nat) (k : Kind) (l o : Nat)
    (h : evs[p]? = some (.acc k l o)) :
    (⟨k, l, o, (evs.take p).foldl hstep []⟩ : AccInfo) ∈ dedup (accsOf evs) := by
  rw [mem_dedup]
  unfold accsOf
  rw [List.mem_filterMap]
  exact ⟨_, scanAll_get evs [] p _ h, rfl⟩

/-- Table-level discipline, as a proposition about the program: every conflicting pair of accesses of two
different threads that is not an exempt row holds a common mutex in incompatible modes. -/
def DisciplineExcept (tbl : Table) (exempt : List Row) : Prop :=
  ∀ a b p q k₁ k₂ l o₁ o₂, a < b →
    ((programOf tbl).getD a [])[p]? = some (.acc k₁ l o₁) →
    ((programOf tbl).getD b [])[q]? = some (.acc k₂ l o₂) →
    k₁.conflict k₂ = true →
    exemptB exempt ⟨k₁, l, o₁, []⟩ ⟨k₂, l, o₂, []⟩ = false →
    ProtectedAt (programOf tbl) a p b q

theorem exemptB_held (exempt : List Row) (x y : AccInfo) (h₁ h₂ : HeldL) :
    exemptB exempt x y = exemptB exempt { x with held := h₁ } { y with held := h₂ } := rfl

theorem disciplineB_sound (exempt : List Row) (tbl : Table) (h : disciplineB exempt tbl = true) :
    DisciplineExcept tbl exempt := by
  intro a b p q k₁ k₂ l o₁ o₂ hab hp hq hconf hex
  cases hta : (threads tbl)[a]? with
  | none => rw [programOf_getD_none tbl a hta] at hp; simp at hp
  | some ta =>
    cases htb : (threads tbl)[b]? with
    | none => rw [programOf_getD_none tbl b htb] at hq; simp at hq
    | some tb =>
      rw [programOf_getD tbl a ta hta] at hp
      rw [programOf_getD tbl b tb htb] at hq
      have hA : (accSets tbl)[a]? = some (dedup (accsOf ta.flat.evs)) := by
        unfold accSets; simp [List.getElem?_map, hta]
      have hB : (accSets tbl)[b]? = some (dedup (accsOf tb.flat.evs)) := by
        unfold accSets; simp [List.getElem?_map, htb]
      have hpair := pairsB_get _ _ h a b _ _ hab hA hB
      simp only [List.all_eq_true] at hpair
      have hok := hpair _ (acc_in_set _ p k₁ l o₁ hp) _ (acc_in_set _ q k₂ l o₂ hq)
      unfold pairOK at hok
      have hex' : exemptB exempt ⟨k₁, l, o₁, (ta.flat.evs.take p).foldl hstep []⟩
          ⟨k₂, l, o₂, (tb.flat.evs.take q).foldl hstep []⟩ = false := hex
      simp only [hex', hconf, beq_self_eq_true, Bool.and_self, Bool.not_true, Bool.false_or,
        Bool.or_false] at hok
      obtain ⟨m, ma, mb, h1, h2, h3⟩ := protB_sound hok
      refine ⟨m, ma, mb, ?_, ?_, h3⟩
      · unfold heldAt; rw [programOf_getD tbl a ta hta, ← lk_heldList]; exact h1
      · unfold heldAt; rw [programOf_getD tbl b tb htb, ← lk_heldList]; exact h2

theorem incompat_comm (a b : Mode) : a.incompat b = b.incompat a := by
  cases a <;> cases b <;> rfl

theorem conflict_comm (a b : Kind) : a.conflict b = b.conflict a := by
  cases a <;> cases b <;> rfl

theorem protectedAt_symm {P : Program} {a p b q : Nat} (h : ProtectedAt P a p b q) :
    ProtectedAt P b q a p := by
  obtain ⟨m, ma, mb, h1, h2, h3⟩ := h
  exact ⟨m, mb, ma, h2, h1, by rw [incompat_comm]; exact h3⟩

theorem exemptB_symm (exempt : List Row) (x y : AccInfo) (hl : x.loc = y.loc) :
    exemptB exempt x y = exemptB exempt y x := by
  unfold exemptB
  congr 1
  funext r
  rw [hl, Bool.or_comm]

/-! ### lock order bridge -/

theorem mem_of_lk_ne_none {held : HeldL} {m : Nat} (h : lk held m ≠ none) : ∃ x ∈ held, x.1 = m := by
  unfold lk at h
  cases hf : held.find? (fun x => x.1 == m) with
  | none => simp [hf] at h
  | some x =>
    refine ⟨x, List.mem_of_find?_eq_some hf, ?_⟩
    have := List.find?_some hf
    simpa using this

theorem orderB_sound (ranks : List Nat) (tbl : Table) (h : orderB ranks tbl = true) :
    OrderOK (programOf tbl) (rankOf ranks) := by
  intro t p m md hp hh hne
  cases ht : (threads tbl)[t]? with
  | none => rw [programOf_getD_none tbl t ht] at hp; simp at hp
  | some ti =>
    rw [programOf_getD tbl t ti ht] at hp hne
    unfold orderB at h
    rw [List.all_eq_true] at h
    have hthr := h ti (List.mem_of_getElem? ht)
    unfold orderThreadB at hthr
    rw [List.all_eq_true] at hthr
    have hmem := scanAll_get ti.flat.evs [] p _ hp
    have := hthr _ hmem
    simp only [List.all_eq_true, decide_eq_true_eq] at this
    unfold heldAt at hne
    rw [← lk_heldList] at hne
    obtain ⟨x, hx, hxm⟩ := mem_of_lk_ne_none hne
    have := this x hx
    rw [hxm] at this
    exact this

theorem balancedB_sound (tbl : Table) (h : balancedB tbl = true) : Balanced (programOf tbl) := by
  intro t m
  cases ht : (threads tbl)[t]? with
  | none => rw [programOf_getD_none tbl t ht]; rfl
  | some ti =>
    rw [programOf_getD tbl t ti ht]
    unfold balancedB at h
    rw [List.all_eq_true] at h
    have := h ti (List.mem_of_getElem? ht)
    rw [← lk_heldList]
    rw [List.isEmpty_iff] at this
    rw [this]; rfl

theorem rankOf_le_sum (ranks : List Nat) (m : Nat) : rankOf ranks m ≤ ranks.sum := by
  unfold rankOf
  induction ranks generalizing m with
  | nil => simp
  | cons r rs ih =>
    cases m with
    | zero => simp [List.getD]
    | succ m =>
      have := ih m
      simp [List.getD] at this ⊢
      omega

end Conc
