def hello := "world"
