/-
C16 — execution model of a multi-threaded program over RW-mutexes (core Lean only).

* A thread is a list of primitive events `PEv`; a program is a list of threads (thread id = index).
* A trace is a list of steps (thread id, event).  `WF` is Go's `sync.RWMutex` semantics on traces:
  `Lock` needs the mutex free, `RLock` needs no writer (and no re-entry), an unlock needs the matching
  hold.  Re-entrant acquisition never appears in a well-formed trace: in Go a re-entrant `Lock` blocks for
  ever and a re-entrant `RLock` may; `C16_lock_order` shows the tables contain none.
* `HB` is happens-before: program order + unlock→lock on the same mutex in incompatible modes + fork.
  This is the Go memory model restricted to mutexes and `go` statements (channels are NOT modelled here;
  every channel edge of the real program only adds orderings, so "ordered by HB" here implies ordered there).
-/
namespace Conc

inductive Mode | R | W
  deriving DecidableEq, Repr, Inhabited

/-- two holds of one mutex exclude each other unless both are read holds -/
def Mode.incompat : Mode → Mode → Bool
  | .R, .R => false
  | _, _ => true

inductive Kind | read | write | append
  deriving DecidableEq, Repr, Inhabited

/-- `append` writes only the slot behind every published length: it conflicts with writes and other
appends, not with reads of published slots (assumption, stated in the evidence). -/
def Kind.conflict : Kind → Kind → Bool
  | .read, .read => false
  | .read, .append => false
  | .append, .read => false
  | _, _ => true

/-- primitive events of one thread -/
inductive PEv
  | acq (m : Nat) (md : Mode)
  | rel (m : Nat) (md : Mode)
  | acc (k : Kind) (loc : Nat) (owner : Nat)
  | fork (child : Nat)
  | other
  deriving DecidableEq, Repr, Inhabited

structure Step where
  tid : Nat
  ev : PEv
  deriving DecidableEq, Repr

abbrev Trace := List Step
abbrev Program := List (List PEv)

/-- effect of one step on "thread `t` holds mutex `m` in mode …" -/
def upd (t m : Nat) (cur : Option Mode) (s : Step) : Option Mode :=
  if s.tid = t then
    match s.ev with
    | .acq m' md => if m' = m then some md else cur
    | .rel m' _ => if m' = m then none else cur
    | _ => cur
  else cur

/-- the hold of thread `t` on mutex `m` after trace `tr` -/
def holds (tr : Trace) (t m : Nat) : Option Mode := tr.foldl (upd t m) none

/-- RW-mutex semantics: may step `s` be taken after `tr`? -/
def enabled (tr : Trace) (s : Step) : Prop :=
  match s.ev with
  | .acq m .W => ∀ t', holds tr t' m = none
  | .acq m .R => holds tr s.tid m = none ∧ ∀ t', holds tr t' m ≠ some .W
  | .rel m md => holds tr s.tid m = some md
  | _ => True

/-- well-formed interleaving -/
def WF (tr : Trace) : Prop := ∀ n s, tr[n]? = some s → enabled (tr.take n) s

/-- the events of thread `t` in `tr`, in order -/
def proj (tr : Trace) (t : Nat) : List PEv := (tr.filter (fun s => s.tid = t)).map (·.ev)

/-- `tr` is an interleaving of prefixes of the threads of `P` -/
def Conforms (P : Program) (tr : Trace) : Prop := ∀ t, proj tr t <+: P.getD t []

/-- happens-before on positions of a trace -/
inductive HB (tr : Trace) : Nat → Nat → Prop
  | po {i j a b} : i < j → tr[i]? = some a → tr[j]? = some b → a.tid = b.tid → HB tr i j
  | sync {i j a b m md md'} : i < j → tr[i]? = some ⟨a, .rel m md⟩ → tr[j]? = some ⟨b, .acq m md'⟩ →
      md.incompat md' = true → HB tr i j
  | fork {i j a c e} : i < j → tr[i]? = some ⟨a, .fork c⟩ → tr[j]? = some ⟨c, e⟩ → HB tr i j
  | trans {i j k} : HB tr i j → HB tr j k → HB tr i k

/-- a data race: two conflicting accesses to one location by different threads, not ordered -/
def Race (tr : Trace) (i j : Nat) : Prop :=
  i < j ∧ ∃ a b k₁ k₂ l o₁ o₂, tr[i]? = some ⟨a, .acc k₁ l o₁⟩ ∧ tr[j]? = some ⟨b, .acc k₂ l o₂⟩ ∧
    a ≠ b ∧ k₁.conflict k₂ = true ∧ ¬ HB tr i j

/-- the hold of a thread on `m` after it executed the events `evs` (thread-local view) -/
def updE (m : Nat) (cur : Option Mode) (e : PEv) : Option Mode :=
  match e with
  | .acq m' md => if m' = m then some md else cur
  | .rel m' _ => if m' = m then none else cur
  | _ => cur

def heldSeq (evs : List PEv) (m : Nat) : Option Mode := evs.foldl (updE m) none

end Conc
