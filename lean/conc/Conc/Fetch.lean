/-
C13 (leak part) — small-step model of `Blockchain.verifyNeighborBlockchain`: the fetch worker goroutine and
the receiver (`select` of the result channel against the timeout), parameterised by the shape the extractor
reads from the source (`Gen.fetch`): channel capacity, the worker's flat program (where it sends, where it
returns, where it branches on an error), the select arms, `defer close`.

State = worker pc × worker terminated × GetBlocks returned × buffer occupancy × closed × receiver state.
Every error test of the worker branches BOTH ways (this covers every fault kind of `GetBlocks`: error,
garbage, valid; "late" is the schedule in which the timeout arm fires first).  A silent neighbour is the
execution in which the `getBlocks` step is never taken: that step is always enabled, so such a state is never
terminal — the statement below is about the maximal executions in which GetBlocks returns.

`noLeak sh = true` is checked by the kernel (`decide`) on a fuelled exploration; `noLeak_sound` lifts it to the
inductive reachability relation: every reachable state without successor has the worker terminated, and the
receiver never reads the zero value of a closed empty channel (a nil dereference in the real code).
-/
namespace Conc

inductive WI
  | getBlocks
  | send
  | ret
  | brErr (target : Nat)   -- error test: falls through when the error is set, jumps to `target` otherwise
  | jmp (target : Nat)
  deriving DecidableEq, Repr, Inhabited

structure FetchShape where
  cap : Nat
  deferClose : Bool
  recvArm : Bool
  timeoutArm : Bool
  worker : List WI
  deriving Repr

inductive Recv | waiting | got | timedOut | panicked
  deriving DecidableEq, Repr, Inhabited

structure FState where
  pc : Nat
  done : Bool
  started : Bool
  buf : Nat
  closed : Bool
  recv : Recv
  deriving DecidableEq, Repr, Inhabited

def FState.init : FState := ⟨0, false, false, 0, false, .waiting⟩

def finish (sh : FetchShape) (s : FState) : FState :=
  { s with done := true, closed := s.closed || sh.deferClose }

def workerSucc (sh : FetchShape) (s : FState) : List FState :=
  if s.done then []
  else
    match sh.worker[s.pc]? with
    | none => [finish sh s]
    | some .getBlocks => [{ s with pc := s.pc + 1, started := true }]
    | some .ret => [finish sh s]
    | some (.jmp t) => [{ s with pc := t }]
    | some (.brErr t) => [{ s with pc := s.pc + 1 }, { s with pc := t }]
    | some .send =>
      if s.closed then []
      else if s.buf < sh.cap then [{ s with pc := s.pc + 1, buf := s.buf + 1 }]
      else if sh.cap = 0 ∧ s.recv = .waiting ∧ sh.recvArm = true then
        [{ s with pc := s.pc + 1, recv := .got }]            -- rendezvous on an unbuffered channel
      else []                                                -- blocked

def recvSucc (sh : FetchShape) (s : FState) : List FState :=
  if s.recv ≠ .waiting then []
  else
    (if sh.recvArm then
      (if s.buf > 0 then [{ s with buf := s.buf - 1, recv := .got }]
       else if s.closed then [{ s with recv := .panicked }]
       else [])
     else []) ++
    (if sh.timeoutArm then [{ s with recv := .timedOut }] else [])

def fsucc (sh : FetchShape) (s : FState) : List FState := workerSucc sh s ++ recvSucc sh s

/-- a maximal execution ended here with the worker still alive, or the receiver read from a closed channel -/
def bad (sh : FetchShape) (s : FState) : Bool :=
  ((fsucc sh s).isEmpty && !s.done) || s.recv == .panicked

def explore (sh : FetchShape) : Nat → List FState → List FState → List FState
  | 0, _, seen => seen
  | _ + 1, [], seen => seen
  | n + 1, s :: fr, seen =>
    if seen.contains s then explore sh n fr seen
    else explore sh n (fsucc sh s ++ fr) (s :: seen)

def reachSet (sh : FetchShape) : List FState := explore sh 4096 [FState.init] []

def closedB (sh : FetchShape) (set : List FState) : Bool :=
  set.all fun s => (fsucc sh s).all fun s' => set.contains s'

/-- no schedule and no fault kind leaves the worker behind -/
def noLeak (sh : FetchShape) : Bool :=
  let set := reachSet sh
  set.contains FState.init && closedB sh set && set.all fun s => !bad sh s

inductive Reach (sh : FetchShape) : FState → Prop
  | init : Reach sh FState.init
  | step {s s'} : Reach sh s → s' ∈ fsucc sh s → Reach sh s'

/-- lifting lemma: a set that contains the initial state and is closed under the step relation contains
every reachable state -/
theorem reach_in_closed (sh : FetchShape) (set : List FState) (hinit : set.contains FState.init = true)
    (hclosed : closedB sh set = true) : ∀ s, Reach sh s → s ∈ set := by
  intro s hr
  induction hr with
  | init => exact List.contains_iff_mem.mp hinit
  | step _ hmem ih =>
    unfold closedB at hclosed
    rw [List.all_eq_true] at hclosed
    have := hclosed _ ih
    rw [List.all_eq_true] at this
    exact List.contains_iff_mem.mp (this _ hmem)

theorem noLeak_sound (sh : FetchShape) (h : noLeak sh = true) : ∀ s, Reach sh s → bad sh s = false := by
  intro s hr
  unfold noLeak at h
  simp only [Bool.and_eq_true] at h
  obtain ⟨⟨hinit, hclosed⟩, hall⟩ := h
  have hmem := reach_in_closed sh _ hinit hclosed s hr
  rw [List.all_eq_true] at hall
  have := hall s hmem
  simpa using this

/-! ### witness search (for the driver: prints a leaking schedule when `noLeak` is false) -/

def explorePaths (sh : FetchShape) : Nat → List (FState × List FState) → List FState → Option (List FState)
  | 0, _, _ => none
  | _ + 1, [], _ => none
  | n + 1, (s, path) :: fr, seen =>
    if seen.contains s then explorePaths sh n fr seen
    else if bad sh s then some (s :: path).reverse
    else explorePaths sh n (fr ++ (fsucc sh s).map fun s' => (s', s :: path)) (s :: seen)

def leakWitness (sh : FetchShape) : Option (List FState) := explorePaths sh 8192 [(FState.init, [])] []

/-- the shape before the repair db4bb9e: unbuffered channel, no `return` after the error send -/
def oldFetch : FetchShape :=
  { cap := 0, deferClose := true, recvArm := true, timeoutArm := true,
    worker := [.getBlocks, .brErr 3, .send, .brErr 6, .send, .jmp 7, .send] }

end Conc
