/-
concdriver — evaluates the table checks of lean/conc on the regenerated `Conc/Gen.lean` with COMPILED code and
prints one JSON object.  Used by engines/conc.py for diagnostics (which obligation fails, with which witness:
failing rows, lock-order edges, a leaking schedule, unsafe placements) and as a cross-check of the
extractor's own computation.  It proves nothing: the theorems are in Conc/Props/*.lean.
-/
import Conc.Gen
import Conc.Placement

open Conc

def jList (xs : List String) : String := "[" ++ ", ".intercalate xs ++ "]"

def jRow (r : Row) : String := s!"[{r.loc}, {r.a}, {r.b}]"

def jPlacement (p : Placement) : String := s!"[{p.root}, {p.child}, {p.pos}, {p.inner}]"

def recvName : Recv → String
  | .waiting => "waiting" | .got => "got" | .timedOut => "timedOut" | .panicked => "panicked"

def jState (sh : FetchShape) (s : FState) : String :=
  let at_ := match sh.worker[s.pc]? with
    | some .getBlocks => "getBlocks" | some .send => "send" | some .ret => "ret"
    | some (.brErr _) => "brErr" | some (.jmp _) => "jmp" | none => "end"
  "{" ++ s!"\"pc\": {s.pc}, \"at\": \"{at_}\", \"workerDone\": {s.done}, \"getBlocksReturned\": {s.started}, \"buffered\": {s.buf}, \"closed\": {s.closed}, \"receiver\": \"{recvName s.recv}\"" ++ "}"

def fetchJson (name : String) (sh : FetchShape) : String :=
  let w := match leakWitness sh with
    | some path => jList (path.map (jState sh))
    | none => "null"
  "{" ++ s!"\"shape\": \"{name}\", \"cap\": {sh.cap}, \"noLeak\": {noLeak sh}, \"states\": {(reachSet sh).length}, \"transitions\": {((reachSet sh).map fun s => (fsucc sh s).length).sum}, \"leakSchedule\": {w}" ++ "}"

def main : IO Unit := do
  let tbl := Gen.table
  let failing := failingRows tbl
  let pts := placementPoints tbl Gen.placementSites
  let unsafePts := pts.filter fun p => !placementSafeB tbl p
  let out := "{" ++
    s!"\"complete\": {completeB tbl}, " ++
    s!"\"threads\": {(threads tbl).length}, " ++
    s!"\"accesses\": {((accSets tbl).map List.length).sum}, " ++
    s!"\"failingRows\": {jList (failing.map jRow)}, " ++
    s!"\"knownRaces\": {jList (Gen.knownRaces.map jRow)}, " ++
    s!"\"disciplinePartial\": {disciplineB Gen.knownRaces tbl}, " ++
    s!"\"disciplineFull\": {disciplineB [] tbl}, " ++
    s!"\"orderOK\": {orderB Gen.lockRank tbl}, " ++
    s!"\"balanced\": {balancedB tbl}, " ++
    s!"\"edges\": {jList ((edgesOf tbl).map fun e => s!"[{e.1}, {e.2}]")}, " ++
    s!"\"fetch\": {fetchJson "Gen.fetch" Gen.fetch}, " ++
    s!"\"oldFetch\": {fetchJson "oldFetch" oldFetch}, " ++
    s!"\"placementPoints\": {pts.length}, " ++
    s!"\"unsafePlacements\": {jList (unsafePts.map jPlacement)}, " ++
    s!"\"knownPlacements\": {jList (Gen.knownPlacements.map jPlacement)}" ++
    "}"
  IO.println out
