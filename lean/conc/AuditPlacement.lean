import Conc.Props.Placement
open Conc
#print axioms C16_placement_partial
#print axioms C16_placement_counterexamples
