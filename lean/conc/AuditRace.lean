import Conc.Props.Race
open Conc
#print axioms lockset_race_free
#print axioms static_race_free
#print axioms C16_tables_complete
#print axioms C16_discipline_partial
#print axioms C16_discipline_counterexamples
#print axioms C16_race_free_protected
#print axioms C16_no_race_outside_list
