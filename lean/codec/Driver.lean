/-
  codecdriver — runs the executable wire model (Codec.Json / Wire / Handlers, tokenizer Codec.Parse,
  Codec.Sha256) on a stream of requests written by harness/cmd/ruwire.  Core Lean only, no Mathlib.

  stdin, one request per line, fields separated by one space:
      <op> <n> <arg1> … <argn> <m> { <str> <pkOk> <pkCanon> <sigOk> <sigCanon> }*m
    every <arg>, <str>, <pkCanon>, <sigCanon> is lower-case hex of the bytes ("-" = empty); pkOk/sigOk are 0/1.
    The table carries the answers of the REAL encryption.NewPublicKeyFromHex / DecodeSignature for every
    string of the message: they instantiate the model's crypto parameters.
  ops (mode = whole: json.Unmarshal, first: json.Decoder.Decode):
      dec:<type>:<mode>  arg1 = the message
            types: output inputinfo input transaction block request utxo (all as `var x *T; Unmarshal(b,&x)`),
                   blocks transactions utxos targets height address timestamp
      h:txreq | h:blocks | h:targets | h:utxos        arg1 = request bytes (validator endpoints)
      h:update   arg1 = neighbour answer, arg2 = JSON list lastHostBlocks, arg3 = JSON list oldHostBlocks
      h:post     arg1 = body, arg2 = target string  (access node POST /transaction, then the validator's handler)
      h:progress arg1 = body, arg2..4 = validator answers (utxos, blocks, transactions)
      h:wallet   arg1 = validator's utxos answer
  stdout, one JSON object per line:
      {"class":"ok"|"err"|"panic","site":s,"parsed":bool,"nil":bool,"enc":text,"stable":bool,
       "ids":[…],"computed":[…],"rewards":[…],"hashes":[…],"calls":[…]}
    enc     canonical re-encoding of the decoded value (the model's MarshalJSON + printer)
    stable  decoding enc again gives the same value and the same text
    ids / computed / rewards   per transaction in document order: stored id, id recomputed by the model's
            own rendering + SHA-256, HasReward()
    hashes  per block: SHA-256 of the model's rendering
-/
import Codec.Json
import Codec.Wire
import Codec.Handlers
import Codec.Sha256
import Codec.Parse

open Codec

def hexNib (c : Char) : Nat :=
  let n := c.toNat
  if 48 ≤ n && n ≤ 57 then n - 48 else if 97 ≤ n && n ≤ 102 then n - 87 else 0

def unhex (s : String) : ByteArray := Id.run do
  if s == "-" then return ByteArray.empty
  let cs := s.toList.toArray
  let mut b := ByteArray.emptyWithCapacity (cs.size / 2)
  for i in [0:cs.size / 2] do
    b := b.push (UInt8.ofNat (hexNib cs[2 * i]! * 16 + hexNib cs[2 * i + 1]!))
  return b

def unhexStr (s : String) : String :=
  match String.fromUTF8? (unhex s) with
  | some x => x
  | none => Codec.Parse.unquote (unhex s) 0 (unhex s).size ""   -- ill-formed bytes → U+FFFD, like Go

structure Row where
  s : String
  pkOk : Bool
  pkCanon : String
  sigOk : Bool
  sigCanon : String

def paramsOf (rows : Array Row) : Params :=
  let find (s : String) : Option Row := rows.find? (fun r => r.s == s)
  { pkOk := fun s => match find s with | some r => r.pkOk | none => false
    pkCanon := fun s => match find s with | some r => r.pkCanon | none => s
    sigOk := fun s => match find s with | some r => r.sigOk | none => false
    sigCanon := fun s => match find s with | some r => r.sigCanon | none => s
    hash := Codec.Sha256.hex }

def text (j : Json) : String := String.ofList (render j)

def jstr (s : String) : Json := .str s
def jbool (b : Bool) : Json := .bool b

structure Ans where
  cls : String := "ok"
  site : String := ""
  parsed : Bool := true
  isNil : Bool := false
  enc : String := ""
  stable : Bool := true
  ids : List String := []
  computed : List String := []
  rewards : List Bool := []
  hashes : List String := []
  calls : List String := []

def Ans.toJson (a : Ans) : Json :=
  .obj [("class", jstr a.cls), ("site", jstr a.site), ("parsed", jbool a.parsed), ("nil", jbool a.isNil),
        ("enc", jstr a.enc), ("stable", jbool a.stable), ("ids", .arr (a.ids.map jstr)),
        ("computed", .arr (a.computed.map jstr)), ("rewards", .arr (a.rewards.map jbool)),
        ("hashes", .arr (a.hashes.map jstr)), ("calls", .arr (a.calls.map jstr))]

def ofRes {α : Type} (r : Res α) (k : α → Ans) : Ans :=
  match r with
  | .ok a => k a
  | .err => { cls := "err" }
  | .panic s => { cls := "panic", site := s }

def txInfo (p : Params) (ts : List (Option Transaction)) : List String × List String × List Bool :=
  let ts := ts.filterMap id
  (ts.map (·.id), ts.map (fun t => generateId p t.inputs t.outputs t.timestamp), ts.map (·.hasReward))

def blockTxs (bs : List (Option Block)) : List (Option Transaction) :=
  (bs.filterMap id).flatMap (fun b => b.transactions.getD [])

/-- decode `j` as `type`; report the re-encoding, its stability and the computed ids / hashes -/
def decodeAs (p : Params) (type : String) (j : Json) : Ans :=
  let ptr {α : Type} [DecidableEq α] (dec : Json → Res (Option α)) (enc : α → Json) (k : α → Ans → Ans) : Ans :=
    ofRes (dec j) fun v =>
      match v with
      | none => { isNil := true, enc := "null" }
      | some a =>
        let e := enc a
        let again := dec e
        let st := match again with
          | .ok (some b) => decide (b = a) && text (enc b) == text e
          | _ => false
        k a { enc := text e, stable := st }
  match type with
  | "output" => ptr (decPtr (fun _ j => Output.unmarshalJSON j) none) encOutput (fun _ a => a)
  | "inputinfo" => ptr (decPtr (fun _ j => InputInfo.unmarshalJSON j) none) encInputInfo (fun _ a => a)
  | "input" => ptr (decPtr (fun _ j => Input.unmarshalJSON p j) none) encInput (fun _ a => a)
  | "utxo" => ptr decodeUtxoPtr encUtxo (fun _ a => a)
  | "transaction" => ptr (decodeTransactionPtr p) encTransaction (fun t a =>
      let (ids, comp, rw) := txInfo p [some t]
      { a with ids := ids, computed := comp, rewards := rw })
  | "block" => ptr (decPtr (fun _ j => Block.unmarshalJSON p j) none) encBlock (fun b a =>
      let (ids, comp, rw) := txInfo p (b.transactions.getD [])
      { a with ids := ids, computed := comp, rewards := rw, hashes := [blockHash p b] })
  | "request" => ptr (decodeRequest p) encRequest (fun r a =>
      let (ids, comp, rw) := txInfo p [r.transaction]
      { a with ids := ids, computed := comp, rewards := rw })
  | "blocks" => ofRes (decodeBlocks p j) fun v =>
      let e := encBlocks v
      let st := match decodeBlocks p e with | .ok w => decide (w = v) && text (encBlocks w) == text e | _ => false
      let (ids, comp, rw) := txInfo p (blockTxs (v.getD []))
      { isNil := v.isNone, enc := text e, stable := st, ids := ids, computed := comp, rewards := rw,
        hashes := ((v.getD []).filterMap id).map (blockHash p) }
  | "transactions" => ofRes (decodeTransactions p j) fun v =>
      let e := encTransactions v
      let st := match decodeTransactions p e with | .ok w => decide (w = v) && text (encTransactions w) == text e | _ => false
      let (ids, comp, rw) := txInfo p (v.getD [])
      { isNil := v.isNone, enc := text e, stable := st, ids := ids, computed := comp, rewards := rw }
  | "utxos" => ofRes (decodeUtxos j) fun v =>
      let e := encUtxos v
      let st := match decodeUtxos e with | .ok w => decide (w = v) | _ => false
      { isNil := v.isNone, enc := text e, stable := st }
  | "targets" => ofRes (decodeTargets j) fun v =>
      let e := encStrings v
      let st := match decodeTargets e with | .ok w => decide (w = v) | _ => false
      { isNil := v.isNone, enc := text e, stable := st }
  | "height" => ofRes (decodeHeight j) fun v => { enc := text (encNat v) }
  | "address" => ofRes (decodeAddress j) fun v => { enc := text (.str v) }
  | "timestamp" => ofRes (decodeTimestamp j) fun v => { enc := text (encInt v) }
  | _ => { cls := "err", site := "unknown type " ++ type }

def callName : Call → String
  | .toPool t b => "pool " ++ t.id ++ " " ++ b
  | .blocks h => "blocks " ++ toString h
  | .addTargets ts => "addTargets " ++ text (encStrings ts)
  | .utxos a => "utxos " ++ a
  | .candidate bs => "candidate " ++ toString bs.length
  | .forward j => "forward " ++ text j
  | .status s => "status " ++ s

def ofCalls (r : Res (List Call)) : Ans := ofRes r fun cs => { calls := cs.map callName }

def parseWith (mode : String) (b : ByteArray) : Option Json :=
  if mode == "first" then Codec.Parse.first b else Codec.Parse.whole b

def hostBlocks (p : Params) (b : ByteArray) : List Block :=
  match Codec.Parse.whole b with
  | some j => match decodeBlocks p j with
    | .ok v => (v.getD []).filterMap id
    | _ => []
  | none => []

def handle (line : String) : String :=
  let toks := (line.splitOn " ").toArray
  if toks.size < 3 then "{\"class\":\"err\",\"site\":\"short request\"}"
  else
    let op := toks[0]!
    let n := toks[1]!.toNat!
    let args := (List.range n).map (fun i => unhex toks[2 + i]!)
    let m := toks[2 + n]!.toNat!
    let rows : Array Row := ((List.range m).map fun i =>
      let o := 3 + n + 5 * i
      { s := unhexStr toks[o]!, pkOk := toks[o + 1]! == "1", pkCanon := unhexStr toks[o + 2]!,
        sigOk := toks[o + 3]! == "1", sigCanon := unhexStr toks[o + 4]! : Row }).toArray
    let p := paramsOf rows
    let arg (i : Nat) : ByteArray := args.getD i ByteArray.empty
    let parts := op.splitOn ":"
    let ans : Ans :=
      match parts with
      | ["dec", type, mode] =>
        match parseWith mode (arg 0) with
        | none => { cls := "err", parsed := false }
        | some j => decodeAs p type j
      | ["h", name] =>
        let viaWhole (h : Json → Res (List Call)) : Ans :=
          match Codec.Parse.whole (arg 0) with
          | none => { cls := "err", parsed := false }
          | some j => ofCalls (h j)
        match name with
        | "txreq" => viaWhole (handleTransactionRequest p)
        | "blocks" => viaWhole handleBlocksRequest
        | "targets" => viaWhole handleTargetsRequest
        | "utxos" => viaWhole handleUtxosRequest
        | "update" =>
          viaWhole (verifyNeighborAnswer p (fun _ => false) (hostBlocks p (arg 1)) (hostBlocks p (arg 2)))
        | "post" =>
          match Codec.Parse.first (arg 0) with
          | none => { cls := "err", parsed := false }
          | some j =>
            match postTransaction p (unhexStr toks[3]!) j with
            | .ok [Call.forward req] =>
              -- the validator's handler on what the access node forwards
              let fw := ofCalls (handleTransactionRequest p req)
              { fw with enc := text req }
            | r => ofCalls r
        | "progress" =>
          match Codec.Parse.first (arg 0) with
          | none => { cls := "err", parsed := false }
          | some j =>
            let ans (i : Nat) : Json := (Codec.Parse.whole (arg i)).getD Json.frac   -- unparsable answer → decode error
            ofCalls (getTransactionProgress p j (ans 1) (ans 2) (ans 3))
        | "wallet" => viaWhole readWalletUtxos
        | _ => { cls := "err", site := "unknown handler " ++ name }
      | _ => { cls := "err", site := "unknown op " ++ op }
    text ans.toJson

partial def loop (stdin stdout : IO.FS.Stream) : IO Unit := do
  let line ← stdin.getLine
  if line.isEmpty then return
  let l := line.trimAscii.toString
  if l.isEmpty then
    loop stdin stdout
  else
    stdout.putStrLn (handle l)
    stdout.flush
    loop stdin stdout

def main : IO Unit := do
  loop (← IO.getStdin) (← IO.getStdout)
