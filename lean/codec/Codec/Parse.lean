/-
  Codec.Parse — an executable tokenizer bytes → Codec.Json following `encoding/json`'s scanner and
  `unquote` (Go 1.23).  DRIVER ONLY and TRUSTED: in the theorems the tokenizer is the parameter `parse`.
  It is compared with the real `encoding/json` by ruwire's mutation stream.

  * white space: space, \t, \r, \n; literals `null` `true` `false`;
  * numbers `-?(0|[1-9][0-9]*)(\.[0-9]+)?([eE][+-]?[0-9]+)?`: `num` when there is neither fraction nor
    exponent, else `frac`;
  * strings: bytes < 0x20 are invalid, escapes `\" \\ \/ \b \f \n \r \t \uXXXX`; a valid surrogate
    pair is combined, a lone surrogate and every byte that is not part of a well-formed UTF-8 sequence
    (Go's `utf8.DecodeRune`, size 1) becomes U+FFFD;
  * `whole`: `json.Unmarshal` (only white space may follow the value);
    `first`: `json.Decoder.Decode` (whatever follows the first value is ignored).
-/
import Codec.Json

namespace Codec.Parse

@[inline] def isWs (b : UInt8) : Bool := b == 0x20 || b == 0x09 || b == 0x0a || b == 0x0d
@[inline] def isDigit (b : UInt8) : Bool := 0x30 ≤ b && b ≤ 0x39

partial def skipWs (d : ByteArray) (i : Nat) : Nat :=
  if i < d.size && isWs (d.get! i) then skipWs d (i + 1) else i

def hexVal (b : UInt8) : Option Nat :=
  if 0x30 ≤ b && b ≤ 0x39 then some (b.toNat - 0x30)
  else if 0x61 ≤ b && b ≤ 0x66 then some (b.toNat - 0x61 + 10)
  else if 0x41 ≤ b && b ≤ 0x46 then some (b.toNat - 0x41 + 10)
  else none

def getu4 (d : ByteArray) (i : Nat) (stop : Nat) : Option Nat :=
  if i + 6 ≤ stop && d.get! i == 0x5c && d.get! (i + 1) == 0x75 then do
    let a ← hexVal (d.get! (i + 2))
    let b ← hexVal (d.get! (i + 3))
    let c ← hexVal (d.get! (i + 4))
    let e ← hexVal (d.get! (i + 5))
    some (a * 4096 + b * 256 + c * 16 + e)
  else none

def replacement : Char := Char.ofNat 0xFFFD

/-- `utf8.DecodeRune(d[i:stop])`: (rune, size); an ill-formed sequence is (U+FFFD, 1) -/
def decodeRune (d : ByteArray) (i : Nat) (stop : Nat) : Char × Nat :=
  let b0 := (d.get! i).toNat
  let bad : Char × Nat := (replacement, 1)
  let cont (k : Nat) (lo hi : Nat) : Option Nat :=
    if i + k < stop then
      let b := (d.get! (i + k)).toNat
      if lo ≤ b && b ≤ hi then some (b &&& 0x3f) else none
    else none
  if b0 < 0x80 then (Char.ofNat b0, 1)
  else if b0 < 0xC2 then bad
  else if b0 ≤ 0xDF then
    match cont 1 0x80 0xBF with
    | some c1 => (Char.ofNat (((b0 &&& 0x1f) <<< 6) ||| c1), 2)
    | none => bad
  else if b0 ≤ 0xEF then
    let (lo, hi) := if b0 == 0xE0 then (0xA0, 0xBF) else if b0 == 0xED then (0x80, 0x9F) else (0x80, 0xBF)
    match cont 1 lo hi, cont 2 0x80 0xBF with
    | some c1, some c2 => (Char.ofNat (((b0 &&& 0x0f) <<< 12) ||| (c1 <<< 6) ||| c2), 3)
    | _, _ => bad
  else if b0 ≤ 0xF4 then
    let (lo, hi) := if b0 == 0xF0 then (0x90, 0xBF) else if b0 == 0xF4 then (0x80, 0x8F) else (0x80, 0xBF)
    match cont 1 lo hi, cont 2 0x80 0xBF, cont 3 0x80 0xBF with
    | some c1, some c2, some c3 => (Char.ofNat (((b0 &&& 0x07) <<< 18) ||| (c1 <<< 12) ||| (c2 <<< 6) ||| c3), 4)
    | _, _, _ => bad
  else bad

/-- position of the closing quote of the string whose content starts at `i` (scanner rules), or none -/
partial def scanString (d : ByteArray) (i : Nat) : Option Nat :=
  if i ≥ d.size then none
  else
    let b := d.get! i
    if b == 0x22 then some i
    else if b < 0x20 then none
    else if b == 0x5c then
      if i + 1 ≥ d.size then none
      else
        let e := d.get! (i + 1)
        if e == 0x75 then
          if i + 5 < d.size && (hexVal (d.get! (i + 2))).isSome && (hexVal (d.get! (i + 3))).isSome
              && (hexVal (d.get! (i + 4))).isSome && (hexVal (d.get! (i + 5))).isSome then scanString d (i + 6)
          else none
        else if e == 0x22 || e == 0x5c || e == 0x2f || e == 0x62 || e == 0x66 || e == 0x6e || e == 0x72 || e == 0x74 then
          scanString d (i + 2)
        else none
    else scanString d (i + 1)

/-- `unquote` of the content d[i:stop] -/
partial def unquote (d : ByteArray) (i : Nat) (stop : Nat) (acc : String) : String :=
  if i ≥ stop then acc
  else
    let b := d.get! i
    if b == 0x5c then
      let e := d.get! (i + 1)
      if e == 0x75 then
        let rr := (getu4 d i stop).getD 0xFFFD
        if 0xD800 ≤ rr && rr < 0xE000 then
          match getu4 d (i + 6) stop with
          | some r2 =>
            if rr < 0xDC00 && 0xDC00 ≤ r2 && r2 < 0xE000 then
              unquote d (i + 12) stop (acc.push (Char.ofNat (0x10000 + ((rr - 0xD800) <<< 10) + (r2 - 0xDC00))))
            else unquote d (i + 6) stop (acc.push replacement)
          | none => unquote d (i + 6) stop (acc.push replacement)
        else unquote d (i + 6) stop (acc.push (Char.ofNat rr))
      else
        let c : Char :=
          if e == 0x62 then Char.ofNat 8 else if e == 0x66 then Char.ofNat 12 else if e == 0x6e then '\n'
          else if e == 0x72 then '\r' else if e == 0x74 then '\t' else Char.ofNat e.toNat
        unquote d (i + 2) stop (acc.push c)
    else
      let (c, n) := decodeRune d i stop
      unquote d (i + n) stop (acc.push c)

partial def digitsEnd (d : ByteArray) (i : Nat) : Nat :=
  if i < d.size && isDigit (d.get! i) then digitsEnd d (i + 1) else i

partial def natOf (d : ByteArray) (i stop : Nat) (acc : Nat) : Nat :=
  if i < stop then natOf d (i + 1) stop (acc * 10 + ((d.get! i).toNat - 0x30)) else acc

def parseNumber (d : ByteArray) (i : Nat) : Option (Json × Nat) :=
  let neg := i < d.size && d.get! i == 0x2d
  let s := if neg then i + 1 else i
  if s ≥ d.size || !isDigit (d.get! s) then none
  else
    let e := if d.get! s == 0x30 then s + 1 else digitsEnd d s
    let mag := natOf d s e 0
    -- fraction
    let (isFrac, e1, bad1) :=
      if e < d.size && d.get! e == 0x2e then
        let f := digitsEnd d (e + 1)
        (true, f, f == e + 1)
      else (false, e, false)
    if bad1 then none
    else
      let (isExp, e2, bad2) :=
        if e1 < d.size && (d.get! e1 == 0x65 || d.get! e1 == 0x45) then
          let s2 := if e1 + 1 < d.size && (d.get! (e1 + 1) == 0x2b || d.get! (e1 + 1) == 0x2d) then e1 + 2 else e1 + 1
          let f := digitsEnd d s2
          (true, f, f == s2)
        else (false, e1, false)
      if bad2 then none
      else if isFrac || isExp then some (Json.frac, e2)
      else some (Json.num neg mag, e2)

def matchLit (d : ByteArray) (i : Nat) (lit : List UInt8) : Bool :=
  i + lit.length ≤ d.size && (List.range lit.length).all (fun k => d.get! (i + k) == lit[k]!)

mutual
  partial def parseValue (d : ByteArray) (i0 : Nat) (depth : Nat) : Option (Json × Nat) :=
    let i := skipWs d i0
    if i ≥ d.size || depth > 10000 then none
    else
      let b := d.get! i
      if b == 0x7b then parseObject d (i + 1) depth true []
      else if b == 0x5b then parseArray d (i + 1) depth true []
      else if b == 0x22 then
        match scanString d (i + 1) with
        | some q => some (Json.str (unquote d (i + 1) q ""), q + 1)
        | none => none
      else if b == 0x6e then (if matchLit d i [0x6e, 0x75, 0x6c, 0x6c] then some (Json.null, i + 4) else none)
      else if b == 0x74 then (if matchLit d i [0x74, 0x72, 0x75, 0x65] then some (Json.bool true, i + 4) else none)
      else if b == 0x66 then (if matchLit d i [0x66, 0x61, 0x6c, 0x73, 0x65] then some (Json.bool false, i + 5) else none)
      else if b == 0x2d || isDigit b then parseNumber d i
      else none
  partial def parseArray (d : ByteArray) (i0 : Nat) (depth : Nat) (first : Bool) (acc : List Json) :
      Option (Json × Nat) :=
    let i := skipWs d i0
    if i ≥ d.size then none
    else if first && d.get! i == 0x5d then some (Json.arr [], i + 1)
    else
      match parseValue d i (depth + 1) with
      | none => none
      | some (v, j0) =>
        let j := skipWs d j0
        if j ≥ d.size then none
        else if d.get! j == 0x2c then parseArray d (j + 1) depth false (v :: acc)
        else if d.get! j == 0x5d then some (Json.arr (v :: acc).reverse, j + 1)
        else none
  partial def parseObject (d : ByteArray) (i0 : Nat) (depth : Nat) (first : Bool) (acc : List (String × Json)) :
      Option (Json × Nat) :=
    let i := skipWs d i0
    if i ≥ d.size then none
    else if first && d.get! i == 0x7d then some (Json.obj [], i + 1)
    else if d.get! i != 0x22 then none
    else
      match scanString d (i + 1) with
      | none => none
      | some q =>
        let key := unquote d (i + 1) q ""
        let c := skipWs d (q + 1)
        if c ≥ d.size || d.get! c != 0x3a then none
        else
          match parseValue d (c + 1) (depth + 1) with
          | none => none
          | some (v, j0) =>
            let j := skipWs d j0
            if j ≥ d.size then none
            else if d.get! j == 0x2c then parseObject d (j + 1) depth false ((key, v) :: acc)
            else if d.get! j == 0x7d then some (Json.obj ((key, v) :: acc).reverse, j + 1)
            else none
end

/-- `json.Unmarshal`: the whole input is one value -/
def whole (d : ByteArray) : Option Json :=
  match parseValue d 0 0 with
  | some (v, j) => if skipWs d j == d.size then some v else none
  | none => none

/-- `json.NewDecoder(r).Decode`: the first value of the stream -/
def first (d : ByteArray) : Option Json :=
  match parseValue d 0 0 with
  | some (v, _) => some v
  | none => none

end Codec.Parse
