/-
  Codec.Render — the printer is injective on what the wire layer prints: decimal numbers, escaped strings,
  the objects and lists of the id pre-image.  Core Lean only.  Every lemma has the "prefix" form
  `print a ++ r = print b ++ s → a = b ∧ r = s`, which composes along a rendering.
-/
import Codec.Wire

namespace Codec

/-! ### decimal digits -/

def IsDig (c : Char) : Prop := 48 ≤ c.toNat ∧ c.toNat ≤ 57

instance (c : Char) : Decidable (IsDig c) := by unfold IsDig; exact inferInstance

theorem digitChar_toNat (d : Nat) (h : d < 10) : (digitChar d).toNat = 48 + d := by
  have : ∀ k : Fin 10, (digitChar k.val).toNat = 48 + k.val := by decide
  exact this ⟨d, h⟩

theorem natDigits_dig : ∀ (n : Nat), ∀ c ∈ natDigits n, IsDig c := by
  intro n
  induction n using Nat.strongRecOn with
  | _ n ih =>
    intro c hc
    rw [natDigits] at hc
    split at hc
    · rename_i hlt
      simp only [List.mem_singleton] at hc
      subst hc
      unfold IsDig
      rw [digitChar_toNat n hlt]; omega
    · rename_i hge
      rw [List.mem_append] at hc
      cases hc with
      | inl h => exact ih (n / 10) (by omega) c h
      | inr h =>
        simp only [List.mem_singleton] at h
        subst h
        unfold IsDig
        rw [digitChar_toNat (n % 10) (by omega)]; omega

theorem natDigits_ne_nil (n : Nat) : natDigits n ≠ [] := by
  rw [natDigits]
  split
  · simp
  · simp

def digitsVal (l : List Char) : Nat := l.foldl (fun a c => a * 10 + (c.toNat - 48)) 0

theorem digitsVal_natDigits : ∀ (n : Nat), digitsVal (natDigits n) = n := by
  intro n
  induction n using Nat.strongRecOn with
  | _ n ih =>
    rw [natDigits]
    split
    · rename_i hlt
      simp only [digitsVal, List.foldl_cons, List.foldl_nil, digitChar_toNat n hlt]; omega
    · rename_i hge
      have := ih (n / 10) (by omega)
      unfold digitsVal at this ⊢
      rw [List.foldl_append, this]
      simp only [List.foldl_cons, List.foldl_nil, digitChar_toNat (n % 10) (by omega)]; omega

theorem natDigits_inj {n m : Nat} (h : natDigits n = natDigits m) : n = m := by
  have := congrArg digitsVal h
  rwa [digitsVal_natDigits, digitsVal_natDigits] at this

/-- two digit runs followed by non-digits: the runs and the rests coincide -/
theorem digits_split : ∀ (l1 l2 : List Char) (x y : Char) (r s : List Char),
    (∀ c ∈ l1, IsDig c) → (∀ c ∈ l2, IsDig c) → ¬ IsDig x → ¬ IsDig y →
    l1 ++ x :: r = l2 ++ y :: s → l1 = l2 ∧ x :: r = y :: s
  | [], [], _, _, _, _, _, _, _, _, h => ⟨rfl, h⟩
  | [], c :: l2, x, y, r, s, _, h2, hx, _, h => by
    simp only [List.nil_append, List.cons_append, List.cons.injEq] at h
    exact absurd (h.1 ▸ h2 c (by simp)) hx
  | c :: l1, [], x, y, r, s, h1, _, _, hy, h => by
    simp only [List.nil_append, List.cons_append, List.cons.injEq] at h
    exact absurd (h.1 ▸ h1 c (by simp)) hy
  | c :: l1, d :: l2, x, y, r, s, h1, h2, hx, hy, h => by
    simp only [List.cons_append, List.cons.injEq] at h
    obtain ⟨hl, hr⟩ := digits_split l1 l2 x y r s (fun c hc => h1 c (by simp [hc])) (fun c hc => h2 c (by simp [hc])) hx hy h.2
    exact ⟨by rw [h.1, hl], hr⟩

theorem nat_then {n m : Nat} {x y : Char} {r s : List Char} (hx : ¬ IsDig x) (hy : ¬ IsDig y)
    (h : natDigits n ++ x :: r = natDigits m ++ y :: s) : n = m ∧ x :: r = y :: s := by
  obtain ⟨h1, h2⟩ := digits_split _ _ x y r s (natDigits_dig n) (natDigits_dig m) hx hy h
  exact ⟨natDigits_inj h1, h2⟩

/-- the rendering of an `int64` (`encInt`) followed by a non-digit -/
def intChars (i : Int) : List Char := (if decide (i < 0) = true then ['-'] else []) ++ natDigits i.natAbs

theorem natDigits_head_dig (n : Nat) : ∃ c l, natDigits n = c :: l ∧ IsDig c := by
  cases h : natDigits n with
  | nil => exact absurd h (natDigits_ne_nil n)
  | cons c l => exact ⟨c, l, rfl, natDigits_dig n c (by rw [h]; simp)⟩

theorem int_then {i j : Int} {x y : Char} {r s : List Char} (hx : ¬ IsDig x) (hy : ¬ IsDig y)
    (h : intChars i ++ x :: r = intChars j ++ y :: s) : i = j ∧ x :: r = y :: s := by
  unfold intChars at h
  by_cases hi : i < 0 <;> by_cases hj : j < 0
  · simp only [hi, hj, decide_true, if_true, List.cons_append, List.nil_append, List.cons.injEq, true_and] at h
    obtain ⟨e, hr⟩ := nat_then hx hy h
    exact ⟨by omega, hr⟩
  · simp only [hi, hj, decide_true, decide_false, if_true, List.cons_append, List.nil_append] at h
    obtain ⟨c, l, hc, hd⟩ := natDigits_head_dig j.natAbs
    rw [hc] at h
    simp only [Bool.false_eq_true, if_false, List.nil_append, List.cons_append, List.cons.injEq] at h
    rw [← h.1] at hd
    exact absurd hd (by decide)
  · simp only [hi, hj, decide_true, decide_false, if_true, List.cons_append, List.nil_append] at h
    obtain ⟨c, l, hc, hd⟩ := natDigits_head_dig i.natAbs
    rw [hc] at h
    simp only [Bool.false_eq_true, if_false, List.nil_append, List.cons_append, List.cons.injEq] at h
    rw [h.1] at hd
    exact absurd hd (by decide)
  · simp only [hi, hj, decide_false, Bool.false_eq_true, if_false, List.nil_append] at h
    obtain ⟨e, hr⟩ := nat_then hx hy h
    exact ⟨by omega, hr⟩

/-! ### escaped strings -/

def hexVal (c : Char) : Nat :=
  if 48 ≤ c.toNat ∧ c.toNat ≤ 57 then c.toNat - 48
  else if 97 ≤ c.toNat ∧ c.toNat ≤ 102 then c.toNat - 87
  else 0

theorem hexVal_hexDigit (k : Nat) (h : k < 16) : hexVal (hexDigit k) = k := by
  have : ∀ k : Fin 16, hexVal (hexDigit k.val) = k.val := by decide
  exact this ⟨k, h⟩

/-- reads back one escaped character (a left inverse of `escapeChar`) -/
def unescape1 : List Char → Option (Char × List Char)
  | [] => none
  | c :: r =>
    if c = '\\' then
      match r with
      | [] => none
      | e :: r' =>
        if e = '"' then some ('"', r')
        else if e = '\\' then some ('\\', r')
        else if e = 'b' then some (Char.ofNat 8, r')
        else if e = 'f' then some (Char.ofNat 12, r')
        else if e = 'n' then some (Char.ofNat 10, r')
        else if e = 'r' then some (Char.ofNat 13, r')
        else if e = 't' then some (Char.ofNat 9, r')
        else if e = 'u' then
          match r' with
          | a :: b :: c :: d :: r'' => some (Char.ofNat (hexVal a * 4096 + hexVal b * 256 + hexVal c * 16 + hexVal d), r'')
          | _ => none
        else none
    else some (c, r)

theorem char_eq_ofNat {c : Char} {n : Nat} (h : c.toNat = n) : c = Char.ofNat n := by
  rw [← h, Char.ofNat_toNat]

theorem unescape1_escapeChar (c : Char) (A : List Char) : unescape1 (escapeChar c ++ A) = some (c, A) := by
  unfold escapeChar
  split
  · rename_i h; subst h; rfl
  split
  · rename_i h; subst h; rfl
  split
  · rename_i h; rw [char_eq_ofNat h]; rfl
  split
  · rename_i h; rw [char_eq_ofNat h]; rfl
  split
  · rename_i h; rw [char_eq_ofNat h]; rfl
  split
  · rename_i h; rw [char_eq_ofNat h]; rfl
  split
  · rename_i h; rw [char_eq_ofNat h]; rfl
  split
  · rename_i h
    have hlt : c.toNat < 256 := by
      rcases h with h | h | h | h
      · omega
      · subst h; decide
      · subst h; decide
      · subst h; decide
    have h1 := hexVal_hexDigit (c.toNat / 16) (by omega)
    have h2 := hexVal_hexDigit (c.toNat % 16) (by omega)
    have h0 : hexVal '0' = 0 := by decide
    simp only [unescape1, List.cons_append, List.nil_append, if_true]
    simp only [show ('u' : Char) ≠ '"' by decide, show ('u' : Char) ≠ '\\' by decide, show ('u' : Char) ≠ 'b' by decide,
      show ('u' : Char) ≠ 'f' by decide, show ('u' : Char) ≠ 'n' by decide, show ('u' : Char) ≠ 'r' by decide,
      show ('u' : Char) ≠ 't' by decide, if_false, if_true, h0, h1, h2]
    have : 0 * 4096 + 0 * 256 + c.toNat / 16 * 16 + c.toNat % 16 = c.toNat := by omega
    rw [this, Char.ofNat_toNat]
  split
  · rename_i h; rw [char_eq_ofNat h]; rfl
  split
  · rename_i h; rw [char_eq_ofNat h]; rfl
  · rename_i h1 h2 _ _ _ _ _ _ _ _
    simp only [List.cons_append, List.nil_append, unescape1, h2, if_false]

theorem escapeChar_prefix {c c' : Char} {A B : List Char} (h : escapeChar c ++ A = escapeChar c' ++ B) :
    c = c' ∧ A = B := by
  have := congrArg unescape1 h
  rw [unescape1_escapeChar, unescape1_escapeChar] at this
  simp only [Option.some.injEq, Prod.mk.injEq] at this
  exact this

theorem escapeChar_not_quote (c : Char) (A B : List Char) : escapeChar c ++ A ≠ '"' :: B := by
  intro h
  have := congrArg unescape1 h
  rw [unescape1_escapeChar] at this
  have hq : unescape1 ('"' :: B) = some ('"', B) := rfl
  rw [hq] at this
  simp only [Option.some.injEq, Prod.mk.injEq] at this
  obtain ⟨hc, _⟩ := this
  subst hc
  simp [escapeChar] at h

theorem escapeChars_prefix : ∀ (s s' : List Char) (r r' : List Char),
    escapeChars s ++ '"' :: r = escapeChars s' ++ '"' :: r' → s = s' ∧ r = r'
  | [], [], r, r', h => by simpa [escapeChars] using h
  | [], c :: t, r, r', h => by
    simp only [escapeChars, List.nil_append, List.append_assoc] at h
    exact absurd h.symm (escapeChar_not_quote c _ _)
  | c :: t, [], r, r', h => by
    simp only [escapeChars, List.nil_append, List.append_assoc] at h
    exact absurd h (escapeChar_not_quote c _ _)
  | c :: t, c' :: t', r, r', h => by
    simp only [escapeChars, List.append_assoc] at h
    obtain ⟨hc, hrest⟩ := escapeChar_prefix h
    obtain ⟨ht, hr⟩ := escapeChars_prefix t t' r r' hrest
    exact ⟨by rw [hc, ht], hr⟩

theorem renderString_prefix {a b : String} {r s : List Char} (h : renderString a ++ r = renderString b ++ s) :
    a = b ∧ r = s := by
  unfold renderString at h
  simp only [List.cons_append, List.append_assoc, List.nil_append, List.cons.injEq, true_and] at h
  obtain ⟨h1, h2⟩ := escapeChars_prefix _ _ _ _ h
  exact ⟨String.toList_injective h1, h2⟩

/-! ### objects, pointers, lists, the id pre-image -/

theorem bool_prefix {a b : Bool} {r s : List Char} (h : boolChars a ++ r = boolChars b ++ s) : a = b ∧ r = s := by
  cases a <;> cases b <;> simp [boolChars] at h ⊢ <;> exact h

theorem render_encOutput (o : Output) : render (encOutput o) =
    '{' :: (renderString "address" ++ ':' :: (renderString o.address ++ ',' :: (renderString "is_yielding" ++ ':' ::
      (boolChars o.isYielding ++ ',' :: (renderString "value" ++ ':' :: (natDigits o.value ++ ['}'])))))) := by
  simp [encOutput, render, renderFields, encNat]

theorem encOutput_prefix {o o' : Output} {r s : List Char}
    (h : render (encOutput o) ++ r = render (encOutput o') ++ s) : o = o' ∧ r = s := by
  rw [render_encOutput, render_encOutput] at h
  simp only [List.cons_append, List.append_assoc, List.cons.injEq, true_and, List.nil_append] at h
  have h := List.append_cancel_left h
  simp only [List.cons.injEq, true_and] at h
  obtain ⟨ha, h⟩ := renderString_prefix h
  simp only [List.cons.injEq, true_and] at h
  have h := List.append_cancel_left h
  simp only [List.cons.injEq, true_and] at h
  obtain ⟨hb, h⟩ := bool_prefix h
  simp only [List.cons.injEq, true_and] at h
  have h := List.append_cancel_left h
  simp only [List.cons.injEq, true_and] at h
  obtain ⟨hv, h⟩ := nat_then (by decide) (by decide) h
  simp only [List.cons.injEq, true_and] at h
  refine ⟨?_, h⟩
  cases o; cases o'; simp_all

theorem render_encInput (i : Input) : render (encInput i) =
    '{' :: (renderString "output_index" ++ ':' :: (natDigits i.info.outputIndex ++ ',' :: (renderString "transaction_id" ++ ':' ::
      (renderString i.info.transactionId ++ ',' :: (renderString "public_key" ++ ':' :: (renderString i.publicKey ++ ',' ::
      (renderString "signature" ++ ':' :: (renderString i.signature ++ ['}'])))))))) := by
  simp [encInput, render, renderFields, encNat]

theorem encInput_prefix {i i' : Input} {r s : List Char}
    (h : render (encInput i) ++ r = render (encInput i') ++ s) : i = i' ∧ r = s := by
  rw [render_encInput, render_encInput] at h
  simp only [List.cons_append, List.append_assoc, List.cons.injEq, true_and, List.nil_append] at h
  have h := List.append_cancel_left h
  simp only [List.cons.injEq, true_and] at h
  obtain ⟨h1, h⟩ := nat_then (by decide) (by decide) h
  simp only [List.cons.injEq, true_and] at h
  have h := List.append_cancel_left h
  simp only [List.cons.injEq, true_and] at h
  obtain ⟨h2, h⟩ := renderString_prefix h
  simp only [List.cons.injEq, true_and] at h
  have h := List.append_cancel_left h
  simp only [List.cons.injEq, true_and] at h
  obtain ⟨h3, h⟩ := renderString_prefix h
  simp only [List.cons.injEq, true_and] at h
  have h := List.append_cancel_left h
  simp only [List.cons.injEq, true_and] at h
  obtain ⟨h4, h⟩ := renderString_prefix h
  simp only [List.cons.injEq, true_and] at h
  refine ⟨?_, h⟩
  obtain ⟨⟨a, b⟩, c, d⟩ := i
  obtain ⟨⟨a', b'⟩, c', d'⟩ := i'
  simp_all

/-- a printer of elements: self-delimiting, and every element starts with `{` -/
structure ElemPrinter {α : Type} (enc : α → Json) : Prop where
  pref : ∀ a b r s, render (enc a) ++ r = render (enc b) ++ s → a = b ∧ r = s
  brace : ∀ a, ∃ l, render (enc a) = '{' :: l

theorem elemPrinter_output : ElemPrinter encOutput :=
  ⟨fun _ _ _ _ h => encOutput_prefix h, fun o => ⟨_, render_encOutput o⟩⟩

theorem elemPrinter_input : ElemPrinter encInput :=
  ⟨fun _ _ _ _ h => encInput_prefix h, fun i => ⟨_, render_encInput i⟩⟩

theorem render_null : render Json.null = ['n', 'u', 'l', 'l'] := by simp [render]

theorem encPtr_prefix {α : Type} {enc : α → Json} (hp : ElemPrinter enc) {a b : Option α} {r s : List Char}
    (h : render (encPtr enc a) ++ r = render (encPtr enc b) ++ s) : a = b ∧ r = s := by
  cases a with
  | none =>
    cases b with
    | none => simpa [encPtr, render_null] using h
    | some y =>
      obtain ⟨l, hl⟩ := hp.brace y
      simp [encPtr, render_null, hl] at h
  | some x =>
    cases b with
    | none =>
      obtain ⟨l, hl⟩ := hp.brace x
      simp [encPtr, render_null, hl] at h
    | some y =>
      obtain ⟨e, hr⟩ := hp.pref x y r s (by simpa [encPtr] using h)
      exact ⟨by rw [e], hr⟩

theorem encPtr_head {α : Type} {enc : α → Json} (hp : ElemPrinter enc) (a : Option α) :
    ∃ c l, render (encPtr enc a) = c :: l ∧ c ≠ ']' := by
  cases a with
  | none => exact ⟨'n', ['u', 'l', 'l'], by simp [encPtr, render_null], by decide⟩
  | some x =>
    obtain ⟨l, hl⟩ := hp.brace x
    exact ⟨'{', l, by simpa [encPtr] using hl, by decide⟩

theorem renderElems_prefix {β : Type} (f : β → Json)
    (hpref : ∀ a b r s, render (f a) ++ r = render (f b) ++ s → a = b ∧ r = s)
    (hhead : ∀ a, ∃ c l, render (f a) = c :: l ∧ c ≠ ']') :
    ∀ (l l' : List β) (first : Bool) (r s : List Char),
      renderElems first (l.map f) ++ r = renderElems first (l'.map f) ++ s → l = l' ∧ r = s
  | [], [], _, r, s, h => by simpa [renderElems] using h
  | [], b :: t, first, r, s, h => by
    exfalso
    obtain ⟨c, l, hc, hne⟩ := hhead b
    cases first <;> simp [renderElems, hc] at h
    exact hne h.1.symm
  | a :: t, [], first, r, s, h => by
    exfalso
    obtain ⟨c, l, hc, hne⟩ := hhead a
    cases first <;> simp [renderElems, hc] at h
    exact hne h.1
  | a :: t, b :: t', first, r, s, h => by
    have h' : render (f a) ++ (renderElems false (t.map f) ++ r) = render (f b) ++ (renderElems false (t'.map f) ++ s) := by
      cases first <;> simpa [renderElems] using h
    obtain ⟨e, hrest⟩ := hpref a b _ _ h'
    obtain ⟨et, hr⟩ := renderElems_prefix f hpref hhead t t' false r s hrest
    exact ⟨by rw [e, et], hr⟩

theorem encSlice_prefix {α : Type} {enc : α → Json} (hp : ElemPrinter enc) {a b : Option (List (Option α))}
    {r s : List Char} (h : render (encSlice (encPtr enc) a) ++ r = render (encSlice (encPtr enc) b) ++ s) :
    a = b ∧ r = s := by
  cases a with
  | none =>
    cases b with
    | none => simpa [encSlice, render_null] using h
    | some y => simp [encSlice, render_null, render] at h
  | some x =>
    cases b with
    | none => simp [encSlice, render_null, render] at h
    | some y =>
      simp only [encSlice, render, List.cons_append, List.cons.injEq, true_and] at h
      obtain ⟨e, hr⟩ := renderElems_prefix (encPtr enc) (fun _ _ _ _ h => encPtr_prefix hp h) (encPtr_head hp) x y true r s h
      exact ⟨by rw [e], hr⟩

theorem render_encInt (i : Int) : render (encInt i) = intChars i := by
  simp [encInt, render, intChars]

theorem render_encPre (ins : Option (List (Option Input))) (outs : Option (List (Option Output))) (ts : Int) :
    renderPre ins outs ts =
    '{' :: (renderString "inputs" ++ ':' :: (render (encSlice (encPtr encInput) ins) ++ ',' :: (renderString "outputs" ++ ':' ::
      (render (encSlice (encPtr encOutput) outs) ++ ',' :: (renderString "timestamp" ++ ':' :: (intChars ts ++ ['}'])))))) := by
  simp only [renderPre, encPre, render, renderFields, render_encInt]
  simp

/-- the id pre-image determines inputs, outputs and timestamp -/
theorem renderPre_injective {ins ins' : Option (List (Option Input))} {outs outs' : Option (List (Option Output))}
    {ts ts' : Int} (h : renderPre ins outs ts = renderPre ins' outs' ts') : ins = ins' ∧ outs = outs' ∧ ts = ts' := by
  rw [render_encPre, render_encPre] at h
  simp only [List.cons.injEq, true_and] at h
  have h := List.append_cancel_left h
  simp only [List.cons.injEq, true_and] at h
  obtain ⟨h1, h⟩ := encSlice_prefix elemPrinter_input h
  simp only [List.cons.injEq, true_and] at h
  have h := List.append_cancel_left h
  simp only [List.cons.injEq, true_and] at h
  obtain ⟨h2, h⟩ := encSlice_prefix elemPrinter_output h
  simp only [List.cons.injEq, true_and] at h
  have h := List.append_cancel_left h
  simp only [List.cons.injEq, true_and] at h
  obtain ⟨h3, _⟩ := int_then (x := '}') (y := '}') (r := []) (s := []) (by decide) (by decide) h
  exact ⟨h1, h2, h3⟩

/-- the bytes fed to SHA-256 determine the characters -/
theorem utf8_injective {a b : List Char} (h : utf8 a = utf8 b) : a = b := by
  unfold utf8 at h
  have h0 : (String.ofList a).toUTF8.data = (String.ofList b).toUTF8.data := Array.toList_inj.mp h
  have h1 : (String.ofList a).toByteArray = (String.ofList b).toByteArray := ByteArray.ext h0
  exact String.ofList_injective (String.toByteArray_inj.mp h1)

end Codec
