/-
  Codec.Wire — the custom (Un)MarshalJSON methods of validatornode/domain/ledger, one definition per Go
  method, same order of checks.  Pointers are `Option`, slices are `Option (List _)` (`none` = nil):
  the types allow exactly what the Go types allow, and every place where the Go code dereferences or
  indexes without a guard of its own says `panic` here.

  Crypto is a parameter: `pkOk s` ⇔ `encryption.NewPublicKeyFromHex(s)` succeeds, `pkCanon s` =
  `.String()` of the key it returns; `sigOk`/`sigCanon` likewise for `DecodeSignature`; `hash bytes` =
  `fmt.Sprintf("%x", sha256.Sum256(bytes))`.  (The driver instantiates `hash` with Codec.Sha256 and
  the harness compares ids and block hashes with Go's, byte for byte.)
-/
import Codec.Json

namespace Codec

structure Params where
  pkOk : String → Bool
  pkCanon : String → String
  sigOk : String → Bool
  sigCanon : String → String
  hash : List UInt8 → String

/-- `null` for a nil pointer, else the element's encoding -/
def encPtr {α : Type} (enc : α → Json) : Option α → Json
  | none => .null
  | some a => enc a

/-- `null` for a nil slice, `[…]` otherwise -/
def encSlice {α : Type} (enc : α → Json) : Option (List α) → Json
  | none => .null
  | some l => .arr (l.map enc)

/-! ### output.go -/

structure Output where
  address : String
  isYielding : Bool
  value : Nat
  deriving Repr, DecidableEq, Inhabited

def Output.zero : Output := ⟨"", false, 0⟩

def outputFields : List String := ["address", "is_yielding", "value"]

def assignOutput (d : Output) (k : String) (v : Json) : Res Output :=
  match fieldIndex outputFields k with
  | some 0 => do let a ← decString d.address v; .ok { d with address := a }
  | some 1 => do let a ← decBool d.isYielding v; .ok { d with isYielding := a }
  | some 2 => do let a ← decUint 64 d.value v; .ok { d with value := a }
  | _ => .ok d

/-- `(*Output).UnmarshalJSON`: `dto.Address` is read without a nil check. -/
def Output.unmarshalJSON (j : Json) : Res Output := do
  let dto ← unmarshalStructPtr Output.zero assignOutput j
  match dto with
  | none => .panic "Output.UnmarshalJSON: dto.Address on nil dto"
  | some d => .ok d

def encOutput (o : Output) : Json :=
  .obj [("address", .str o.address), ("is_yielding", .bool o.isYielding), ("value", encNat o.value)]

/-! ### input_info.go -/

structure InputInfo where
  outputIndex : Nat
  transactionId : String
  deriving Repr, DecidableEq, Inhabited

def InputInfo.zero : InputInfo := ⟨0, ""⟩

def inputInfoFields : List String := ["output_index", "transaction_id"]

def assignInputInfo (d : InputInfo) (k : String) (v : Json) : Res InputInfo :=
  match fieldIndex inputInfoFields k with
  | some 0 => do let a ← decUint 16 d.outputIndex v; .ok { d with outputIndex := a }
  | some 1 => do let a ← decString d.transactionId v; .ok { d with transactionId := a }
  | _ => .ok d

def InputInfo.unmarshalJSON (j : Json) : Res InputInfo := do
  let dto ← unmarshalStructPtr InputInfo.zero assignInputInfo j
  match dto with
  | none => .panic "InputInfo.UnmarshalJSON: dto.OutputIndex on nil dto"
  | some d => .ok d

def encInputInfo (i : InputInfo) : Json :=
  .obj [("output_index", encNat i.outputIndex), ("transaction_id", .str i.transactionId)]

/-! ### input.go -/

/-- A decoded input holds PARSED key and signature objects; the model keeps their canonical
renderings (`publicKey.String()`, `signature.String()`). -/
structure Input where
  info : InputInfo
  publicKey : String
  signature : String
  deriving Repr, DecidableEq, Inhabited

structure InputDto where
  outputIndex : Nat
  transactionId : String
  publicKey : String
  signature : String
  deriving Repr, DecidableEq

def InputDto.zero : InputDto := ⟨0, "", "", ""⟩

def inputFields : List String := ["output_index", "transaction_id", "public_key", "signature"]

def assignInput (d : InputDto) (k : String) (v : Json) : Res InputDto :=
  match fieldIndex inputFields k with
  | some 0 => do let a ← decUint 16 d.outputIndex v; .ok { d with outputIndex := a }
  | some 1 => do let a ← decString d.transactionId v; .ok { d with transactionId := a }
  | some 2 => do let a ← decString d.publicKey v; .ok { d with publicKey := a }
  | some 3 => do let a ← decString d.signature v; .ok { d with signature := a }
  | _ => .ok d

/-- `(*Input).UnmarshalJSON`: `dto.PublicKey` is read without a nil check; then the two crypto decoders. -/
def Input.unmarshalJSON (p : Params) (j : Json) : Res Input := do
  let dto ← unmarshalStructPtr InputDto.zero assignInput j
  match dto with
  | none => .panic "Input.UnmarshalJSON: dto.PublicKey on nil dto"
  | some d =>
    if !p.pkOk d.publicKey then .err
    else if !p.sigOk d.signature then .err
    else .ok ⟨⟨d.outputIndex, d.transactionId⟩, p.pkCanon d.publicKey, p.sigCanon d.signature⟩

def encInput (i : Input) : Json :=
  .obj [("output_index", encNat i.info.outputIndex), ("transaction_id", .str i.info.transactionId),
        ("public_key", .str i.publicKey), ("signature", .str i.signature)]

/-! ### transaction.go -/

structure Transaction where
  id : String
  inputs : Option (List (Option Input))
  outputs : Option (List (Option Output))
  timestamp : Int
  hasReward : Bool
  rewardRecipient : String
  rewardValue : Nat
  deriving Repr, DecidableEq, Inhabited

def Transaction.zero : Transaction := ⟨"", none, none, 0, false, "", 0⟩

structure TransactionDto where
  id : String
  inputs : Slice (Option Input)
  outputs : Slice (Option Output)
  timestamp : Int

def TransactionDto.zero : TransactionDto := ⟨"", Slice.nil, Slice.nil, 0⟩

def transactionFields : List String := ["id", "inputs", "outputs", "timestamp"]

def elemInput (p : Params) (old : Option (Option Input)) (j : Json) : Res (Option Input) :=
  decPtr (fun _ j => Input.unmarshalJSON p j) old.join j

def elemOutput (old : Option (Option Output)) (j : Json) : Res (Option Output) :=
  decPtr (fun _ j => Output.unmarshalJSON j) old.join j

def assignTransaction (p : Params) (d : TransactionDto) (k : String) (v : Json) : Res TransactionDto :=
  match fieldIndex transactionFields k with
  | some 0 => do let a ← decString d.id v; .ok { d with id := a }
  | some 1 => do let a ← decSlice (elemInput p) d.inputs v; .ok { d with inputs := a }
  | some 2 => do let a ← decSlice elemOutput d.outputs v; .ok { d with outputs := a }
  | some 3 => do let a ← decInt64 d.timestamp v; .ok { d with timestamp := a }
  | _ => .ok d

/-- the id pre-image: the anonymous struct of `generateId` -/
def encPre (ins : Option (List (Option Input))) (outs : Option (List (Option Output))) (ts : Int) : Json :=
  .obj [("inputs", encSlice (encPtr encInput) ins), ("outputs", encSlice (encPtr encOutput) outs),
        ("timestamp", encInt ts)]

def renderPre (ins : Option (List (Option Input))) (outs : Option (List (Option Output))) (ts : Int) : List Char :=
  render (encPre ins outs ts)

def generateId (p : Params) (ins : Option (List (Option Input))) (outs : Option (List (Option Output)))
    (ts : Int) : String :=
  p.hash (utf8 (renderPre ins outs ts))

def lenOf {α : Type} (l : Option (List α)) : Nat := (l.getD []).length

/-- `(*Transaction).UnmarshalJSON`, called on an object that may already hold a transaction
(`old`): the reward fields are only ever SET, so a re-used object keeps them. -/
def Transaction.unmarshalJSON (p : Params) (old : Option Transaction) (j : Json) : Res Transaction := do
  let dto ← unmarshalStructPtr TransactionDto.zero (assignTransaction p) j
  match dto with
  | none => .err                                                   -- "transaction is null"
  | some d =>
    let ins := d.inputs.val
    let outs := d.outputs.val
    if (ins.getD []).any Option.isNone then .err                   -- "transaction input is null"
    else if (outs.getD []).any Option.isNone then .err             -- "transaction output is null"
    else if generateId p ins outs d.timestamp ≠ d.id then .err     -- "wrong transaction ID"
    else if lenOf outs > 65536 then .err                           -- "too many outputs" (indexes are uint16; fix: commit)
    else
      let t := old.getD Transaction.zero
      if lenOf ins = 0 then
        if lenOf outs > 1 then .err                                -- "multiple rewards attempt"
        else if lenOf outs = 0 then .err                           -- "reward not found"
        else
          match (outs.getD [])[0]? with                            -- dto.Outputs[0].Address()
          | none => .panic "Transaction.UnmarshalJSON: dto.Outputs[0] out of range"
          | some none => .panic "Transaction.UnmarshalJSON: dto.Outputs[0] is nil"
          | some (some o) =>
            .ok { id := d.id, inputs := ins, outputs := outs, timestamp := d.timestamp,
                  hasReward := true, rewardRecipient := o.address, rewardValue := o.value }
      else if lenOf outs = 0 then .err                             -- "transaction has no output"
      else
        .ok { id := d.id, inputs := ins, outputs := outs, timestamp := d.timestamp,
              hasReward := t.hasReward, rewardRecipient := t.rewardRecipient, rewardValue := t.rewardValue }

def encTransaction (t : Transaction) : Json :=
  .obj [("id", .str t.id), ("inputs", encSlice (encPtr encInput) t.inputs),
        ("outputs", encSlice (encPtr encOutput) t.outputs), ("timestamp", encInt t.timestamp)]

/-! ### block.go -/

structure Block where
  previousHash : List Nat
  added : Option (List String)
  removed : Option (List String)
  timestamp : Int
  transactions : Option (List (Option Transaction))
  deriving Repr, DecidableEq, Inhabited

def zeroHash : List Nat := List.replicate 32 0

structure BlockDto where
  previousHash : List Nat
  added : Slice String
  removed : Slice String
  timestamp : Int
  transactions : Slice (Option Transaction)

def BlockDto.zero : BlockDto := ⟨zeroHash, Slice.nil, Slice.nil, 0, Slice.nil⟩

def blockFields : List String :=
  ["previous_hash", "added_registered_addresses", "removed_registered_addresses", "timestamp", "transactions"]

def elemString (old : Option String) (j : Json) : Res String := decString (old.getD "") j

def elemTransaction (p : Params) (old : Option (Option Transaction)) (j : Json) : Res (Option Transaction) :=
  decPtr (Transaction.unmarshalJSON p) old.join j

def assignBlock (p : Params) (d : BlockDto) (k : String) (v : Json) : Res BlockDto :=
  match fieldIndex blockFields k with
  | some 0 => do let a ← decByteArray 32 d.previousHash v; .ok { d with previousHash := a }
  | some 1 => do let a ← decSlice elemString d.added v; .ok { d with added := a }
  | some 2 => do let a ← decSlice elemString d.removed v; .ok { d with removed := a }
  | some 3 => do let a ← decInt64 d.timestamp v; .ok { d with timestamp := a }
  | some 4 => do let a ← decSlice (elemTransaction p) d.transactions v; .ok { d with transactions := a }
  | _ => .ok d

/-- `(*Block).UnmarshalJSON` (every field is overwritten: the object's previous content is irrelevant) -/
def Block.unmarshalJSON (p : Params) (j : Json) : Res Block := do
  let dto ← unmarshalStructPtr BlockDto.zero (assignBlock p) j
  match dto with
  | none => .err                                                   -- "block is null"
  | some d =>
    if (d.transactions.val.getD []).any Option.isNone then .err    -- "block transaction is null"
    else .ok ⟨d.previousHash, d.added.val, d.removed.val, d.timestamp, d.transactions.val⟩

def encBlock (b : Block) : Json :=
  .obj [("previous_hash", encBytes b.previousHash), ("added_registered_addresses", encStrings b.added),
        ("removed_registered_addresses", encStrings b.removed), ("timestamp", encInt b.timestamp),
        ("transactions", encSlice (encPtr encTransaction) b.transactions)]

/-- `Block.Hash()` as lower-case hex -/
def blockHash (p : Params) (b : Block) : String := p.hash (utf8 (render (encBlock b)))

/-! ### transaction_request.go -/

structure TransactionRequest where
  transaction : Option Transaction
  target : String
  deriving Repr, DecidableEq, Inhabited

def TransactionRequest.zero : TransactionRequest := ⟨none, ""⟩

def requestFields : List String := ["Transaction", "TransactionBroadcasterTarget"]

def assignRequest (p : Params) (d : TransactionRequest) (k : String) (v : Json) : Res TransactionRequest :=
  match fieldIndex requestFields k with
  | some 0 => do let a ← decPtr (Transaction.unmarshalJSON p) d.transaction v; .ok { d with transaction := a }
  | some 1 => do let a ← decString d.target v; .ok { d with target := a }
  | _ => .ok d

def TransactionRequest.unmarshalJSON (p : Params) (j : Json) : Res TransactionRequest := do
  let dto ← unmarshalStructPtr TransactionRequest.zero (assignRequest p) j
  match dto with
  | none => .err                                                   -- "transaction request is null"
  | some d => .ok d

def encRequest (r : TransactionRequest) : Json :=
  .obj [("Transaction", encPtr encTransaction r.transaction), ("TransactionBroadcasterTarget", .str r.target)]

/-! ### utxo.go -/

structure Utxo where
  info : InputInfo
  output : Output
  timestamp : Int
  deriving Repr, DecidableEq, Inhabited

structure UtxoDto where
  address : String
  timestamp : Int
  isYielding : Bool
  outputIndex : Nat
  transactionId : String
  value : Nat

def UtxoDto.zero : UtxoDto := ⟨"", 0, false, 0, "", 0⟩

def utxoFields : List String := ["address", "timestamp", "is_yielding", "output_index", "transaction_id", "value"]

def assignUtxo (d : UtxoDto) (k : String) (v : Json) : Res UtxoDto :=
  match fieldIndex utxoFields k with
  | some 0 => do let a ← decString d.address v; .ok { d with address := a }
  | some 1 => do let a ← decInt64 d.timestamp v; .ok { d with timestamp := a }
  | some 2 => do let a ← decBool d.isYielding v; .ok { d with isYielding := a }
  | some 3 => do let a ← decUint 16 d.outputIndex v; .ok { d with outputIndex := a }
  | some 4 => do let a ← decString d.transactionId v; .ok { d with transactionId := a }
  | some 5 => do let a ← decUint 64 d.value v; .ok { d with value := a }
  | _ => .ok d

def Utxo.unmarshalJSON (j : Json) : Res Utxo := do
  let dto ← unmarshalStructPtr UtxoDto.zero assignUtxo j
  match dto with
  | none => .panic "Utxo.UnmarshalJSON: dto.OutputIndex on nil dto"
  | some d => .ok ⟨⟨d.outputIndex, d.transactionId⟩, ⟨d.address, d.isYielding, d.value⟩, d.timestamp⟩

def encUtxo (u : Utxo) : Json :=
  .obj [("address", .str u.output.address), ("timestamp", encInt u.timestamp),
        ("is_yielding", .bool u.output.isYielding), ("output_index", encNat u.info.outputIndex),
        ("transaction_id", .str u.info.transactionId), ("value", encNat u.output.value)]

/-! ### the `json.Unmarshal(bytes, &x)` calls of the consumers (x freshly declared) -/

/-- `var blocks []*ledger.Block` (Update's fetch goroutine; access node progress) -/
def decodeBlocks (p : Params) (j : Json) : Res (Option (List (Option Block))) := do
  let s ← decSlice (fun (old : Option (Option Block)) j => decPtr (fun _ j => Block.unmarshalJSON p j) old.join j) Slice.nil j
  .ok s.val

/-- `var transactionRequest *ledger.TransactionRequest` -/
def decodeRequest (p : Params) (j : Json) : Res (Option TransactionRequest) :=
  decPtr (fun _ j => TransactionRequest.unmarshalJSON p j) none j

/-- `var transaction *ledger.Transaction` (access node POST /transaction) -/
def decodeTransactionPtr (p : Params) (j : Json) : Res (Option Transaction) :=
  decPtr (Transaction.unmarshalJSON p) none j

/-- `var transactions []*ledger.Transaction` (access node, pool listing) -/
def decodeTransactions (p : Params) (j : Json) : Res (Option (List (Option Transaction))) := do
  let s ← decSlice (elemTransaction p) Slice.nil j
  .ok s.val

/-- `var searchedUtxo *ledger.Utxo` -/
def decodeUtxoPtr (j : Json) : Res (Option Utxo) :=
  decPtr (fun _ j => Utxo.unmarshalJSON j) none j

/-- `var utxos []*ledger.Utxo` -/
def decodeUtxos (j : Json) : Res (Option (List (Option Utxo))) := do
  let s ← decSlice (fun (old : Option (Option Utxo)) j => decPtr (fun _ j => Utxo.unmarshalJSON j) old.join j) Slice.nil j
  .ok s.val

/-- `var startingBlockHeight uint64` -/
def decodeHeight (j : Json) : Res Nat := decUint 64 0 j

/-- `var targets []string` -/
def decodeTargets (j : Json) : Res (Option (List String)) := do
  let s ← decSlice elemString Slice.nil j
  .ok s.val

/-- `var address string` -/
def decodeAddress (j : Json) : Res String := decString "" j

/-- `var timestamp int64` (Neighbor.GetFirstBlockTimestamp) -/
def decodeTimestamp (j : Json) : Res Int := decInt64 0 j

/-- what a node serves: `json.Marshal(blocks)`, `json.Marshal(transactions)`, `json.Marshal(utxos)` -/
def encBlocks (l : Option (List (Option Block))) : Json := encSlice (encPtr encBlock) l
def encTransactions (l : Option (List (Option Transaction))) : Json := encSlice (encPtr encTransaction) l
def encUtxos (l : Option (List (Option Utxo))) : Json := encSlice (encPtr encUtxo) l

end Codec
