/-
  Codec.PropsRender — property theorems of C15 about the id pre-image ("transactions that differ in inputs,
  outputs or timestamp have different ids").  Property theorems and non-vacuity examples only; the printer
  lemmas are in Codec.Render.
-/
import Codec.Render
import Codec.Examples

namespace Codec

/-- **C15, the rendering of the id pre-image is injective**: the bytes fed to the hash — the UTF-8 rendering of
`{"inputs":…,"outputs":…,"timestamp":…}` exactly as `generateId` marshals it — determine the inputs (output
reference, public key and signature strings of every entry, nil entries and nil/empty lists included), the
outputs (address, yielding flag, value) and the timestamp. -/
theorem C15_render_injective {ins ins' : Option (List (Option Input))} {outs outs' : Option (List (Option Output))}
    {ts ts' : Int} (h : utf8 (renderPre ins outs ts) = utf8 (renderPre ins' outs' ts')) :
    ins = ins' ∧ outs = outs' ∧ ts = ts' :=
  renderPre_injective (utf8_injective h)

/-- **C15, ids bind content**: under a collision-free hash (a HYPOTHESIS, never an axiom), two transactions whose
inputs, outputs or timestamps differ have different ids — for every decoded transaction, since by `C15_id_checked`
a decoded transaction's id is `generateId` of its fields. -/
theorem C15_ids_bind (p : Params) (hinj : Function.Injective p.hash)
    {ins ins' : Option (List (Option Input))} {outs outs' : Option (List (Option Output))} {ts ts' : Int}
    (hne : ins ≠ ins' ∨ outs ≠ outs' ∨ ts ≠ ts') :
    generateId p ins outs ts ≠ generateId p ins' outs' ts' := by
  intro h
  obtain ⟨h1, h2, h3⟩ := C15_render_injective (hinj h)
  rcases hne with hne | hne | hne
  · exact hne h1
  · exact hne h2
  · exact hne h3

/-- non-vacuity: an injective "hash" exists in the model (the bytes themselves, as a string of code points) and
two concrete transactions differing only in the timestamp get different ids under it -/
def idHash (bs : List UInt8) : String := String.ofList (bs.map (fun b => Char.ofNat b.toNat))

theorem idHash_char_toNat (n : Nat) (h : n < 256) : (Char.ofNat n).toNat = n := by
  have : n.isValidChar := by left; omega
  simp [Char.ofNat, this, Char.ofNatAux, Char.toNat]

theorem idHash_map_injective : ∀ (a b : List UInt8),
    a.map (fun x => Char.ofNat x.toNat) = b.map (fun x => Char.ofNat x.toNat) → a = b
  | [], [], _ => rfl
  | [], _ :: _, h => by simp at h
  | _ :: _, [], h => by simp at h
  | x :: a, y :: b, h => by
    simp only [List.map_cons, List.cons.injEq] at h
    have hx := congrArg Char.toNat h.1
    rw [idHash_char_toNat _ x.toNat_lt, idHash_char_toNat _ y.toNat_lt] at hx
    rw [UInt8.toNat_inj.mp hx, idHash_map_injective a b h.2]

theorem idHash_injective : Function.Injective idHash := by
  intro a b h
  exact idHash_map_injective a b (String.ofList_injective h)

example : generateId { Ex.params with hash := idHash } Ex.rewardTx.inputs Ex.rewardTx.outputs 1 ≠
    generateId { Ex.params with hash := idHash } Ex.rewardTx.inputs Ex.rewardTx.outputs 2 :=
  C15_ids_bind _ idHash_injective (Or.inr (Or.inr (by decide)))

end Codec
