/-
  Codec.Sha256 — SHA-256 (FIPS 180-4) on UInt32, executable, for the driver only: the model computes
  transaction ids and block hashes from its own rendering and the harness compares them with
  `crypto/sha256`.  No theorem depends on this file (theorems take `hash` as a parameter).
-/
namespace Codec.Sha256

def K : Array UInt32 := #[
  0x428a2f98, 0x71374491, 0xb5c0fbcf, 0xe9b5dba5, 0x3956c25b, 0x59f111f1, 0x923f82a4, 0xab1c5ed5,
  0xd807aa98, 0x12835b01, 0x243185be, 0x550c7dc3, 0x72be5d74, 0x80deb1fe, 0x9bdc06a7, 0xc19bf174,
  0xe49b69c1, 0xefbe4786, 0x0fc19dc6, 0x240ca1cc, 0x2de92c6f, 0x4a7484aa, 0x5cb0a9dc, 0x76f988da,
  0x983e5152, 0xa831c66d, 0xb00327c8, 0xbf597fc7, 0xc6e00bf3, 0xd5a79147, 0x06ca6351, 0x14292967,
  0x27b70a85, 0x2e1b2138, 0x4d2c6dfc, 0x53380d13, 0x650a7354, 0x766a0abb, 0x81c2c92e, 0x92722c85,
  0xa2bfe8a1, 0xa81a664b, 0xc24b8b70, 0xc76c51a3, 0xd192e819, 0xd6990624, 0xf40e3585, 0x106aa070,
  0x19a4c116, 0x1e376c08, 0x2748774c, 0x34b0bcb5, 0x391c0cb3, 0x4ed8aa4a, 0x5b9cca4f, 0x682e6ff3,
  0x748f82ee, 0x78a5636f, 0x84c87814, 0x8cc70208, 0x90befffa, 0xa4506ceb, 0xbef9a3f7, 0xc67178f2]

def H0 : Array UInt32 := #[
  0x6a09e667, 0xbb67ae85, 0x3c6ef372, 0xa54ff53a, 0x510e527f, 0x9b05688c, 0x1f83d9ab, 0x5be0cd19]

@[inline] def rotr (x : UInt32) (n : UInt32) : UInt32 := (x >>> n) ||| (x <<< (32 - n))

/-- message ‖ 0x80 ‖ 0… ‖ 64-bit big-endian bit length, a multiple of 64 bytes -/
def pad (msg : ByteArray) : ByteArray := Id.run do
  let bitLen : UInt64 := msg.size.toUInt64 * 8
  let mut b := msg.push 0x80
  let rem := b.size % 64
  let zeros := if rem ≤ 56 then 56 - rem else 120 - rem
  for _ in [0:zeros] do
    b := b.push 0
  for i in [0:8] do
    b := b.push ((bitLen >>> (8 * (7 - i)).toUInt64).toUInt8)
  return b

def word (b : ByteArray) (off : Nat) : UInt32 :=
  (b.get! off).toUInt32 <<< 24 ||| (b.get! (off + 1)).toUInt32 <<< 16 |||
  (b.get! (off + 2)).toUInt32 <<< 8 ||| (b.get! (off + 3)).toUInt32

def compress (h : Array UInt32) (b : ByteArray) (off : Nat) : Array UInt32 := Id.run do
  let mut w : Array UInt32 := Array.mkEmpty 64
  for t in [0:16] do
    w := w.push (word b (off + 4 * t))
  for t in [16:64] do
    let w15 := w[t - 15]!
    let w2 := w[t - 2]!
    let s0 := rotr w15 7 ^^^ rotr w15 18 ^^^ (w15 >>> 3)
    let s1 := rotr w2 17 ^^^ rotr w2 19 ^^^ (w2 >>> 10)
    w := w.push (w[t - 16]! + s0 + w[t - 7]! + s1)
  let mut a := h[0]!
  let mut bb := h[1]!
  let mut c := h[2]!
  let mut d := h[3]!
  let mut e := h[4]!
  let mut f := h[5]!
  let mut g := h[6]!
  let mut hh := h[7]!
  for t in [0:64] do
    let S1 := rotr e 6 ^^^ rotr e 11 ^^^ rotr e 25
    let ch := (e &&& f) ^^^ ((~~~ e) &&& g)
    let t1 := hh + S1 + ch + K[t]! + w[t]!
    let S0 := rotr a 2 ^^^ rotr a 13 ^^^ rotr a 22
    let maj := (a &&& bb) ^^^ (a &&& c) ^^^ (bb &&& c)
    let t2 := S0 + maj
    hh := g
    g := f
    f := e
    e := d + t1
    d := c
    c := bb
    bb := a
    a := t1 + t2
  return #[h[0]! + a, h[1]! + bb, h[2]! + c, h[3]! + d, h[4]! + e, h[5]! + f, h[6]! + g, h[7]! + hh]

def digestWords (msg : ByteArray) : Array UInt32 := Id.run do
  let b := pad msg
  let mut h := H0
  for i in [0:b.size / 64] do
    h := compress h b (64 * i)
  return h

def hexNibble (n : UInt32) : Char :=
  if n < 10 then Char.ofNat (48 + n.toNat) else Char.ofNat (87 + n.toNat)

/-- `fmt.Sprintf("%x", sha256.Sum256(msg))` -/
def hexOfBytes (msg : ByteArray) : String := Id.run do
  let mut s := ""
  for w in digestWords msg do
    for i in [0:8] do
      s := s.push (hexNibble ((w >>> (4 * (7 - i)).toUInt32) &&& 0xf))
  return s

def hex (bytes : List UInt8) : String := hexOfBytes ⟨bytes.toArray⟩

/-- the 32 digest bytes as numbers (a block's `previous_hash`) -/
def digestBytes (msg : ByteArray) : List Nat := Id.run do
  let mut l : List Nat := []
  for w in digestWords msg do
    for i in [0:4] do
      l := l ++ [((w >>> (8 * (3 - i)).toUInt32) &&& 0xff).toNat]
  return l

end Codec.Sha256
