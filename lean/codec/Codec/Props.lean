/-
  Codec.Props — the property theorems of C14 (no bytes can crash a node) and C15 (wire fidelity) about the
  executable model Codec.Json / Wire / Handlers, each with a non-vacuity example.

  Reading guide.  `Res.Sat P r`: r is not a panic, and if it is a value the value satisfies P.
  `p : Params` are the crypto decoders and SHA-256; `p.Good`: canonical renderings are accepted fixed points
  (checked by ruwire on every string it sends).  The tokenizer bytes → tree is the parameter `parse`.
-/
import Codec.Lemmas
import Codec.Examples

namespace Codec

/-! ## C14 -/

/-- **C14, decoders.**  For every JSON tree, every `json.Unmarshal` call of the code ends in a value or an error,
never in a panic (the unguarded `dto.Field` of the leaf `UnmarshalJSON` methods and `dto.Outputs[0]` are
unreachable), and the decoded values are well-formed: no nil entry, at least one output, a transaction without
inputs is a reward with exactly one output; numbers are in range, ids are hashes of the pre-image. -/
theorem C14_decode_total (p : Params) (hp : p.Good) (j : Json) :
    Res.Sat (fun r => ∀ o, r = some o → Output.Canon o) (decPtr (fun _ j => Output.unmarshalJSON j) none j) ∧
    Res.Sat (fun r => ∀ i, r = some i → InputInfo.Canon i) (decPtr (fun _ j => InputInfo.unmarshalJSON j) none j) ∧
    Res.Sat (fun r => ∀ i, r = some i → Input.Canon p i) (decPtr (fun _ j => Input.unmarshalJSON p j) none j) ∧
    (∀ old, Res.Sat (fun t => t.WF ∧ Transaction.Canon p t) (Transaction.unmarshalJSON p old j)) ∧
    Res.Sat (fun b => b.WF ∧ Block.Canon p b) (Block.unmarshalJSON p j) ∧
    Res.Sat (fun r => ∀ t, r.transaction = some t → t.WF) (TransactionRequest.unmarshalJSON p j) ∧
    Res.Sat (fun l => BlocksWF (elems l)) (decodeBlocks p j) ∧
    Res.Sat (fun r => ∀ q t, r = some q → q.transaction = some t → t.WF) (decodeRequest p j) ∧
    Res.Sat (fun r => ∀ t, r = some t → t.WF) (decodeTransactionPtr p j) ∧
    Res.Sat (fun l => ∀ x ∈ elems l, ∀ t, x = some t → Transaction.WF t) (decodeTransactions p j) ∧
    Res.Sat (fun r => ∀ u, r = some u → Utxo.Canon u) (decodeUtxoPtr j) ∧
    Res.Sat (fun l => ∀ x ∈ elems l, ∀ u, x = some u → Utxo.Canon u) (decodeUtxos j) ∧
    Res.NoPanic (decodeHeight j) ∧ Res.NoPanic (decodeTargets j) ∧ Res.NoPanic (decodeAddress j) ∧
    Res.NoPanic (decodeTimestamp j) := by
  refine ⟨sat_decPtr _ _ (fun _ j hj => sat_Output_unmarshalJSON j hj) _ j,
    sat_decPtr _ _ (fun _ j hj => sat_InputInfo_unmarshalJSON j hj) _ j,
    sat_decPtr _ _ (fun _ j hj => sat_Input_unmarshalJSON p hp j hj) _ j,
    fun old => (sat_Transaction_unmarshalJSON p hp old j).mono (fun t h => ⟨h.wf, h⟩),
    (sat_Block_unmarshalJSON p hp j).mono (fun b h => ⟨h.wf, h⟩),
    (sat_Request_unmarshalJSON p hp j).mono (fun r h t ht => (h t ht).wf),
    (sat_decodeBlocks p hp j).mono (fun l h x hx b hb => (h x hx b hb).wf),
    (sat_decodeRequest p hp j).mono (fun r h q t hq ht => (h q hq t ht).wf),
    (sat_decodeTransactionPtr p hp j).mono (fun r h t ht => (h t ht).wf),
    (sat_decodeTransactions p hp j).mono (fun l h x hx t ht => (h x hx t ht).wf),
    sat_decodeUtxoPtr j, sat_decodeUtxos j, ?_, sat_decodeTargets j, sat_decString _ j, ?_⟩
  · exact (sat_decUint 64 0 j (by decide)).mono (fun _ _ => trivial)
  · exact (sat_decInt64 0 j (by unfold IsInt64; omega)).mono (fun _ _ => trivial)

/-- non-vacuity: a decoder accepts something … -/
example : decPtr (fun _ j => Output.unmarshalJSON j) none Ex.outputJson = .ok (some Ex.output) := by decide
/-- … refuses something (inputs but no outputs: the message that used to crash the next tick) … -/
example : Transaction.unmarshalJSON Ex.params none Ex.noOutputsJson = .err := by decide
/-- … and the model does contain reachable-looking panic sites: calling the leaf `UnmarshalJSON` on `null` panics
(reproduced on the real method by `ruwire --mode witness`); the theorem says no caller does that. -/
example : ∃ s, Output.unmarshalJSON .null = .panic s := ⟨_, rfl⟩
example : Ex.params.Good := ⟨fun _ _ => rfl, fun _ _ => rfl, fun _ _ => rfl, fun _ _ => rfl⟩

/-- The reward shape has ONE exception, and it is real: `(*Transaction).UnmarshalJSON` on an object that already
holds a reward (a key that occurs twice) keeps `hasReward = true` for a transaction WITH inputs.  `WF` does not
exclude it (no consumer panics on it); `Fresh` does, and C15_stable is stated with it. -/
def C14_reward_shape_full : Prop :=
  ∀ (p : Params), p.Good → ∀ (j : Json) (b : Block), Block.unmarshalJSON p j = .ok b →
    ∀ t, some t ∈ elems b.transactions → (t.hasReward = true ↔ elems t.inputs = [])

theorem C14_reward_shape_partial (p : Params) (j : Json) (t : Transaction)
    (h : Transaction.unmarshalJSON p none j = .ok t) : t.Fresh :=
  fresh_Transaction_unmarshalJSON p j t h

theorem C14_reward_shape_counterexample : ¬ C14_reward_shape_full := by
  intro h
  have hb : Block.unmarshalJSON Ex.params Ex.dupBlockJson = .ok (Ex.blockWith true) := by decide
  have := (h Ex.params ⟨fun _ _ => rfl, fun _ _ => rfl, fun _ _ => rfl, fun _ _ => rfl⟩ _ _ hb (Ex.spendTx true)
    (by decide)).mp rfl
  exact absurd this (by decide)

/-- **C14, consumers.**  On well-formed values none of the index expressions and dereferences of the application
layer can fail: `Outputs()[0]` and every entry dereference in VerifySignatures / CalculateFee / UpdateUtxos /
Validate / verifyBlock; `lastHostBlocks[0]`, `neighborBlocks[0]`, `[i-1]`, `[len-1]`, `oldHostBlocks[len-1]`,
`lastHostBlocks[i]` in `verify` (for every outcome `reject` of the ledger rules, under Update's two calling
conventions: old blocks present ⇒ a last host block present); `blocks[minLength-1]` / `blocks[len-1]` in Update's
selection; `blocks[start:end]` in `Blocks`. -/
theorem C14_consumers_guarded :
    (∀ t : Transaction, t.WF → Res.NoPanic (useTransaction t)) ∧
    (∀ b : Block, b.WF → Res.NoPanic (useBlock b)) ∧
    (∀ (reject : Nat → Bool) (lastHost oldHost : List Block) (nb : List (Option Block)),
      (oldHost ≠ [] → lastHost ≠ []) → BlocksWF nb →
      Res.Sat (fun v => v.length = nb.length ∧ 1 ≤ v.length ∧ (oldHost = [] → 2 ≤ v.length) ∧ ∀ b ∈ v, b.WF)
        (verify reject lastHost oldHost nb)) ∧
    (∀ (hostLen : Nat) (cands : List (List Block)), (∀ c ∈ cands, c ≠ []) → Res.NoPanic (selectGuards hostLen cands)) ∧
    (∀ n limit h : Nat, n + limit < 2 ^ 64 → Res.Sat (fun r => r.1 ≤ r.2 ∧ r.2 ≤ n) (blocksRange n limit h)) :=
  ⟨fun t h => sat_useTransaction t h, fun b h => sat_useBlock b h,
   fun reject lastHost oldHost nb hctx hwf => sat_verify reject lastHost oldHost nb hctx hwf,
   fun hostLen cands h => sat_selectGuards hostLen cands h, fun n limit h hn => sat_blocksRange n limit h hn⟩

/-- non-vacuity: the guards are needed — the same consumers panic on what the decoders refuse -/
example : ∃ s, useTransaction { Ex.spendTx false with outputs := some [] } = .panic s := ⟨_, rfl⟩
example : ∃ s, useBlock ⟨zeroHash, none, none, 0, some [none]⟩ = .panic s := ⟨_, rfl⟩
example : (verify (fun _ => false) [] [Ex.hostBlock] [some Ex.hostBlock]).isPanic = true := by decide
example : verify (fun _ => false) [Ex.hostBlock] [Ex.hostBlock] [none] = .err := by decide
example : (verify (fun _ => false) [Ex.hostBlock] [Ex.hostBlock] [some Ex.hostBlock, some Ex.hostBlock]).isOk = true := by decide

/-- **C14, handlers.**  For every JSON tree delivered to a validator endpoint, returned by a neighbour to a sync
request, or posted to the access node: the handler path ends in `ok calls` or `err`, never in a panic; whatever is
handed on to the application layer is well-formed; `err` hands on nothing (by the type of `Res`).  Access-node
paths that read the answers of the node's own validator assume those answers have no null entries. -/
theorem C14_handlers_no_panic (p : Params) (hp : p.Good) (j : Json) :
    Res.Sat (fun calls => ∀ c ∈ calls, Call.WF c) (handleTransactionRequest p j) ∧
    Res.NoPanic (handleBlocksRequest j) ∧ Res.NoPanic (handleTargetsRequest j) ∧ Res.NoPanic (handleUtxosRequest j) ∧
    (∀ (reject : Nat → Bool) (lastHost oldHost : List Block), (oldHost ≠ [] → lastHost ≠ []) → (∀ b ∈ oldHost, b.WF) →
      Res.Sat (fun calls => ∀ c ∈ calls, Call.WF c) (verifyNeighborAnswer p reject lastHost oldHost j)) ∧
    (∀ target, Res.Sat (fun calls => ∀ c ∈ calls, ∃ req, c = Call.forward req ∧
        Res.Sat (fun calls => ∀ c ∈ calls, Call.WF c) (handleTransactionRequest p req)) (postTransaction p target j)) ∧
    (∀ utxosAns blocksAns txsAns,
      (∀ l, decodeUtxos utxosAns = .ok l → ∀ x ∈ elems l, x ≠ none) →
      (∀ l, decodeTransactions p txsAns = .ok l → ∀ x ∈ elems l, x ≠ none) →
      Res.NoPanic (getTransactionProgress p j utxosAns blocksAns txsAns)) ∧
    ((∀ l, decodeUtxos j = .ok l → ∀ x ∈ elems l, x ≠ none) → Res.NoPanic (readWalletUtxos j)) := by
  have hreq : ∀ j, Res.Sat (fun calls => ∀ c ∈ calls, Call.WF c) (handleTransactionRequest p j) := by
    intro j
    unfold handleTransactionRequest
    refine Res.Sat.bind (sat_decodeRequest p hp j) (fun r hr => ?_)
    cases r with
    | none => simp
    | some q => exact sat_poolAddTransaction _ _ (fun t ht => (hr q rfl t ht).wf)
  refine ⟨hreq j, ?_, ?_, ?_, ?_, ?_, ?_, ?_⟩
  · exact Res.Sat.bind ((sat_decUint 64 0 j (by decide)).mono (fun _ _ => trivial)) (fun _ _ => trivial)
  · exact Res.Sat.bind (sat_decodeTargets j) (fun _ _ => trivial)
  · exact Res.Sat.bind (sat_decString _ j) (fun _ _ => trivial)
  · intro reject lastHost oldHost hctx hold
    unfold verifyNeighborAnswer
    refine Res.Sat.bind (sat_decodeBlocks p hp j) (fun nb hnb => ?_)
    refine Res.Sat.bind (sat_verify reject lastHost oldHost (nb.getD []) hctx
      (fun x hx b hb => (hnb x hx b hb).wf)) (fun v hv => ?_)
    simp only [Res.sat_ok, List.mem_singleton, forall_eq, Call.WF, List.mem_append]
    intro b hb
    cases hb with
    | inl h => exact hold b h
    | inr h => exact hv.2.2.2 b h
  · intro target
    unfold postTransaction
    refine Res.Sat.bind (sat_decodeTransactionPtr p hp j) (fun t _ => ?_)
    simp only [Res.sat_ok, List.mem_singleton, forall_eq]
    exact ⟨_, rfl, hreq _⟩
  · intro utxosAns blocksAns txsAns hu ht
    unfold getTransactionProgress
    refine Res.Sat.bind (sat_decodeUtxoPtr j) (fun su _ => ?_)
    cases su with
    | none => simp
    | some s =>
      simp only
      cases hdu : decodeUtxos utxosAns with
      | err => simp
      | panic s' => exact absurd hdu ((sat_decodeUtxos utxosAns).ne_panic s')
      | ok utxos =>
        simp only [Res.ok_bind]
        refine Res.Sat.bind (sat_derefAll _ _ (hu utxos hdu)) (fun us _ => ?_)
        split
        · simp
        · refine Res.Sat.bind (sat_decodeBlocks p hp blocksAns) (fun blocks hb => ?_)
          have hval : Res.Sat (fun _ => True) (match (blocks.getD [])[0]? with
              | some (some b) => do
                  let txs ← derefAll "GetTransactionProgress: validatedTransaction.Id() on nil transaction" (b.transactions.getD [])
                  pure (txs.any (fun t => t.id == s.info.transactionId))
              | _ => (pure false : Res Bool)) := by
            split
            · rename_i b hb0
              have hmem : some b ∈ elems blocks := List.mem_of_getElem? hb0
              have hc := hb _ hmem b rfl
              refine Res.Sat.bind (sat_derefAll _ _ (fun x hx e => ?_)) (fun _ _ => by simp)
              obtain ⟨t, ht', _⟩ := hc.2.2.2 x hx
              rw [ht'] at e; exact absurd e (by simp)
            · simp
          refine Res.Sat.bind hval (fun validated _ => ?_)
          split
          · simp
          · cases hdt : decodeTransactions p txsAns with
            | err => simp
            | panic s' => exact absurd hdt ((sat_decodeTransactions p hp txsAns).ne_panic s')
            | ok txs =>
              simp only [Res.ok_bind]
              refine Res.Sat.bind (sat_derefAll _ _ (ht txs hdt)) (fun ts _ => ?_)
              split <;> simp
  · intro hu
    unfold readWalletUtxos
    cases hdu : decodeUtxos j with
    | err => simp [Res.NoPanic]
    | panic s' => exact absurd hdu ((sat_decodeUtxos j).ne_panic s')
    | ok utxos =>
      simp only [Res.ok_bind]
      exact Res.Sat.bind (sat_derefAll _ _ (hu utxos hdu)) (fun _ _ => trivial)

/-- behind the tokenizer: bytes that are not a JSON text are an error answer, everything else is the theorem above -/
theorem C14_handlers_bytes {β : Type} (parse : β → Option Json) (p : Params) (hp : p.Good) (bytes : β) :
    Res.Sat (fun calls => ∀ c ∈ calls, Call.WF c) (onBytes parse (handleTransactionRequest p) bytes) ∧
    Res.NoPanic (onBytes parse handleBlocksRequest bytes) ∧ Res.NoPanic (onBytes parse handleTargetsRequest bytes) ∧
    Res.NoPanic (onBytes parse handleUtxosRequest bytes) ∧
    (∀ (reject : Nat → Bool) (lastHost oldHost : List Block), (oldHost ≠ [] → lastHost ≠ []) → (∀ b ∈ oldHost, b.WF) →
      Res.Sat (fun calls => ∀ c ∈ calls, Call.WF c) (onBytes parse (verifyNeighborAnswer p reject lastHost oldHost) bytes)) := by
  unfold onBytes
  cases parse bytes with
  | none => simp [Res.NoPanic]
  | some j =>
    have h := C14_handlers_no_panic p hp j
    exact ⟨h.1, h.2.1, h.2.2.1, h.2.2.2.1, h.2.2.2.2.1⟩

/-- non-vacuity: a request reaches the pool, a null request is an error, a request without transaction is ignored -/
example : handleTransactionRequest Ex.params (.obj [("Transaction", Ex.rewardJson), ("TransactionBroadcasterTarget", .str "a:1")])
    = .ok [Call.toPool Ex.rewardTx "a:1"] := by rfl
example : handleTransactionRequest Ex.params .null = .err := by rfl
example : handleTransactionRequest Ex.params (.obj []) = .ok [] := by rfl
example : (verifyNeighborAnswer Ex.params (fun _ => false) [Ex.hostBlock] [Ex.hostBlock] (.arr [.null])) = .err := by rfl

/-- The access node TRUSTS its validator: without the hypothesis on the answers the statement is false. -/
def C14_access_trusted_answer_full : Prop := ∀ j : Json, Res.NoPanic (readWalletUtxos j)

theorem C14_access_trusted_answer_counterexample : ¬ C14_access_trusted_answer_full := by
  intro h
  exact (h (.arr [.null]) : False)

/-! ## C15 -/

/-- **C15, round trip.**  `decode (encode v) = ok v` for every wire type and ALL field values within the types'
ranges (`Canon`: uint16 / uint64 / int64 ranges, 32 hash bytes, the id is the hash of the pre-image, a transaction
without inputs is the reward of exactly one output, otherwise it has an output; public key and signature are in
CANONICAL form = accepted by the crypto decoder and equal to their own re-rendering — a decoded input always is,
an upper-case spelling is not: it decodes to the lower-case value, "same fields" but not the same bytes) and
`Fresh` (the derived reward fields are those of a newly allocated object).  nil and empty lists are different
values and both survive: `null` ↦ nil ↦ `null`, `[]` ↦ empty ↦ `[]`. -/
theorem C15_roundtrip (p : Params) :
    (∀ o : Output, o.Canon → decPtr (fun _ j => Output.unmarshalJSON j) none (encOutput o) = .ok (some o)) ∧
    (∀ i : InputInfo, i.Canon → InputInfo.unmarshalJSON (encInputInfo i) = .ok i) ∧
    (∀ i : Input, Input.Canon p i → Input.unmarshalJSON p (encInput i) = .ok i) ∧
    (∀ u : Utxo, u.Canon → Utxo.unmarshalJSON (encUtxo u) = .ok u) ∧
    (∀ t : Transaction, Transaction.Canon p t → t.Fresh → Transaction.unmarshalJSON p none (encTransaction t) = .ok t) ∧
    (∀ b : Block, Block.Canon p b → b.Fresh → Block.unmarshalJSON p (encBlock b) = .ok b) ∧
    (∀ r : TransactionRequest, r.Canon p → r.Fresh → TransactionRequest.unmarshalJSON p (encRequest r) = .ok r) ∧
    (∀ l : Option (List (Option Block)), (∀ x ∈ elems l, ∀ b, x = some b → Block.Canon p b ∧ b.Fresh) →
      decodeBlocks p (encBlocks l) = .ok l) ∧
    (∀ l : Option (List String), decodeTargets (encStrings l) = .ok l) ∧
    (∀ h : Nat, h < 2 ^ 64 → decodeHeight (encNat h) = .ok h) ∧
    (∀ a : String, decodeAddress (.str a) = .ok a) ∧
    (∀ t : Int, IsInt64 t → decodeTimestamp (encInt t) = .ok t) := by
  refine ⟨fun o h => ?_, rt_InputInfo, rt_Input p, rt_Utxo, rt_Transaction p, rt_Block p, rt_Request p,
    rt_decodeBlocks p, fun l => ?_, fun h hh => decUint_encNat 64 0 h hh, fun a => rfl, fun t ht => decInt64_encInt 0 t ht⟩
  · have := rt_elemOutput (some o) (fun o' e => by cases e; exact h)
    simpa [elemOutput, encPtr] using this
  · unfold decodeTargets
    rw [rt_strings]
    rfl

/-- non-vacuity: the hypotheses are satisfiable (a reward with the maximal value; a block holding it) and the
round trip does fail outside them (an index beyond uint16) -/
example : Transaction.Canon Ex.params Ex.rewardTx ∧ Ex.rewardTx.Fresh := by
  refine ⟨⟨?_, ?_, ?_, rfl, by decide, fun _ => ⟨_, rfl, rfl, rfl, rfl⟩, by decide⟩, by decide⟩
  · intro x hx; simp [Ex.rewardTx, elems] at hx
  · intro x hx
    simp only [Ex.rewardTx, elems, Option.getD_some, List.mem_singleton] at hx
    exact ⟨_, hx, by simp [Output.Canon]⟩
  · unfold IsInt64; simp [Ex.rewardTx]
example : InputInfo.unmarshalJSON (encInputInfo ⟨65536, ""⟩) = .err := by decide

/-- **C15, stability.**  Decoding, re-encoding and decoding again gives the same value, and re-encoding that gives
the same text: `encode` of a decoded value is a fixed point. -/
theorem C15_stable (p : Params) (hp : p.Good) (j : Json) :
    (∀ t, Transaction.unmarshalJSON p none j = .ok t →
        Transaction.unmarshalJSON p none (encTransaction t) = .ok t) ∧
    (∀ i, decPtr (fun _ j => Input.unmarshalJSON p j) none j = .ok (some i) → Input.unmarshalJSON p (encInput i) = .ok i) ∧
    (∀ o, decPtr (fun _ j => Output.unmarshalJSON j) none j = .ok (some o) → Output.unmarshalJSON (encOutput o) = .ok o) ∧
    (∀ u, decodeUtxoPtr j = .ok (some u) → Utxo.unmarshalJSON (encUtxo u) = .ok u) ∧
    (∀ b, Block.unmarshalJSON p j = .ok b → b.Fresh → Block.unmarshalJSON p (encBlock b) = .ok b) ∧
    (∀ r, TransactionRequest.unmarshalJSON p j = .ok r → r.Fresh → TransactionRequest.unmarshalJSON p (encRequest r) = .ok r) ∧
    (∀ l, decodeBlocks p j = .ok l → (∀ b, some b ∈ elems l → b.Fresh) → decodeBlocks p (encBlocks l) = .ok l) := by
  refine ⟨fun t h => ?_, fun i h => ?_, fun o h => ?_, fun u h => ?_, fun b h hf => ?_, fun r h hf => ?_, fun l h hf => ?_⟩
  · exact rt_Transaction p t ((sat_Transaction_unmarshalJSON p hp none j).of_ok h) (fresh_Transaction_unmarshalJSON p j t h)
  · exact rt_Input p i (((C14_decode_total p hp j).2.2.1).of_ok h i rfl)
  · exact rt_Output o (((C14_decode_total p hp j).1).of_ok h o rfl)
  · exact rt_Utxo u ((sat_decodeUtxoPtr j).of_ok h u rfl)
  · exact rt_Block p b ((sat_Block_unmarshalJSON p hp j).of_ok h) hf
  · exact rt_Request p r ((sat_Request_unmarshalJSON p hp j).of_ok h) hf
  · exact rt_decodeBlocks p l (fun x hx b hb => ⟨(sat_decodeBlocks p hp j).of_ok h x hx b hb, hf b (hb ▸ hx)⟩)

/-- re-encoding a decoded value is byte-stable: encode ∘ decode ∘ encode = encode -/
theorem C15_stable_encode (p : Params) (t t' : Transaction) (hc : Transaction.Canon p t) (hf : t.Fresh)
    (h : Transaction.unmarshalJSON p none (encTransaction t) = .ok t') :
    render (encTransaction t') = render (encTransaction t) := by
  rw [rt_Transaction p t hc hf] at h
  cases h; rfl

/-- Without `Fresh` the statement for blocks (and requests) is FALSE of the code: see the counterexample. -/
def C15_stable_full : Prop :=
  ∀ (p : Params), p.Good → ∀ (j : Json) (b : Block), Block.unmarshalJSON p j = .ok b →
    Block.unmarshalJSON p (encBlock b) = .ok b

theorem C15_stable_partial (p : Params) (hp : p.Good) (j : Json) (b : Block)
    (h : Block.unmarshalJSON p j = .ok b) (hf : b.Fresh) : Block.unmarshalJSON p (encBlock b) = .ok b :=
  (C15_stable p hp j).2.2.2.2.1 b h hf

/-- A block whose "transactions" key occurs twice — `[reward]`, then `[spend]` — decodes to a spend that still
carries `hasReward = true` (the `*Transaction` of the first list is re-used, `UnmarshalJSON` never clears the reward
fields); its re-encoding decodes to the spend with `hasReward = false`.  Replayed on the real decoder and, end to
end, on the real `Blockchain.Update` by `ruwire --mode witness` (stale-reward-fields, stale-reward-adopted). -/
theorem C15_stable_counterexample : ¬ C15_stable_full := by
  intro h
  have h1 : Block.unmarshalJSON Ex.params Ex.dupBlockJson = .ok (Ex.blockWith true) := by decide
  have h2 := h Ex.params ⟨fun _ _ => rfl, fun _ _ => rfl, fun _ _ => rfl, fun _ _ => rfl⟩ _ _ h1
  have h3 : Block.unmarshalJSON Ex.params (encBlock (Ex.blockWith true)) = .ok (Ex.blockWith false) := by decide
  rw [h3] at h2
  exact absurd h2 (by decide)

/-- the same through a transaction request -/
example : TransactionRequest.unmarshalJSON Ex.params Ex.dupRequestJson = .ok ⟨some (Ex.spendTx true), ""⟩ := by decide

/-- two more faithful oddities of `encoding/json` the model reproduces (both replayed on the real decoder): elements
that a re-filled slice's backing array still holds are kept by `null`, and a `[32]byte` skips surplus elements unread -/
theorem C15_stale_elements_example :
    (Block.unmarshalJSON Ex.params Ex.staleStringsJson).isOk = true ∧
    ∀ b, Block.unmarshalJSON Ex.params Ex.staleStringsJson = .ok b → b.added = some ["a", "b"] := by
  refine ⟨by decide, fun b h => ?_⟩
  have : Block.unmarshalJSON Ex.params Ex.staleStringsJson = .ok ⟨zeroHash, some ["a", "b"], none, 0, none⟩ := by decide
  rw [this] at h
  cases h; rfl

theorem C15_long_hash_example :
    ∀ b, Block.unmarshalJSON Ex.params Ex.longHashJson = .ok b → b.previousHash = (List.range 32).map (· + 1) := by
  intro b h
  have : Block.unmarshalJSON Ex.params Ex.longHashJson = .ok ⟨(List.range 32).map (· + 1), none, none, 0, none⟩ := by decide
  rw [this] at h
  cases h; rfl

/-- **C15, the id is checked.**  A decoded transaction's id is the hash of the rendering of its inputs, outputs and
timestamp; a transaction with any other id is refused (whatever object it is decoded into). -/
theorem C15_id_checked (p : Params) (hp : p.Good) :
    (∀ old j t, Transaction.unmarshalJSON p old j = .ok t → t.id = generateId p t.inputs t.outputs t.timestamp) ∧
    (∀ (t : Transaction) old, AllSome (Input.Canon p) (elems t.inputs) → AllSome Output.Canon (elems t.outputs) →
      IsInt64 t.timestamp → t.id ≠ generateId p t.inputs t.outputs t.timestamp →
      Transaction.unmarshalJSON p old (encTransaction t) = .err) :=
  ⟨fun old j _ h => ((sat_Transaction_unmarshalJSON p hp old j).of_ok h).2.2.2.1,
   fun t old hI hO hT hid => id_mismatch_refused p t hI hO hT hid old⟩

example : Transaction.unmarshalJSON Ex.params none Ex.wrongIdJson = .err := by decide
example : Transaction.unmarshalJSON Ex.params none Ex.rewardJson = .ok Ex.rewardTx := by decide

end Codec
