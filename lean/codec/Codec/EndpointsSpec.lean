/-
  Codec.EndpointsSpec — what C15 asks of the endpoint tables (Codec.GenEndpoints, regenerated from the Go sources
  by harness/cmd/ruextract-endpoints).  Kept apart from Codec.Spec so that nothing else depends on generated data.
-/
import Codec.GenEndpoints

namespace Codec

namespace Endpoints
open Codec.Gen

/-- `GetBlocks` / `SendTargets` / `AddTransaction` ↦ `Blocks` / `Targets` / `Transaction` -/
def stem (method : String) : List Char :=
  let m := method.toList
  if "Get".toList.isPrefixOf m then m.drop 3
  else if "Send".toList.isPrefixOf m then m.drop 4
  else if "Add".toList.isPrefixOf m then m.drop 3
  else m

def nameOf (pre : String) (stem : List Char) (post : String) : List Char := pre.toList ++ stem ++ post.toList

/-- what the handler must read for what the client sends -/
def payloadAgrees (client handler : String) : Bool :=
  if client == "empty" then handler == "ignored"
  else if client == "bytes" then handler == "json:*ledger.TransactionRequest"   -- the caller marshals the request itself
  else client == handler                                                         -- json:T on both sides

def lookup (k : String) (t : List (String × String)) : Option String := (t.find? (fun e => e.1 == k)).map (·.2)

/-- for one client method: its endpoint constant is `<Stem>Endpoint`, the server binds that constant with
`SetHandle<Stem>Request`, the host routes that to `Handle<Stem>Request`, and the payload kinds agree -/
def methodOk (m : String × String × String) : Bool :=
  let st := stem m.1
  let const := m.2.1
  const.toList == nameOf "" st "Endpoint" &&
  (endpointConsts.any fun c => c.1 == const) &&
  (serverBindings.any fun b => b.1.toList == nameOf "SetHandle" st "Request" && b.2 == const) &&
  (hostBindings.any fun h => h.1.toList == nameOf "SetHandle" st "Request" && h.2.2.toList == nameOf "Handle" st "Request" &&
    (match lookup h.2.2 handlerPayloads with
     | some k => payloadAgrees m.2.2 k
     | none => false))

def pairwiseDistinct (l : List String) : Bool := l.eraseDups.length == l.length

/-- the whole check -/
def ok : Bool :=
  endpointConsts.length == 7 && clientMethods.length == 7 && serverBindings.length == 7 && hostBindings.length == 7 &&
  handlerPayloads.length == 7 &&
  pairwiseDistinct (endpointConsts.map (·.1)) && pairwiseDistinct (endpointConsts.map (·.2)) &&
  pairwiseDistinct (clientMethods.map (·.1)) && pairwiseDistinct (clientMethods.map (·.2.1)) &&
  pairwiseDistinct (serverBindings.map (·.1)) && pairwiseDistinct (serverBindings.map (·.2)) &&
  pairwiseDistinct (hostBindings.map (·.1)) && pairwiseDistinct (hostBindings.map (·.2.2)) &&
  pairwiseDistinct (handlerPayloads.map (·.1)) &&
  clientMethods.all methodOk

end Endpoints

end Codec
