/-
  Codec.Handlers — every consumer of wire data, as a function of the JSON tree:
  the validator's endpoint handlers (presentation/api/**), `Blockchain.Update`'s unmarshalling of a
  neighbour's answer and `verify`'s guards (application/verification/blockchain.go), the pool's nil guard
  (application/validation/transactions_pool.go), the access node's controllers (accessnode/presentation/api/**).

  A handler's result is `ok calls` (what it hands on to the application layer — `[]` = ignored),
  `err` (an error answer / a logged refusal: nothing is handed on) or `panic site`.
  Index expressions and dereferences of the Go code are `idx` / `deref`: they PANIC when out of range / nil,
  so that "no panic" is a theorem about the guards, not a definition.

  bytes → tree is the parameter `parse` (encoding/json's scanner + unquote, trusted; Codec.Parse is an
  executable instance compared with the real one by ruwire).
-/
import Codec.Wire

namespace Codec

/-- `l[i]` -/
def idx {α : Type} (site : String) (l : List α) (i : Nat) : Res α :=
  match l[i]? with
  | some a => .ok a
  | none => .panic site

/-- `p.field` / `p.Method()` on a pointer -/
def deref {α : Type} (site : String) : Option α → Res α
  | some a => .ok a
  | none => .panic site

def derefAll {α : Type} (site : String) : List (Option α) → Res (List α)
  | [] => .ok []
  | x :: xs => do
    let a ← deref site x
    let r ← derefAll site xs
    .ok (a :: r)

/-- what is handed on to the application layer -/
inductive Call where
  | toPool (t : Transaction) (broadcaster : String)        -- TransactionsPool.addTransaction past its nil guard
  | blocks (height : Nat)                                  -- Blockchain.Blocks(height)
  | addTargets (targets : Option (List String))            -- SendersManager.AddTargets
  | utxos (address : String)                               -- UtxosManager.Utxos(address)
  | candidate (blocks : List Block)                        -- a verified neighbour chain entering selection
  | forward (request : Json)                               -- access node → validator "transaction" endpoint
  | status (s : String)                                    -- access node answer
  deriving Inhabited

/-! ### the accesses the application layer performs on a transaction / block it was handed -/

/-- Everything `VerifySignatures`, `CalculateFee`, `UpdateUtxos`, `Validate` and `verifyBlock` do to a
transaction that can panic: each input and output pointer is dereferenced, `Outputs()[0]` is indexed. -/
def useTransaction (t : Transaction) : Res Unit := do
  let _ ← derefAll "Transaction.VerifySignatures / CalculateFee / UpdateUtxos: nil input" (t.inputs.getD [])
  let outs ← derefAll "UpdateUtxos / CalculateFee / Validate: nil output" (t.outputs.getD [])
  let _ ← idx "UtxosRegistry.UpdateUtxos: transaction.Outputs()[0]" outs 0
  .ok ()

def useTransactions : List (Option Transaction) → Res Unit
  | [] => .ok ()
  | t :: ts => do
    let t ← deref "verifyBlock / UpdateUtxos / ValidatorAddress: nil transaction" t
    useTransaction t
    useTransactions ts

/-- `verifyBlock` + `addBlock` → `UpdateUtxos(block.Transactions())` -/
def useBlock (b : Block) : Res Unit := useTransactions (b.transactions.getD [])

/-! ### validator endpoints -/

/-- `TransactionsPool.AddTransaction` → `addTransaction`: a nil transaction is refused before anything is read -/
def poolAddTransaction (t : Option Transaction) (broadcaster : String) : Res (List Call) :=
  match t with
  | none => .ok []                                   -- "the transaction is missing": logged, nothing changes
  | some t => do
    useTransaction t
    .ok [Call.toPool t broadcaster]

/-- `TransactionsController.HandleTransactionRequest` (+ the goroutine it starts) -/
def handleTransactionRequest (p : Params) (j : Json) : Res (List Call) := do
  let req ← decodeRequest p j
  match req with
  | none => .err                                     -- "transaction request is null"
  | some r => poolAddTransaction r.transaction r.target   -- transactionRequest.Transaction() on a non-nil request

/-- `Blockchain.Blocks`: the slice expression `blocks[start:end]` in uint64 arithmetic -/
def blocksRange (n limit h : Nat) : Res (Nat × Nat) :=
  if n = 0 ∨ h > (n + 2 ^ 64 - 1) % 2 ^ 64 ∨ limit = 0 then .ok (0, 0)
  else
    let e := if (h + limit) % 2 ^ 64 < n then (h + limit) % 2 ^ 64 else n
    if h ≤ e ∧ e ≤ n then .ok (h, e) else .panic "Blockchain.Blocks: blocks[start:end] out of range"

/-- `BlocksController.HandleBlocksRequest` -/
def handleBlocksRequest (j : Json) : Res (List Call) := do
  let h ← decodeHeight j
  .ok [Call.blocks h]

/-- `SendersController.HandleTargetsRequest` -/
def handleTargetsRequest (j : Json) : Res (List Call) := do
  let ts ← decodeTargets j
  .ok [Call.addTargets ts]

/-- `UtxosController.HandleUtxosRequest` -/
def handleUtxosRequest (j : Json) : Res (List Call) := do
  let a ← decodeAddress j
  .ok [Call.utxos a]

/-! ### `Blockchain.Update`: a neighbour's answer to `GetBlocks` -/

/-- the block before `neighborBlocks[i]`: `oldHostBlocks[len-1]` (guarded by `len(oldHostBlocks) != 0`) or `neighborBlocks[i-1]` -/
def verifyPrevious (oldHost : List Block) (nb : List (Option Block)) (i : Nat) : Res Unit :=
  if i = 0 then
    if oldHost.length = 0 then .ok ()
    else do
      let _ ← idx "verify: oldHostBlocks[len(oldHostBlocks)-1]" oldHost (oldHost.length - 1)
      .ok ()
  else do
    let pb ← idx "verify: neighborBlocks[i-1]" nb (i - 1)
    let _ ← deref "verify: previousNeighborBlock.Timestamp() on nil block" pb
    .ok ()

/-- `lastHostBlocks[i]`, guarded by `len(lastHostBlocks)-1 < i` (signed arithmetic) -/
def verifyHostBlock (lastHost : List Block) (i : Nat) : Res Unit :=
  if (lastHost.length : Int) - 1 < (i : Int) then .ok ()
  else do
    let _ ← idx "verify: lastHostBlocks[i]" lastHost i
    .ok ()

/-- one iteration of `verify`'s loop -/
def verifyStep (lastHost oldHost : List Block) (nb : List (Option Block)) (i : Nat) : Res Block := do
  let b ← idx "verify: neighborBlocks[i]" nb i
  let blk ← deref "verify: neighborBlock.PreviousHash() on nil block" b
  verifyPrevious oldHost nb i
  verifyHostBlock lastHost i
  useBlock blk
  .ok blk

/-- the loop; `reject i`: iteration `i` returns an error (bad previous hash, `verifyBlock` refusal, …) — decided by
the core layer, arbitrary here -/
def verifyLoop (reject : Nat → Bool) (lastHost oldHost : List Block) (nb : List (Option Block)) :
    Nat → Nat → Res (List Block)
  | _, 0 => .ok []
  | i, fuel + 1 => do
    let blk ← verifyStep lastHost oldHost nb i
    if reject i then .err
    else do
      let r ← verifyLoop reject lastHost oldHost nb (i + 1) fuel
      .ok (blk :: r)

/-- `len(oldHostBlocks) > 0 && (len(neighborBlocks) == 0 || lastHostBlocks[0].PreviousHash() != neighborBlocks[0].PreviousHash())` -/
def verifyFork (lastHost oldHost : List Block) (nb : List (Option Block)) : Res Unit :=
  if oldHost.length > 0 then
    if nb.length = 0 then .err                                   -- "is a fork"
    else do
      let h ← idx "verify: lastHostBlocks[0]" lastHost 0
      let b ← idx "verify: neighborBlocks[0]" nb 0
      let b ← deref "verify: neighborBlocks[0].PreviousHash() on nil block" b
      if h.previousHash ≠ b.previousHash then .err                -- "is a fork"
      else .ok ()
  else .ok ()

/-- `Blockchain.verify` (guards and index expressions; the ledger rules are `reject`) -/
def verify (reject : Nat → Bool) (lastHost oldHost : List Block) (nb : List (Option Block)) : Res (List Block) :=
  if nb.any Option.isNone then .err                              -- "contains a null block"
  else if oldHost.length = 0 ∧ nb.length < 2 then .err            -- "too short"
  else do
    verifyFork lastHost oldHost nb
    let verified ← verifyLoop reject lastHost oldHost nb 0 nb.length
    let last ← idx "verify: neighborBlocks[len(neighborBlocks)-1]" nb (nb.length - 1)
    let _ ← deref "verify: lastNeighborBlock.Timestamp() on nil block" last
    .ok verified

/-- `verifyNeighborBlockchain`: unmarshal the answer, then `verify` -/
def verifyNeighborAnswer (p : Params) (reject : Nat → Bool) (lastHost oldHost : List Block) (j : Json) :
    Res (List Call) := do
  let nb ← decodeBlocks p j                                     -- "failed to get neighbor's blockchain"
  let v ← verify reject lastHost oldHost (nb.getD [])
  .ok [Call.candidate (oldHost ++ v)]

/-- `Update`'s selection: `blocks[minLength-1]` and `blocks[len(blocks)-1]` for every candidate
(`hostLen` = `len(hostBlocks)`, candidates = the values of `blocksByTarget`) -/
def selectLoop (minLength : Nat) : List (List Block) → Res Unit
  | [] => .ok ()
  | blocks :: rest => do
    let _ ← idx "Update: blocks[minLength-1]" blocks (minLength - 1)
    let _ ← idx "Update: blocks[len(blocks)-1]" blocks (blocks.length - 1)
    selectLoop minLength rest

def selectGuards (hostLen : Nat) (cands : List (List Block)) : Res Unit :=
  selectLoop ((cands.map List.length).foldl min hostLen) cands

/-! ### access node -/

/-- `TransactionController.PostTransaction`: decode, wrap into a request, forward -/
def postTransaction (p : Params) (target : String) (body : Json) : Res (List Call) := do
  let t ← decodeTransactionPtr p body                           -- 400 "failed to decode transaction"
  .ok [Call.forward (encRequest ⟨t, target⟩)]

/-- `ProgressController.GetTransactionProgress`; `utxosAns`, `blocksAns`, `txsAns` are the validator's answers -/
def getTransactionProgress (p : Params) (body utxosAns blocksAns txsAns : Json) : Res (List Call) := do
  let su ← decodeUtxoPtr body                                   -- 400
  match su with
  | none => .err                                                -- the nil guard: 400
  | some s =>
    let utxos ← decodeUtxos utxosAns                            -- 500
    let us ← derefAll "GetTransactionProgress: utxo.TransactionId() on nil utxo" (utxos.getD [])
    if us.any (fun u => u.info.transactionId == s.info.transactionId && u.info.outputIndex == s.info.outputIndex) then
      .ok [Call.status "confirmed"]
    else do
      let blocks ← decodeBlocks p blocksAns                     -- 500
      let validated ← (match (blocks.getD [])[0]? with          -- len(blocks) != 0 && blocks[0] != nil
        | some (some b) => do
            let txs ← derefAll "GetTransactionProgress: validatedTransaction.Id() on nil transaction" (b.transactions.getD [])
            pure (txs.any (fun t => t.id == s.info.transactionId))
        | _ => pure false)
      if validated then .ok [Call.status "validated"]
      else do
        let txs ← decodeTransactions p txsAns                   -- 500
        let ts ← derefAll "GetTransactionProgress: pendingTransaction.Id() on nil transaction" (txs.getD [])
        if ts.any (fun t => t.id == s.info.transactionId) then .ok [Call.status "sent"]
        else .ok [Call.status "rejected"]

/-- `InfoController.GetTransactionInfo` and `AmountController.GetWalletAmount`: `utxo.Value(…)` on every entry
of the validator's answer -/
def readWalletUtxos (utxosAns : Json) : Res (List Call) := do
  let utxos ← decodeUtxos utxosAns                              -- 500
  let _ ← derefAll "GetTransactionInfo / GetWalletAmount: utxo.Value() on nil utxo" (utxos.getD [])
  .ok [Call.status "ok"]

/-! ### bytes -/

/-- a handler behind the tokenizer: bytes that are not one JSON text are an error answer -/
def onBytes {β α : Type} (parse : β → Option Json) (h : Json → Res α) (bytes : β) : Res α :=
  match parse bytes with
  | none => .err
  | some j => h j

end Codec
