/-
  Codec.Lemmas — helper lemmas for Codec.Props (core Lean only).
-/
import Codec.Spec

namespace Codec

/-! ### the Res monad -/

@[simp] theorem Res.ok_bind {α β : Type} (a : α) (f : α → Res β) : (Res.ok a >>= f) = f a := rfl
@[simp] theorem Res.err_bind {α β : Type} (f : α → Res β) : ((Res.err : Res α) >>= f) = Res.err := rfl
@[simp] theorem Res.panic_bind {α β : Type} (s : String) (f : α → Res β) :
    ((Res.panic s : Res α) >>= f) = Res.panic s := rfl
@[simp] theorem Res.pure_eq {α : Type} (a : α) : (pure a : Res α) = Res.ok a := rfl

@[simp] theorem Res.sat_ok {α : Type} (P : α → Prop) (a : α) : Res.Sat P (Res.ok a) = P a := rfl
@[simp] theorem Res.sat_err {α : Type} (P : α → Prop) : Res.Sat P (Res.err : Res α) = True := rfl
@[simp] theorem Res.sat_panic {α : Type} (P : α → Prop) (s : String) : Res.Sat P (Res.panic s : Res α) = False := rfl

theorem Res.Sat.bind {α β : Type} {x : Res α} {f : α → Res β} {P : α → Prop} {Q : β → Prop}
    (hx : Res.Sat P x) (hf : ∀ a, P a → Res.Sat Q (f a)) : Res.Sat Q (x >>= f) := by
  cases x with
  | ok a => exact hf a hx
  | err => trivial
  | panic s => exact hx

theorem Res.Sat.mono {α : Type} {x : Res α} {P Q : α → Prop} (hx : Res.Sat P x) (h : ∀ a, P a → Q a) :
    Res.Sat Q x := by
  cases x with
  | ok a => exact h a hx
  | err => trivial
  | panic s => exact hx

theorem Res.Sat.of_ok {α : Type} {x : Res α} {P : α → Prop} {a : α} (hx : Res.Sat P x) (h : x = .ok a) : P a := by
  subst h; exact hx

theorem Res.Sat.ne_panic {α : Type} {x : Res α} {P : α → Prop} (hx : Res.Sat P x) (s : String) : x ≠ .panic s := by
  intro h; subst h; exact hx

theorem Res.Sat.and {α : Type} {x : Res α} {P Q : α → Prop} (h1 : Res.Sat P x) (h2 : Res.Sat Q x) :
    Res.Sat (fun a => P a ∧ Q a) x := by
  cases x with
  | ok a => exact ⟨h1, h2⟩
  | err => trivial
  | panic s => exact h1

theorem Res.sat_foldlM {δ κ : Type} (I : δ → Prop) (step : δ → κ → Res δ)
    (h : ∀ d k, I d → Res.Sat I (step d k)) : ∀ (l : List κ) (d : δ), I d → Res.Sat I (l.foldlM step d)
  | [], d, hd => by simpa using hd
  | k :: l, d, hd => by
    rw [List.foldlM_cons]
    exact Res.Sat.bind (h d k hd) (fun d' hd' => Res.sat_foldlM I step h l d' hd')

/-! ### scalars -/

theorem sat_decString (old : String) (j : Json) : Res.Sat (fun _ => True) (decString old j) := by
  cases j <;> simp [decString]

theorem sat_decBool (old : Bool) (j : Json) : Res.Sat (fun _ => True) (decBool old j) := by
  cases j <;> simp [decBool]

theorem sat_decUint (bits old : Nat) (j : Json) (h : old < 2 ^ bits) :
    Res.Sat (fun v => v < 2 ^ bits) (decUint bits old j) := by
  cases j with
  | num neg m =>
    simp only [decUint]
    split
    · simp
    · split <;> simp [*]
  | _ => simp [decUint, h]

theorem sat_decInt64 (old : Int) (j : Json) (h : IsInt64 old) : Res.Sat IsInt64 (decInt64 old j) := by
  cases j with
  | num neg m =>
    simp only [decInt64]
    split
    · simpa [IsInt64] using ‹_›
    · simp
  | _ => simp [decInt64, h]

/-! ### slices and pointers -/

theorem sat_decElems {α : Type} (elem : Option α → Json → Res α) (P : α → Prop)
    (h : ∀ old j, Res.Sat P (elem old j)) :
    ∀ (js : List Json) (bk : List α), Res.Sat (fun ys => (∀ y ∈ ys, P y) ∧ ys.length = js.length) (decElems elem bk js)
  | [], bk => by simp [decElems]
  | j :: js, bk => by
    simp only [decElems]
    refine Res.Sat.bind (h bk.head? j) (fun a ha => ?_)
    refine Res.Sat.bind (sat_decElems elem P h js bk.tail) (fun r hr => ?_)
    simp only [Res.sat_ok, List.mem_cons, List.length_cons]
    refine ⟨?_, by rw [hr.2]⟩
    intro y hy
    cases hy with
    | inl e => subst e; exact ha
    | inr m => exact hr.1 y m

theorem sat_decSlice {α : Type} (elem : Option α → Json → Res α) (P : α → Prop)
    (h : ∀ old j, Res.Sat P (elem old j)) (s : Slice α) (j : Json) :
    Res.Sat (fun s' => ∀ y ∈ elems s'.val, P y) (decSlice elem s j) := by
  cases j with
  | arr xs =>
    cases xs with
    | nil => simp [decSlice, elems]
    | cons x xs =>
      simp only [decSlice]
      refine Res.Sat.bind (sat_decElems elem P h (x :: xs) _) (fun ys hys => ?_)
      simpa [elems] using hys.1
  | _ => simp [decSlice, Slice.nil, elems]

theorem sat_decPtr {α : Type} (unm : Option α → Json → Res α) (P : α → Prop)
    (h : ∀ old j, j ≠ Json.null → Res.Sat P (unm old j)) (old : Option α) (j : Json) :
    Res.Sat (fun r => ∀ a, r = some a → P a) (decPtr unm old j) := by
  cases j with
  | null => simp [decPtr]
  | _ =>
    simp only [decPtr]
    refine Res.Sat.bind (h old _ (by simp)) (fun a ha => ?_)
    simp only [Res.sat_ok, Option.some.injEq]
    intro b e; subst e; exact ha

theorem sat_decByteElems : ∀ (n : Nat) (old : List Nat) (js : List Json), (∀ x ∈ old, x < 256) →
    Res.Sat (fun l => l.length = n ∧ ∀ x ∈ l, x < 256) (decByteElems n old js)
  | 0, _, _, _ => by simp [decByteElems]
  | n + 1, _, [], _ => by
    simp only [decByteElems, Res.sat_ok, List.length_replicate, true_and]
    intro x hx
    rw [List.mem_replicate] at hx
    omega
  | n + 1, old, j :: js, h => by
    simp only [decByteElems]
    have h0 : old.headD 0 < 2 ^ 8 := by
      cases old with
      | nil => simp
      | cons a l => simpa using h a (by simp)
    refine Res.Sat.bind (sat_decUint 8 _ j h0) (fun b hb => ?_)
    have ht : ∀ x ∈ old.tail, x < 256 := fun x hx => h x (List.mem_of_mem_tail hx)
    refine Res.Sat.bind (sat_decByteElems n old.tail js ht) (fun r hr => ?_)
    simp only [Res.sat_ok, List.length_cons, List.mem_cons]
    refine ⟨by rw [hr.1], ?_⟩
    intro x hx
    cases hx with
    | inl e => subst e; simpa using hb
    | inr m => exact hr.2 x m

theorem sat_decByteArray (n : Nat) (old : List Nat) (j : Json) (hl : old.length = n) (h : ∀ x ∈ old, x < 256) :
    Res.Sat (fun l => l.length = n ∧ ∀ x ∈ l, x < 256) (decByteArray n old j) := by
  cases j with
  | null => simp [decByteArray, hl]; exact h
  | arr xs => simpa [decByteArray] using sat_decByteElems n old xs h
  | _ => simp [decByteArray]

theorem sat_unmarshalStructPtr {δ : Type} (I : δ → Prop) (zero : δ) (assign : δ → String → Json → Res δ)
    (h0 : I zero) (h : ∀ d k v, I d → Res.Sat I (assign d k v)) (j : Json) :
    Res.Sat (fun r => ∀ d, r = some d → I d) (unmarshalStructPtr zero assign j) := by
  cases j with
  | null => simp [unmarshalStructPtr]
  | obj kvs =>
    simp only [unmarshalStructPtr]
    refine Res.Sat.bind (Res.sat_foldlM I _ (fun d kv hd => h d kv.1 kv.2 hd) kvs zero h0) (fun d hd => ?_)
    simp only [Res.sat_ok, Option.some.injEq]
    intro d' e; subst e; exact hd
  | _ => simp [unmarshalStructPtr]

/-- an object never decodes to a nil dto -/
theorem unmarshalStructPtr_ne_null {δ : Type} (zero : δ) (assign : δ → String → Json → Res δ) (j : Json)
    (hj : j ≠ Json.null) : unmarshalStructPtr zero assign j ≠ .ok none := by
  cases j with
  | null => exact absurd rfl hj
  | obj kvs =>
    simp only [unmarshalStructPtr]
    cases (kvs.foldlM (fun d kv => assign d kv.1 kv.2) zero) <;> simp
  | _ => simp [unmarshalStructPtr]

/-- for a non-null JSON value the dto pointer is not nil -/
theorem sat_unmarshalStructPtr_nonnull {δ : Type} (I : δ → Prop) (zero : δ) (assign : δ → String → Json → Res δ)
    (h0 : I zero) (h : ∀ d k v, I d → Res.Sat I (assign d k v)) (j : Json) (hj : j ≠ Json.null) :
    Res.Sat (fun r => ∃ d, r = some d ∧ I d) (unmarshalStructPtr zero assign j) := by
  cases j with
  | null => exact absurd rfl hj
  | obj kvs =>
    simp only [unmarshalStructPtr]
    refine Res.Sat.bind (Res.sat_foldlM I _ (fun d kv hd => h d kv.1 kv.2 hd) kvs zero h0) (fun d hd => ?_)
    exact ⟨d, rfl, hd⟩
  | _ => simp [unmarshalStructPtr]

/-! ### output.go, input_info.go, input.go, utxo.go -/

theorem sat_assignOutput (d : Output) (k : String) (v : Json) (h : d.Canon) :
    Res.Sat Output.Canon (assignOutput d k v) := by
  unfold assignOutput
  split
  · exact Res.Sat.bind (sat_decString _ v) (fun a _ => by simpa [Output.Canon] using h)
  · exact Res.Sat.bind (sat_decBool _ v) (fun a _ => by simpa [Output.Canon] using h)
  · exact Res.Sat.bind (sat_decUint 64 _ v h) (fun a ha => by simpa [Output.Canon] using ha)
  · exact h

theorem sat_Output_unmarshalJSON (j : Json) (hj : j ≠ Json.null) : Res.Sat Output.Canon (Output.unmarshalJSON j) := by
  unfold Output.unmarshalJSON
  refine Res.Sat.bind (sat_unmarshalStructPtr_nonnull Output.Canon _ _ (by simp [Output.Canon, Output.zero])
    sat_assignOutput j hj) (fun r hr => ?_)
  obtain ⟨d, rfl, hd⟩ := hr
  exact hd

theorem sat_elemOutput (old : Option (Option Output)) (j : Json) :
    Res.Sat (fun r => ∀ a, r = some a → a.Canon) (elemOutput old j) :=
  sat_decPtr _ _ (fun _ j hj => sat_Output_unmarshalJSON j hj) _ j

theorem sat_assignInputInfo (d : InputInfo) (k : String) (v : Json) (h : d.Canon) :
    Res.Sat InputInfo.Canon (assignInputInfo d k v) := by
  unfold assignInputInfo
  split
  · exact Res.Sat.bind (sat_decUint 16 _ v h) (fun a ha => by simpa [InputInfo.Canon] using ha)
  · exact Res.Sat.bind (sat_decString _ v) (fun a _ => by simpa [InputInfo.Canon] using h)
  · exact h

theorem sat_InputInfo_unmarshalJSON (j : Json) (hj : j ≠ Json.null) :
    Res.Sat InputInfo.Canon (InputInfo.unmarshalJSON j) := by
  unfold InputInfo.unmarshalJSON
  refine Res.Sat.bind (sat_unmarshalStructPtr_nonnull InputInfo.Canon _ _ (by simp [InputInfo.Canon, InputInfo.zero])
    sat_assignInputInfo j hj) (fun r hr => ?_)
  obtain ⟨d, rfl, hd⟩ := hr
  exact hd

theorem sat_assignInput (d : InputDto) (k : String) (v : Json) (h : d.outputIndex < 2 ^ 16) :
    Res.Sat (fun d => d.outputIndex < 2 ^ 16) (assignInput d k v) := by
  unfold assignInput
  split
  · exact Res.Sat.bind (sat_decUint 16 _ v h) (fun a ha => by simpa using ha)
  · exact Res.Sat.bind (sat_decString _ v) (fun a _ => by simpa using h)
  · exact Res.Sat.bind (sat_decString _ v) (fun a _ => by simpa using h)
  · exact Res.Sat.bind (sat_decString _ v) (fun a _ => by simpa using h)
  · exact h

theorem sat_Input_unmarshalJSON (p : Params) (hp : p.Good) (j : Json) (hj : j ≠ Json.null) :
    Res.Sat (Input.Canon p) (Input.unmarshalJSON p j) := by
  unfold Input.unmarshalJSON
  refine Res.Sat.bind (sat_unmarshalStructPtr_nonnull (fun d => d.outputIndex < 2 ^ 16) _ _ (by simp [InputDto.zero])
    sat_assignInput j hj) (fun r hr => ?_)
  obtain ⟨d, rfl, hd⟩ := hr
  simp only
  split
  · simp
  · split
    · simp
    · rename_i h1 h2
      simp only [Res.sat_ok, Input.Canon]
      have h1' : p.pkOk d.publicKey = true := by simpa using h1
      have h2' : p.sigOk d.signature = true := by simpa using h2
      exact ⟨hd, hp.pk_ok_canon _ h1', hp.pk_canon_idem _ h1', hp.sig_ok_canon _ h2', hp.sig_canon_idem _ h2'⟩

theorem sat_elemInput (p : Params) (hp : p.Good) (old : Option (Option Input)) (j : Json) :
    Res.Sat (fun r => ∀ a, r = some a → a.Canon p) (elemInput p old j) :=
  sat_decPtr _ _ (fun _ j hj => sat_Input_unmarshalJSON p hp j hj) _ j

theorem sat_assignUtxo (d : UtxoDto) (k : String) (v : Json)
    (h : d.outputIndex < 2 ^ 16 ∧ d.value < 2 ^ 64 ∧ IsInt64 d.timestamp) :
    Res.Sat (fun d => d.outputIndex < 2 ^ 16 ∧ d.value < 2 ^ 64 ∧ IsInt64 d.timestamp) (assignUtxo d k v) := by
  unfold assignUtxo
  split
  · exact Res.Sat.bind (sat_decString _ v) (fun a _ => by simpa using h)
  · exact Res.Sat.bind (sat_decInt64 _ v h.2.2) (fun a ha => by exact ⟨h.1, h.2.1, ha⟩)
  · exact Res.Sat.bind (sat_decBool _ v) (fun a _ => by simpa using h)
  · exact Res.Sat.bind (sat_decUint 16 _ v h.1) (fun a ha => by exact ⟨ha, h.2.1, h.2.2⟩)
  · exact Res.Sat.bind (sat_decString _ v) (fun a _ => by simpa using h)
  · exact Res.Sat.bind (sat_decUint 64 _ v h.2.1) (fun a ha => by exact ⟨h.1, ha, h.2.2⟩)
  · exact h

theorem sat_Utxo_unmarshalJSON (j : Json) (hj : j ≠ Json.null) : Res.Sat Utxo.Canon (Utxo.unmarshalJSON j) := by
  unfold Utxo.unmarshalJSON
  refine Res.Sat.bind (sat_unmarshalStructPtr_nonnull _ _ _ (by simp [UtxoDto.zero, IsInt64])
    sat_assignUtxo j hj) (fun r hr => ?_)
  obtain ⟨d, rfl, hd⟩ := hr
  exact hd

/-! ### transaction.go -/

theorem allSome_of {α : Type} {P : α → Prop} (l : List (Option α)) (h1 : l.any Option.isNone = false)
    (h2 : ∀ x ∈ l, ∀ a, x = some a → P a) : AllSome P l := by
  intro x hx
  cases x with
  | none =>
    have : l.any Option.isNone = true := List.any_eq_true.mpr ⟨none, hx, rfl⟩
    rw [h1] at this
    exact absurd this (by simp)
  | some a => exact ⟨a, rfl, h2 _ hx a rfl⟩

def TxDtoInv (p : Params) (d : TransactionDto) : Prop :=
  (∀ x ∈ elems d.inputs.val, ∀ a, x = some a → Input.Canon p a) ∧
  (∀ x ∈ elems d.outputs.val, ∀ a, x = some a → Output.Canon a) ∧ IsInt64 d.timestamp

theorem sat_assignTransaction (p : Params) (hp : p.Good) (d : TransactionDto) (k : String) (v : Json)
    (h : TxDtoInv p d) : Res.Sat (TxDtoInv p) (assignTransaction p d k v) := by
  unfold assignTransaction
  split
  · exact Res.Sat.bind (sat_decString _ v) (fun a _ => by simpa [TxDtoInv] using h)
  · exact Res.Sat.bind (sat_decSlice (elemInput p) _ (sat_elemInput p hp) d.inputs v)
      (fun a ha => by exact ⟨ha, h.2.1, h.2.2⟩)
  · exact Res.Sat.bind (sat_decSlice elemOutput _ sat_elemOutput d.outputs v)
      (fun a ha => by exact ⟨h.1, ha, h.2.2⟩)
  · exact Res.Sat.bind (sat_decInt64 _ v h.2.2) (fun a ha => by exact ⟨h.1, h.2.1, ha⟩)
  · exact h

theorem length_one_head {α : Type} (l : List α) (h1 : ¬ l.length > 1) (h0 : ¬ l.length = 0) : ∃ x, l = [x] := by
  match l, h1, h0 with
  | [x], _, _ => exact ⟨x, rfl⟩
  | [], _, h0 => exact absurd rfl h0
  | _ :: _ :: _, h1, _ => exact absurd (by simp) h1

theorem sat_Transaction_unmarshalJSON (p : Params) (hp : p.Good) (old : Option Transaction) (j : Json) :
    Res.Sat (Transaction.Canon p) (Transaction.unmarshalJSON p old j) := by
  unfold Transaction.unmarshalJSON
  refine Res.Sat.bind (sat_unmarshalStructPtr (TxDtoInv p) _ _
    (by simp [TxDtoInv, TransactionDto.zero, Slice.nil, elems, IsInt64]) (sat_assignTransaction p hp) j) (fun r hr => ?_)
  cases r with
  | none => simp
  | some d =>
    have hd := hr d rfl
    simp only
    split
    · simp
    · rename_i hin
      split
      · simp
      · rename_i hout
        split
        · simp
        · rename_i hid
          have hI : AllSome (Input.Canon p) (elems d.inputs.val) := allSome_of _ (Bool.eq_false_iff.mpr hin) hd.1
          have hO : AllSome Output.Canon (elems d.outputs.val) := allSome_of _ (Bool.eq_false_iff.mpr hout) hd.2.1
          have hid' : d.id = generateId p d.inputs.val d.outputs.val d.timestamp := by
            simp only [ne_eq, Decidable.not_not] at hid; exact hid.symm
          split
          · simp
          rename_i hmany
          have hmany' : (elems d.outputs.val).length ≤ 65536 := by
            have : ¬ (d.outputs.val.getD []).length > 65536 := hmany
            simp only [elems]; omega
          split
          · rename_i hlen
            split
            · simp
            · rename_i h1
              split
              · simp
              · rename_i h0
                obtain ⟨x, hx⟩ := length_one_head (d.outputs.val.getD []) h1 h0
                have hx' : elems d.outputs.val = [x] := hx
                obtain ⟨o, ho, _⟩ := hO x (by rw [hx']; simp)
                subst ho
                rw [hx]
                simp only [List.getElem?_cons_zero, Res.sat_ok]
                refine ⟨hI, hO, hd.2.2, hid', ?_, ?_, hmany'⟩
                · show elems d.outputs.val ≠ []
                  rw [hx']; simp
                · intro _
                  exact ⟨o, hx', rfl, rfl, rfl⟩
          · rename_i hlen
            split
            · simp
            · rename_i h0
              simp only [Res.sat_ok]
              refine ⟨hI, hO, hd.2.2, hid', ?_, ?_, hmany'⟩
              · show elems d.outputs.val ≠ []
                intro e
                apply h0
                simp [lenOf, show d.outputs.val.getD [] = [] from e]
              · intro e
                exfalso
                apply hlen
                simp [lenOf, show d.inputs.val.getD [] = [] from e]

theorem fresh_Transaction_unmarshalJSON (p : Params) (j : Json) (t : Transaction)
    (h : Transaction.unmarshalJSON p none j = .ok t) : t.Fresh := by
  unfold Transaction.unmarshalJSON at h
  cases hu : unmarshalStructPtr TransactionDto.zero (assignTransaction p) j with
  | err => rw [hu] at h; simp at h
  | panic s => rw [hu] at h; simp at h
  | ok r =>
    rw [hu] at h
    cases r with
    | none => simp at h
    | some d =>
      simp only [Res.ok_bind] at h
      split at h
      · simp at h
      · split at h
        · simp at h
        · split at h
          · simp at h
          · split at h
            · simp at h
            split at h
            · rename_i hlen
              split at h
              · simp at h
              · split at h
                · simp at h
                · split at h
                  · simp at h
                  · simp at h
                  · simp only [Res.ok.injEq] at h
                    subst h
                    intro hne
                    exfalso
                    apply hne
                    have : (d.inputs.val.getD []).length = 0 := hlen
                    simpa [elems] using this
            · split at h
              · simp at h
              · simp only [Res.ok.injEq] at h
                subst h
                intro _
                simp [Transaction.zero]

theorem sat_elemTransaction (p : Params) (hp : p.Good) (old : Option (Option Transaction)) (j : Json) :
    Res.Sat (fun r => ∀ a, r = some a → Transaction.Canon p a) (elemTransaction p old j) :=
  sat_decPtr _ _ (fun o j _ => sat_Transaction_unmarshalJSON p hp o j) _ j

/-! ### block.go, transaction_request.go, the consumers' Unmarshal calls -/

def BlockDtoInv (p : Params) (d : BlockDto) : Prop :=
  (d.previousHash.length = 32 ∧ ∀ x ∈ d.previousHash, x < 256) ∧ IsInt64 d.timestamp ∧
  (∀ x ∈ elems d.transactions.val, ∀ a, x = some a → Transaction.Canon p a)

theorem sat_elemString (old : Option String) (j : Json) : Res.Sat (fun _ => True) (elemString old j) :=
  sat_decString _ j

theorem sat_assignBlock (p : Params) (hp : p.Good) (d : BlockDto) (k : String) (v : Json)
    (h : BlockDtoInv p d) : Res.Sat (BlockDtoInv p) (assignBlock p d k v) := by
  unfold assignBlock
  split
  · exact Res.Sat.bind (sat_decByteArray 32 _ v h.1.1 h.1.2) (fun a ha => by exact ⟨ha, h.2.1, h.2.2⟩)
  · exact Res.Sat.bind (sat_decSlice elemString _ sat_elemString d.added v) (fun a _ => by exact h)
  · exact Res.Sat.bind (sat_decSlice elemString _ sat_elemString d.removed v) (fun a _ => by exact h)
  · exact Res.Sat.bind (sat_decInt64 _ v h.2.1) (fun a ha => by exact ⟨h.1, ha, h.2.2⟩)
  · exact Res.Sat.bind (sat_decSlice (elemTransaction p) _ (sat_elemTransaction p hp) d.transactions v)
      (fun a ha => by exact ⟨h.1, h.2.1, ha⟩)
  · exact h

theorem sat_Block_unmarshalJSON (p : Params) (hp : p.Good) (j : Json) :
    Res.Sat (Block.Canon p) (Block.unmarshalJSON p j) := by
  unfold Block.unmarshalJSON
  refine Res.Sat.bind (sat_unmarshalStructPtr (BlockDtoInv p) _ _
    (by simp [BlockDtoInv, BlockDto.zero, zeroHash, Slice.nil, elems, IsInt64]) (sat_assignBlock p hp) j) (fun r hr => ?_)
  cases r with
  | none => simp
  | some d =>
    have hd := hr d rfl
    simp only
    split
    · simp
    · rename_i hn
      exact ⟨hd.1.1, hd.1.2, hd.2.1, allSome_of _ (Bool.eq_false_iff.mpr hn) hd.2.2⟩

theorem sat_decodeBlocks (p : Params) (hp : p.Good) (j : Json) :
    Res.Sat (fun l => ∀ x ∈ elems l, ∀ b, x = some b → Block.Canon p b) (decodeBlocks p j) := by
  unfold decodeBlocks
  refine Res.Sat.bind (sat_decSlice _ (fun r => ∀ b, r = some b → Block.Canon p b)
    (fun old j => sat_decPtr _ _ (fun _ j _ => sat_Block_unmarshalJSON p hp j) _ j) Slice.nil j) (fun s hs => ?_)
  exact hs

theorem sat_assignRequest (p : Params) (hp : p.Good) (d : TransactionRequest) (k : String) (v : Json)
    (h : d.Canon p) : Res.Sat (TransactionRequest.Canon p) (assignRequest p d k v) := by
  unfold assignRequest
  split
  · exact Res.Sat.bind (sat_decPtr _ _ (fun o j _ => sat_Transaction_unmarshalJSON p hp o j) d.transaction v)
      (fun a ha => by exact ha)
  · exact Res.Sat.bind (sat_decString _ v) (fun a _ => by exact h)
  · exact h

theorem sat_Request_unmarshalJSON (p : Params) (hp : p.Good) (j : Json) :
    Res.Sat (TransactionRequest.Canon p) (TransactionRequest.unmarshalJSON p j) := by
  unfold TransactionRequest.unmarshalJSON
  refine Res.Sat.bind (sat_unmarshalStructPtr (TransactionRequest.Canon p) _ _
    (by simp [TransactionRequest.Canon, TransactionRequest.zero]) (sat_assignRequest p hp) j) (fun r hr => ?_)
  cases r with
  | none => simp
  | some d => exact hr d rfl

theorem sat_decodeRequest (p : Params) (hp : p.Good) (j : Json) :
    Res.Sat (fun r => ∀ q, r = some q → TransactionRequest.Canon p q) (decodeRequest p j) :=
  sat_decPtr _ _ (fun _ j _ => sat_Request_unmarshalJSON p hp j) _ j

theorem sat_decodeTransactionPtr (p : Params) (hp : p.Good) (j : Json) :
    Res.Sat (fun r => ∀ t, r = some t → Transaction.Canon p t) (decodeTransactionPtr p j) :=
  sat_decPtr _ _ (fun o j _ => sat_Transaction_unmarshalJSON p hp o j) _ j

theorem sat_decodeTransactions (p : Params) (hp : p.Good) (j : Json) :
    Res.Sat (fun l => ∀ x ∈ elems l, ∀ t, x = some t → Transaction.Canon p t) (decodeTransactions p j) := by
  unfold decodeTransactions
  exact Res.Sat.bind (sat_decSlice _ _ (sat_elemTransaction p hp) Slice.nil j) (fun s hs => hs)

theorem sat_decodeUtxoPtr (j : Json) : Res.Sat (fun r => ∀ u, r = some u → Utxo.Canon u) (decodeUtxoPtr j) :=
  sat_decPtr _ _ (fun _ j hj => sat_Utxo_unmarshalJSON j hj) _ j

theorem sat_decodeUtxos (j : Json) :
    Res.Sat (fun l => ∀ x ∈ elems l, ∀ u, x = some u → Utxo.Canon u) (decodeUtxos j) := by
  unfold decodeUtxos
  exact Res.Sat.bind (sat_decSlice _ (fun r => ∀ u, r = some u → Utxo.Canon u)
    (fun old j => sat_decPtr _ _ (fun _ j hj => sat_Utxo_unmarshalJSON j hj) _ j) Slice.nil j) (fun s hs => hs)

theorem sat_decodeTargets (j : Json) : Res.Sat (fun _ => True) (decodeTargets j) := by
  unfold decodeTargets
  exact Res.Sat.bind (sat_decSlice elemString _ sat_elemString Slice.nil j) (fun s _ => trivial)

/-! ### consumers -/

theorem Transaction.Canon.wf {p : Params} {t : Transaction} (h : Transaction.Canon p t) : t.WF := by
  obtain ⟨hi, ho, _, _, hne, hr, _⟩ := h
  refine ⟨?_, ?_, hne, ?_⟩
  · intro x hx e
    obtain ⟨a, ha, _⟩ := hi x hx
    rw [ha] at e; exact absurd e (by simp)
  · intro x hx e
    obtain ⟨a, ha, _⟩ := ho x hx
    rw [ha] at e; exact absurd e (by simp)
  · intro e
    obtain ⟨o, h1, h2, _⟩ := hr e
    exact ⟨by rw [h1]; rfl, h2⟩

theorem Block.Canon.wf {p : Params} {b : Block} (h : Block.Canon p b) : b.WF := by
  intro x hx
  obtain ⟨t, ht, hc⟩ := h.2.2.2 x hx
  exact ⟨t, ht, hc.wf⟩

theorem sat_idx {α : Type} (site : String) (l : List α) (i : Nat) (h : i < l.length) :
    Res.Sat (fun a => a ∈ l) (idx site l i) := by
  unfold idx
  rw [List.getElem?_eq_getElem h]
  exact List.getElem_mem h

theorem sat_deref {α : Type} (site : String) (x : Option α) (h : x ≠ none) :
    Res.Sat (fun a => x = some a) (deref site x) := by
  cases x with
  | none => exact absurd rfl h
  | some a => simp [deref]

theorem sat_derefAll {α : Type} (site : String) : ∀ (l : List (Option α)), (∀ x ∈ l, x ≠ none) →
    Res.Sat (fun r => r.length = l.length ∧ ∀ a ∈ r, some a ∈ l) (derefAll site l)
  | [], _ => by simp [derefAll]
  | x :: xs, h => by
    simp only [derefAll]
    refine Res.Sat.bind (sat_deref site x (h x (by simp))) (fun a ha => ?_)
    refine Res.Sat.bind (sat_derefAll site xs (fun y hy => h y (by simp [hy]))) (fun r hr => ?_)
    simp only [Res.sat_ok, List.length_cons, List.mem_cons]
    refine ⟨by rw [hr.1], ?_⟩
    intro b hb
    cases hb with
    | inl e => subst e; left; exact ha.symm
    | inr m => right; exact hr.2 b m

theorem sat_useTransaction (t : Transaction) (h : t.WF) : Res.Sat (fun _ => True) (useTransaction t) := by
  unfold useTransaction
  refine Res.Sat.bind (sat_derefAll _ _ h.1) (fun _ _ => ?_)
  refine Res.Sat.bind (sat_derefAll _ _ h.2.1) (fun outs ho => ?_)
  have hlen : 0 < outs.length := by
    rw [ho.1]
    exact List.length_pos_iff.mpr h.2.2.1
  exact Res.Sat.bind (sat_idx _ outs 0 hlen) (fun _ _ => trivial)

theorem sat_useTransactions : ∀ (l : List (Option Transaction)), (∀ x ∈ l, ∃ t, x = some t ∧ t.WF) →
    Res.Sat (fun _ => True) (useTransactions l)
  | [], _ => by simp [useTransactions]
  | x :: xs, h => by
    obtain ⟨t, ht, hw⟩ := h x (by simp)
    subst ht
    simp only [useTransactions, deref, Res.ok_bind]
    refine Res.Sat.bind (sat_useTransaction t hw) (fun _ _ => ?_)
    exact sat_useTransactions xs (fun y hy => h y (by simp [hy]))

theorem sat_useBlock (b : Block) (h : b.WF) : Res.Sat (fun _ => True) (useBlock b) :=
  sat_useTransactions _ h

theorem sat_poolAddTransaction (t : Option Transaction) (target : String) (h : ∀ x, t = some x → x.WF) :
    Res.Sat (fun calls => ∀ c ∈ calls, Call.WF c) (poolAddTransaction t target) := by
  cases t with
  | none => simp [poolAddTransaction]
  | some x =>
    simp only [poolAddTransaction]
    refine Res.Sat.bind (sat_useTransaction x (h x rfl)) (fun _ _ => ?_)
    simp only [Res.sat_ok, List.mem_singleton, forall_eq]
    exact h x rfl

/-! ### Blockchain.verify -/

theorem sat_verifyPrevious (oldHost : List Block) (nb : List (Option Block)) (i : Nat)
    (hi : i < nb.length) (hsome : ∀ x ∈ nb, x ≠ none) : Res.Sat (fun _ => True) (verifyPrevious oldHost nb i) := by
  unfold verifyPrevious
  split
  · split
    · simp
    · exact Res.Sat.bind (sat_idx _ oldHost _ (by omega)) (fun _ _ => by simp)
  · refine Res.Sat.bind (sat_idx _ nb (i - 1) (by omega)) (fun pb hpb => ?_)
    exact Res.Sat.bind (sat_deref _ pb (hsome pb hpb)) (fun _ _ => by simp)

theorem sat_verifyHostBlock (lastHost : List Block) (i : Nat) : Res.Sat (fun _ => True) (verifyHostBlock lastHost i) := by
  unfold verifyHostBlock
  split
  · simp
  · exact Res.Sat.bind (sat_idx _ lastHost i (by omega)) (fun _ _ => by simp)

theorem sat_verifyStep (lastHost oldHost : List Block) (nb : List (Option Block)) (i : Nat)
    (hi : i < nb.length) (hsome : ∀ x ∈ nb, x ≠ none) (hwf : BlocksWF nb) :
    Res.Sat (fun b => b.WF) (verifyStep lastHost oldHost nb i) := by
  unfold verifyStep
  refine Res.Sat.bind (sat_idx _ nb i hi) (fun b hb => ?_)
  refine Res.Sat.bind (sat_deref _ b (hsome b hb)) (fun blk hblk => ?_)
  have hw : blk.WF := hwf b hb blk hblk
  refine Res.Sat.bind (sat_verifyPrevious oldHost nb i hi hsome) (fun _ _ => ?_)
  refine Res.Sat.bind (sat_verifyHostBlock lastHost i) (fun _ _ => ?_)
  exact Res.Sat.bind (sat_useBlock blk hw) (fun _ _ => hw)

theorem sat_verifyLoop (reject : Nat → Bool) (lastHost oldHost : List Block) (nb : List (Option Block))
    (hsome : ∀ x ∈ nb, x ≠ none) (hwf : BlocksWF nb) :
    ∀ (fuel i : Nat), i + fuel = nb.length →
      Res.Sat (fun v => v.length = fuel ∧ ∀ b ∈ v, b.WF) (verifyLoop reject lastHost oldHost nb i fuel)
  | 0, _, _ => by simp [verifyLoop]
  | fuel + 1, i, h => by
    simp only [verifyLoop]
    refine Res.Sat.bind (sat_verifyStep lastHost oldHost nb i (by omega) hsome hwf) (fun blk hblk => ?_)
    split
    · simp
    · refine Res.Sat.bind (sat_verifyLoop reject lastHost oldHost nb hsome hwf fuel (i + 1) (by omega)) (fun r hr => ?_)
      simp only [Res.sat_ok, List.length_cons, List.mem_cons]
      refine ⟨by rw [hr.1], ?_⟩
      intro b hb
      cases hb with
      | inl e => subst e; exact hblk
      | inr m => exact hr.2 b m

theorem sat_verify (reject : Nat → Bool) (lastHost oldHost : List Block) (nb : List (Option Block))
    (hctx : oldHost ≠ [] → lastHost ≠ []) (hwf : BlocksWF nb) :
    Res.Sat (fun v => v.length = nb.length ∧ 1 ≤ v.length ∧ (oldHost = [] → 2 ≤ v.length) ∧ ∀ b ∈ v, b.WF)
      (verify reject lastHost oldHost nb) := by
  unfold verify
  split
  · simp
  · rename_i hnone
    have hsome : ∀ x ∈ nb, x ≠ none := by
      intro x hx e
      subst e
      exact hnone (List.any_eq_true.mpr ⟨none, hx, rfl⟩)
    split
    · simp
    · rename_i hshort
      have guard : Res.Sat (fun _ => nb.length ≠ 0 ∨ oldHost.length = 0) (verifyFork lastHost oldHost nb) := by
        unfold verifyFork
        split
        · rename_i hold
          split
          · simp
          · rename_i hnb
            have hl : 0 < lastHost.length :=
              List.length_pos_iff.mpr (hctx (List.ne_nil_of_length_pos hold))
            refine Res.Sat.bind (sat_idx _ lastHost 0 hl) (fun h _ => ?_)
            refine Res.Sat.bind (sat_idx _ nb 0 (by omega)) (fun b hb => ?_)
            refine Res.Sat.bind (sat_deref _ b (hsome b hb)) (fun b' _ => ?_)
            split
            · simp
            · simp only [Res.sat_ok]; left; exact hnb
        · simp only [Res.sat_ok]; right; omega
      refine Res.Sat.bind guard (fun _ hg => ?_)
      refine Res.Sat.bind (sat_verifyLoop reject lastHost oldHost nb hsome hwf nb.length 0 (by omega)) (fun v hv => ?_)
      have hpos : 0 < nb.length := by
        cases hg with
        | inl h => omega
        | inr h =>
          have : ¬ (nb.length < 2) := fun hlt => hshort ⟨h, hlt⟩
          omega
      refine Res.Sat.bind (sat_idx _ nb (nb.length - 1) (by omega)) (fun lst hl => ?_)
      refine Res.Sat.bind (sat_deref _ lst (hsome lst hl)) (fun _ _ => ?_)
      simp only [Res.sat_ok]
      refine ⟨hv.1, by rw [hv.1]; exact hpos, ?_, hv.2⟩
      intro he
      rw [hv.1]
      have : oldHost.length = 0 := by rw [he]; rfl
      have : ¬ (nb.length < 2) := fun hlt => hshort ⟨this, hlt⟩
      omega

theorem sat_selectLoop (m : Nat) : ∀ (cands : List (List Block)), (∀ c ∈ cands, c ≠ [] ∧ m ≤ c.length) →
    Res.Sat (fun _ => True) (selectLoop m cands)
  | [], _ => by simp [selectLoop]
  | c :: cs, h => by
    simp only [selectLoop]
    have hc := h c (by simp)
    have hpos : 0 < c.length := List.length_pos_iff.mpr hc.1
    refine Res.Sat.bind (sat_idx _ c (m - 1) (by omega)) (fun _ _ => ?_)
    refine Res.Sat.bind (sat_idx _ c (c.length - 1) (by omega)) (fun _ _ => ?_)
    exact sat_selectLoop m cs (fun x hx => h x (by simp [hx]))

theorem foldl_min_le (l : List Nat) : ∀ (a : Nat), l.foldl min a ≤ a ∧ ∀ x ∈ l, l.foldl min a ≤ x := by
  induction l with
  | nil => intro a; simp
  | cons y ys ih =>
    intro a
    simp only [List.foldl_cons, List.mem_cons]
    have h := ih (min a y)
    refine ⟨Nat.le_trans h.1 (Nat.min_le_left a y), ?_⟩
    intro x hx
    cases hx with
    | inl e => subst e; exact Nat.le_trans h.1 (Nat.min_le_right a x)
    | inr m => exact h.2 x m

theorem sat_selectGuards (hostLen : Nat) (cands : List (List Block)) (h : ∀ c ∈ cands, c ≠ []) :
    Res.Sat (fun _ => True) (selectGuards hostLen cands) := by
  unfold selectGuards
  refine sat_selectLoop _ cands (fun c hc => ⟨h c hc, ?_⟩)
  exact (foldl_min_le (cands.map List.length) hostLen).2 c.length (List.mem_map.mpr ⟨c, hc, rfl⟩)

theorem sat_blocksRange (n limit h : Nat) (hn : n + limit < 2 ^ 64) :
    Res.Sat (fun r => r.1 ≤ r.2 ∧ r.2 ≤ n) (blocksRange n limit h) := by
  unfold blocksRange
  split
  · simp
  · rename_i hc
    simp only [not_or] at hc
    obtain ⟨hn0, hh, _⟩ := hc
    have hn1 : (n + 2 ^ 64 - 1) % 2 ^ 64 = n - 1 := by omega
    rw [hn1] at hh
    have hlt : h < n := by omega
    have hmod : (h + limit) % 2 ^ 64 = h + limit := Nat.mod_eq_of_lt (by omega)
    rw [hmod]
    split
    · rename_i hlt2
      rw [if_pos ⟨by omega, by omega⟩]
      exact ⟨by omega, by omega⟩
    · rw [if_pos ⟨by omega, Nat.le_refl n⟩]
      exact ⟨by omega, Nat.le_refl n⟩

/-! ### round trips -/

@[simp] theorem fi_output_0 : fieldIndex outputFields "address" = some 0 := by decide
@[simp] theorem fi_output_1 : fieldIndex outputFields "is_yielding" = some 1 := by decide
@[simp] theorem fi_output_2 : fieldIndex outputFields "value" = some 2 := by decide
@[simp] theorem fi_info_0 : fieldIndex inputInfoFields "output_index" = some 0 := by decide
@[simp] theorem fi_info_1 : fieldIndex inputInfoFields "transaction_id" = some 1 := by decide
@[simp] theorem fi_input_0 : fieldIndex inputFields "output_index" = some 0 := by decide
@[simp] theorem fi_input_1 : fieldIndex inputFields "transaction_id" = some 1 := by decide
@[simp] theorem fi_input_2 : fieldIndex inputFields "public_key" = some 2 := by decide
@[simp] theorem fi_input_3 : fieldIndex inputFields "signature" = some 3 := by decide
@[simp] theorem fi_tx_0 : fieldIndex transactionFields "id" = some 0 := by decide
@[simp] theorem fi_tx_1 : fieldIndex transactionFields "inputs" = some 1 := by decide
@[simp] theorem fi_tx_2 : fieldIndex transactionFields "outputs" = some 2 := by decide
@[simp] theorem fi_tx_3 : fieldIndex transactionFields "timestamp" = some 3 := by decide
@[simp] theorem fi_block_0 : fieldIndex blockFields "previous_hash" = some 0 := by decide
@[simp] theorem fi_block_1 : fieldIndex blockFields "added_registered_addresses" = some 1 := by decide
@[simp] theorem fi_block_2 : fieldIndex blockFields "removed_registered_addresses" = some 2 := by decide
@[simp] theorem fi_block_3 : fieldIndex blockFields "timestamp" = some 3 := by decide
@[simp] theorem fi_block_4 : fieldIndex blockFields "transactions" = some 4 := by decide
@[simp] theorem fi_req_0 : fieldIndex requestFields "Transaction" = some 0 := by decide
@[simp] theorem fi_req_1 : fieldIndex requestFields "TransactionBroadcasterTarget" = some 1 := by decide
@[simp] theorem fi_utxo_0 : fieldIndex utxoFields "address" = some 0 := by decide
@[simp] theorem fi_utxo_1 : fieldIndex utxoFields "timestamp" = some 1 := by decide
@[simp] theorem fi_utxo_2 : fieldIndex utxoFields "is_yielding" = some 2 := by decide
@[simp] theorem fi_utxo_3 : fieldIndex utxoFields "output_index" = some 3 := by decide
@[simp] theorem fi_utxo_4 : fieldIndex utxoFields "transaction_id" = some 4 := by decide
@[simp] theorem fi_utxo_5 : fieldIndex utxoFields "value" = some 5 := by decide

theorem decInt64_encInt (old i : Int) (h : IsInt64 i) : decInt64 old (encInt i) = .ok i := by
  have hv : intOf (decide (i < 0)) i.natAbs = i := by
    unfold intOf
    by_cases hn : i < 0
    · simp only [hn, decide_true, if_true]; omega
    · simp only [hn, decide_false]; simp; omega
  simp only [encInt, decInt64, hv]
  exact if_pos h

theorem decUint_encNat (bits old n : Nat) (h : n < 2 ^ bits) : decUint bits old (encNat n) = .ok n := by
  simp [encNat, decUint, h]

theorem rt_Output (o : Output) (h : o.Canon) : Output.unmarshalJSON (encOutput o) = .ok o := by
  have h' : o.value < 2 ^ 64 := h
  simp [encOutput, Output.unmarshalJSON, unmarshalStructPtr, assignOutput, decString, decBool,
    decUint_encNat, h', Output.zero]

theorem rt_InputInfo (i : InputInfo) (h : i.Canon) : InputInfo.unmarshalJSON (encInputInfo i) = .ok i := by
  have h' : i.outputIndex < 2 ^ 16 := h
  simp [encInputInfo, InputInfo.unmarshalJSON, unmarshalStructPtr, assignInputInfo, decString,
    decUint_encNat, h', InputInfo.zero]

theorem rt_Input (p : Params) (i : Input) (h : i.Canon p) : Input.unmarshalJSON p (encInput i) = .ok i := by
  obtain ⟨h1, h2, h3, h4, h5⟩ := h
  simp [encInput, Input.unmarshalJSON, unmarshalStructPtr, assignInput, decString,
    decUint_encNat, h1, h2, h3, h4, h5, InputDto.zero]

theorem rt_Utxo (u : Utxo) (h : u.Canon) : Utxo.unmarshalJSON (encUtxo u) = .ok u := by
  obtain ⟨h1, h2, h3⟩ := h
  simp [encUtxo, Utxo.unmarshalJSON, unmarshalStructPtr, assignUtxo, decString, decBool,
    decUint_encNat, decInt64_encInt, h1, h2, h3, UtxoDto.zero]

theorem rt_decElems {α : Type} (elem : Option α → Json → Res α) (enc : α → Json) :
    ∀ (l : List α), (∀ a ∈ l, elem none (enc a) = .ok a) → decElems elem [] (l.map enc) = .ok l
  | [], _ => by simp [decElems]
  | a :: l, h => by
    simp only [List.map_cons, decElems, List.head?_nil, List.tail_nil]
    rw [h a (by simp), Res.ok_bind, rt_decElems elem enc l (fun b hb => h b (by simp [hb])), Res.ok_bind]

theorem rt_decSlice {α : Type} (elem : Option α → Json → Res α) (enc : α → Json) (l : Option (List α))
    (h : ∀ a ∈ elems l, elem none (enc a) = .ok a) :
    decSlice elem Slice.nil (encSlice enc l) = .ok ⟨l, []⟩ := by
  cases l with
  | none => simp [encSlice, decSlice, Slice.nil]
  | some l =>
    cases l with
    | nil => simp [encSlice, decSlice]
    | cons a l =>
      simp only [encSlice, List.map_cons, decSlice, Slice.nil, Option.getD_none, List.append_nil]
      have := rt_decElems elem enc (a :: l) h
      simp only [List.map_cons] at this
      rw [this]
      simp

theorem rt_elemOutput (x : Option Output) (h : ∀ o, x = some o → o.Canon) :
    elemOutput none (encPtr encOutput x) = .ok x := by
  cases x with
  | none => simp [elemOutput, encPtr, decPtr]
  | some o =>
    have := rt_Output o (h o rfl)
    simp only [elemOutput, encPtr, encOutput, decPtr] at this ⊢
    rw [this]; rfl

theorem rt_elemInput (p : Params) (x : Option Input) (h : ∀ i, x = some i → Input.Canon p i) :
    elemInput p none (encPtr encInput x) = .ok x := by
  cases x with
  | none => simp [elemInput, encPtr, decPtr]
  | some i =>
    have := rt_Input p i (h i rfl)
    simp only [elemInput, encPtr, encInput, decPtr] at this ⊢
    rw [this]; rfl

theorem allSome_any {α : Type} {P : α → Prop} {l : List (Option α)} (h : AllSome P l) :
    l.any Option.isNone = false := by
  rw [Bool.eq_false_iff]
  intro hc
  obtain ⟨x, hx, hn⟩ := List.any_eq_true.mp hc
  obtain ⟨a, ha, _⟩ := h x hx
  subst ha
  simp at hn

theorem rt_Transaction (p : Params) (t : Transaction) (hc : Transaction.Canon p t) (hf : t.Fresh) :
    Transaction.unmarshalJSON p none (encTransaction t) = .ok t := by
  obtain ⟨hI, hO, hT, hid, hne, hrw, hmany⟩ := hc
  have a3 : ¬ lenOf t.outputs > 65536 := by
    have : (t.outputs.getD []).length ≤ 65536 := hmany
    simp only [lenOf]; omega
  have e1 : decSlice (elemInput p) Slice.nil (encSlice (encPtr encInput) t.inputs) = .ok ⟨t.inputs, []⟩ :=
    rt_decSlice _ _ _ (fun a ha => rt_elemInput p a (fun i hi => by
      obtain ⟨b, hb, hcb⟩ := hI a ha
      rw [hi] at hb; cases hb; exact hcb))
  have e2 : decSlice elemOutput Slice.nil (encSlice (encPtr encOutput) t.outputs) = .ok ⟨t.outputs, []⟩ :=
    rt_decSlice _ _ _ (fun a ha => rt_elemOutput a (fun o ho => by
      obtain ⟨b, hb, hcb⟩ := hO a ha
      rw [ho] at hb; cases hb; exact hcb))
  have a1 : (t.inputs.getD []).any Option.isNone = false := allSome_any hI
  have a2 : (t.outputs.getD []).any Option.isNone = false := allSome_any hO
  unfold Transaction.unmarshalJSON
  simp only [encTransaction, unmarshalStructPtr, List.foldlM_cons, List.foldlM_nil, assignTransaction, fi_tx_0, fi_tx_1,
    fi_tx_2, fi_tx_3, TransactionDto.zero, decString, e1, e2, decInt64_encInt _ _ hT, Res.ok_bind, Res.pure_eq, a1, a2,
    Bool.false_eq_true, if_false, ← hid, ne_eq, not_true_eq_false, Option.getD_none]
  by_cases hin : elems t.inputs = []
  · obtain ⟨o, ho, h1, h2, h3⟩ := hrw hin
    have l1 : lenOf t.inputs = 0 := by simp [lenOf, show t.inputs.getD [] = [] from hin]
    have l2 : lenOf t.outputs = 1 := by simp [lenOf, show t.outputs.getD [] = [some o] from ho]
    have g : (t.outputs.getD [])[0]? = some (some o) := by rw [show t.outputs.getD [] = [some o] from ho]; rfl
    simp only [l1, l2, if_true, g]
    simp only [gt_iff_lt, Nat.lt_irrefl, if_false, Nat.one_ne_zero]
    cases t
    simp_all
  · have l1 : ¬ lenOf t.inputs = 0 := by
      intro h0
      apply hin
      exact List.eq_nil_of_length_eq_zero h0
    have l2 : ¬ lenOf t.outputs = 0 := by
      intro h0
      apply hne
      exact List.eq_nil_of_length_eq_zero h0
    obtain ⟨f1, f2, f3⟩ := hf hin
    simp only [l1, l2, if_false, Transaction.zero]
    cases t
    simp_all

theorem rt_decByteElems : ∀ (n : Nat) (l old : List Nat), l.length = n → (∀ x ∈ l, x < 256) →
    decByteElems n old (l.map encNat) = .ok l
  | 0, l, old, hl, _ => by
    have : l = [] := List.eq_nil_of_length_eq_zero hl
    subst this
    cases old <;> simp [decByteElems]
  | n + 1, [], _, hl, _ => by simp at hl
  | n + 1, x :: l, old, hl, h => by
    have hx : x < 2 ^ 8 := by simpa using h x (by simp)
    simp only [List.map_cons, decByteElems, decUint_encNat 8 _ x hx, Res.ok_bind]
    rw [rt_decByteElems n l old.tail (by simpa using hl) (fun y hy => h y (by simp [hy]))]
    rfl

theorem encStrings_eq (l : Option (List String)) : encStrings l = encSlice Json.str l := by
  cases l <;> rfl

theorem rt_strings (l : Option (List String)) : decSlice elemString Slice.nil (encStrings l) = .ok ⟨l, []⟩ := by
  rw [encStrings_eq]
  exact rt_decSlice _ _ _ (fun a _ => by simp [elemString, decString])

theorem rt_elemTransaction (p : Params) (x : Option Transaction)
    (h : ∀ t, x = some t → Transaction.Canon p t ∧ t.Fresh) :
    elemTransaction p none (encPtr encTransaction x) = .ok x := by
  cases x with
  | none => simp [elemTransaction, encPtr, decPtr]
  | some t =>
    have := rt_Transaction p t (h t rfl).1 (h t rfl).2
    simp only [elemTransaction, encPtr, encTransaction, decPtr, Option.join_none] at this ⊢
    rw [this]; rfl

theorem rt_Block (p : Params) (b : Block) (hc : Block.Canon p b) (hf : b.Fresh) :
    Block.unmarshalJSON p (encBlock b) = .ok b := by
  obtain ⟨hl, hb, hT, hX⟩ := hc
  have e0 : decByteArray 32 zeroHash (encBytes b.previousHash) = .ok b.previousHash := by
    simp only [encBytes, decByteArray]
    exact rt_decByteElems 32 _ _ hl hb
  have e4 : decSlice (elemTransaction p) Slice.nil (encSlice (encPtr encTransaction) b.transactions)
      = .ok ⟨b.transactions, []⟩ :=
    rt_decSlice _ _ _ (fun a ha => rt_elemTransaction p a (fun t ht => by
      obtain ⟨t', ht', hc'⟩ := hX a ha
      rw [ht] at ht'; cases ht'
      exact ⟨hc', hf t (by rw [← ht]; exact ha)⟩))
  have a4 : (b.transactions.getD []).any Option.isNone = false := allSome_any hX
  unfold Block.unmarshalJSON
  simp only [encBlock, unmarshalStructPtr, List.foldlM_cons, List.foldlM_nil, assignBlock, fi_block_0, fi_block_1,
    fi_block_2, fi_block_3, fi_block_4, BlockDto.zero, e0, rt_strings, e4, decInt64_encInt _ _ hT, Res.ok_bind,
    Res.pure_eq, a4, Bool.false_eq_true, if_false]

theorem rt_Request (p : Params) (r : TransactionRequest) (hc : r.Canon p) (hf : r.Fresh) :
    TransactionRequest.unmarshalJSON p (encRequest r) = .ok r := by
  have e0 : decPtr (Transaction.unmarshalJSON p) none (encPtr encTransaction r.transaction) = .ok r.transaction := by
    have := rt_elemTransaction p r.transaction (fun t ht => ⟨hc t ht, hf t ht⟩)
    simpa [elemTransaction] using this
  unfold TransactionRequest.unmarshalJSON
  simp only [encRequest, unmarshalStructPtr, List.foldlM_cons, List.foldlM_nil, assignRequest, fi_req_0, fi_req_1,
    TransactionRequest.zero, e0, decString, Res.ok_bind, Res.pure_eq]

theorem rt_decodeBlocks (p : Params) (l : Option (List (Option Block)))
    (h : ∀ x ∈ elems l, ∀ b, x = some b → Block.Canon p b ∧ b.Fresh) :
    decodeBlocks p (encBlocks l) = .ok l := by
  unfold decodeBlocks encBlocks
  rw [rt_decSlice _ (encPtr encBlock) l (fun a ha => by
    cases a with
    | none => simp [encPtr, decPtr]
    | some b =>
      have := rt_Block p b (h _ ha b rfl).1 (h _ ha b rfl).2
      simp only [encPtr, encBlock, decPtr] at this ⊢
      rw [this]; rfl)]
  rfl

/-- the id check: a transaction whose id is not the hash of its pre-image is refused, whatever else holds -/
theorem id_mismatch_refused (p : Params) (t : Transaction)
    (hI : AllSome (Input.Canon p) (elems t.inputs)) (hO : AllSome Output.Canon (elems t.outputs))
    (hT : IsInt64 t.timestamp) (hid : t.id ≠ generateId p t.inputs t.outputs t.timestamp) (old : Option Transaction) :
    Transaction.unmarshalJSON p old (encTransaction t) = .err := by
  have e1 : decSlice (elemInput p) Slice.nil (encSlice (encPtr encInput) t.inputs) = .ok ⟨t.inputs, []⟩ :=
    rt_decSlice _ _ _ (fun a ha => rt_elemInput p a (fun i hi => by
      obtain ⟨b, hb, hcb⟩ := hI a ha
      rw [hi] at hb; cases hb; exact hcb))
  have e2 : decSlice elemOutput Slice.nil (encSlice (encPtr encOutput) t.outputs) = .ok ⟨t.outputs, []⟩ :=
    rt_decSlice _ _ _ (fun a ha => rt_elemOutput a (fun o ho => by
      obtain ⟨b, hb, hcb⟩ := hO a ha
      rw [ho] at hb; cases hb; exact hcb))
  have a1 : (t.inputs.getD []).any Option.isNone = false := allSome_any hI
  have a2 : (t.outputs.getD []).any Option.isNone = false := allSome_any hO
  have hid' : generateId p t.inputs t.outputs t.timestamp ≠ t.id := fun e => hid e.symm
  unfold Transaction.unmarshalJSON
  simp only [encTransaction, unmarshalStructPtr, List.foldlM_cons, List.foldlM_nil, assignTransaction, fi_tx_0, fi_tx_1,
    fi_tx_2, fi_tx_3, TransactionDto.zero, decString, e1, e2, decInt64_encInt _ _ hT, Res.ok_bind, Res.pure_eq, a1, a2,
    Bool.false_eq_true, if_false, hid', ne_eq, not_false_eq_true, if_true]

end Codec
