/-
  Codec.Json — the JSON tree and the `encoding/json` rules that the wire layer of ruthenium relies on
  (Go 1.23: decode.go `object` / `array` / `literalStore`, encode.go `appendString`, fold.go `foldName`).

  Core Lean only; executable.  The tokenizer (bytes → tree) is NOT here: it is the trusted parameter
  `parse` of Codec.Handlers (an executable instance for the driver is Codec/Parse.lean).

  Go decodes INTO an existing value: a key that occurs twice assigns its field twice, a `null` for a
  scalar keeps what is there, slices are re-filled element by element re-using the elements (and, for
  pointer elements, the pointed objects) that the backing array still holds.  All decoders below
  therefore take the value already present (`old`).
-/
namespace Codec

/-- A JSON text after tokenizing.  Objects keep order and duplicate keys (Go assigns fields in key
order, so both matter).  Numbers: `num neg mag` is an integer literal `-?digits` (so `-0` is
`num true 0`); `frac` is any literal with a fraction or an exponent — Go refuses those for every
integer type, whatever their value. -/
inductive Json where
  | null
  | bool (b : Bool)
  | num (neg : Bool) (mag : Nat)
  | frac
  | str (s : String)
  | arr (xs : List Json)
  | obj (kvs : List (String × Json))
  deriving Inhabited

/-- Outcome of a piece of Go code: a value, an `error` return, or a run-time panic at `site`
(nil dereference / index out of range). -/
inductive Res (α : Type) where
  | ok (a : α)
  | err
  | panic (site : String)
  deriving Repr, DecidableEq, Inhabited

namespace Res

@[inline] def bind {α β : Type} (x : Res α) (f : α → Res β) : Res β :=
  match x with
  | .ok a => f a
  | .err => .err
  | .panic s => .panic s

instance : Monad Res where
  pure := .ok
  bind := Res.bind

def isPanic {α : Type} : Res α → Bool
  | .panic _ => true
  | _ => false

def isOk {α : Type} : Res α → Bool
  | .ok _ => true
  | _ => false

def isErr {α : Type} : Res α → Bool
  | .err => true
  | _ => false

end Res

/-! ### Scalars (`literalStore`) -/

/-- string field: `null` keeps the present value; a string literal is stored; anything else is an
`UnmarshalTypeError`. -/
def decString (old : String) : Json → Res String
  | .null => .ok old
  | .str s => .ok s
  | _ => .err

def decBool (old : Bool) : Json → Res Bool
  | .null => .ok old
  | .bool b => .ok b
  | _ => .err

/-- `uintN` field: `strconv.ParseUint(literal, 10, 64)` then `OverflowUint`: a sign (even `-0`), a
fraction, an exponent or a value ≥ 2^bits is an error. -/
def decUint (bits : Nat) (old : Nat) : Json → Res Nat
  | .null => .ok old
  | .num neg m => if neg then .err else if m < 2 ^ bits then .ok m else .err
  | _ => .err

def intOf (neg : Bool) (m : Nat) : Int := if neg then -(m : Int) else (m : Int)

/-- `int64` field: `strconv.ParseInt(literal, 10, 64)`. -/
def decInt64 (old : Int) : Json → Res Int
  | .null => .ok old
  | .num neg m =>
    if -(2 : Int) ^ 63 ≤ intOf neg m ∧ intOf neg m < (2 : Int) ^ 63 then .ok (intOf neg m) else .err
  | _ => .err

/-! ### Slices, pointers, fixed arrays -/

/-- A Go slice as the decoder sees it: its value (`none` = nil) and what the backing array still
holds between `len` and `cap` (`array` re-uses those elements when it extends the slice). -/
structure Slice (α : Type) where
  val : Option (List α)
  stale : List α
  deriving Repr, DecidableEq

def Slice.nil {α : Type} : Slice α := ⟨none, []⟩

/-- element `i` of the JSON array is decoded into element `i` of the backing array (`none`: a fresh
zero element) -/
def decElems {α : Type} (elem : Option α → Json → Res α) : List α → List Json → Res (List α)
  | _, [] => .ok []
  | bk, j :: js => do
    let a ← elem bk.head? j
    let r ← decElems elem bk.tail js
    .ok (a :: r)

/-- `[]T` field.  `null` → nil; `[]` → a fresh empty slice; wrong type → error. -/
def decSlice {α : Type} (elem : Option α → Json → Res α) (s : Slice α) : Json → Res (Slice α)
  | .null => .ok Slice.nil
  | .arr [] => .ok ⟨some [], []⟩
  | .arr xs => do
    let bk := s.val.getD [] ++ s.stale
    let ys ← decElems elem bk xs
    .ok ⟨some ys, bk.drop xs.length⟩
  | _ => .err

/-- `*T` slot where `*T` implements `Unmarshaler`: `null` sets the pointer to nil WITHOUT calling
`UnmarshalJSON`; any other value calls it on the pointed object (allocated when the pointer is nil). -/
def decPtr {α : Type} (unm : Option α → Json → Res α) (old : Option α) : Json → Res (Option α)
  | .null => .ok none
  | j => do
    let a ← unm old j
    .ok (some a)

/-- elements of a `[n]byte`: surplus JSON elements are skipped unread, missing ones are zeroed -/
def decByteElems : Nat → List Nat → List Json → Res (List Nat)
  | 0, _, _ => .ok []
  | n + 1, _, [] => .ok (List.replicate (n + 1) 0)
  | n + 1, old, j :: js => do
    let b ← decUint 8 (old.headD 0) j
    let r ← decByteElems n old.tail js
    .ok (b :: r)

/-- `[n]byte` field (reflect.Array): `null` keeps it, an array of numbers fills it, anything else
(including a string) is an error. -/
def decByteArray (n : Nat) (old : List Nat) : Json → Res (List Nat)
  | .null => .ok old
  | .arr xs => decByteElems n old xs
  | _ => .err

/-! ### Struct fields -/

/-- `foldName` restricted to what can meet an ASCII field name: ASCII letters are upper-cased, and
the only two non-ASCII runes whose simple-fold orbit contains an ASCII letter are U+017F (ſ → S)
and U+212A (Kelvin sign → K). -/
def foldChar (c : Char) : Char :=
  if 'a'.toNat ≤ c.toNat ∧ c.toNat ≤ 'z'.toNat then Char.ofNat (c.toNat - 32)
  else if c.toNat = 0x17F then 'S'
  else if c.toNat = 0x212A then 'K'
  else c

def foldName (s : String) : List Char := s.toList.map foldChar

/-- index of the struct field a key is assigned to: exact name first, else the folded name;
`none`: unknown key, its value is skipped. -/
def fieldIndex (fields : List String) (k : String) : Option Nat :=
  match fields.findIdx? (fun f => f == k) with
  | some i => some i
  | none => fields.findIdx? (fun f => foldName f == foldName k)

/-- `var dto *T; json.Unmarshal(data, &dto)` for a struct `T`: `null` leaves `dto` nil, an object
allocates a zero `T` and assigns the keys in order, anything else is an error. -/
def unmarshalStructPtr {δ : Type} (zero : δ) (assign : δ → String → Json → Res δ) : Json → Res (Option δ)
  | .null => .ok none
  | .obj kvs => do
    let d ← kvs.foldlM (fun d kv => assign d kv.1 kv.2) zero
    .ok (some d)
  | _ => .err

/-! ### Encoder (`appendString`, integers, field order = declaration order) -/

def hexDigit (n : Nat) : Char :=
  if n < 10 then Char.ofNat (48 + n) else Char.ofNat (87 + n)

/-- one character of a JSON string as `json.Marshal` (escapeHTML on) writes it -/
def escapeChar (c : Char) : List Char :=
  if c = '"' then ['\\', '"']
  else if c = '\\' then ['\\', '\\']
  else if c.toNat = 8 then ['\\', 'b']
  else if c.toNat = 12 then ['\\', 'f']
  else if c.toNat = 10 then ['\\', 'n']
  else if c.toNat = 13 then ['\\', 'r']
  else if c.toNat = 9 then ['\\', 't']
  else if c.toNat < 0x20 ∨ c = '<' ∨ c = '>' ∨ c = '&' then
    ['\\', 'u', '0', '0', hexDigit (c.toNat / 16), hexDigit (c.toNat % 16)]
  else if c.toNat = 0x2028 then ['\\', 'u', '2', '0', '2', '8']
  else if c.toNat = 0x2029 then ['\\', 'u', '2', '0', '2', '9']
  else [c]

def escapeChars : List Char → List Char
  | [] => []
  | c :: cs => escapeChar c ++ escapeChars cs

def renderString (s : String) : List Char := '"' :: (escapeChars s.toList ++ ['"'])

def digitChar (d : Nat) : Char := Char.ofNat (48 + d)

/-- decimal digits, most significant first (`strconv.AppendUint`) -/
def natDigits (n : Nat) : List Char :=
  if n < 10 then [digitChar n] else natDigits (n / 10) ++ [digitChar (n % 10)]
termination_by n
decreasing_by omega

def boolChars (b : Bool) : List Char := if b then ['t', 'r', 'u', 'e'] else ['f', 'a', 'l', 's', 'e']

mutual
  /-- the printer: no white space, keys in the given order -/
  def render : Json → List Char
    | .null => ['n', 'u', 'l', 'l']
    | .bool b => boolChars b
    | .num neg m => (if neg then ['-'] else []) ++ natDigits m
    | .frac => ['1', '.', '5']
    | .str s => renderString s
    | .arr xs => '[' :: renderElems true xs
    | .obj kvs => '{' :: renderFields true kvs
  def renderElems (first : Bool) : List Json → List Char
    | [] => [']']
    | x :: r => (if first then [] else [',']) ++ (render x ++ renderElems false r)
  def renderFields (first : Bool) : List (String × Json) → List Char
    | [] => ['}']
    | (k, v) :: r => (if first then [] else [',']) ++ (renderString k ++ (':' :: (render v ++ renderFields false r)))
end

/-- UTF-8 bytes of a character sequence (what `sha256.Sum256` is fed) -/
def utf8 (cs : List Char) : List UInt8 := (String.ofList cs).toUTF8.data.toList

/-- encoders of scalars -/
def encInt (i : Int) : Json := .num (decide (i < 0)) i.natAbs
def encNat (n : Nat) : Json := .num false n
def encStrings : Option (List String) → Json
  | none => .null
  | some l => .arr (l.map .str)
def encBytes (l : List Nat) : Json := .arr (l.map encNat)

end Codec
