/-
  Codec.Examples — concrete values used by the non-vacuity examples and the `_counterexample` theorems of
  Codec.Props.  The same witnesses are replayed on the real code by `ruwire --mode witness`.
-/
import Codec.Spec

namespace Codec.Ex
open Codec

/-- crypto parameters that accept every string and leave it unchanged; a constant "hash" (so that ids can be
written down).  They satisfy `Params.Good`. -/
def params : Params :=
  { pkOk := fun _ => true, pkCanon := fun s => s, sigOk := fun _ => true, sigCanon := fun s => s, hash := fun _ => "h" }

/-- as `params`, with an injective "hash" (hex-free: the bytes themselves) -/
def paramsInj : Params :=
  { params with hash := fun bytes => String.ofList (bytes.map (fun b => Char.ofNat b.toNat)) }

def output : Output := ⟨"addr <&>", true, 18446744073709551615⟩
def outputJson : Json := .obj [("address", .str "addr <&>"), ("is_yielding", .bool true), ("value", .num false 18446744073709551615)]

/-- a reward transaction (no "inputs" key: nil) and a spending transaction, both with the id `params.hash` gives -/
def rewardJson : Json := .obj [("id", .str "h"), ("outputs", .arr [.obj []])]
def spendJson : Json := .obj [("id", .str "h"), ("inputs", .arr [.obj []]), ("outputs", .arr [.obj []])]

def rewardTx : Transaction :=
  { id := "h", inputs := none, outputs := some [some ⟨"", false, 0⟩], timestamp := 0,
    hasReward := true, rewardRecipient := "", rewardValue := 0 }

/-- the spending transaction; `stale`: the reward flag an object re-used from a reward transaction keeps -/
def spendTx (stale : Bool) : Transaction :=
  { id := "h", inputs := some [some ⟨⟨0, ""⟩, "", ""⟩], outputs := some [some ⟨"", false, 0⟩], timestamp := 0,
    hasReward := stale, rewardRecipient := "", rewardValue := 0 }

/-- a block whose "transactions" key occurs twice: [reward] then [spend] -/
def dupBlockJson : Json := .obj [("transactions", .arr [rewardJson]), ("transactions", .arr [spendJson])]

def blockWith (stale : Bool) : Block := ⟨zeroHash, none, none, 0, some [some (spendTx stale)]⟩

/-- a request whose "Transaction" key occurs twice -/
def dupRequestJson : Json := .obj [("Transaction", rewardJson), ("transaction", spendJson)]

/-- `["a","b"]`, then `[null]`, then `[null,null]` under one key -/
def staleStringsJson : Json :=
  .obj [("added_registered_addresses", .arr [.str "a", .str "b"]), ("added_registered_addresses", .arr [.null]),
        ("added_registered_addresses", .arr [.null, .null])]

/-- a 34-element previous_hash whose 34th element is a string -/
def longHashJson : Json :=
  .obj [("previous_hash", .arr ((List.range 33).map (fun i => Json.num false (i + 1)) ++ [.str "x"]))]

/-- a wrong id -/
def wrongIdJson : Json := .obj [("id", .str "not the hash"), ("outputs", .arr [.obj []])]

/-- a signed-looking transaction with inputs and no outputs (the D6b witness) -/
def noOutputsJson : Json := .obj [("id", .str "h"), ("inputs", .arr [.obj []]), ("outputs", .arr [])]

def hostBlock : Block := ⟨zeroHash, none, none, 0, some [some rewardTx]⟩

end Codec.Ex
