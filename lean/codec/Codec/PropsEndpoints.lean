/-
  Codec.PropsEndpoints — the C15 theorem about the endpoint tables (property theorem only; the tables are generated).
-/
import Codec.EndpointsSpec

namespace Codec

/-- **C15, endpoints** (decided over the tables regenerated from neighbor.go, node.go, host.go and the controllers):
seven endpoints; constant names, endpoint strings, client methods, setters and handlers pairwise distinct; every
client method `Get/Send/Add<X>` uses the constant `<X>Endpoint`, which presentation.NewNode binds with
`SetHandle<X>Request`, which api.Host routes to `Handle<X>Request`; the payload the client sends is the one that
handler reads (json of the same Go type / the caller's request bytes into `*ledger.TransactionRequest` / none). -/
theorem C15_endpoints : Endpoints.ok = true := by decide

/-- non-vacuity: the check does fail on a table with two constants swapped -/
example : Endpoints.methodOk ("GetBlocks", "UtxosEndpoint", "json:uint64") = false := by decide

end Codec
