/-
  Codec.Spec — the predicates the property theorems are stated with.  Core Lean only.
-/
import Codec.Handlers

namespace Codec

/-- `r` is not a panic, and when it is a value the value satisfies `P` -/
def Res.Sat {α : Type} (P : α → Prop) : Res α → Prop
  | .ok a => P a
  | .err => True
  | .panic _ => False

/-- `r` is `ok` or `err` -/
def Res.NoPanic {α : Type} (r : Res α) : Prop := Res.Sat (fun _ => True) r

/-- hypotheses on the crypto parameters (checked by ruwire against the real functions on every string it sends):
the canonical rendering of an accepted string is accepted and is a fixed point -/
structure Params.Good (p : Params) : Prop where
  pk_ok_canon : ∀ s, p.pkOk s = true → p.pkOk (p.pkCanon s) = true
  pk_canon_idem : ∀ s, p.pkOk s = true → p.pkCanon (p.pkCanon s) = p.pkCanon s
  sig_ok_canon : ∀ s, p.sigOk s = true → p.sigOk (p.sigCanon s) = true
  sig_canon_idem : ∀ s, p.sigOk s = true → p.sigCanon (p.sigCanon s) = p.sigCanon s

def IsInt64 (i : Int) : Prop := -(2 : Int) ^ 63 ≤ i ∧ i < (2 : Int) ^ 63

/-- every pointer of the list is non-nil and what it points to satisfies `P` -/
def AllSome {α : Type} (P : α → Prop) (l : List (Option α)) : Prop := ∀ x ∈ l, ∃ a, x = some a ∧ P a

/-! ### range invariants and canonical form (what every decoded value satisfies) -/

def Output.Canon (o : Output) : Prop := o.value < 2 ^ 64

def InputInfo.Canon (i : InputInfo) : Prop := i.outputIndex < 2 ^ 16

/-- canonical form of key and signature: accepted by the crypto decoder and equal to their own re-rendering
(for the real functions: lower-case hex with `0x` prefix / 128 lower-case hex digits) -/
def Input.Canon (p : Params) (i : Input) : Prop :=
  i.info.outputIndex < 2 ^ 16 ∧ p.pkOk i.publicKey = true ∧ p.pkCanon i.publicKey = i.publicKey ∧
  p.sigOk i.signature = true ∧ p.sigCanon i.signature = i.signature

def Utxo.Canon (u : Utxo) : Prop := u.info.outputIndex < 2 ^ 16 ∧ u.output.value < 2 ^ 64 ∧ IsInt64 u.timestamp

/-- `nil` and empty lists are different values (`null` / `[]` on the wire, different ids); both count as "no element" -/
def elems {α : Type} (l : Option (List α)) : List α := l.getD []

def Transaction.Canon (p : Params) (t : Transaction) : Prop :=
  AllSome (Input.Canon p) (elems t.inputs) ∧ AllSome Output.Canon (elems t.outputs) ∧ IsInt64 t.timestamp ∧
  t.id = generateId p t.inputs t.outputs t.timestamp ∧
  elems t.outputs ≠ [] ∧
  (elems t.inputs = [] → ∃ o, elems t.outputs = [some o] ∧ t.hasReward = true ∧ t.rewardRecipient = o.address ∧
    t.rewardValue = o.value) ∧
  (elems t.outputs).length ≤ 65536       -- output indexes are uint16 (fix: commit): at most 2^16 outputs

/-- the derived reward fields of a transaction WITH inputs are those of a freshly allocated object -/
def Transaction.Fresh (t : Transaction) : Prop :=
  elems t.inputs ≠ [] → t.hasReward = false ∧ t.rewardRecipient = "" ∧ t.rewardValue = 0

instance (t : Transaction) : Decidable t.Fresh := by unfold Transaction.Fresh; exact inferInstance

/-- what the consumers rely on: no nil entry, at least one output, a transaction without inputs is a reward -/
def Transaction.WF (t : Transaction) : Prop :=
  (∀ x ∈ elems t.inputs, x ≠ none) ∧ (∀ x ∈ elems t.outputs, x ≠ none) ∧ elems t.outputs ≠ [] ∧
  (elems t.inputs = [] → (elems t.outputs).length = 1 ∧ t.hasReward = true)

def Block.Canon (p : Params) (b : Block) : Prop :=
  b.previousHash.length = 32 ∧ (∀ x ∈ b.previousHash, x < 256) ∧ IsInt64 b.timestamp ∧
  AllSome (Transaction.Canon p) (elems b.transactions)

def Block.Fresh (b : Block) : Prop := ∀ t, some t ∈ elems b.transactions → t.Fresh

def Block.WF (b : Block) : Prop := ∀ x ∈ elems b.transactions, ∃ t, x = some t ∧ t.WF

def TransactionRequest.Canon (p : Params) (r : TransactionRequest) : Prop :=
  ∀ t, r.transaction = some t → t.Canon p

def TransactionRequest.Fresh (r : TransactionRequest) : Prop := ∀ t, r.transaction = some t → t.Fresh

/-- a served chain in which every block pointer is non-nil and every block is well-formed -/
def BlocksWF (l : List (Option Block)) : Prop := ∀ x ∈ l, ∀ b, x = some b → b.WF

/-- what a handler may hand on: only well-formed values -/
def Call.WF : Call → Prop
  | .toPool t _ => t.WF
  | .candidate bs => ∀ b ∈ bs, b.WF
  | _ => True

end Codec
