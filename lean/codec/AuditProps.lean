import Codec.Props
import Codec.PropsRender
open Codec
#print axioms C14_decode_total
#print axioms C14_reward_shape_partial
#print axioms C14_reward_shape_counterexample
#print axioms C14_consumers_guarded
#print axioms C14_handlers_no_panic
#print axioms C14_handlers_bytes
#print axioms C14_access_trusted_answer_counterexample
#print axioms C15_roundtrip
#print axioms C15_stable
#print axioms C15_stable_encode
#print axioms C15_stable_partial
#print axioms C15_stable_counterexample
#print axioms C15_stale_elements_example
#print axioms C15_long_hash_example
#print axioms C15_id_checked
#print axioms C15_render_injective
#print axioms C15_ids_bind
