-- Root of the `Codec` library (wire layer of ruthenium: properties C14 and C15).
import Codec.Json
import Codec.Wire
import Codec.Handlers
import Codec.Sha256
import Codec.Parse
import Codec.Spec
import Codec.Examples
import Codec.Lemmas
import Codec.Props
import Codec.Render
import Codec.PropsRender
import Codec.GenEndpoints
import Codec.EndpointsSpec
import Codec.PropsEndpoints
