-- Root of the `Codec` library (wire layer of ruthenium: properties C14 and C15).
import Codec.Json
