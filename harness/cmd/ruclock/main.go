// ruclock — correspondence between the real clock.Engine of /repo and the Lean model Clock.Model (C20).
//
// Every case runs the REAL clock.NewEngine(...).Start()/Pulse()/Stop() with millisecond periods and a
// scripted application.TimeProvider.  The Engine sleeps on its own real ticker but stamps from watch.Now(),
// so the scripted readings need no relation to real time; what is compared is a function of the readings
// actually served and of call counts only, never of real time:
//
//	stamps received by the function  ==  Clock.start / Clock.pulse (Lean driver) on (config, readings served, stop point)
//
// plus the property clauses evaluated directly on the stamps (alignment on the absolute clock, non-decreasing,
// nothing after Stop, one stamp per pulse on the next boundary).  The "realtime" kind serves the real clock and
// adds a jitter-tolerant, retried check of which occurrences of a cycle are stamped.
package main

import (
	"bufio"
	"crypto/sha256"
	"encoding/hex"
	"encoding/json"
	"flag"
	"fmt"
	"io"
	"math/rand"
	"os"
	"os/exec"
	"runtime"
	"sort"
	"strconv"
	"strings"
	"sync"
	"sync/atomic"
	"time"

	"github.com/my-cloud/ruthenium/validatornode/application"
	"github.com/my-cloud/ruthenium/validatornode/domain/clock"
)

// ---------------------------------------------------------------- Lean driver

type driver struct {
	mu  sync.Mutex
	cmd *exec.Cmd
	in  io.WriteCloser
	out *bufio.Reader
}

func newDriver(path string) (*driver, error) {
	cmd := exec.Command(path)
	in, err := cmd.StdinPipe()
	if err != nil {
		return nil, err
	}
	out, err := cmd.StdoutPipe()
	if err != nil {
		return nil, err
	}
	cmd.Stderr = os.Stderr
	if err := cmd.Start(); err != nil {
		return nil, err
	}
	return &driver{cmd: cmd, in: in, out: bufio.NewReaderSize(out, 1<<20)}, nil
}

func (d *driver) ask(line string) (string, error) {
	d.mu.Lock()
	defer d.mu.Unlock()
	if _, err := io.WriteString(d.in, line+"\n"); err != nil {
		return "", err
	}
	ans, err := d.out.ReadString('\n')
	if err != nil {
		return "", err
	}
	ans = strings.TrimSpace(ans)
	if strings.HasPrefix(ans, "ERR") {
		return ans, fmt.Errorf("driver: %s (for %q)", ans, line)
	}
	return ans, nil
}

func (d *driver) close() {
	d.mu.Lock()
	defer d.mu.Unlock()
	_, _ = io.WriteString(d.in, "quit\n")
	_ = d.in.Close()
	_ = d.cmd.Wait()
}

type modelResult struct {
	Status string
	Slots  []int64
	Is     []int64
	Stamps []int64
	Raw    string
}

func parseModel(ans string) (modelResult, error) {
	f := strings.Fields(ans)
	if len(f) < 2 {
		return modelResult{}, fmt.Errorf("short driver answer %q", ans)
	}
	n, err := strconv.Atoi(f[1])
	if err != nil || len(f) != 2+n {
		return modelResult{}, fmt.Errorf("malformed driver answer %q", ans)
	}
	m := modelResult{Status: f[0], Raw: ans, Stamps: []int64{}}
	for _, w := range f[2:] {
		p := strings.Split(w, ":")
		if len(p) != 3 {
			return m, fmt.Errorf("malformed fire %q", w)
		}
		a, e1 := strconv.ParseInt(p[0], 10, 64)
		b, e2 := strconv.ParseInt(p[1], 10, 64)
		c, e3 := strconv.ParseInt(p[2], 10, 64)
		if e1 != nil || e2 != nil || e3 != nil {
			return m, fmt.Errorf("malformed fire %q", w)
		}
		m.Slots, m.Is, m.Stamps = append(m.Slots, a), append(m.Is, b), append(m.Stamps, c)
	}
	return m, nil
}

func joinInts(xs []int64) string {
	s := make([]string, len(xs))
	for i, x := range xs {
		s[i] = strconv.FormatInt(x, 10)
	}
	return strings.Join(s, " ")
}

// ---------------------------------------------------------------- running the real Engine

type Outcome struct {
	Served        []int64  `json:"served"`
	Stamps        []int64  `json:"stamps"`
	Status        string   `json:"status"` // returned | hang | panic: ...
	AfterStop     int      `json:"calls_begun_after_stop"`
	NestedPulses  int      `json:"nested_pulses,omitempty"`
	NestedServed  int      `json:"nested_pulse_readings,omitempty"`
	PulseStatuses []string `json:"pulse_statuses,omitempty"`
}

type Failure struct {
	Kind      string                 `json:"kind"`
	Signature string                 `json:"signature"`
	Detail    string                 `json:"detail"`
	Replay    map[string]interface{} `json:"replay"`
	Found     bool                   `json:"found_input"`
}

const hangTimeout = 12 * time.Second

func equalInts(a, b []int64) bool {
	if len(a) != len(b) {
		return false
	}
	for i := range a {
		if a[i] != b[i] {
			return false
		}
	}
	return true
}

// engineRun drives one real Engine according to c.
func engineRun(c Case) Outcome {
	var mu sync.Mutex
	out := Outcome{Served: []int64{}, Stamps: []int64{}}
	var eng *clock.Engine
	var stopDone atomic.Bool
	firstServed := make(chan struct{})
	var firstOnce sync.Once
	sub := subTimerOf(c.Timer, c.Occ)
	if sub <= 0 {
		sub = 1
	}
	watch := new(application.TimeProviderMock)
	watch.NowFunc = func() time.Time {
		mu.Lock()
		idx := len(out.Served)
		var t time.Time
		if c.Kind == "realtime" {
			t = time.Now()
		} else {
			var v int64
			if idx < len(c.Script) {
				v = c.Script[idx]
			} else if len(c.Script) > 0 { // script exhausted (async stop): keep advancing by one sub-period
				v = c.Script[len(c.Script)-1] + int64(idx-len(c.Script)+1)*sub
			}
			t = time.Unix(0, v)
		}
		out.Served = append(out.Served, t.UnixNano())
		mu.Unlock()
		firstOnce.Do(func() { close(firstServed) }) // from here on `started` is true
		if c.StopMode == "in-now" && idx == c.StopK && c.Kind == "start" {
			eng.Stop()
			stopDone.Store(true)
		}
		return t
	}
	function := func(ts int64) {
		after := stopDone.Load()
		mu.Lock()
		if after {
			out.AfterStop++
		}
		out.Stamps = append(out.Stamps, ts)
		n := len(out.Stamps)
		mu.Unlock()
		if c.Kind == "pulse" && c.PulseVariant == "reentrant" && n == 1 {
			// requested == true here: a nested Pulse must return at once without reading the clock
			mu.Lock()
			before := len(out.Served)
			mu.Unlock()
			eng.Pulse()
			mu.Lock()
			out.NestedPulses++
			out.NestedServed += len(out.Served) - before
			mu.Unlock()
		}
		if (c.Kind == "start" || c.Kind == "realtime") && c.PulseVariant == "while-started" && n == 1 {
			mu.Lock()
			before := len(out.Served)
			mu.Unlock()
			eng.Pulse()
			mu.Lock()
			out.NestedPulses++
			out.NestedServed += len(out.Served) - before
			mu.Unlock()
		}
		if c.StopMode == "in-function" && n == c.StopK {
			eng.Stop()
			stopDone.Store(true)
		}
	}
	// NewEngine (panics for a non-positive period)
	func() {
		defer func() {
			if p := recover(); p != nil {
				out.Status = fmt.Sprintf("panic: NewEngine: %v", p)
			}
		}()
		eng = clock.NewEngine(function, watch, time.Duration(c.Timer), c.Occ, c.Skipped)
	}()
	if eng == nil {
		return out
	}
	done := make(chan string, 1)
	call := func(f func()) {
		go func() {
			defer func() {
				if p := recover(); p != nil {
					done <- fmt.Sprintf("panic: %v", p)
				}
			}()
			f()
			done <- "returned"
		}()
	}
	wait := func(limit time.Duration) string {
		select {
		case s := <-done:
			return s
		case <-time.After(limit):
			return "hang"
		}
	}
	switch c.Kind {
	case "start", "realtime":
		call(eng.Start)
		if c.StopMode == "async" {
			go func() {
				<-firstServed
				time.Sleep(time.Duration(c.AsyncUs) * time.Microsecond)
				eng.Stop()
				stopDone.Store(true)
			}()
		}
		out.Status = wait(hangTimeout)
	case "silent":
		// every occurrence is skipped: the Engine must never read the clock again nor call the function.
		call(eng.Start)
		if out.Status = wait(time.Duration(c.Timer) * 8); out.Status == "hang" {
			out.Status = "no-return" // expected: the loop never checks `started`
		}
		// Stop is deliberately not called: it would set the ticker to 1ns and the goroutine, which never
		// checks `started`, would spin for the rest of the process (see --witness).
	case "pulse":
		pulses := 1
		if c.PulseVariant == "sequence" {
			pulses = len(c.Script)
		}
		out.Status = "returned"
		for i := 0; i < pulses; i++ {
			call(eng.Pulse)
			s := wait(hangTimeout)
			out.PulseStatuses = append(out.PulseStatuses, s)
			if s != "returned" {
				out.Status = s
				break
			}
		}
	}
	mu.Lock()
	defer mu.Unlock()
	res := Outcome{Served: append([]int64{}, out.Served...), Stamps: append([]int64{}, out.Stamps...),
		Status: out.Status, AfterStop: out.AfterStop, NestedPulses: out.NestedPulses,
		NestedServed: out.NestedServed, PulseStatuses: out.PulseStatuses}
	return res
}

// ---------------------------------------------------------------- checking one case

type caseReport struct {
	Case      Case
	Outcome   Outcome
	Model     string
	Failures  []Failure
	Digest    string
	Nontriv   bool
	Agreed    bool
	LateStop  int
	Repeats   int
	Monotone  bool
	PhaseOK   bool
	PhaseNote string
}

func (rep *caseReport) fail(kind, sig, detail string, found bool) {
	rep.Failures = append(rep.Failures, Failure{Kind: kind, Signature: sig, Detail: detail, Found: found,
		Replay: map[string]interface{}{"case": rep.Case, "outcome": rep.Outcome, "model": rep.Model}})
}

func nonDecreasing(xs []int64) bool {
	for i := 1; i < len(xs); i++ {
		if xs[i] < xs[i-1] {
			return false
		}
	}
	return true
}

func checkCase(c Case, d *driver) *caseReport {
	rep := &caseReport{Case: c}
	o := engineRun(c)
	rep.Outcome = o
	cfg := fmt.Sprintf("%d %d %d", c.Timer, c.Occ, c.Skipped)
	h := sha256.Sum256([]byte(fmt.Sprintf("%s|%s|%d|%s|%v", c.Kind, cfg, c.StopK, c.StopMode, o.Served)))
	rep.Digest = hex.EncodeToString(h[:8])
	ask := func(line string) (modelResult, bool) {
		ans, err := d.ask(line)
		if err != nil {
			rep.Model = ans
			rep.fail("diff", "C20/harness/driver", err.Error(), false)
			return modelResult{}, false
		}
		m, err := parseModel(ans)
		if err != nil {
			rep.Model = ans
			rep.fail("diff", "C20/harness/driver", err.Error(), false)
			return modelResult{}, false
		}
		return m, true
	}
	sub := subTimerOf(c.Timer, c.Occ)
	switch c.Kind {
	case "start", "realtime":
		if o.Status == "hang" {
			rep.fail("diff", "C20/impl/hang/"+c.StopMode,
				fmt.Sprintf("Start did not return within %v after Stop (%d stamps, %d readings served)", hangTimeout, len(o.Stamps), len(o.Served)), true)
			return rep
		}
		if strings.HasPrefix(o.Status, "panic") {
			// compare with the model below (it predicts panics); a panic is a failure unless the model agrees
		}
		stop := -1
		switch c.StopMode {
		case "in-function":
			stop = c.StopK
		case "in-now":
			stop = c.StopK // Stop inside Now() call j: check j-1 has passed, check j reads false (j = 0: check 0)
		case "async":
			stop = len(o.Stamps)
		}
		m, ok := ask(fmt.Sprintf("start %s 0 %d %s", cfg, stop, joinInts(o.Served)))
		if !ok {
			return rep
		}
		rep.Model = m.Raw
		implStatus := o.Status
		if strings.HasPrefix(implStatus, "panic") {
			implStatus = "panicked"
		}
		if m.Status != implStatus {
			rep.fail("diff", "C20/diff/start-status/"+c.StopMode,
				fmt.Sprintf("Engine.Start ended as %q, model says %q", o.Status, m.Status), true)
		}
		if !equalInts(m.Stamps, o.Stamps) {
			rep.fail("diff", "C20/diff/start-stamps/"+c.StopMode,
				fmt.Sprintf("stamps of the real Engine %v differ from the model's %v on readings %v (timer=%d occ=%d skipped=%d stop=%d)",
					o.Stamps, m.Stamps, o.Served, c.Timer, c.Occ, c.Skipped, stop), true)
		} else if m.Status == implStatus {
			rep.Agreed = true
		}
		if o.NestedPulses > 0 && o.NestedServed != 0 {
			rep.fail("prop", "C20/prop/pulse-while-started",
				fmt.Sprintf("Pulse on a started engine read the clock %d times", o.NestedServed), true)
		}
		if c.PulseVariant == "while-started" && len(o.Stamps) > 0 {
			pm, ok := ask(fmt.Sprintf("pulse %s 1 0 %d", cfg, o.Served[0]))
			if ok && len(pm.Stamps) != 0 {
				rep.fail("diff", "C20/diff/pulse-guard-model", "model pulse on started engine fires", false)
			}
		}
		// property clauses on the implementation's stamps
		for i, s := range o.Stamps {
			if sub > 0 && absMod(s, sub) != 0 {
				rep.fail("prop", "C20/prop/unaligned",
					fmt.Sprintf("stamp #%d = %d is not a multiple of the sub-period %d on the absolute clock (remainder %d)", i, s, sub, absMod(s, sub)), true)
				break
			}
		}
		readings := o.Served
		if len(readings) > 0 {
			readings = readings[1:]
		}
		rep.Monotone = nonDecreasing(readings)
		if rep.Monotone && !nonDecreasing(o.Stamps) {
			rep.fail("prop", "C20/prop/decreasing",
				fmt.Sprintf("non-decreasing readings %v gave decreasing stamps %v", readings, o.Stamps), true)
		}
		for i := 1; i < len(o.Stamps); i++ {
			if o.Stamps[i] == o.Stamps[i-1] {
				rep.Repeats++
			}
		}
		// nothing after Stop.  Three classes:
		//  - Stop completed BEFORE the check of `started` of an occurrence, yet that occurrence (or a later one) is
		//    called, or two or more calls begin after a completed Stop: C20/stop-ignored/... (never expected;
		//    C20_stop, C20_stop_late_bound);
		//  - Stop completed between the check and the call and exactly that one call still begins: the known
		//    finding C20/stop-completes-between-check-and-call-one-more-call (C20_stop_counterexample), counted in
		//    rep.LateStop and reported once per check by the engine;
		switch {
		case c.StopMode == "in-function", c.StopMode == "in-now" && c.StopK == 0:
			if o.AfterStop != 0 {
				rep.fail("prop", "C20/stop-ignored/call-after-stop-completed-before-check/"+c.StopMode,
					fmt.Sprintf("%d call(s) of the function began after a Stop that had completed before the check of `started` (stop point %d)", o.AfterStop, c.StopK), true)
			}
		case c.StopMode == "in-now":
			// Stop lands between the check of `started` and the call: the model says exactly one call goes through.
			if o.AfterStop > 1 {
				rep.fail("prop", "C20/stop-ignored/two-or-more-calls-after-stop/in-now",
					fmt.Sprintf("Stop inside watch.Now() #%d: %d calls began after Stop had completed (bound: 1)", c.StopK, o.AfterStop), true)
			} else if o.AfterStop == 0 {
				rep.fail("diff", "C20/diff/late-stop-window",
					fmt.Sprintf("Stop inside watch.Now() #%d: model expects exactly 1 call after Stop, Engine made 0", c.StopK), true)
			}
			rep.LateStop = o.AfterStop
		default:
			if o.AfterStop > 1 {
				rep.fail("prop", "C20/stop-ignored/two-or-more-calls-after-stop/async",
					fmt.Sprintf("%d calls of the function began after Stop had completed (at most the one in flight is possible)", o.AfterStop), true)
			}
			rep.LateStop = o.AfterStop
		}
		if c.StopMode != "async" && o.Status == "returned" {
			want := c.StopK
			if len(o.Stamps) != want {
				rep.fail("prop", "C20/prop/stop-count/"+c.StopMode,
					fmt.Sprintf("Stop at point %d (%s) but %d calls were made", c.StopK, c.StopMode, len(o.Stamps)), true)
			}
		}
		rep.Nontriv = len(o.Stamps) >= 1 && rep.Agreed
		if c.Kind == "realtime" {
			rep.PhaseOK, rep.PhaseNote = phaseClause(c, o)
		}
	case "silent":
		m, ok := ask(fmt.Sprintf("start %s 0 -1 %s", cfg, joinInts(c.Script)))
		if !ok {
			return rep
		}
		rep.Model = m.Raw
		if m.Status != "nofuel" || len(m.Stamps) != 0 {
			rep.fail("diff", "C20/diff/silent-model", "model does not predict a silent engine: "+m.Raw, false)
		}
		if len(o.Stamps) != 0 || len(o.Served) != 1 || o.Status != "no-return" {
			rep.fail("diff", "C20/diff/silent-config",
				fmt.Sprintf("skipped >= occurrences: expected no reading after the initial one, no call and no return; got served=%d stamps=%v status=%s", len(o.Served), o.Stamps, o.Status), true)
		} else {
			rep.Agreed = true
		}
	case "pulse":
		if o.Status != "returned" {
			rep.fail("diff", "C20/impl/pulse-"+strings.SplitN(o.Status, ":", 2)[0],
				fmt.Sprintf("Pulse ended as %q", o.Status), true)
			return rep
		}
		var want []int64
		var raws []string
		for i := range o.Served {
			m, ok := ask(fmt.Sprintf("pulse %s 0 0 %d", cfg, o.Served[i]))
			if !ok {
				return rep
			}
			raws = append(raws, m.Raw)
			want = append(want, m.Stamps...)
		}
		rep.Model = strings.Join(raws, " | ")
		if !equalInts(want, o.Stamps) {
			rep.fail("diff", "C20/diff/pulse-stamps/"+c.PulseVariant,
				fmt.Sprintf("Pulse stamps %v differ from the model's %v on readings %v (timer=%d occ=%d)", o.Stamps, want, o.Served, c.Timer, c.Occ), true)
		} else {
			rep.Agreed = true
		}
		pulses := 1
		if c.PulseVariant == "sequence" {
			pulses = len(c.Script)
		}
		if len(o.Stamps) != pulses || len(o.Served) != pulses {
			rep.fail("prop", "C20/prop/pulse-count/"+c.PulseVariant,
				fmt.Sprintf("%d pulse(s) made %d call(s) and %d clock reading(s)", pulses, len(o.Stamps), len(o.Served)), true)
		}
		if c.PulseVariant == "reentrant" {
			gm, ok := ask(fmt.Sprintf("pulse %s 0 1 %d", cfg, c.Script[0]))
			if ok && len(gm.Stamps) != 0 {
				rep.fail("diff", "C20/diff/pulse-guard-model", "model pulse while requested fires", false)
			}
			if o.NestedPulses != 1 || o.NestedServed != 0 {
				rep.fail("prop", "C20/prop/pulse-while-requested",
					fmt.Sprintf("nested Pulse: %d executed, %d clock readings", o.NestedPulses, o.NestedServed), true)
			}
		}
		for i := 0; i < len(o.Stamps) && i < len(o.Served); i++ {
			s, now := o.Stamps[i], o.Served[i]
			if !(s > now && s <= now+c.Timer && absMod(s, c.Timer) == 0) {
				rep.fail("prop", "C20/prop/pulse-boundary",
					fmt.Sprintf("pulse stamp %d is not the next boundary of period %d after reading %d", s, c.Timer, now), true)
				break
			}
		}
		rep.Nontriv = rep.Agreed && len(o.Stamps) >= 1
	}
	return rep
}

// phaseClause (realtime only, jitter tolerant): with occurrences*sub == timer, an occurrence i woken within half a
// sub-period of its boundary is stamped with phase i of the period.  Every phase in [skipped, occ) must show up in
// at least half of the cycles and phases below `skipped` in at most a third of the stamps.
func phaseClause(c Case, o Outcome) (bool, string) {
	sub := c.Timer / c.Occ
	cnt := make([]int, c.Occ)
	for _, s := range o.Stamps {
		cnt[absMod(s, c.Timer)/sub]++
	}
	cycles := c.StopK / (int(c.Occ) - c.Skipped)
	low := 0
	for p := 0; p < int(c.Occ); p++ {
		if p < c.Skipped {
			low += cnt[p]
		} else if cnt[p]*2 < cycles {
			return false, fmt.Sprintf("phase %d stamped %d times in %d cycles: %v", p, cnt[p], cycles, cnt)
		}
	}
	if low*3 > len(o.Stamps) {
		return false, fmt.Sprintf("skipped phases stamped %d times of %d: %v", low, len(o.Stamps), cnt)
	}
	return true, fmt.Sprint(cnt)
}

// ---------------------------------------------------------------- witnesses of the reported findings

type Witness struct {
	Name       string      `json:"name"`
	Theorem    string      `json:"theorem"`
	Reproduced bool        `json:"reproduced"`
	Detail     string      `json:"detail"`
	Case       interface{} `json:"case"`
	Outcome    interface{} `json:"outcome,omitempty"`
	Model      string      `json:"model,omitempty"`
}

func runWitnesses(d *driver) ([]Witness, []Failure) {
	var ws []Witness
	var stronger []Failure
	add := func(name, theorem string, c Case, cond func(o Outcome) bool, describe func(o Outcome) string) {
		rep := checkCase(c, d)
		o := rep.Outcome
		detail := describe(o) + "; model: " + rep.Model
		for _, f := range rep.Failures {
			detail += "; UNEXPECTED " + f.Signature + ": " + f.Detail
		}
		ws = append(ws, Witness{name, theorem, cond(o) && len(rep.Failures) == 0, detail, c, o, rep.Model})
		for _, f := range rep.Failures {
			if strings.HasPrefix(f.Signature, "C20/stop-ignored/") {
				stronger = append(stronger, f)
			}
		}
	}
	// 1. late Stop: Stop completes inside watch.Now() of the first stamped occurrence
	add("late-stop", "C20_stop_counterexample",
		Case{Kind: "start", Timer: 2000000, Occ: 1, Skipped: 0, StopMode: "in-now", StopK: 1, Script: []int64{0, 2000001}},
		func(o Outcome) bool { return o.Status == "returned" && len(o.Stamps) == 1 && o.AfterStop == 1 },
		func(o Outcome) string {
			return fmt.Sprintf("Stop() returned inside watch.Now() #1; afterwards the function was still called %d time(s), stamps %v", o.AfterStop, o.Stamps)
		})
	// 2. stamps are not multiples relative to the Unix epoch when the sub-period does not divide Z
	add("unix-misaligned", "C20_aligned_unix_counterexample",
		Case{Kind: "start", Timer: 7000000, Occ: 1, Skipped: 0, StopMode: "in-function", StopK: 1, Script: []int64{0, 7000001}},
		func(o Outcome) bool {
			return len(o.Stamps) == 1 && o.Stamps[0]%7000000 != 0 && absMod(o.Stamps[0], 7000000) == 0
		},
		func(o Outcome) string {
			if len(o.Stamps) == 0 {
				return "no stamp"
			}
			return fmt.Sprintf("period 7ms: stamp %d; stamp mod period = %d (Unix epoch), (stamp+Z) mod period = %d", o.Stamps[0], o.Stamps[0]%7000000, absMod(o.Stamps[0], 7000000))
		})
	// 3. repeated stamp
	add("repeated-stamp", "C20_monotone_not_strict",
		Case{Kind: "start", Timer: 2000000, Occ: 1, Skipped: 0, StopMode: "in-function", StopK: 2, Script: []int64{0, 3200000, 4000000}},
		func(o Outcome) bool { return len(o.Stamps) == 2 && o.Stamps[0] == o.Stamps[1] },
		func(o Outcome) string {
			return fmt.Sprintf("readings 3.2ms (late wake-up) then 4.0ms with sub-period 2ms: stamps %v", o.Stamps)
		})
	// 4. occurrences > period in ns: subTimer == 0, Ticker.Reset panics inside Start
	add("subtimer-zero-panic", "C20_degenerate_panic",
		Case{Kind: "start", Timer: 1000000, Occ: 1000001, Skipped: 0, StopMode: "in-function", StopK: 1, Script: []int64{0, 1}},
		func(o Outcome) bool { return strings.HasPrefix(o.Status, "panic") },
		func(o Outcome) string { return "Start with occurrences > timer nanoseconds: " + o.Status })
	// 5. skipped >= occurrences: never calls, never observes Stop
	ws = append(ws, deafWitness("all-skipped-deaf", Case{Kind: "start", Timer: 2000000, Occ: 1, Skipped: 1, Script: []int64{0, 1, 2}}))
	// 6. occurrences == 0: empty inner loop, busy outer loop
	ws = append(ws, deafWitness("zero-occurrences-spin", Case{Kind: "start", Timer: 2000000, Occ: 0, Skipped: 0, Script: []int64{0, 1, 2}}))
	return ws, stronger
}

// deafWitness: Start, wait, Stop, wait: the goroutine never reads the clock again, never calls the function and
// does not return after Stop.  The goroutine is left behind (the process exits right after the witnesses).
func deafWitness(name string, c Case) Witness {
	var served, calls int64
	watch := new(application.TimeProviderMock)
	watch.NowFunc = func() time.Time { atomic.AddInt64(&served, 1); return time.Unix(0, 0) }
	eng := clock.NewEngine(func(int64) { atomic.AddInt64(&calls, 1) }, watch, time.Duration(c.Timer), c.Occ, c.Skipped)
	done := make(chan struct{})
	go func() {
		defer func() { _ = recover(); close(done) }()
		eng.Start()
	}()
	for i := 0; i < 5000 && atomic.LoadInt64(&served) == 0; i++ {
		time.Sleep(time.Millisecond) // `started` is true once the initial reading has been taken
	}
	time.Sleep(time.Duration(c.Timer) * 10)
	eng.Stop()
	returned := false
	select {
	case <-done:
		returned = true
	case <-time.After(300 * time.Millisecond):
	}
	s, k := atomic.LoadInt64(&served), atomic.LoadInt64(&calls)
	return Witness{name, "C20_degenerate_silent", !returned && s == 1 && k == 0,
		fmt.Sprintf("timer=%d occurrences=%d skipped=%d: %d clock reading(s), %d call(s), Start returned within 300ms of Stop: %v",
			c.Timer, c.Occ, c.Skipped, s, k, returned), c, nil, ""}
}

// ---------------------------------------------------------------- main

type Summary struct {
	Tool       string                    `json:"tool"`
	Seed       int64                     `json:"seed"`
	Runs       int                       `json:"runs"`
	Evals      int                       `json:"evaluations"`
	Cases      int                       `json:"engine_runs"`
	Prim       int                       `json:"prim_evaluations"`
	Agreed     int                       `json:"traces_validated_against_impl"`
	Distinct   int                       `json:"distinct_nontrivial"`
	Rule       string                    `json:"rule"`
	Samples    []interface{}             `json:"samples"`
	Hist       map[string]map[string]int `json:"hist"`
	Failures   []Failure                 `json:"failures"`
	Witnesses  []Witness                 `json:"witnesses,omitempty"`
	Retried    int                       `json:"realtime_retries"`
	LateStops  int                       `json:"late_stop_calls"`
	LateSample interface{}               `json:"late_stop_sample,omitempty"`
	WallMs     int64                     `json:"wall_ms"`
	Aborted    string                    `json:"aborted,omitempty"`
	GoMaxProcs int                       `json:"gomaxprocs"`
}

func bump(h map[string]map[string]int, k, v string) {
	if h[k] == nil {
		h[k] = map[string]int{}
	}
	h[k][v]++
}

func runPool(cases []Case, workers int, d *driver, abortAfter int) []*caseReport {
	reps := make([]*caseReport, len(cases))
	var next int64 = -1
	var failed int64
	var wg sync.WaitGroup
	for w := 0; w < workers; w++ {
		wg.Add(1)
		go func() {
			defer wg.Done()
			for {
				i := int(atomic.AddInt64(&next, 1))
				if i >= len(cases) || atomic.LoadInt64(&failed) >= int64(abortAfter) {
					return
				}
				rep := checkCase(cases[i], d)
				if len(rep.Failures) > 0 {
					atomic.AddInt64(&failed, 1)
				}
				reps[i] = rep
			}
		}()
	}
	wg.Wait()
	return reps
}

func main() {
	seed := flag.Int64("seed", 1, "PRNG seed")
	runs := flag.Int("runs", 200, "number of Engine runs")
	driverPath := flag.String("driver", "", "path of the Lean clockdriver")
	replay := flag.String("replay", "", "file with a JSON case (or {\"case\":...}, or a list) to re-run")
	witness := flag.Bool("witness", false, "reproduce the reported findings on the real Engine and exit")
	workers := flag.Int("workers", 0, "concurrent Engine runs (default 4*GOMAXPROCS, max 64)")
	prim := flag.Int("prim", -1, "number of Truncate/Round evaluations (default 10*runs)")
	flag.Parse()
	t0 := time.Now()
	sum := Summary{Tool: "ruclock", Seed: *seed, Runs: *runs, Hist: map[string]map[string]int{}, Failures: []Failure{},
		Samples: []interface{}{}, GoMaxProcs: runtime.GOMAXPROCS(0),
		Rule: "distinct (kind, config, stop point, readings served) digests of runs in which the real Engine called the function at least once and its stamps, end status and calls-after-Stop equal the model's"}
	emit := func(code int) {
		sum.WallMs = time.Since(t0).Milliseconds()
		b, _ := json.Marshal(sum)
		fmt.Println(string(b))
		os.Exit(code)
	}
	if *driverPath == "" {
		sum.Failures = append(sum.Failures, Failure{"diff", "C20/harness/driver", "no --driver given", map[string]interface{}{}, false})
		emit(2)
	}
	d, err := newDriver(*driverPath)
	if err != nil {
		sum.Failures = append(sum.Failures, Failure{"diff", "C20/harness/driver", err.Error(), map[string]interface{}{}, false})
		emit(2)
	}
	if *witness {
		var stronger []Failure
		sum.Witnesses, stronger = runWitnesses(d)
		sum.Failures = append(sum.Failures, stronger...)
		sum.Evals = len(sum.Witnesses)
		emit(0) // os.Exit: the deaf goroutines die with the process
	}
	if *workers <= 0 {
		*workers = 4 * runtime.GOMAXPROCS(0)
		if *workers > 64 {
			*workers = 64
		}
	}
	var cases, rtCases []Case
	r := rand.New(rand.NewSource(*seed))
	if *replay != "" {
		raw, err := os.ReadFile(*replay)
		if err != nil {
			sum.Failures = append(sum.Failures, Failure{"diff", "C20/harness/replay", err.Error(), map[string]interface{}{}, false})
			emit(2)
		}
		cases = parseReplay(raw)
		for _, c := range cases {
			if c.Kind == "prim" && len(c.Script) == 1 {
				t, dd := c.Script[0], c.Timer
				tm := time.Unix(0, t)
				mt, _ := d.ask(fmt.Sprintf("trunc %d %d", t, dd))
				mr, _ := d.ask(fmt.Sprintf("round %d %d", t, dd))
				sum.Prim++
				if mt != strconv.FormatInt(tm.Truncate(time.Duration(dd)).UnixNano(), 10) {
					sum.Failures = append(sum.Failures, Failure{"diff", "C20/diff/prim-trunc", "Truncate differs from the model: " + mt, map[string]interface{}{"case": c}, true})
				}
				if mr != strconv.FormatInt(tm.Round(time.Duration(dd)).UnixNano(), 10) {
					sum.Failures = append(sum.Failures, Failure{"diff", "C20/diff/prim-round", "Round differs from the model: " + mr, map[string]interface{}{"case": c}, true})
				}
			}
		}
		if len(cases) == 0 {
			sum.Failures = append(sum.Failures, Failure{"diff", "C20/harness/replay", "no case in replay payload", map[string]interface{}{}, false})
			emit(2)
		}
		*prim = 0
	} else {
		for i := 0; i < *runs; i++ {
			switch x := r.Intn(100); {
			case x < 70:
				cases = append(cases, genStartCase(r, i))
			case x < 88:
				cases = append(cases, genPulseCase(r, i))
			case x < 91:
				cases = append(cases, genSilentCase(r, i))
			default:
				rtCases = append(rtCases, genRealtimeCase(r, i))
			}
		}
		if *prim < 0 {
			*prim = 10 * *runs
		}
	}
	if *replay != "" {
		var keep []Case
		for _, c := range cases {
			if c.Kind == "realtime" {
				rtCases = append(rtCases, c)
			} else if c.Kind != "prim" {
				keep = append(keep, c)
			}
		}
		cases = keep
	}

	// Truncate / Round of the runtime against the model's trunc / round
	for i := 0; i < *prim; i++ {
		t, dd := genPrim(r)
		tm := time.Unix(0, t)
		gt, gr := tm.Truncate(time.Duration(dd)).UnixNano(), tm.Round(time.Duration(dd)).UnixNano()
		mt, e1 := d.ask(fmt.Sprintf("trunc %d %d", t, dd))
		mr, e2 := d.ask(fmt.Sprintf("round %d %d", t, dd))
		sum.Prim++
		cls := "d>0"
		if dd <= 0 {
			cls = "d<=0"
		} else if absMod(t, dd) == 0 {
			cls = "on-multiple"
		} else if r2 := absMod(t, dd); r2+r2 >= dd {
			cls = "rounds-up"
		} else {
			cls = "rounds-down"
		}
		bump(sum.Hist, "prim_class", cls)
		if e1 != nil || e2 != nil {
			sum.Failures = append(sum.Failures, Failure{"diff", "C20/harness/driver", fmt.Sprint(e1, e2), map[string]interface{}{"t": t, "d": dd}, false})
			break
		}
		if mt != strconv.FormatInt(gt, 10) {
			sum.Failures = append(sum.Failures, Failure{"diff", "C20/diff/prim-trunc", fmt.Sprintf("time.Unix(0,%d).Truncate(%d) = %d, model %s", t, dd, gt, mt),
				map[string]interface{}{"case": Case{Kind: "prim", Script: []int64{t}, Timer: dd}}, true})
		}
		if mr != strconv.FormatInt(gr, 10) {
			sum.Failures = append(sum.Failures, Failure{"diff", "C20/diff/prim-round", fmt.Sprintf("time.Unix(0,%d).Round(%d) = %d, model %s", t, dd, gr, mr),
				map[string]interface{}{"case": Case{Kind: "prim", Script: []int64{t}, Timer: dd}}, true})
		}
		if len(sum.Failures) > 20 {
			break
		}
	}

	reps := runPool(cases, *workers, d, 25)
	// realtime cases: few at a time (they depend on being scheduled on time), retried with longer periods
	rtWorkers := runtime.GOMAXPROCS(0) / 4
	if rtWorkers < 1 {
		rtWorkers = 1
	}
	rtReps := runPool(rtCases, rtWorkers, d, 25)
	confirmed := 0
	for i, rep := range rtReps {
		if rep == nil {
			continue
		}
		if len(rep.Failures) == 0 && !rep.PhaseOK && confirmed >= 2 {
			rep.PhaseNote = "not retried: two realtime cases already failed every attempt"
			rep.Case.Attempt = -1
			continue
		}
		for attempt := 1; attempt <= 3 && len(rep.Failures) == 0 && !rep.PhaseOK; attempt++ {
			c := rep.Case
			c.Attempt = attempt
			c.Timer *= 3
			sum.Retried++
			rep = checkCase(c, d)
			rtReps[i] = rep
		}
		if len(rep.Failures) == 0 && !rep.PhaseOK {
			confirmed++
			rep.fail("prop", "C20/realtime/phase-coverage",
				"the occurrences stamped in each cycle are not the ones with i >= skipped, even with 27x longer periods: "+rep.PhaseNote, true)
		}
	}
	reps = append(reps, rtReps...)

	digests := map[string]bool{}
	for _, rep := range reps {
		if rep == nil {
			sum.Aborted = "too many failing runs; remaining cases skipped"
			continue
		}
		sum.Cases++
		c := rep.Case
		bump(sum.Hist, "kind", c.Kind)
		bump(sum.Hist, "config_occ/skipped", fmt.Sprintf("%d/%d", c.Occ, c.Skipped))
		bump(sum.Hist, "timer_ns", strconv.FormatInt(c.Timer, 10))
		if c.StopMode != "" {
			bump(sum.Hist, "stop_mode", c.StopMode)
		}
		if c.PulseVariant != "" {
			bump(sum.Hist, "pulse_variant", c.PulseVariant)
		}
		for i, l := range c.Labels {
			if i < len(rep.Outcome.Served) {
				bump(sum.Hist, "reading_class", l)
			}
		}
		bump(sum.Hist, "stamps_per_run", strconv.Itoa(len(rep.Outcome.Stamps)))
		bump(sum.Hist, "end_status", strings.SplitN(rep.Outcome.Status, ":", 2)[0])
		if c.Kind == "start" || c.Kind == "realtime" {
			bump(sum.Hist, "readings_monotone", strconv.FormatBool(rep.Monotone))
			bump(sum.Hist, "repeated_stamps", strconv.Itoa(rep.Repeats))
			bump(sum.Hist, "calls_begun_after_stop", strconv.Itoa(rep.Outcome.AfterStop))
		}
		if c.Kind == "realtime" {
			bump(sum.Hist, "realtime_attempt", strconv.Itoa(c.Attempt))
		}
		if rep.Agreed {
			sum.Agreed++
		}
		if rep.LateStop == 1 && len(rep.Failures) == 0 {
			sum.LateStops++
			if sum.LateSample == nil {
				sum.LateSample = map[string]interface{}{"case": c, "outcome": rep.Outcome, "model": rep.Model}
			}
		}
		if rep.Nontriv {
			digests[rep.Digest] = true
		}
		if len(sum.Samples) < 3 && rep.Nontriv && len(rep.Outcome.Stamps) >= 2 {
			sum.Samples = append(sum.Samples, map[string]interface{}{"case": c, "served": rep.Outcome.Served,
				"stamps": rep.Outcome.Stamps, "model": rep.Model})
		}
		sum.Failures = append(sum.Failures, rep.Failures...)
	}
	sum.Distinct = len(digests)
	sum.Evals = sum.Cases + sum.Prim
	sort.SliceStable(sum.Failures, func(i, j int) bool { return sum.Failures[i].Signature < sum.Failures[j].Signature })
	if len(sum.Failures) > 40 {
		sum.Failures = sum.Failures[:40]
	}
	d.close()
	if len(sum.Failures) > 0 {
		emit(1)
	}
	emit(0)
}

func parseReplay(raw []byte) []Case {
	var one Case
	if json.Unmarshal(raw, &one) == nil && one.Kind != "" {
		return []Case{one}
	}
	var wrapped struct {
		Case   *Case `json:"case"`
		Replay *struct {
			Case *Case `json:"case"`
		} `json:"replay"`
	}
	if json.Unmarshal(raw, &wrapped) == nil {
		if wrapped.Case != nil && wrapped.Case.Kind != "" {
			return []Case{*wrapped.Case}
		}
		if wrapped.Replay != nil && wrapped.Replay.Case != nil {
			return []Case{*wrapped.Replay.Case}
		}
	}
	var many []Case
	if json.Unmarshal(raw, &many) == nil {
		return many
	}
	return nil
}
