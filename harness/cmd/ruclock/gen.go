package main

import (
	"math/big"
	"math/rand"
)

// zeroOffsetSeconds is the distance between Go's zero time (January 1, year 1 UTC) and the Unix epoch.
const zeroOffsetSeconds = 62135596800

var bigZ = new(big.Int).Mul(big.NewInt(zeroOffsetSeconds), big.NewInt(1000000000))

// absMod returns (unixNano + Z) mod d for d > 0, computed without overflow. It is used by the generator (to
// place readings around boundaries) and by the property clauses evaluated on the stamps the real Engine
// delivered; the stamps themselves always come from the real Engine.
func absMod(unixNano, d int64) int64 {
	x := new(big.Int).Add(big.NewInt(unixNano), bigZ)
	return new(big.Int).Mod(x, big.NewInt(d)).Int64()
}

// Case is one execution of the real Engine; it is also the replay payload.
type Case struct {
	ID           int      `json:"id"`
	Kind         string   `json:"kind"` // start | realtime | pulse | silent | prim
	Timer        int64    `json:"timer_ns"`
	Occ          int64    `json:"occurrences"`
	Skipped      int      `json:"skipped"`
	Script       []int64  `json:"script,omitempty"` // readings served by watch.Now(), in order
	Labels       []string `json:"labels,omitempty"` // generator class of each reading
	StopMode     string   `json:"stop_mode,omitempty"`
	StopK        int      `json:"stop_k,omitempty"`
	AsyncUs      int      `json:"async_us,omitempty"`
	PulseVariant string   `json:"pulse_variant,omitempty"`
	Attempt      int      `json:"attempt,omitempty"`
}

func subTimerOf(timer, occ int64) int64 {
	// only used to place readings; the Engine computes its own sub-period
	if occ > 0 {
		return timer / occ
	}
	return timer
}

var timerChoices = []int64{
	1000000, 2000000, 3000000, 5000000, // whole milliseconds (divide Z)
	1234567, 2500001, 1999999, 700000, 4000037, // do not divide Z
	1500000, 2400000, 3600000,
}

var occChoices = []int64{1, 1, 1, 2, 3, 4, 4, 6, 7}

func genConfig(r *rand.Rand) (timer, occ int64, skipped int) {
	timer = timerChoices[r.Intn(len(timerChoices))]
	occ = occChoices[r.Intn(len(occChoices))]
	switch r.Intn(10) {
	case 0:
		skipped = -1 - r.Intn(2) // a negative count skips nothing
	case 1, 2, 3, 4:
		skipped = 0
	case 5, 6, 7:
		skipped = 1
	default:
		skipped = r.Intn(int(occ))
	}
	if int64(skipped) >= occ {
		skipped = int(occ) - 1
	}
	return
}

func genBase(r *rand.Rand) int64 {
	switch r.Intn(8) {
	case 0:
		return 0
	case 1:
		return r.Int63n(1000000000)
	case 2:
		return -r.Int63n(100000000000000000) // before 1970
	case 3:
		return 4000000000000000000 + r.Int63n(1000000000000) // year 2096
	case 4:
		return r.Int63n(8000000000000000000) - 4000000000000000000
	default:
		return 1790000000000000000 + r.Int63n(100000000000000000) // around 2026-2029
	}
}

// genScript produces n+1 readings: the initial one (consumed by Start/Pulse for the first deadline) and n
// readings for stamped occurrences, placed around multiples of sub (absolute clock).
func genScript(r *rand.Rand, timer, sub int64, n int) ([]int64, []string) {
	base := genBase(r)
	grid0 := base - absMod(base, sub)
	script := make([]int64, 0, n+1)
	labels := make([]string, 0, n+1)
	// initial reading: around a boundary of the period
	t0 := base - absMod(base, timer)
	switch r.Intn(5) {
	case 0:
		script, labels = append(script, t0), append(labels, "init-exact")
	case 1:
		script, labels = append(script, t0-1), append(labels, "init-before1")
	case 2:
		script, labels = append(script, t0+1), append(labels, "init-after1")
	default:
		script, labels = append(script, base), append(labels, "init-random")
	}
	forceMono := r.Intn(10) < 6
	var m int64
	prev := script[0]
	havePrev := false
	for i := 0; i < n; i++ {
		switch x := r.Intn(100); {
		case x < 60:
			m++
		case x < 70: // same boundary again
		case x < 85:
			m += 2 + int64(r.Intn(3)) // delayed by k*sub
		case x < 90:
			m += 1000 + r.Int63n(1000000) // clock jump forward
		case x < 95 && !forceMono:
			m -= 1 + int64(r.Intn(3)) // clock stepped back
		default:
			m++
		}
		var off int64
		var label string
		half := sub / 2
		switch r.Intn(11) {
		case 0:
			off, label = 0, "exact"
		case 1:
			off, label = 1, "after1"
		case 2:
			off, label = -1, "before1"
		case 3: // smallest remainder that rounds up
			off, label = (sub+1)/2, "half-up"
		case 4: // largest remainder that rounds down
			off, label = (sub+1)/2-1, "half-down"
		case 5:
			off, label = -r.Int63n(half+1), "early-small"
		case 6:
			off, label = r.Int63n(half+1), "late-small"
		case 7:
			off, label = half+r.Int63n(sub+1), "late-big"
		case 8:
			off, label = -half, "minus-half"
		default:
			off, label = r.Int63n(sub), "random"
		}
		v := grid0 + m*sub + off
		if forceMono && havePrev && v < prev {
			v, label = prev, "repeat-prev"
		}
		prev, havePrev = v, true
		script, labels = append(script, v), append(labels, label)
	}
	return script, labels
}

func genStartCase(r *rand.Rand, id int) Case {
	timer, occ, skipped := genConfig(r)
	sub := subTimerOf(timer, occ)
	c := Case{ID: id, Kind: "start", Timer: timer, Occ: occ, Skipped: skipped}
	n := 1 + r.Intn(12)
	switch x := r.Intn(100); {
	case x < 50:
		c.StopMode, c.StopK = "in-function", n // Stop called inside the n-th call of the function
		c.Script, c.Labels = genScript(r, timer, sub, n)
	case x < 75:
		c.StopMode = "in-now" // Stop called inside the StopK-th call of watch.Now() (0 = the initial one)
		if r.Intn(4) == 0 {
			n = 0
		}
		c.StopK = n
		c.Script, c.Labels = genScript(r, timer, sub, n)
	default:
		c.StopMode = "async" // Stop from another goroutine after a real delay
		c.AsyncUs = 200 + r.Intn(int(timer/1000)*6+1)
		c.Script, c.Labels = genScript(r, timer, sub, n)
	}
	if c.StopMode == "in-function" && r.Intn(6) == 0 {
		// the function calls engine.Pulse() during its first call, while the engine is started (only with a Stop
		// that cannot precede that call: Pulse on an engine that is being stopped stops the shared ticker)
		c.PulseVariant = "while-started"
	}
	return c
}

func genPulseCase(r *rand.Rand, id int) Case {
	timer, occ, skipped := genConfig(r)
	if r.Intn(3) == 0 {
		occ = 0 // the unit test's configuration of a pulse-only engine
		skipped = 0
	}
	c := Case{ID: id, Kind: "pulse", Timer: timer, Occ: occ, Skipped: skipped}
	switch r.Intn(4) {
	case 0:
		c.PulseVariant = "reentrant"
	case 1:
		c.PulseVariant = "sequence"
	default:
		c.PulseVariant = "single"
	}
	n := 0
	if c.PulseVariant == "sequence" {
		n = 1 + r.Intn(3)
	}
	// readings around boundaries of the *period*
	c.Script, c.Labels = genScript(r, timer, timer, n)
	return c
}

func genSilentCase(r *rand.Rand, id int) Case {
	timer, occ, _ := genConfig(r)
	c := Case{ID: id, Kind: "silent", Timer: timer, Occ: occ, Skipped: int(occ) + r.Intn(2)}
	c.Script, c.Labels = genScript(r, timer, subTimerOf(timer, occ), 3)
	return c
}

func genRealtimeCase(r *rand.Rand, id int) Case {
	occ := []int64{1, 2, 4, 4, 3}[r.Intn(5)]
	sub := int64(6+r.Intn(5)) * 1000000 // 6..10 ms
	timer := sub * occ
	skipped := 0
	if occ > 1 {
		skipped = r.Intn(int(occ))
	}
	cycles := 6
	return Case{ID: id, Kind: "realtime", Timer: timer, Occ: occ, Skipped: skipped,
		StopMode: "in-function", StopK: cycles * (int(occ) - skipped)}
}

// genPrim produces an argument pair for Truncate/Round.
func genPrim(r *rand.Rand) (t, d int64) {
	t = genBase(r)
	switch r.Intn(10) {
	case 0:
		d = 0
	case 1:
		d = -r.Int63n(1000000000)
	case 2:
		d = 1 + r.Int63n(10)
	case 3:
		d = (1 + r.Int63n(100000)) * 1000000000 // whole seconds
	case 4:
		d = []int64{1, 2, 5, 1000, 1000000, 500000000, 250000000, 1000000000, 60000000000, 3600000000000, 86400000000000, 7000000000, 333333333}[r.Intn(13)]
	case 5:
		d = 1 + r.Int63n(1000000000000000000) // results stay within int64 nanoseconds
	default:
		d = 1 + r.Int63n(10000000000)
	}
	if d > 0 {
		switch r.Intn(6) {
		case 0:
			t -= absMod(t, d) // exactly on a multiple
		case 1:
			t = t - absMod(t, d) + d/2 // half way (rounds up when d even)
		case 2:
			t = t - absMod(t, d) + (d+1)/2 - 1
		case 3:
			t = t - absMod(t, d) - 1
		}
	}
	return
}
