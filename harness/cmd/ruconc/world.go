package main

// The world of one ruconc run: a REAL validator (host H) assembled from the public constructors exactly as
// validatornode/main.go does — real Blockchain, UtxosRegistry, AddressesRegistry, TransactionsPool AND real
// Neighborhood — with fakes only at the system boundary (proof-of-humanity oracle, neighbour senders, logger,
// settings, sender factory).  Two pre-built block lineages M and N (sharing a 4-block prefix P that splits the
// genesis into many spendable outputs) are served by the neighbours so that Update has something to adopt:
// extensions (commit path) and deep forks (Clear + rebuild path).

import (
	"encoding/json"
	"fmt"
	"sync"
	"sync/atomic"
	"time"

	"github.com/my-cloud/ruthenium/validatornode/application"
	"github.com/my-cloud/ruthenium/validatornode/application/network"
	"github.com/my-cloud/ruthenium/validatornode/application/validation"
	"github.com/my-cloud/ruthenium/validatornode/application/verification"
	"github.com/my-cloud/ruthenium/validatornode/domain/ledger"

	"ruverif/internal/node"
)

const T0 = int64(1_700_000_040_000_000_000) // multiple of one minute

const splitCount = 400 // 0..119: transactions submitted to the host; 120..259 / 260..399: one per block of lineage M / N

const hostSplit = 120

type watch struct{}

func (watch) Now() time.Time { return time.Now() }

// recSenders wraps the real Neighborhood: it records the incentives (= acknowledged admissions, see
// TransactionsPool.AddTransaction) and delegates everything.
type recSenders struct {
	inner    application.SendersManager
	mu       sync.Mutex
	admitted []string
	hook     func(method string) // placement hook (nil outside placement mode)
}

func (r *recSenders) AddTargets(t []string) { r.inner.AddTargets(t) }
func (r *recSenders) HostTarget() string    { return r.inner.HostTarget() }
func (r *recSenders) Incentive(t string) {
	r.mu.Lock()
	r.admitted = append(r.admitted, t)
	r.mu.Unlock()
	r.inner.Incentive(t)
}
func (r *recSenders) Senders() []application.Sender {
	if r.hook != nil {
		r.hook("Neighborhood.Senders")
	}
	return r.inner.Senders()
}
func (r *recSenders) Admitted() []string {
	r.mu.Lock()
	defer r.mu.Unlock()
	return append([]string(nil), r.admitted...)
}

// peer is a scripted neighbour serving the world's currently published chain.
type peer struct {
	target string
	w      *World
}

func (p *peer) Target() string { return p.target }
func (p *peer) GetBlocks(h uint64) ([]byte, error) {
	if f := p.w.getBlocksHook.Load(); f != nil {
		(*f)()
	}
	return p.w.serve(h)
}
func (p *peer) GetFirstBlockTimestamp() (int64, error) { return 0, fmt.Errorf("n/a") }
func (p *peer) GetSettings() ([]byte, error)           { return nil, fmt.Errorf("n/a") }
func (p *peer) SendTargets([]string) error             { return nil }
func (p *peer) AddTransaction([]byte) error            { return nil }
func (p *peer) GetTransactions() ([]byte, error)       { return nil, fmt.Errorf("n/a") }
func (p *peer) GetUtxos(string) ([]byte, error)        { return nil, fmt.Errorf("n/a") }

// the sender factory hands out peers created before any goroutine starts (immutable objects: the harness
// itself must not add races through its own fakes)
type factory struct {
	w     *World
	peers map[string]*peer
}

func (f *factory) CreateSender(ip string, port string) (application.Sender, error) {
	if p, ok := f.peers[ip+":"+port]; ok {
		return p, nil
	}
	return nil, fmt.Errorf("unreachable")
}

type splitOut struct {
	txId  string
	index uint16
	by    *node.Wallet
}

type World struct {
	idByKey   map[string]string // request key (j@ts) -> transaction id
	attempted map[string]int64  // id -> tip timestamp read when its admission was attempted by submit() while judging
	judging   bool

	S       *node.Settings
	H       *node.Node
	Nbh     *network.Neighborhood
	SM      *recSenders
	A, B, C *node.Wallet
	Split   []splitOut
	P, M, N []*ledger.Block // common prefix and the two lineages (both start with P)
	competitor []*ledger.Block // same-height competitor of the host's chain (placements)

	served        atomic.Pointer[[]*ledger.Block]
	getBlocksHook atomic.Pointer[func()]
	reqMu         sync.Mutex
	reqCache      map[string][]byte
	txIds         map[string]bool
}

func (w *World) serve(h uint64) ([]byte, error) {
	bp := w.served.Load()
	if bp == nil {
		return nil, fmt.Errorf("nothing served")
	}
	blocks := *bp
	if h >= uint64(len(blocks)) {
		return []byte("[]"), nil
	}
	end := h + w.S.BlocksLimit
	if end > uint64(len(blocks)) {
		end = uint64(len(blocks))
	}
	return json.Marshal(blocks[h:end])
}

func (w *World) publish(blocks []*ledger.Block) {
	c := append([]*ledger.Block(nil), blocks...)
	w.served.Store(&c)
}

func staticSender(name string, blocks []*ledger.Block, limit uint64) *node.Sender {
	return &node.Sender{TargetValue: name, Blocks: func(h uint64) ([]byte, error) {
		if h >= uint64(len(blocks)) {
			return []byte("[]"), nil
		}
		end := h + limit
		if end > uint64(len(blocks)) {
			end = uint64(len(blocks))
		}
		return json.Marshal(blocks[h:end])
	}}
}

const farFuture = T0 + 100000*int64(time.Minute)

// adopt makes a fresh node (private genesis by `validator`) adopt `chain` through the real Update.
func adopt(name string, s *node.Settings, validator string, chain []*ledger.Block) (*node.Node, error) {
	n := node.New(name, s, validator)
	n.Pool.Validate(T0)
	n.Senders.Set([]application.Sender{staticSender("src", chain, s.BlocksLimit)})
	for i := 0; i < 6 && len(n.AllBlocks()) < len(chain); i++ {
		n.Chain.Update(farFuture)
	}
	got := n.AllBlocks()
	if len(got) != len(chain) || node.HashHex(got[len(got)-1]) != node.HashHex(chain[len(chain)-1]) {
		return n, fmt.Errorf("node %s did not adopt the %d-block chain (has %d): %v", name, len(chain), len(got), tailStr(n.Log.Snapshot(), 4))
	}
	return n, nil
}

func tailStr(l []string, k int) []string {
	if len(l) > k {
		return l[len(l)-k:]
	}
	return l
}

type worldOpts struct {
	lineage   int  // length of the lineages M and N
	hostExtra int  // blocks of M the host holds beyond P at the start
	realSM    bool // wire the real Neighborhood (false: harness fake, used by leak mode)
}

// buildLineages builds P, M, N with real producer nodes.
func buildLineages(s *node.Settings, A, B *node.Wallet, length int) (P, M, N []*ledger.Block, split []splitOut, err error) {
	pa := node.New("pa", s, A.Address)
	pa.Pool.Validate(T0)
	gid := pa.AllBlocks()[0].Transactions()[0].Id()
	var outs []node.RawOutput
	var wallets []*node.Wallet
	for j := 0; j < splitCount; j++ {
		// 40 wallets own 10 split outputs each: an address then holds a LIST of outputs that spends shrink from the
		// middle while outputs queries read it
		wj := node.NewWallet(100 + j%40)
		wallets = append(wallets, wj)
		outs = append(outs, node.RawOutput{Address: wj.Address, IsYielding: false, Value: 20_000})
	}
	pa.Pool.Validate(T0 + s.Interval) // the genesis output is confirmed once a second block exists
	tx, _, e := node.MakeTx([]node.Spend{{TxId: gid, Index: 0, By: A}}, outs, T0+s.Interval)
	if e != nil {
		return nil, nil, nil, nil, e
	}
	pa.Pool.AddTransaction(tx, "", "")
	if len(pa.Pool.Transactions()) != 1 {
		return nil, nil, nil, nil, fmt.Errorf("split transaction refused: %v", tailStr(pa.Log.Snapshot(), 3))
	}
	for i := 2; i <= 3; i++ {
		pa.Pool.Validate(T0 + int64(i)*s.Interval)
	}
	P = pa.AllBlocks()
	if len(P) != 4 || len(P[2].Transactions()) != 2 {
		return nil, nil, nil, nil, fmt.Errorf("prefix: %d blocks, block 2 has %d transactions", len(P), len(P[2].Transactions()))
	}
	for j := range wallets {
		split = append(split, splitOut{tx.Id(), uint16(j), wallets[j]})
	}
	pb, e := adopt("pb", s, B.Address, P)
	if e != nil {
		return nil, nil, nil, nil, e
	}
	// every block beyond the prefix changes the derived state: one ordinary transaction (fee 5 000 => a reward output
	// for the validator), every third one with a yielding output to a new address (=> a registration). A node that
	// confirms a block too early or too late then differs from the replay of its chain.
	for i := 4; i < length; i++ {
		for li, p := range []*node.Node{pa, pb} {
			k := hostSplit + li*140 + (i-4)%140
			so := split[k]
			to := node.NewWallet(2000 + li*1000 + i)
			ltx, _, e := node.MakeTx([]node.Spend{{TxId: so.txId, Index: so.index, By: so.by}},
				[]node.RawOutput{{Address: to.Address, IsYielding: i%3 == 0, Value: 15_000}}, p.Chain.LastBlockTimestamp())
			if e != nil {
				return nil, nil, nil, nil, e
			}
			p.Pool.AddTransaction(ltx, "", "")
		}
		pa.Pool.Validate(T0 + int64(i)*s.Interval)
		pb.Pool.Validate(T0 + int64(i)*s.Interval)
	}
	for _, p := range []*node.Node{pa, pb} {
		bl := p.AllBlocks()
		if length > 6 && len(bl) > 5 && len(bl[5].Transactions()) != 2 {
			return nil, nil, nil, nil, fmt.Errorf("lineage block 5 has %d transactions, expected 2: %v", len(bl[5].Transactions()), tailStr(p.Log.Snapshot(), 3))
		}
	}
	M, N = pa.AllBlocks(), pb.AllBlocks()
	if len(M) != length || len(N) != length {
		return nil, nil, nil, nil, fmt.Errorf("lineages have %d and %d blocks, expected %d", len(M), len(N), length)
	}
	return
}

func newWorld(o worldOpts) (*World, error) {
	s := node.DefaultSettings()
	s.Timeout = 400 * time.Millisecond
	s.BlocksLimit = 1000
	w := &World{S: s, A: node.NewWallet(0), B: node.NewWallet(1), C: node.NewWallet(2), reqCache: map[string][]byte{}, txIds: map[string]bool{}}
	var err error
	w.P, w.M, w.N, w.Split, err = buildLineages(s, w.A, w.B, o.lineage)
	if err != nil {
		return nil, err
	}
	// the host: real components wired as in validatornode/main.go
	h := &node.Node{Name: "127.0.0.1:10000", Settings: s, Validator: w.C.Address}
	h.Humans = &node.Humans{Invalid: map[string]bool{}, Failing: map[string]bool{}}
	h.Log = &node.Logger{}
	h.Senders = &node.Senders{Host: h.Name}
	h.Reg = verification.NewAddressesRegistry(h.Humans, h.Log)
	h.Utxos = verification.NewUtxosRegistry(s)
	seeds := map[string]int{"127.0.0.1:10001": 0, "127.0.0.1:10002": 0}
	fac := &factory{w: w, peers: map[string]*peer{}}
	for t := range seeds {
		fac.peers[t] = &peer{target: t, w: w}
	}
	w.Nbh = network.NewNeighborhood(fac, "127.0.0.1", "10000", 8, seeds, watch{})
	w.SM = &recSenders{inner: w.Nbh}
	h.Chain = verification.NewBlockchain(h.Reg, s, w.SM, h.Utxos, h.Log)
	h.Pool = validation.NewTransactionsPool(h.Chain, s, w.SM, h.Utxos, w.C.Address, h.Log)
	w.H = h
	// neighbours known, host holds P + hostExtra blocks of M
	w.Nbh.Synchronize(0)
	time.Sleep(5 * time.Millisecond)
	h.Pool.Validate(T0)
	start := w.M[:len(w.P)+o.hostExtra]
	w.publish(start)
	for i := 0; i < 6 && len(h.AllBlocks()) < len(start); i++ {
		h.Chain.Update(farFuture)
	}
	if got := h.AllBlocks(); len(got) != len(start) {
		return nil, fmt.Errorf("host did not adopt the initial chain (has %d of %d): %v", len(got), len(start), tailStr(h.Log.Snapshot(), 4))
	}
	h.Log.Drain()
	return w, nil
}

// transaction request (JSON) spending split output j with timestamp ts; cached so that concurrent submitters
// send the very same transaction
func (w *World) request(j int, ts int64) ([]byte, string, error) {
	key := fmt.Sprintf("%d@%d", j, ts)
	w.reqMu.Lock()
	defer w.reqMu.Unlock()
	if b, ok := w.reqCache[key]; ok {
		return b, key, nil
	}
	so := w.Split[j%hostSplit]
	to := node.NewWallet(1000 + j)
	tx, _, err := node.MakeTx([]node.Spend{{TxId: so.txId, Index: so.index, By: so.by}},
		[]node.RawOutput{{Address: to.Address, IsYielding: false, Value: 15_000}}, ts)
	if err != nil {
		return nil, "", err
	}
	b, err := json.Marshal(ledger.NewTransactionRequest(tx, "tx:"+tx.Id()))
	if err != nil {
		return nil, "", err
	}
	w.reqCache[key] = b
	w.txIds[tx.Id()] = true
	if w.idByKey == nil {
		w.idByKey = map[string]string{}
	}
	w.idByKey[key] = tx.Id()
	return b, key, nil
}
