// ruconc — dynamic side of property C16 (and of the leak part of C13) on the REAL code.
//
//	--mode stress      for each requested set of roots (pairs / triples of the node's concurrent activities) run a
//	                   child process built with -race (GORACE=halt_on_error=0 log_path=…): the roots run concurrently
//	                   on one real node; the child watches for deadlock (no progress) and panics and checks the
//	                   invariants at quiescence; the parent parses the race detector's reports and maps every report
//	                   to a row (location, method A, method B) of the regenerated tables through the source lines of
//	                   the reported stacks.  A report that maps to a row of knownRaces CONFIRMS that row; any other
//	                   report is a failure C16/race/<Type.field>/<methodA>|<methodB>.
//	--mode leak        C13: goroutine count back to its baseline after sync rounds against faulty neighbours
//	--mode placements  run an inner operation inside a collaborator call of an outer one (decorated interfaces)
//	--mode child       internal
//
// Output: one JSON summary on stdout (last line).
package main

import (
	"bufio"
	"context"
	"encoding/json"
	"flag"
	"fmt"
	"os"
	"os/exec"
	"path/filepath"
	"regexp"
	"runtime"
	"sort"
	"strconv"
	"strings"
	"sync"
	"time"
)

type lineFact struct {
	Loc   string `json:"loc"`
	Owner string `json:"owner"`
	Kind  string `json:"kind"`
}

type tblRow struct {
	LocName   string `json:"locName"`
	AName     string `json:"aName"`
	BName     string `json:"bName"`
	Signature string `json:"signature"`
	Desc      string `json:"desc"`
	Witnesses []struct {
		RootA string `json:"rootA"`
		RootB string `json:"rootB"`
	} `json:"witnesses"`
}

type tables struct {
	Roots []struct {
		Name  string `json:"name"`
		Kind  string `json:"kind"`
		Multi bool   `json:"multi"`
	} `json:"roots"`
	Rows            []tblRow              `json:"rows"`
	Protected       []tblRow              `json:"protected"`
	Lines           map[string][]lineFact `json:"lines"`
	KnownPlacements []struct {
		OuterRoot string `json:"outerRoot"`
		OuterName string `json:"outerName"`
		Label     string `json:"label"`
		InnerRoot string `json:"innerRoot"`
		Signature string `json:"signature"`
		Why       string `json:"why"`
	} `json:"knownPlacements"`
	Placements []struct {
		OuterRoot string `json:"outerRoot"`
		OuterName string `json:"outerName"`
		Label     string `json:"label"`
		InnerRoot string `json:"innerRoot"`
		Signature string `json:"signature"`
		Verdict   string `json:"verdict"`
	} `json:"placements"`
}

type failure struct {
	Kind       string                 `json:"kind"`
	Signature  string                 `json:"signature"`
	Detail     string                 `json:"detail"`
	FoundInput bool                   `json:"found_input"`
	Replay     map[string]interface{} `json:"replay"`
}

type childParams struct {
	Roots    []string `json:"roots"`
	Seed     int64    `json:"seed"`
	Iters    int      `json:"iters"`
	PauseUs  int      `json:"pause_us"`
	Deadline int      `json:"deadline_s"`
}

type childResult struct {
	Roots      []string    `json:"roots"`
	Progress   []int64     `json:"progress"`
	Panics     []string    `json:"panics"`
	Deadlock   bool        `json:"deadlock"`
	Stacks     string      `json:"stacks,omitempty"`
	Invariants []invResult `json:"invariants"`
	ChainLen   int         `json:"chain_len"`
	Admitted   int         `json:"admitted"`
	Replaced   bool        `json:"replaced"`
	ElapsedMs  int64       `json:"elapsed_ms"`
	Fatal      string      `json:"fatal,omitempty"`
}

func emit(v interface{}) {
	b, _ := json.Marshal(v)
	fmt.Println(string(b))
}

func main() {
	mode := flag.String("mode", "stress", "stress | leak | placements | child | child-placement | child-leak")
	tablesPath := flag.String("tables", "", "tables.json written by ruextract-conc")
	work := flag.String("work", "", "scratch directory for race logs")
	seed := flag.Int64("seed", 1, "seed")
	sel := flag.String("select", "known", "stress: known | allpairs | comma list of a+b(+c) root sets; leak/placements: quick | thorough")
	triples := flag.Int("triples", 0, "stress: number of sampled triples")
	workers := flag.Int("workers", runtime.NumCPU(), "parallel child processes")
	iters := flag.Int("iters", 60, "iterations per root")
	params := flag.String("params", "", "child: JSON parameters")
	repo := flag.String("repo", "/repo", "repository root the binary was built against (to relativise stack frames)")
	flag.Parse()
	switch *mode {
	case "child":
		runChild(*params)
	case "child-placement":
		runPlacementChild(*params)
	case "child-leak":
		runLeakChild(*params)
	case "stress":
		runStress(*tablesPath, *work, *seed, *sel, *triples, *workers, *iters, *repo)
	case "leak":
		runLeak(*work, *seed, *sel, *workers)
	case "placements":
		runPlacements(*tablesPath, *work, *seed, *sel, *workers)
	case "lone":
		n := 3
		if *sel == "thorough" {
			n = 4
		}
		only := ""
		if strings.Contains(*sel, "/") {
			only = *sel
		}
		runLone(n, only)
	default:
		emit(map[string]string{"fatal": "unknown mode " + *mode})
		os.Exit(2)
	}
}

// ------------------------------------------------------------------ child

func runChild(params string) {
	var p childParams
	if err := json.Unmarshal([]byte(params), &p); err != nil {
		emit(childResult{Fatal: "bad params: " + err.Error()})
		os.Exit(2)
	}
	t0 := time.Now()
	res := childResult{Roots: p.Roots, Panics: []string{}}
	w, err := newWorld(worldOpts{lineage: 130, hostExtra: 2, realSM: true})
	if err != nil {
		res.Fatal = "world: " + err.Error()
		emit(res)
		os.Exit(2)
	}
	rc := newRunCtx(w, p.Seed)
	wg, err := rc.launch(p.Roots, p.Iters, time.Duration(p.PauseUs)*time.Microsecond)
	if err != nil {
		res.Fatal = err.Error()
		emit(res)
		os.Exit(2)
	}
	finished := make(chan struct{})
	go func() { wg.Wait(); close(finished) }()
	// monitor: no progress of any root for a long time while unfinished = deadlock
	last := make([]int64, len(p.Roots))
	lastChange := time.Now()
	tick := time.NewTicker(100 * time.Millisecond)
	hard := time.After(time.Duration(p.Deadline) * time.Second)
loop:
	for {
		select {
		case <-finished:
			break loop
		case <-hard:
			// slow, not stuck: stop the drivers and go on to the checks
			rc.stop.Store(true)
			select {
			case <-finished:
			case <-time.After(8 * time.Second):
				res.Deadlock = true
			}
			break loop
		case <-tick.C:
			changed := false
			for i := range last {
				v := rc.progress[i].Load()
				if v != last[i] {
					last[i] = v
					changed = true
				}
			}
			if rc.apiRoots == len(p.Roots) {
				changed = true
			}
			if changed {
				lastChange = time.Now()
			} else if time.Since(lastChange) > 6*time.Second {
				res.Deadlock = true
				break loop
			}
		}
	}
	for i := range p.Roots {
		res.Progress = append(res.Progress, rc.progress[i].Load())
	}
	if res.Deadlock {
		buf := make([]byte, 1<<18)
		buf = buf[:runtime.Stack(buf, true)]
		res.Stacks = summarizeStacks(string(buf))
		res.ElapsedMs = time.Since(t0).Milliseconds()
		emit(res)
		os.Exit(3)
	}
	rc.stop.Store(true)
	close(rc.stopCh)
	rc.inflight.Wait()
	time.Sleep(150 * time.Millisecond) // handler goroutines (AddTransaction, AddTargets, SendTargets) settle
drain:
	for {
		select {
		case s := <-rc.panics:
			res.Panics = append(res.Panics, s)
		default:
			break drain
		}
	}
	logs := w.H.Log.Snapshot()
	for _, l := range logs {
		if strings.Contains(l, "blockchain replaced") {
			res.Replaced = true
		}
	}
	res.Invariants = checkInvariants(w, res.Replaced, logs)
	res.ChainLen = len(w.H.AllBlocks())
	res.Admitted = len(w.SM.Admitted())
	res.ElapsedMs = time.Since(t0).Milliseconds()
	emit(res)
}

// keep only the goroutines that sit in the code under test, top frames
func summarizeStacks(all string) string {
	var out []string
	for _, g := range strings.Split(all, "\n\n") {
		if !strings.Contains(g, "ruthenium/validatornode") {
			continue
		}
		lines := strings.Split(g, "\n")
		if len(lines) > 13 {
			lines = lines[:13]
		}
		out = append(out, strings.Join(lines, "\n"))
	}
	s := strings.Join(out, "\n\n")
	if len(s) > 12000 {
		s = s[:12000]
	}
	return s
}

// ------------------------------------------------------------------ race reports

type frameT struct {
	Func string `json:"func"`
	File string `json:"file"`
	Line int    `json:"line"`
}

type accessT struct {
	Op     string   `json:"op"`
	Frames []frameT `json:"frames"`
}

type raceReport struct {
	Accesses []accessT `json:"accesses"`
}

var accRe = regexp.MustCompile(`^(Read|Write|Previous read|Previous write|Atomic read|Atomic write|Previous atomic read|Previous atomic write) at 0x[0-9a-f]+ by `)
var fileRe = regexp.MustCompile(`^\s+(\S+\.go):(\d+)`)

func parseRaceLog(text string) []raceReport {
	var reps []raceReport
	var cur *raceReport
	var acc *accessT
	inAccess := false
	var pendingFunc string
	sc := bufio.NewScanner(strings.NewReader(text))
	sc.Buffer(make([]byte, 1<<20), 1<<20)
	flushAcc := func() {
		if cur != nil && acc != nil {
			cur.Accesses = append(cur.Accesses, *acc)
		}
		acc = nil
	}
	for sc.Scan() {
		line := sc.Text()
		switch {
		case strings.HasPrefix(line, "WARNING: DATA RACE"):
			flushAcc()
			if cur != nil {
				reps = append(reps, *cur)
			}
			cur = &raceReport{}
			inAccess = false
		case strings.HasPrefix(line, "=================="):
			flushAcc()
			if cur != nil {
				reps = append(reps, *cur)
				cur = nil
			}
			inAccess = false
		case cur == nil:
		case accRe.MatchString(line):
			flushAcc()
			acc = &accessT{Op: accRe.FindStringSubmatch(line)[1]}
			inAccess = true
		case strings.HasPrefix(line, "Goroutine ") || strings.HasPrefix(line, "Mutex "):
			flushAcc()
			inAccess = false
		case inAccess && strings.TrimSpace(line) == "":
			flushAcc()
			inAccess = false
		case inAccess && acc != nil:
			if m := fileRe.FindStringSubmatch(line); m != nil {
				n, _ := strconv.Atoi(m[2])
				acc.Frames = append(acc.Frames, frameT{pendingFunc, m[1], n})
			} else {
				pendingFunc = strings.TrimSpace(line)
			}
		}
	}
	flushAcc()
	if cur != nil {
		reps = append(reps, *cur)
	}
	return reps
}

// facts of the first frame (from the top) that sits on a line with table facts
func (t *tables) factsOf(a accessT, repo string) ([]lineFact, string) {
	top := ""
	for _, f := range a.Frames {
		rel := strings.TrimPrefix(f.File, strings.TrimSuffix(repo, "/")+"/")
		if strings.Contains(f.File, "ruthenium/validatornode") || rel != f.File {
			if i := strings.Index(f.File, "validatornode/"); i >= 0 {
				rel = f.File[i:]
			}
			if top == "" {
				top = shortFunc(f.Func)
			}
			if facts, ok := t.Lines[fmt.Sprintf("%s:%d", rel, f.Line)]; ok {
				return facts, top
			}
		}
	}
	if top == "" && len(a.Frames) > 0 {
		top = shortFunc(a.Frames[0].Func)
	}
	return nil, top
}

var funcRe = regexp.MustCompile(`([A-Za-z0-9_]+)\.\(\*([A-Za-z0-9_]+)\)\.([A-Za-z0-9_]+)`)

func shortFunc(f string) string {
	if m := funcRe.FindStringSubmatch(f); m != nil {
		return m[2] + "." + m[3]
	}
	if i := strings.LastIndex(f, "/"); i >= 0 {
		f = f[i+1:]
	}
	if i := strings.Index(f, "("); i >= 0 {
		f = f[:i]
	}
	return f
}

func isWrite(op string) bool { return strings.Contains(strings.ToLower(op), "write") }

func conflictKinds(a, b string) bool {
	if a == "read" && (b == "read" || b == "append") {
		return false
	}
	if a == "append" && b == "read" {
		return false
	}
	return true
}

func baseLoc(l string) string { return strings.ReplaceAll(l, "[]", "") }

func ownerBase(n string) string {
	if i := strings.Index(n, "$go"); i >= 0 {
		return n[:i]
	}
	return n
}

func contains(l []string, x string) bool {
	for _, y := range l {
		if y == x {
			return true
		}
	}
	return false
}

// all table facts on the lines of a stack (any frame)
func (t *tables) allFacts(a accessT) []lineFact {
	var out []lineFact
	for _, f := range a.Frames {
		if i := strings.Index(f.File, "validatornode/"); i >= 0 {
			out = append(out, t.Lines[fmt.Sprintf("%s:%d", f.File[i:], f.Line)]...)
		}
	}
	return out
}

type verdict struct {
	Confirm []string // known rows this report is (exactly) an instance of
	Derived []string // not a table row itself, but downstream of the unprotected publication of these locations
	Fresh   string   // otherwise: the signature of a race the table does not know
}

// classify maps one race report to the tables.
//
//  1. first frame (from the top) of each stack that sits on a line with table facts; a pair of facts on the same
//     location with conflicting kinds is a row (location, owner A, owner B)
//  2. a pair on a backing store `f[]` that the table regards as ordered GIVEN an ordered header (append vs read of
//     published slots, or a fresh container published by a header write) is downstream of the header's rows
//  3. a race on an object reached through an unprotected location (block / transaction / sender / map internals
//     published without synchronisation) is downstream of that location's rows
//
// component methods on a stack ("Type.method"), closures folded into their method
func stackMethods(a accessT) map[string]bool {
	out := map[string]bool{}
	for _, f := range a.Frames {
		if strings.Contains(f.File, "validatornode/") {
			out[shortFunc(f.Func)] = true
		}
	}
	return out
}

func (t *tables) classify(r raceReport, repo string, known map[string]bool, knownBases map[string]bool) verdict {
	var v verdict
	if len(r.Accesses) < 2 {
		v.Fresh = "C16/race/unparsed"
		return v
	}
	fa, ta := t.factsOf(r.Accesses[0], repo)
	fb, tb := t.factsOf(r.Accesses[1], repo)
	cand := map[string]bool{}
	weak := map[string]bool{}
	for _, x := range fa {
		for _, y := range fb {
			if x.Loc != y.Loc {
				continue
			}
			if isWrite(r.Accesses[0].Op) && x.Kind == "read" || isWrite(r.Accesses[1].Op) && y.Kind == "read" {
				continue
			}
			names := []string{x.Owner, y.Owner}
			sort.Strings(names)
			sig := "C16/race/" + x.Loc + "/" + names[0] + "|" + names[1]
			if conflictKinds(x.Kind, y.Kind) {
				cand[sig] = true
			} else {
				weak[x.Loc] = true
			}
		}
	}
	for s := range cand {
		if known[s] {
			v.Confirm = append(v.Confirm, s)
		}
	}
	// the same location, reported for an access made inside a call of the row's method (e.g. isEmpty() called by
	// FirstBlockTimestamp(): the detector reports one race per address, the first one of the call)
	if len(cand) > 0 {
		ma, mb := stackMethods(r.Accesses[0]), stackMethods(r.Accesses[1])
		locs := map[string]bool{}
		for s := range cand {
			locs[strings.Split(s, "/")[2]] = true
		}
		for _, row := range t.Rows {
			if !locs[row.LocName] || known[row.Signature] && contains(v.Confirm, row.Signature) {
				continue
			}
			a, b := ownerBase(row.AName), ownerBase(row.BName)
			if ma[a] && mb[b] || ma[b] && mb[a] {
				v.Confirm = append(v.Confirm, row.Signature)
			}
		}
	}
	sort.Strings(v.Confirm)
	if len(v.Confirm) > 0 {
		return v
	}
	der := map[string]bool{}
	for l := range weak {
		if knownBases[baseLoc(l)] && strings.HasSuffix(l, "[]") {
			der[baseLoc(l)] = true
		}
	}
	for s := range cand {
		// a candidate on a backing store whose header has known rows
		parts := strings.Split(s, "/")
		if len(parts) >= 3 && strings.HasSuffix(parts[2], "[]") && knownBases[baseLoc(parts[2])] {
			der[baseLoc(parts[2])] = true
		}
	}
	if len(cand) == 0 {
		for _, f := range append(t.allFacts(r.Accesses[0]), t.allFacts(r.Accesses[1])...) {
			if knownBases[baseLoc(f.Loc)] {
				der[baseLoc(f.Loc)] = true
			}
		}
		// objects handed around by methods that make unprotected accesses (a transaction read out of the racy pool,
		// a UTXO out of the racy registry map) are published without synchronisation
		for _, acc := range r.Accesses[:2] {
			for m := range stackMethods(acc) {
				if strings.HasPrefix(m, "Engine.") {
					continue // every engine root runs under Engine.Start: not evidence of anything
				}
				for _, row := range t.Rows {
					if ownerBase(row.AName) == m || ownerBase(row.BName) == m {
						der[baseLoc(row.LocName)] = true
					}
				}
			}
		}
	}
	if len(der) > 0 {
		for l := range der {
			v.Derived = append(v.Derived, l)
		}
		sort.Strings(v.Derived)
		return v
	}
	if len(cand) > 0 {
		var cs []string
		for s := range cand {
			cs = append(cs, s)
		}
		sort.Strings(cs)
		v.Fresh = cs[0]
		return v
	}
	names := []string{ta, tb}
	sort.Strings(names)
	v.Fresh = "C16/race/unmapped/" + names[0] + "|" + names[1]
	return v
}

// ------------------------------------------------------------------ stress parent

type runSpec struct {
	Roots []string
	Why   string
}

type runOutcome struct {
	Spec    runSpec
	Result  childResult
	Reports []raceReport
	ExitErr string
	Stderr  string
	Timeout bool
}

func loadTables(path string) *tables {
	b, err := os.ReadFile(path)
	if err != nil {
		emit(map[string]string{"fatal": "tables: " + err.Error()})
		os.Exit(2)
	}
	var t tables
	if err := json.Unmarshal(b, &t); err != nil {
		emit(map[string]string{"fatal": "tables: " + err.Error()})
		os.Exit(2)
	}
	return &t
}

func runOne(spec runSpec, id int, work string, seed int64, iters int) runOutcome {
	out := runOutcome{Spec: spec}
	p := childParams{Roots: spec.Roots, Seed: seed + int64(id), Iters: iters, PauseUs: 300, Deadline: 40}
	pb, _ := json.Marshal(p)
	logBase := filepath.Join(work, fmt.Sprintf("race-%d", id))
	ctx, cancel := context.WithTimeout(context.Background(), 90*time.Second)
	defer cancel()
	cmd := exec.CommandContext(ctx, os.Args[0], "--mode", "child", "--params", string(pb))
	cmd.Env = append(os.Environ(), "GORACE=halt_on_error=0 exitcode=0 log_path="+logBase+" history_size=3")
	var so, se strings.Builder
	cmd.Stdout, cmd.Stderr = &so, &se
	err := cmd.Run()
	if ctx.Err() != nil {
		out.Timeout = true
	}
	if err != nil {
		out.ExitErr = err.Error()
	}
	out.Stderr = se.String()
	if len(out.Stderr) > 6000 {
		out.Stderr = out.Stderr[len(out.Stderr)-6000:]
	}
	lines := strings.Split(strings.TrimSpace(so.String()), "\n")
	_ = json.Unmarshal([]byte(lines[len(lines)-1]), &out.Result)
	matches, _ := filepath.Glob(logBase + ".*")
	for _, m := range matches {
		b, err := os.ReadFile(m)
		if err == nil {
			out.Reports = append(out.Reports, parseRaceLog(string(b))...)
		}
		_ = os.Remove(m)
	}
	return out
}

func pairKey(roots []string) string {
	c := append([]string(nil), roots...)
	sort.Strings(c)
	return strings.Join(c, "+")
}

const txRoot = "handler:TransactionsController.HandleTransactionRequest"

// roots needed so that the accesses of a row actually happen: rows on the pool's backing store need transactions
// in the pool while the two methods of the row run
func supportFor(r tblRow, roots []string) []string {
	if strings.HasPrefix(r.LocName, "TransactionsPool.transactions[]") {
		for _, x := range roots {
			if x == txRoot {
				return roots
			}
		}
		return append(append([]string(nil), roots...), txRoot)
	}
	return roots
}

func runStress(tablesPath, work string, seed int64, sel string, triples, workers, iters int, repo string) {
	t := loadTables(tablesPath)
	if work == "" {
		emit(map[string]string{"fatal": "--work required"})
		os.Exit(2)
	}
	_ = os.MkdirAll(work, 0o755)
	drivable := func(r string) bool { _, ok := drivers[r]; return ok }
	allDrivable := func(rs []string) bool {
		for _, r := range rs {
			if !drivable(r) {
				return false
			}
		}
		return true
	}
	known := map[string]bool{}
	knownBases := map[string]bool{}
	for _, r := range t.Rows {
		known[r.Signature] = true
		knownBases[baseLoc(r.LocName)] = true
	}
	var specs []runSpec
	have := map[string]bool{}
	addSpec := func(roots []string, why string) bool {
		k := pairKey(roots)
		if have[k] || !allDrivable(roots) {
			return false
		}
		have[k] = true
		specs = append(specs, runSpec{roots, why})
		return true
	}
	// 1. one run per known row (its first drivable witness pair, plus support roots)
	undrivable := map[string]bool{}
	for _, r := range t.Rows {
		ok := false
		for _, w := range r.Witnesses {
			roots := supportFor(r, []string{w.RootA, w.RootB})
			if allDrivable(roots) {
				addSpec(roots, "witness of "+r.Signature)
				ok = true
				break
			}
		}
		if !ok {
			undrivable[r.Signature] = true
		}
	}
	// 2. negative controls: pairs that witness protected rows
	ctl := 0
	for _, r := range t.Protected {
		if ctl >= 4 && sel == "known" {
			break
		}
		for _, w := range r.Witnesses {
			if addSpec([]string{w.RootA, w.RootB}, "control: protected "+r.Signature) {
				ctl++
				break
			}
		}
	}
	var names []string
	multi := map[string]bool{}
	for _, r := range t.Roots {
		names = append(names, r.Name)
		multi[r.Name] = r.Multi
	}
	if sel == "allpairs" {
		for i := range names {
			for j := i; j < len(names); j++ {
				if i == j && !multi[names[i]] {
					continue
				}
				addSpec([]string{names[i], names[j]}, "all pairs")
			}
		}
	} else if sel != "known" {
		for _, x := range strings.Split(sel, ",") {
			if x = strings.TrimSpace(x); x != "" {
				addSpec(strings.Split(x, "+"), "requested")
			}
		}
	}
	// 3. sampled triples (deterministic in the seed)
	if triples > 0 {
		var core []string
		for _, n := range names {
			if !strings.HasPrefix(n, "api:") && drivable(n) {
				core = append(core, n)
			}
		}
		x := uint64(seed)*6364136223846793005 + 1442695040888963407
		next := func(n int) int {
			x = x*6364136223846793005 + 1442695040888963407
			return int((x >> 33) % uint64(n))
		}
		for tries := 0; tries < triples*20 && triples > 0 && len(core) >= 3; tries++ {
			a, b, c := next(len(core)), next(len(core)), next(len(core))
			if a == b || b == c || a == c {
				continue
			}
			if addSpec([]string{core[a], core[b], core[c]}, "sampled triple") {
				triples--
			}
		}
	}
	// run (in rounds: rows the detector has not named yet get further runs with other seeds — the detector
	// reports one race per address and process, so rows sharing a location need several processes)
	var outcomes []runOutcome
	runBatch := func(batch []runSpec, idBase int, seedShift int64) {
		res := make([]runOutcome, len(batch))
		var wg sync.WaitGroup
		sem := make(chan struct{}, workers)
		for i := range batch {
			wg.Add(1)
			sem <- struct{}{}
			go func(i int) {
				defer wg.Done()
				defer func() { <-sem }()
				res[i] = runOne(batch[i], idBase+i, work, seed+seedShift, iters)
			}(i)
		}
		wg.Wait()
		outcomes = append(outcomes, res...)
	}
	confirmed := map[string]map[string]interface{}{}
	evaluated := 0
	failures := []failure{}
	seenFail := map[string]bool{}
	addFail := func(f failure) {
		if seenFail[f.Signature] {
			return
		}
		seenFail[f.Signature] = true
		failures = append(failures, f)
	}
	totalReports, derivedReports, invChecks := 0, 0, 0
	derivedHist := map[string]int{}
	var samples []map[string]interface{}
	runsSummary := []map[string]interface{}{}
	invFailedBy := map[string]map[string]bool{} // invariant -> pair keys that failed it
	evaluate := func() {
		for ; evaluated < len(outcomes); evaluated++ {
			o := outcomes[evaluated]
			pk := pairKey(o.Spec.Roots)
			pkSig := strings.ReplaceAll(pk, "+", "|")
			replay := func(extra map[string]interface{}) map[string]interface{} {
				m := map[string]interface{}{"tool": "ruconc", "mode": "stress", "roots": o.Spec.Roots, "seed": seed, "iters": iters}
				for k, v := range extra {
					m[k] = v
				}
				return m
			}
			sigsThisRun := map[string]int{}
			for _, r := range o.Reports {
				totalReports++
				v := t.classify(r, repo, known, knownBases)
				for _, s := range v.Confirm {
					sigsThisRun[s]++
					if confirmed[s] == nil {
						confirmed[s] = map[string]interface{}{"roots": o.Spec.Roots, "report": r}
					}
				}
				if len(v.Derived) > 0 {
					derivedReports++
					for _, l := range v.Derived {
						derivedHist[l]++
					}
				}
				if v.Fresh != "" {
					sigsThisRun[v.Fresh]++
					addFail(failure{"prop", v.Fresh, fmt.Sprintf("the race detector reports a data race that is not a row of the table, while running %s: %s vs %s",
						pk, describe(r.Accesses, 0), describe(r.Accesses, 1)), true, replay(map[string]interface{}{"report": r})})
				}
			}
			if o.Result.Fatal != "" {
				addFail(failure{"diff", "C16/harness/" + pkSig, "ruconc child could not run: " + o.Result.Fatal, false, replay(nil)})
			} else if o.Result.Deadlock || o.Timeout {
				addFail(failure{"prop", "C16/deadlock/" + pkSig,
					"no root made progress for 6 s (or the child had to be killed): " + o.Result.Stacks, true,
					replay(map[string]interface{}{"stacks": o.Result.Stacks})})
			} else if o.ExitErr != "" {
				addFail(failure{"prop", "C16/panic/" + pkSig,
					"the child process died (" + o.ExitErr + "): " + tailS(o.Stderr, 1500), true, replay(map[string]interface{}{"stderr": tailS(o.Stderr, 4000)})})
			}
			for _, p := range o.Result.Panics {
				addFail(failure{"prop", "C16/panic/" + pkSig, p, true, replay(map[string]interface{}{"panic": p})})
			}
			for _, iv := range o.Result.Invariants {
				invChecks++
				if iv.Ok {
					continue
				}
				// a larger set of roots repeating the failure of one of its pairs is the same finding
				attributed := false
				if len(o.Spec.Roots) > 2 {
					for i := range o.Spec.Roots {
						for j := i; j < len(o.Spec.Roots); j++ {
							if i != j || multi[o.Spec.Roots[i]] {
								if invFailedBy[iv.Name][pairKey([]string{o.Spec.Roots[i], o.Spec.Roots[j]})] {
									attributed = true
								}
							}
						}
					}
				}
				if attributed {
					continue
				}
				if invFailedBy[iv.Name] == nil {
					invFailedBy[iv.Name] = map[string]bool{}
				}
				invFailedBy[iv.Name][pk] = true
				addFail(failure{"prop", "C16/invariant/" + iv.Name + "/" + pkSig,
					"at quiescence after running " + pk + " concurrently: " + iv.Name + ": " + iv.Detail, true,
					replay(map[string]interface{}{"invariant": iv})})
			}
			rs := map[string]interface{}{"roots": o.Spec.Roots, "why": o.Spec.Why, "progress": o.Result.Progress, "race_reports": len(o.Reports),
				"signatures": sigsThisRun, "chain_len": o.Result.ChainLen, "admitted": o.Result.Admitted, "replaced": o.Result.Replaced, "elapsed_ms": o.Result.ElapsedMs}
			runsSummary = append(runsSummary, rs)
			if len(samples) < 3 {
				samples = append(samples, rs)
			}
		}
	}
	// pairs before triples, so that triples can be attributed to their pairs
	sort.SliceStable(specs, func(i, j int) bool { return len(specs[i].Roots) < len(specs[j].Roots) })
	runBatch(specs, 0, 0)
	evaluate()
	maxRounds := 4
	if sel == "allpairs" {
		maxRounds = 8
	}
	for round := 1; round <= maxRounds; round++ {
		var batch []runSpec
		for _, r := range t.Rows {
			if confirmed[r.Signature] != nil || undrivable[r.Signature] {
				continue
			}
			// two further attempts per row and round, cycling through its witness pairs
			n := 0
			for k := 0; k < len(r.Witnesses) && n < 2; k++ {
				w := r.Witnesses[(k+round-1)%len(r.Witnesses)]
				roots := supportFor(r, []string{w.RootA, w.RootB})
				if allDrivable(roots) {
					batch = append(batch, runSpec{roots, fmt.Sprintf("retry %d for %s", round, r.Signature)})
					n++
				}
			}
		}
		if len(batch) == 0 {
			break
		}
		runBatch(batch, len(outcomes), int64(round)*1000)
		evaluate()
	}
	rowsOut := []map[string]interface{}{}
	for _, r := range t.Rows {
		c, ok := confirmed[r.Signature]
		ro := map[string]interface{}{"signature": r.Signature, "desc": r.Desc, "confirmed": ok, "drivable": !undrivable[r.Signature]}
		if ok {
			ro["by"] = c["roots"]
			ro["report"] = c["report"]
		}
		rowsOut = append(rowsOut, ro)
	}
	emit(map[string]interface{}{"mode": "stress", "runs": len(outcomes), "distinct_root_sets": len(have), "race_reports": totalReports,
		"derived_reports": derivedReports, "derived_hist": derivedHist, "rows": rowsOut,
		"confirmed": len(confirmed), "known_rows": len(t.Rows), "failures": failures, "run_summaries": runsSummary,
		"invariant_checks": invChecks, "samples": samples})
}

func tailS(s string, n int) string {
	if len(s) > n {
		return s[len(s)-n:]
	}
	return s
}

func describe(a []accessT, i int) string {
	if i >= len(a) {
		return "?"
	}
	var fr []string
	for k, f := range a[i].Frames {
		if k >= 4 {
			break
		}
		fr = append(fr, fmt.Sprintf("%s (%s:%d)", shortFunc(f.Func), filepath.Base(f.File), f.Line))
	}
	return a[i].Op + " in " + strings.Join(fr, " < ")
}
