package main

// C16, sequential liveness of the lock-holding components in their degenerate configurations ("lone" mode).
//
// The stress and placement worlds always give the host two reachable seeds and a long chain; a lock that is not
// released on a rarely taken return path (no seed and no target, an oracle that fails, an empty registry …) never
// shows there.  Here every call SEQUENCE of length ≤ 3 over the public methods of the real Neighborhood and of the
// real AddressesRegistry is run on a fresh instance in each degenerate configuration, one call after the other on
// one goroutine per call with a watchdog: a call that does not return within the watchdog while no other call is
// running can only be waiting for a lock an earlier, finished call still holds (or for itself) — a deadlock no
// schedule can resolve.  The sequence and the configuration are the failing input.

import (
	"fmt"
	"sort"
	"strings"
	"time"

	"github.com/my-cloud/ruthenium/validatornode/application"
	"github.com/my-cloud/ruthenium/validatornode/application/network"
	"github.com/my-cloud/ruthenium/validatornode/application/verification"

	"ruverif/internal/node"
)

type loneSender struct{ target string }

func (s loneSender) Target() string                         { return s.target }
func (s loneSender) GetBlocks(uint64) ([]byte, error)       { return nil, fmt.Errorf("n/a") }
func (s loneSender) GetFirstBlockTimestamp() (int64, error) { return 0, fmt.Errorf("n/a") }
func (s loneSender) GetSettings() ([]byte, error)           { return nil, fmt.Errorf("n/a") }
func (s loneSender) SendTargets([]string) error             { return nil }
func (s loneSender) AddTransaction([]byte) error            { return nil }
func (s loneSender) GetTransactions() ([]byte, error)       { return nil, fmt.Errorf("n/a") }
func (s loneSender) GetUtxos(string) ([]byte, error)        { return nil, fmt.Errorf("n/a") }

type loneFactory struct{ reachable map[string]bool }

func (f loneFactory) CreateSender(ip string, port string) (application.Sender, error) {
	if f.reachable[ip+":"+port] {
		return loneSender{ip + ":" + port}, nil
	}
	return nil, fmt.Errorf("unreachable")
}

type loneCall struct {
	name string
	run  func(any)
}

type loneConfig struct {
	name  string
	fresh func() any
	calls []loneCall
}

type loneFailure struct {
	Kind       string         `json:"kind"`
	Signature  string         `json:"signature"`
	Detail     string         `json:"detail"`
	Replay     map[string]any `json:"replay"`
	FoundInput bool           `json:"found_input"`
}

type loneSummary struct {
	Configs   int            `json:"configs"`
	Sequences int            `json:"sequences"`
	Calls     int            `json:"calls"`
	ByConfig  map[string]int `json:"by_config"`
	Blocked   int            `json:"blocked"`
	Panicked  int            `json:"panicked"`
	Failures  []loneFailure  `json:"failures"`
	ElapsedMs int64          `json:"elapsed_ms"`
}

func loneConfigs() []loneConfig {
	const host = "127.0.0.1:10000"
	nbCalls := []loneCall{
		{"Synchronize", func(x any) { x.(*network.Neighborhood).Synchronize(0) }},
		{"AddTargets(none)", func(x any) { x.(*network.Neighborhood).AddTargets(nil) }},
		{"AddTargets(peer)", func(x any) { x.(*network.Neighborhood).AddTargets([]string{"127.0.0.1:10003"}) }},
		{"AddTargets(self,malformed)", func(x any) { x.(*network.Neighborhood).AddTargets([]string{host, "nonsense"}) }},
		{"Incentive(peer)", func(x any) { x.(*network.Neighborhood).Incentive("127.0.0.1:10001") }},
		{"Incentive(unknown)", func(x any) { x.(*network.Neighborhood).Incentive("127.0.0.9:10009") }},
		{"Senders", func(x any) { _ = x.(*network.Neighborhood).Senders() }},
		{"HostTarget", func(x any) { _ = x.(*network.Neighborhood).HostTarget() }},
	}
	nb := func(name string, max int, seeds map[string]int, reachable ...string) loneConfig {
		return loneConfig{name: "Neighborhood/" + name, calls: nbCalls, fresh: func() any {
			r := map[string]bool{}
			for _, t := range reachable {
				r[t] = true
			}
			s := map[string]int{}
			for k, v := range seeds {
				s[k] = v
			}
			return network.NewNeighborhood(loneFactory{r}, "127.0.0.1", "10000", max, s, watch{})
		}}
	}
	a, b := node.NewWallet(0).Address, node.NewWallet(1).Address
	regCalls := []loneCall{
		{"Synchronize", func(x any) { x.(*verification.AddressesRegistry).Synchronize(0) }},
		{"Update(add)", func(x any) { x.(*verification.AddressesRegistry).Update([]string{a, b}, nil) }},
		{"Update(remove)", func(x any) { x.(*verification.AddressesRegistry).Update(nil, []string{a}) }},
		{"Update(none)", func(x any) { x.(*verification.AddressesRegistry).Update(nil, nil) }},
		{"Clear", func(x any) { x.(*verification.AddressesRegistry).Clear() }},
		{"Copy", func(x any) { _ = x.(*verification.AddressesRegistry).Copy() }},
		{"RemovedAddresses", func(x any) { _ = x.(*verification.AddressesRegistry).RemovedAddresses() }},
		{"Filter", func(x any) { _ = x.(*verification.AddressesRegistry).Filter([]string{a, b}) }},
		{"IsRegistered", func(x any) { _ = x.(*verification.AddressesRegistry).IsRegistered(a) }},
	}
	reg := func(name string, invalid, failing []string) loneConfig {
		return loneConfig{name: "AddressesRegistry/" + name, calls: regCalls, fresh: func() any {
			h := &node.Humans{Invalid: map[string]bool{}, Failing: map[string]bool{}}
			h.Set(invalid, failing)
			return verification.NewAddressesRegistry(h, &node.Logger{})
		}}
	}
	return []loneConfig{
		nb("no-seed", 8, nil),
		nb("no-seed-peer-reachable", 8, nil, "127.0.0.1:10003"),
		nb("seed-unreachable", 8, map[string]int{"127.0.0.1:10001": 0}),
		nb("seed-reachable", 8, map[string]int{"127.0.0.1:10001": 0}, "127.0.0.1:10001", "127.0.0.1:10003"),
		nb("seed-is-self", 8, map[string]int{host: 0}, host),
		nb("max-zero", 0, map[string]int{"127.0.0.1:10001": 0}, "127.0.0.1:10001"),
		nb("max-one-two-seeds", 1, map[string]int{"127.0.0.1:10001": 0, "127.0.0.1:10002": 3}, "127.0.0.1:10001", "127.0.0.1:10002"),
		reg("oracle-ok", nil, nil),
		reg("oracle-invalid", []string{a}, nil),
		reg("oracle-failing", nil, []string{a, b}),
	}
}

// bounded returns "" when f returned, "blocked" when it did not within d, "panic: …" when it panicked
func bounded(d time.Duration, f func()) string {
	done := make(chan string, 1)
	go func() {
		defer func() {
			if r := recover(); r != nil {
				done <- "panic: " + fmt.Sprint(r)
			}
		}()
		f()
		done <- ""
	}()
	select {
	case s := <-done:
		return s
	case <-time.After(d):
		return "blocked"
	}
}

func runLone(maxLen int, only string) {
	t0 := time.Now()
	sum := loneSummary{ByConfig: map[string]int{}, Failures: []loneFailure{}}
	seen := map[string]bool{}
	for _, cfg := range loneConfigs() {
		if only != "" && cfg.name != only {
			continue
		}
		sum.Configs++
		var seqs [][]int
		var rec func(cur []int)
		rec = func(cur []int) {
			if len(cur) > 0 {
				seqs = append(seqs, append([]int(nil), cur...))
			}
			if len(cur) == maxLen {
				return
			}
			for i := range cfg.calls {
				rec(append(cur, i))
			}
		}
		rec(nil)
		// a blocked prefix makes every extension block too: report the shortest sequence only
		sort.SliceStable(seqs, func(i, j int) bool { return len(seqs[i]) < len(seqs[j]) })
		var bad [][]int
	next:
		for _, seq := range seqs {
			if len(bad) >= 3 { // three shortest failing sequences per configuration are enough to replay
				break
			}
			for _, b := range bad {
				if len(seq) >= len(b) {
					same := true
					for k := range b {
						if seq[k] != b[k] {
							same = false
							break
						}
					}
					if same {
						continue next
					}
				}
			}
			sum.Sequences++
			sum.ByConfig[cfg.name]++
			x := cfg.fresh()
			for k, ci := range seq {
				sum.Calls++
				c := cfg.calls[ci]
				verdict := bounded(2*time.Second, func() { c.run(x) })
				if verdict == "" {
					continue
				}
				names := []string{}
				for _, cj := range seq[:k+1] {
					names = append(names, cfg.calls[cj].name)
				}
				what := "blocked"
				if verdict != "blocked" {
					what = "panic"
					sum.Panicked++
				} else {
					sum.Blocked++
				}
				sig := fmt.Sprintf("C16/lone/%s/%s/%s", what, cfg.name, strings.Join(names, ">"))
				if !seen[sig] {
					seen[sig] = true
					detail := fmt.Sprintf("on a fresh %s, the calls %s made one after the other (each started only after the previous one returned): "+
						"the last one did not return within 2 s although nothing else was running — it waits for a lock that a finished call still holds", cfg.name, strings.Join(names, ", "))
					if what == "panic" {
						detail = fmt.Sprintf("on a fresh %s, the calls %s made one after the other: the last one panicked (%s)", cfg.name, strings.Join(names, ", "), verdict)
					}
					sum.Failures = append(sum.Failures, loneFailure{Kind: "prop", Signature: sig, Detail: detail, FoundInput: true,
						Replay: map[string]any{"tool": "ruconc", "mode": "lone", "config": cfg.name, "calls": names}})
				}
				bad = append(bad, append([]int(nil), seq[:k+1]...))
				break
			}
			// let the fan-out goroutines of AddTargets settle before the next instance
		}
	}
	sum.ElapsedMs = time.Since(t0).Milliseconds()
	emit(sum)
}
