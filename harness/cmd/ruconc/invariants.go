package main

// Invariants at quiescence (all drivers stopped, spawned goroutines settled), read through the harness'
// read-only observation hooks and the public API:
//
//	chain-linked        every block's previous_hash is the hash of its predecessor, timestamps step by one interval
//	no-duplicate        no transaction id occurs twice in the chain, twice in the pool, or in both
//	no-loss             (runs without chain replacement only) every acknowledged admission is pooled, chained, or
//	                    was dropped by block production with a logged reason
//	utxo-indexes        the by-id and by-address indexes of the UTXO registry describe the same set of outputs
//	derived=replay      a fresh node that adopts the final chain through the real Update ends with the same UTXO
//	                    set and registered addresses as the host (C07 on the final state)

import (
	"fmt"
	"sort"
	"strings"

	"github.com/my-cloud/ruthenium/validatornode/domain/ledger"

	"ruverif/internal/node"
)

type invResult struct {
	Name   string `json:"name"`
	Ok     bool   `json:"ok"`
	Detail string `json:"detail,omitempty"`
}

func checkInvariants(w *World, replaced bool, logLines []string) []invResult {
	var out []invResult
	add := func(name string, ok bool, detail string) {
		out = append(out, invResult{name, ok, detail})
	}
	obs, blocks, pool := w.H.Observe()
	// chain-linked
	linked, ld := true, ""
	for i := 1; i < len(blocks); i++ {
		if blocks[i].PreviousHash() != node.HashOf(blocks[i-1]) {
			linked, ld = false, fmt.Sprintf("block %d does not link to block %d", i, i-1)
			break
		}
		if blocks[i].Timestamp() != blocks[i-1].Timestamp()+w.S.Interval {
			linked, ld = false, fmt.Sprintf("block %d timestamp %d is not predecessor + interval (%d)", i, blocks[i].Timestamp(), blocks[i-1].Timestamp())
			break
		}
	}
	add("chain-linked", linked, ld)
	// duplicates
	count := map[string]int{}
	where := map[string][]string{}
	for i, b := range blocks {
		for _, t := range b.Transactions() {
			count[t.Id()]++
			where[t.Id()] = append(where[t.Id()], fmt.Sprintf("block %d", i))
		}
	}
	for _, t := range pool {
		count[t.Id()]++
		where[t.Id()] = append(where[t.Id()], "pool")
	}
	var dups []string
	for id, c := range count {
		if c > 1 {
			dups = append(dups, id[:12]+" in "+strings.Join(where[id], ", "))
		}
	}
	sort.Strings(dups)
	add("no-duplicate", len(dups) == 0, strings.Join(dups, "; "))
	// loss
	admitted := map[string]bool{}
	for _, a := range w.SM.Admitted() {
		if strings.HasPrefix(a, "tx:") {
			admitted[a[3:]] = true
		}
	}
	if !replaced {
		var lost []string
		for id := range admitted {
			if count[id] > 0 {
				continue
			}
			dropped := false
			for _, l := range logLines {
				if strings.Contains(l, "transaction removed from the transactions pool") && strings.Contains(l, id) {
					dropped = true
					break
				}
			}
			if !dropped {
				lost = append(lost, id[:12])
			}
		}
		sort.Strings(lost)
		add("no-loss", len(lost) == 0, fmt.Sprintf("%d admitted; lost: %s", len(admitted), strings.Join(lost, ", ")))
	}
	// admission window (C11), judged for the submissions made while `w.judging` was on (the inner operation of an
	// asynchronous placement: it cannot complete before the block production it overlaps, which holds the pool lock): such
	// a transaction, pooled now, must not be dated before the last block
	if len(blocks) > 0 {
		lastTs := blocks[len(blocks)-1].Timestamp()
		var old []string
		w.reqMu.Lock()
		for _, t := range pool {
			if _, ok := w.attempted[t.Id()]; ok && t.Timestamp() < lastTs {
				old = append(old, fmt.Sprintf("%s dated %d is pooled although the last block is dated %d", t.Id()[:12], t.Timestamp(), lastTs))
			}
		}
		w.reqMu.Unlock()
		add("admission-window", len(old) == 0, strings.Join(old, "; "))
	}
	// utxo indexes
	type key struct {
		id string
		ix uint16
	}
	byId := map[key]string{}
	for _, e := range obs.ById {
		for _, u := range e.Slots {
			if u != nil {
				byId[key{u.TxId, u.Index}] = u.Address
			}
		}
	}
	byAddr := map[key]string{}
	bad := ""
	for _, e := range obs.ByAddr {
		for _, u := range e.Slots {
			if u == nil {
				bad = "nil entry under address " + e.Key
				continue
			}
			k := key{u.TxId, u.Index}
			if _, dup := byAddr[k]; dup {
				bad = fmt.Sprintf("output %s:%d listed twice by address", u.TxId[:12], u.Index)
			}
			byAddr[k] = e.Key
		}
	}
	for k, a := range byAddr {
		if byId[k] != a {
			bad = fmt.Sprintf("output %s:%d listed for %s but by-id says %q", k.id[:12], k.ix, a[:10], byId[k])
		}
	}
	for k := range byId {
		if _, ok := byAddr[k]; !ok {
			// zero-valued non-yielding outputs are kept by id only
			continue
		}
	}
	add("utxo-indexes", bad == "", bad)
	// derived = replay
	if len(blocks) >= 2 {
		f, err := adopt("fresh", w.S, node.NewWallet(7).Address, blocks)
		if err != nil {
			add("derived=replay", false, "a fresh node refuses the host's final chain: "+err.Error())
		} else {
			fo, _, _ := f.Observe()
			diff := ""
			if !sameEntries(fo.ById, obs.ById) {
				diff = "UTXOs by id differ"
			} else if !sameEntries(fo.ByAddr, obs.ByAddr) {
				diff = "UTXOs by address differ"
			} else if strings.Join(fo.Registered, ",") != strings.Join(obs.Registered, ",") {
				diff = fmt.Sprintf("registered addresses differ: replay %d vs host %d", len(fo.Registered), len(obs.Registered))
			}
			add("derived=replay", diff == "", diff)
		}
	}
	return out
}

func sameEntries(a, b []node.ObsEntry) bool {
	render := func(es []node.ObsEntry) string {
		var sb strings.Builder
		for _, e := range es {
			sb.WriteString(e.Key)
			sb.WriteString("=")
			var slots []string
			for _, u := range e.Slots {
				if u == nil {
					slots = append(slots, "nil")
				} else {
					slots = append(slots, fmt.Sprintf("%s:%d:%s:%v:%d:%d", u.TxId, u.Index, u.Address, u.Yielding, u.Value, u.Created))
				}
			}
			sb.WriteString(strings.Join(slots, ","))
			sb.WriteString(";")
		}
		return sb.String()
	}
	return render(a) == render(b)
}

var _ = ledger.NewBlock
