package main

// Root drivers: one per concurrently running activity of the node, named exactly like the roots of the
// regenerated tables (tables.json).  Each calls the REAL entry point: the engine callbacks through a real
// clock.Engine, the host handlers through the real controllers.

import (
	"context"
	"encoding/json"
	"fmt"
	"math/rand"
	"runtime"
	"strings"
	"sync"
	"sync/atomic"
	"time"

	gp2p "github.com/leprosus/golang-p2p"

	"github.com/my-cloud/ruthenium/validatornode/domain/clock"
	"github.com/my-cloud/ruthenium/validatornode/presentation/api/history"
	apinet "github.com/my-cloud/ruthenium/validatornode/presentation/api/network"
	"github.com/my-cloud/ruthenium/validatornode/presentation/api/payment"
	"github.com/my-cloud/ruthenium/validatornode/presentation/api/wallet"
)

type runCtx struct {
	w             *World
	rng           *rand.Rand
	stop          atomic.Bool
	progress      []atomic.Int64
	inflight      sync.WaitGroup
	panics        chan string
	engines       []*clock.Engine // real engines started by engine roots (never stopped unless api:Engine.Stop runs)
	blocksC       *history.BlocksController
	sendersC      *apinet.SendersController
	txC           *payment.TransactionsController
	utxosC        *wallet.UtxosController
	txSeq         atomic.Int64
	updSeq        atomic.Int64
	syncSeq       atomic.Int64
	shared        bool // copies of one root submit the same transactions
	startLen      int
	forkEvery     int
	validateEvery time.Duration
	stopCh        chan struct{}
	apiRoots      int
}

func newRunCtx(w *World, seed int64) *runCtx {
	rc := &runCtx{w: w, rng: rand.New(rand.NewSource(seed)), panics: make(chan string, 64), stopCh: make(chan struct{}),
		forkEvery: 2 + int(seed%3), validateEvery: 2 * time.Millisecond}
	rc.startLen = len(w.H.AllBlocks())
	if seed%2 == 1 {
		rc.forkEvery = 1
	}
	rc.blocksC = history.NewBlocksController(w.H.Chain)
	rc.sendersC = apinet.NewSendersController(w.SM)
	rc.txC = payment.NewTransactionsController(w.SM, w.H.Pool)
	rc.utxosC = wallet.NewUtxosController(w.H.Utxos)
	return rc
}

func req(v interface{}) gp2p.Data {
	b, _ := json.Marshal(v)
	d := gp2p.Data{}
	d.SetBytes(b)
	return d
}

// one iteration of each root; `slot` distinguishes the copies of a root in one run
type driver func(rc *runCtx, slot int)

// the engine the api:Engine.* roots act on: the first engine root's, or a standalone one (created by launch
// before any goroutine starts)
func engineEngine(rc *runCtx) *clock.Engine { return rc.engines[0] }

var drivers = map[string]driver{
	"engine:TransactionsPool.Validate": func(rc *runCtx, _ int) {
		h := rc.w.H
		h.Pool.Validate(h.Chain.LastBlockTimestamp() + rc.w.S.Interval)
	},
	"engine:Blockchain.Update": func(rc *runCtx, _ int) {
		w := rc.w
		// the neighbours serve a chain that outgrows whatever the host may have produced meanwhile, alternating
		// between the two lineages (every switch is a deep fork: Clear + rebuild; otherwise an extension: commit).
		// The driver deliberately calls nothing but Update on the host: any locked call here would order the
		// accesses under test.
		k := rc.updSeq.Add(1)
		lin := w.M
		if (k/int64(rc.forkEvery))%2 == 1 {
			lin = w.N
		}
		n := rc.startLen + 2*int(k)
		if n > len(lin) {
			n = len(lin)
		}
		w.publish(lin[:n])
		w.H.Chain.Update(farFuture)
	},
	"engine:Neighborhood.Synchronize": func(rc *runCtx, _ int) {
		rc.w.Nbh.Synchronize(0)
	},
	"engine:AddressesRegistry.Synchronize": func(rc *runCtx, _ int) {
		k := rc.syncSeq.Add(1)
		if k%4 == 3 {
			// the proof-of-humanity oracle reports one registered address as no longer valid (not in the very first
			// rounds: block production must have read the pending list once before it is first written)
			rc.w.H.Humans.Set([]string{rc.w.A.Address}, nil)
		} else {
			rc.w.H.Humans.Set(nil, nil)
		}
		rc.w.H.Reg.Synchronize(0)
	},
	"handler:BlocksController.HandleBlocksRequest": func(rc *runCtx, _ int) {
		_, _ = rc.blocksC.HandleBlocksRequest(context.Background(), req(uint64(0)))
	},
	"handler:BlocksController.HandleFirstBlockTimestampRequest": func(rc *runCtx, _ int) {
		_, _ = rc.blocksC.HandleFirstBlockTimestampRequest(context.Background(), gp2p.Data{})
	},
	"handler:SendersController.HandleTargetsRequest": func(rc *runCtx, slot int) {
		_, _ = rc.sendersC.HandleTargetsRequest(context.Background(), req([]string{fmt.Sprintf("127.0.0.1:1%04d", 100+slot), "127.0.0.1:10001"}))
	},
	"handler:TransactionsController.HandleTransactionRequest": func(rc *runCtx, slot int) {
		w := rc.w
		var j int64
		if rc.shared {
			j = rc.progress[slot].Load() // the copies walk the same sequence: same transactions
		} else {
			j = rc.txSeq.Add(1)
		}
		ts := w.H.Chain.LastBlockTimestamp()
		b, _, err := w.request(int(j), ts)
		if err != nil {
			return
		}
		d := gp2p.Data{}
		d.SetBytes(b)
		_, _ = rc.txC.HandleTransactionRequest(context.Background(), d)
	},
	"handler:TransactionsController.HandleTransactionsRequest": func(rc *runCtx, _ int) {
		_, _ = rc.txC.HandleTransactionsRequest(context.Background(), gp2p.Data{})
	},
	"handler:UtxosController.HandleUtxosRequest": func(rc *runCtx, slot int) {
		so := rc.w.Split[int(rc.progress[slot].Load())%hostSplit]
		_, _ = rc.utxosC.HandleUtxosRequest(context.Background(), req(so.by.Address))
	},
	"api:Engine.Stop": func(rc *runCtx, _ int) {
		engineEngine(rc).Stop()
	},
	"api:Engine.Pulse": func(rc *runCtx, _ int) {
		engineEngine(rc).Pulse()
	},
}

// guarded runs one iteration, converting a panic into a report
func (rc *runCtx) guarded(name string, d driver, slot int) {
	if !strings.HasPrefix(name, "api:") {
		rc.inflight.Add(1)
		defer rc.inflight.Done()
	}
	defer func() {
		if r := recover(); r != nil {
			buf := make([]byte, 4096)
			buf = buf[:runtime.Stack(buf, false)]
			select {
			case rc.panics <- fmt.Sprintf("%s: panic: %v\n%s", name, r, buf):
			default:
			}
		}
	}()
	d(rc, slot)
}

// launch starts the roots; engine roots run on a real clock.Engine (its Start loop calls the callback),
// everything else in a plain loop.  All engines exist before the first goroutine starts.
func (rc *runCtx) launch(roots []string, iters int, pause time.Duration) (*sync.WaitGroup, error) {
	rc.progress = make([]atomic.Int64, len(roots))
	var wg sync.WaitGroup
	seen := map[string]int{}
	hasTx := false
	for _, name := range roots {
		if _, ok := drivers[name]; !ok {
			return nil, fmt.Errorf("no driver for root %q", name)
		}
		seen[name]++
		if seen[name] > 1 {
			rc.shared = true
		}
		if name == "handler:TransactionsController.HandleTransactionRequest" {
			hasTx = true
		}
	}
	if hasTx {
		rc.validateEvery = 12 * time.Millisecond // let the pool fill between two production ticks
	}
	type eng struct {
		e    *clock.Engine
		done chan struct{}
	}
	engs := map[int]*eng{}
	for i, name := range roots {
		if !strings.HasPrefix(name, "engine:") {
			continue
		}
		i, name := i, name
		d := drivers[name]
		done := make(chan struct{})
		var once sync.Once
		fn := func(int64) {
			if rc.stop.Load() || int(rc.progress[i].Load()) >= iters {
				once.Do(func() { close(done) })
				return
			}
			rc.guarded(name, d, i)
			rc.progress[i].Add(1)
		}
		period := 2 * time.Millisecond
		if name == "engine:TransactionsPool.Validate" {
			period = rc.validateEvery
		}
		e := clock.NewEngine(fn, watch{}, period, 1, 0)
		rc.engines = append(rc.engines, e)
		engs[i] = &eng{e, done}
	}
	if len(rc.engines) == 0 {
		rc.engines = append(rc.engines, clock.NewEngine(func(int64) {}, watch{}, 2*time.Millisecond, 1, 0))
	}
	for i, name := range roots {
		i, name := i, name
		d := drivers[name]
		if en, ok := engs[i]; ok {
			returned := make(chan struct{})
			go func() { en.e.Start(); close(returned) }()
			wg.Add(1)
			go func() {
				defer wg.Done()
				select {
				case <-en.done:
				case <-returned: // the engine was stopped (api:Engine.Stop is one of the roots)
				case <-rc.stopCh:
				}
			}()
			continue
		}
		// exported methods nobody calls in the node (api:Engine.Stop / Pulse) are driven only to confirm their rows:
		// they may legitimately block (Pulse waits for a tick that a concurrent Stop cancels), so the run does not wait
		// for them and the progress monitor ignores them
		api := strings.HasPrefix(name, "api:")
		if api {
			rc.apiRoots++
		} else {
			wg.Add(1)
		}
		go func() {
			if !api {
				defer wg.Done()
			}
			for k := 0; k < iters && !rc.stop.Load(); k++ {
				rc.guarded(name, d, i)
				rc.progress[i].Add(1)
				if pause > 0 {
					time.Sleep(pause)
				}
			}
		}()
	}
	if rc.apiRoots == len(roots) {
		// only such roots: a fixed time slice
		wg.Add(1)
		go func() { defer wg.Done(); time.Sleep(700 * time.Millisecond) }()
	}
	return &wg, nil
}
