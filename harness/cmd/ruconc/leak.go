package main

// C13, leak part: "after the round the number of live goroutines returns to its baseline".
//
// For host chains of length 0, 1, 2 and 5 and every assignment (multiset: neighbours are interchangeable) of a
// fault kind {error, garbage, truncated, late, silent, valid} to 1..N neighbours, 20 sync rounds (Blockchain.Update) are
// run on a real node and runtime.NumGoroutine() is compared with its value before the rounds, after a settle
// period.  `late` answers after the validation timeout; `silent` does not answer until the rounds are over and is
// then released (the model's statement is about executions in which GetBlocks returns).
//
// Each (length, neighbour count) group runs in its own child process so that the goroutine count is not
// disturbed by other groups.

import (
	"context"
	"encoding/json"
	"fmt"
	"os"
	"os/exec"
	"path/filepath"
	"runtime"
	"sort"
	"strings"
	"sync"
	"time"

	"github.com/my-cloud/ruthenium/validatornode/application"
	"github.com/my-cloud/ruthenium/validatornode/domain/ledger"

	"ruverif/internal/node"
)

var faultKinds = []string{"error", "garbage", "truncated", "late", "silent", "valid"}

type leakParams struct {
	HostLen    int `json:"host_len"`
	Neighbours int `json:"neighbours"`
	Rounds     int `json:"rounds"`
	TimeoutMs  int `json:"timeout_ms"`
	From       int `json:"from"` // slice [From, To) of the multisets of this group
	To         int `json:"to"`
}

type leakCase struct {
	HostLen  int      `json:"host_len"`
	Kinds    []string `json:"kinds"`
	Base     int      `json:"base"`
	After    int      `json:"after"`
	Peak     int      `json:"peak"`
	Fetches  int      `json:"fetches"`
	Adopted  bool     `json:"adopted"`
	Leftover string   `json:"leftover,omitempty"`
}

type leakResult struct {
	Params leakParams `json:"params"`
	Cases  []leakCase `json:"cases"`
	Fatal  string     `json:"fatal,omitempty"`
}

func multisets(kinds []string, n int) [][]string {
	var out [][]string
	var rec func(start int, cur []string)
	rec = func(start int, cur []string) {
		if len(cur) == n {
			out = append(out, append([]string(nil), cur...))
			return
		}
		for i := start; i < len(kinds); i++ {
			rec(i, append(cur, kinds[i]))
		}
	}
	rec(0, nil)
	return out
}

func settleTo(base int, max time.Duration) int {
	deadline := time.Now().Add(max)
	for {
		n := runtime.NumGoroutine()
		if n <= base || time.Now().After(deadline) {
			return n
		}
		time.Sleep(2 * time.Millisecond)
	}
}

func runLeakChild(params string) {
	var p leakParams
	if err := json.Unmarshal([]byte(params), &p); err != nil {
		emit(leakResult{Fatal: err.Error()})
		os.Exit(2)
	}
	res := leakResult{Params: p}
	s := node.DefaultSettings()
	s.Timeout = time.Duration(p.TimeoutMs) * time.Millisecond
	s.BlocksLimit = 1000
	A := node.NewWallet(0)
	// a valid chain longer than any host chain used here
	prod := node.New("prod", s, A.Address)
	for i := 0; i < 8; i++ {
		prod.Pool.Validate(T0 + int64(i)*s.Interval)
	}
	full := prod.AllBlocks()
	all := multisets(faultKinds, p.Neighbours)
	if p.To > len(all) || p.To == 0 {
		p.To = len(all)
	}
	for _, kinds := range all[p.From:p.To] {
		// host holding a prefix of the valid chain (length 0: an empty chain, which never syncs by construction)
		h := node.New("h", s, node.NewWallet(3).Address)
		if p.HostLen > 0 {
			h.Pool.Validate(T0)
			if p.HostLen > 1 {
				s.Timeout = time.Second // generous while the host is being set up
				h.Senders.Set([]application.Sender{staticSender("src", full[:p.HostLen], s.BlocksLimit)})
				h.Chain.Update(farFuture)
				if len(h.AllBlocks()) != p.HostLen {
					res.Fatal = fmt.Sprintf("setup: host has %d blocks, wanted %d", len(h.AllBlocks()), p.HostLen)
					emit(res)
					os.Exit(2)
				}
			}
		}
		s.Timeout = time.Duration(p.TimeoutMs) * time.Millisecond
		release := make(chan struct{})
		var fetches int64
		var fmu sync.Mutex
		var senders []application.Sender
		for i, k := range kinds {
			k := k
			serveValid := func(hh uint64) ([]byte, error) {
				var part []*ledger.Block
				if hh < uint64(len(full)) {
					part = full[hh:]
				}
				return json.Marshal(part)
			}
			senders = append(senders, &node.Sender{TargetValue: fmt.Sprintf("%s-%d", k, i), Blocks: func(hh uint64) ([]byte, error) {
				fmu.Lock()
				fetches++
				fmu.Unlock()
				switch k {
				case "error":
					return nil, fmt.Errorf("boom")
				case "garbage":
					return []byte("\x00\xffnot json"), nil
				case "truncated":
					b, _ := serveValid(hh)
					return b[:len(b)/2], nil
				case "late":
					time.Sleep(3 * s.Timeout)
					return serveValid(hh)
				case "silent":
					<-release
					return nil, fmt.Errorf("released")
				}
				return serveValid(hh)
			}})
		}
		h.Senders.Set(senders)
		runtime.GC()
		time.Sleep(2 * time.Millisecond)
		base := runtime.NumGoroutine()
		peak := base
		for r := 0; r < p.Rounds; r++ {
			h.Chain.Update(farFuture)
			if n := runtime.NumGoroutine(); n > peak {
				peak = n
			}
		}
		close(release)
		after := settleTo(base, 1500*time.Millisecond)
		fmu.Lock()
		nf := int(fetches)
		fmu.Unlock()
		c := leakCase{HostLen: p.HostLen, Kinds: kinds, Base: base, After: after, Peak: peak, Fetches: nf, Adopted: len(h.AllBlocks()) > p.HostLen && p.HostLen > 0}
		if after > base {
			buf := make([]byte, 1<<16)
			buf = buf[:runtime.Stack(buf, true)]
			var left []string
			for _, g := range strings.Split(string(buf), "\n\n") {
				if strings.Contains(g, "verifyNeighborBlockchain") {
					ls := strings.Split(g, "\n")
					if len(ls) > 5 {
						ls = ls[:5]
					}
					left = append(left, strings.Join(ls, " | "))
				}
			}
			if len(left) > 3 {
				left = left[:3]
			}
			c.Leftover = strings.Join(left, " || ")
		}
		res.Cases = append(res.Cases, c)
	}
	emit(res)
}

func runLeak(work string, seed int64, sel string, workers int) {
	maxN := 3
	if sel == "thorough" {
		maxN = 8
	}
	var jobs []leakParams
	for _, hl := range []int{0, 1, 2, 5} {
		for n := 1; n <= maxN; n++ {
			total := len(multisets(faultKinds, n))
			chunk := 80
			if hl == 0 {
				chunk = 2000
			}
			for from := 0; from < total; from += chunk {
				to := from + chunk
				if to > total {
					to = total
				}
				jobs = append(jobs, leakParams{HostLen: hl, Neighbours: n, Rounds: 20, TimeoutMs: 2, From: from, To: to})
			}
		}
	}
	// big groups first
	sort.SliceStable(jobs, func(i, j int) bool { return jobs[i].Neighbours > jobs[j].Neighbours })
	results := make([]leakResult, len(jobs))
	errs := make([]string, len(jobs))
	var wg sync.WaitGroup
	sem := make(chan struct{}, workers)
	for i := range jobs {
		wg.Add(1)
		sem <- struct{}{}
		go func(i int) {
			defer wg.Done()
			defer func() { <-sem }()
			pb, _ := json.Marshal(jobs[i])
			ctx, cancel := context.WithTimeout(context.Background(), 20*time.Minute)
			defer cancel()
			cmd := exec.CommandContext(ctx, os.Args[0], "--mode", "child-leak", "--params", string(pb))
			cmd.Env = append(os.Environ(), "GORACE=halt_on_error=0 exitcode=0 log_path="+work+"/leak-race")
			out, err := cmd.Output()
			lines := strings.Split(strings.TrimSpace(string(out)), "\n")
			if e := json.Unmarshal([]byte(lines[len(lines)-1]), &results[i]); e != nil || err != nil {
				errs[i] = fmt.Sprintf("child %v failed: %v %v: %s", jobs[i], err, e, tailS(string(out), 300))
			}
		}(i)
	}
	wg.Wait()
	if logs, _ := filepath.Glob(work + "/leak-race.*"); logs != nil {
		for _, l := range logs {
			_ = os.Remove(l)
		}
	}
	failures := []failure{}
	seen := map[string]bool{}
	cases, rounds, fetches, adopted := 0, 0, 0, 0
	hist := map[string]int{}
	var samples []leakCase
	for i, r := range results {
		if errs[i] != "" || r.Fatal != "" {
			failures = append(failures, failure{"diff", fmt.Sprintf("C13/leak/harness/len%d-n%d", jobs[i].HostLen, jobs[i].Neighbours),
				errs[i] + r.Fatal, false, map[string]interface{}{"tool": "ruconc", "mode": "leak", "params": jobs[i]}})
			continue
		}
		for _, c := range r.Cases {
			cases++
			rounds += r.Params.Rounds
			fetches += c.Fetches
			if c.Adopted {
				adopted++
			}
			for _, k := range c.Kinds {
				hist[k]++
			}
			if len(samples) < 4 && len(c.Kinds) >= 2 {
				samples = append(samples, c)
			}
			if c.After > c.Base {
				// signature by the set of kinds involved and the host length class
				set := map[string]bool{}
				for _, k := range c.Kinds {
					set[k] = true
				}
				var ks []string
				for k := range set {
					ks = append(ks, k)
				}
				sort.Strings(ks)
				sig := fmt.Sprintf("C13/leak/goroutines-left-behind/%s", strings.Join(ks, "+"))
				if !seen[sig] {
					seen[sig] = true
					failures = append(failures, failure{"prop", sig,
						fmt.Sprintf("after %d sync rounds against neighbours %v (host chain length %d) %d goroutines are live, baseline %d (peak %d): %s",
							r.Params.Rounds, c.Kinds, c.HostLen, c.After, c.Base, c.Peak, c.Leftover), true,
						map[string]interface{}{"tool": "ruconc", "mode": "leak", "params": r.Params, "kinds": c.Kinds, "case": c}})
				}
			}
		}
	}
	emit(map[string]interface{}{"mode": "leak", "cases": cases, "rounds": rounds, "fetches": fetches, "adopting_cases": adopted,
		"kind_hist": hist, "max_neighbours": maxN, "host_lengths": []int{0, 1, 2, 5}, "failures": failures, "samples": samples})
}
