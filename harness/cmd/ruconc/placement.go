package main

func runPlacementChild(params string) { emit(map[string]string{"fatal": "not implemented"}) }

func runPlacements(tablesPath, work string, seed int64, sel string, workers int) {
	emit(map[string]interface{}{"mode": "placements", "failures": []failure{}, "placements": 0})
}
