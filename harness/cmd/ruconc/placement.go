package main

// Placement replay without hooks in /repo: the interfaces the components already take (application.BlocksManager,
// UtxosManager, AddressesManager, SendersManager, Sender) are wrapped by decorators that run a second operation
// — to completion — inside a chosen collaborator call of the outer operation; afterwards the invariants are
// checked.  Each placement is compared with the two sequential orders (inner before outer, inner after outer): an
// invariant that also fails sequentially is not a finding of C16.

import (
	"context"
	"encoding/json"
	"fmt"
	"os"
	"os/exec"
	"path/filepath"
	"sort"
	"strings"
	"sync"
	"sync/atomic"
	"time"

	"github.com/my-cloud/ruthenium/validatornode/application"
	"github.com/my-cloud/ruthenium/validatornode/application/network"
	"github.com/my-cloud/ruthenium/validatornode/application/validation"
	"github.com/my-cloud/ruthenium/validatornode/application/verification"
	"github.com/my-cloud/ruthenium/validatornode/domain/ledger"

	"ruverif/internal/node"
)

// hookPoint fires the armed action once, at the first call with the armed label
type hookPoint struct {
	armed  atomic.Pointer[string]
	action func()
	fired  atomic.Bool
}

func (h *hookPoint) at(label string) {
	if h == nil {
		return
	}
	l := h.armed.Load()
	if l == nil || *l != label {
		return
	}
	h.armed.Store(nil)
	h.fired.Store(true)
	h.action()
}

type decoBlocks struct {
	inner application.BlocksManager
	h     *hookPoint
}

func (d *decoBlocks) AddBlock(ts int64, txs []*ledger.Transaction, a []string) error {
	d.h.at("Blockchain.AddBlock")
	return d.inner.AddBlock(ts, txs, a)
}
func (d *decoBlocks) Blocks(h uint64) []*ledger.Block { return d.inner.Blocks(h) }
func (d *decoBlocks) FirstBlockTimestamp() int64      { return d.inner.FirstBlockTimestamp() }
func (d *decoBlocks) LastBlockTimestamp() int64 {
	d.h.at("Blockchain.LastBlockTimestamp")
	return d.inner.LastBlockTimestamp()
}
func (d *decoBlocks) LastBlockTransactions() []*ledger.Transaction {
	d.h.at("Blockchain.LastBlockTransactions")
	return d.inner.LastBlockTransactions()
}

type decoUtxos struct {
	inner application.UtxosManager
	h     *hookPoint
}

func (d *decoUtxos) CalculateFee(t *ledger.Transaction, ts int64) (uint64, error) {
	d.h.at("UtxosRegistry.CalculateFee")
	return d.inner.CalculateFee(t, ts)
}
func (d *decoUtxos) Clear() { d.h.at("UtxosRegistry.Clear"); d.inner.Clear() }
func (d *decoUtxos) Copy() application.UtxosManager {
	d.h.at("UtxosRegistry.Copy")
	return d.inner.Copy()
}
func (d *decoUtxos) UpdateUtxos(txs []*ledger.Transaction, ts int64) error {
	d.h.at("UtxosRegistry.UpdateUtxos")
	return d.inner.UpdateUtxos(txs, ts)
}
func (d *decoUtxos) Utxos(a string) []*ledger.Utxo { return d.inner.Utxos(a) }

type decoReg struct {
	inner application.AddressesManager
	h     *hookPoint
}

func (d *decoReg) Clear() { d.h.at("AddressesRegistry.Clear"); d.inner.Clear() }
func (d *decoReg) Copy() application.AddressesManager {
	d.h.at("AddressesRegistry.Copy")
	return d.inner.Copy()
}
func (d *decoReg) Filter(a []string) []string {
	d.h.at("AddressesRegistry.Filter")
	return d.inner.Filter(a)
}
func (d *decoReg) IsRegistered(a string) bool { return d.inner.IsRegistered(a) }
func (d *decoReg) RemovedAddresses() []string {
	d.h.at("AddressesRegistry.RemovedAddresses")
	return d.inner.RemovedAddresses()
}
func (d *decoReg) Update(a []string, r []string) {
	d.h.at("AddressesRegistry.Update")
	d.inner.Update(a, r)
}

// which decorator serves a table label for a given outer operation ("" = no dynamic hook for this point)
func hookFor(outer, label string) (where, canonical string) {
	switch label {
	case "go:GetBlocks", "GetBlocks", "Blockchain.verifyNeighborBlockchain", "Blockchain.verify":
		if outer == "Blockchain.Update" {
			return "sender", "GetBlocks"
		}
	case "UtxosRegistry.Copy", "UtxosRegistry.CalculateFee", "UtxosRegistry.Clear", "UtxosRegistry.UpdateUtxos":
		if outer == "Blockchain.Update" {
			return "chain-utxos", label
		}
		return "pool-utxos", label
	case "AddressesRegistry.Copy", "AddressesRegistry.Clear", "AddressesRegistry.Update":
		if outer == "Blockchain.Update" {
			return "chain-registry", label
		}
	case "AddressesRegistry.Filter", "AddressesRegistry.RemovedAddresses":
		if outer == "TransactionsPool.Validate" {
			return "chain-registry", label // inside Blockchain.AddBlock, under the chain lock
		}
	case "Blockchain.LastBlockTimestamp", "Blockchain.LastBlockTransactions", "Blockchain.AddBlock":
		if outer != "Blockchain.Update" {
			return "pool-blocks", label
		}
	case "Neighborhood.Senders":
		return "senders", label
	}
	return "", ""
}

type placementSpec struct {
	Outer     string `json:"outer"`     // Blockchain.Update | TransactionsPool.Validate | TransactionsPool.AddTransaction
	Where     string `json:"where"`     // decorator
	Label     string `json:"label"`     // canonical label of the call
	Inner     string `json:"inner"`     // root name
	Table     string `json:"table"`     // verdict of the table for this point (stale / safe)
	Signature string `json:"signature"` // C16/placement/<outer>@<label>/<inner>
}

type placementOutcome struct {
	Spec       placementSpec `json:"spec"`
	Fired      bool          `json:"fired"`
	Blocked    bool          `json:"blocked"`
	Panic      string        `json:"panic,omitempty"`
	Failed     []invResult   `json:"failed"`     // invariants that fail for the placement only
	Sequential []string      `json:"sequential"` // invariants that fail in a sequential order as well
	Checks     int           `json:"checks"`
}

// decorated world: like newWorld, but every collaborator edge goes through a decorator sharing one hook
func newDecoratedWorld(h *hookPoint) (*World, error) {
	s := node.DefaultSettings()
	s.Timeout = 2 * time.Second
	s.BlocksLimit = 1000
	w := &World{S: s, A: node.NewWallet(0), B: node.NewWallet(1), C: node.NewWallet(2), reqCache: map[string][]byte{}, txIds: map[string]bool{}}
	var err error
	w.P, w.M, w.N, w.Split, err = lineages(s, w.A, w.B, 14)
	if err != nil {
		return nil, err
	}
	hn := &node.Node{Name: "127.0.0.1:10000", Settings: s, Validator: w.C.Address}
	hn.Humans = &node.Humans{Invalid: map[string]bool{}, Failing: map[string]bool{}}
	hn.Log = &node.Logger{}
	hn.Senders = &node.Senders{Host: hn.Name}
	hn.Reg = verification.NewAddressesRegistry(hn.Humans, hn.Log)
	hn.Utxos = verification.NewUtxosRegistry(s)
	seeds := map[string]int{"127.0.0.1:10001": 0}
	fac := &factory{w: w, peers: map[string]*peer{}}
	for t := range seeds {
		fac.peers[t] = &peer{target: t, w: w}
	}
	w.Nbh = network.NewNeighborhood(fac, "127.0.0.1", "10000", 8, seeds, watch{})
	w.SM = &recSenders{inner: w.Nbh, hook: func(m string) { h.at(m) }}
	hn.Chain = verification.NewBlockchain(&decoReg{hn.Reg, h}, s, w.SM, &decoUtxos{hn.Utxos, h}, hn.Log)
	hn.Pool = validation.NewTransactionsPool(&decoBlocks{hn.Chain, h}, s, w.SM, &decoUtxos{hn.Utxos, h}, w.C.Address, hn.Log)
	w.H = hn
	hk := func() { h.at("GetBlocks") }
	w.getBlocksHook.Store(&hk)
	w.Nbh.Synchronize(0)
	time.Sleep(2 * time.Millisecond)
	hn.Pool.Validate(T0)
	start := w.M[:len(w.P)+2]
	w.publish(start)
	for i := 0; i < 6 && len(hn.AllBlocks()) < len(start); i++ {
		hn.Chain.Update(farFuture)
	}
	if got := hn.AllBlocks(); len(got) != len(start) {
		return nil, fmt.Errorf("host did not adopt the initial chain (has %d of %d): %v", len(got), len(start), tailStr(hn.Log.Snapshot(), 4))
	}
	hn.Log.Drain()
	return w, nil
}

// lineages are expensive (signatures): built once per process
var (
	linOnce          sync.Once
	linP, linM, linN []*ledger.Block
	linSplit         []splitOut
	linErr           error
)

func lineages(s *node.Settings, A, B *node.Wallet, length int) ([]*ledger.Block, []*ledger.Block, []*ledger.Block, []splitOut, error) {
	linOnce.Do(func() { linP, linM, linN, linSplit, linErr = buildLineages(s, A, B, length) })
	return linP, linM, linN, linSplit, linErr
}

// the operations, run synchronously on world w
func runOuter(w *World, outer string, txKey int) {
	switch outer {
	case "Blockchain.Update:tipswap":
		// a sync round that swaps the tip for a competitor of the same height (prepared before: see onePlacement)
		if w.competitor != nil {
			w.publish(w.competitor)
			w.H.Chain.Update(farFuture)
		}
	case "Blockchain.Update":
		// the neighbour serves the other lineage, two blocks longer than the host: a deep fork (Clear + rebuild);
		n := len(w.H.AllBlocks()) + 2
		w.publish(w.M[:n])
		w.H.Chain.Update(farFuture)
	case "TransactionsPool.Validate":
		w.H.Pool.Validate(w.H.Chain.LastBlockTimestamp() + w.S.Interval)
	case "TransactionsPool.AddTransaction":
		submit(w, txKey)
	}
}

func submit(w *World, j int) {
	ts := w.H.Chain.LastBlockTimestamp()
	b, key, err := w.request(j, ts)
	if err != nil {
		return
	}
	w.reqMu.Lock()
	if w.judging {
		if w.attempted == nil {
			w.attempted = map[string]int64{}
		}
		w.attempted[w.idByKey[key]] = ts
	}
	w.reqMu.Unlock()
	var r *ledger.TransactionRequest
	if json.Unmarshal(b, &r) != nil || r == nil {
		return
	}
	w.H.Pool.AddTransaction(r.Transaction(), r.TransactionBroadcasterTarget(), w.SM.HostTarget())
}

// competitorOf builds a chain that shares all of the host's blocks but the last and ends in ANOTHER block of the same
// height and timestamp, produced by a real node of another validator (which has waited longer than the host's tip
// validator, so that fork choice prefers it).  withConflict: the competing tip spends the split output that the host's
// pooled transaction 1 spends.
func competitorOf(w *World, withConflict bool) ([]*ledger.Block, error) {
	hb := w.H.AllBlocks()
	if len(hb) < 3 {
		return nil, fmt.Errorf("host too short")
	}
	pc, err := adopt("pc", w.S, node.NewWallet(9).Address, hb[:len(hb)-1])
	if err != nil {
		return nil, err
	}
	if withConflict {
		so := w.Split[1%hostSplit]
		to := node.NewWallet(5000)
		tx, _, e := node.MakeTx([]node.Spend{{TxId: so.txId, Index: so.index, By: so.by}},
			[]node.RawOutput{{Address: to.Address, IsYielding: false, Value: 14_000}}, pc.Chain.LastBlockTimestamp())
		if e != nil {
			return nil, e
		}
		pc.Pool.AddTransaction(tx, "", "")
	}
	pc.Pool.Validate(hb[len(hb)-1].Timestamp())
	cb := pc.AllBlocks()
	if len(cb) != len(hb) {
		return nil, fmt.Errorf("competitor has %d blocks, host %d: %v", len(cb), len(hb), tailStr(pc.Log.Snapshot(), 3))
	}
	return cb, nil
}

// extensionOf builds the host's chain plus ONE block produced by a real node of another validator at the next slot
// (the slot of the host's own next tick).
func extensionOf(w *World) ([]*ledger.Block, error) {
	hb := w.H.AllBlocks()
	pc, err := adopt("pe", w.S, node.NewWallet(9).Address, hb)
	if err != nil {
		return nil, err
	}
	pc.Pool.Validate(hb[len(hb)-1].Timestamp() + w.S.Interval)
	cb := pc.AllBlocks()
	if len(cb) != len(hb)+1 {
		return nil, fmt.Errorf("extender has %d blocks, host %d: %v", len(cb), len(hb), tailStr(pc.Log.Snapshot(), 3))
	}
	return cb, nil
}

func runInner(w *World, rc *runCtx, inner string, txKey int) {
	switch inner {
	case "engine:Blockchain.Update:extend1":
		// a sync round that adopts ONE more block, dated as the host's own next tick (prepared before: onePlacement)
		if w.competitor != nil {
			w.publish(w.competitor)
			w.H.Chain.Update(farFuture)
		}
	case "engine:Blockchain.Update:tipswap", "engine:Blockchain.Update:tipswap-conflict":
		// a sync round that swaps the tip for a competitor of the same height (prepared before the outer operation
		// started: see onePlacement)
		if w.competitor != nil {
			w.publish(w.competitor)
			w.H.Chain.Update(farFuture)
		}
	case "engine:Blockchain.Update":
		n := len(w.H.AllBlocks()) + 2
		w.publish(w.N[:n]) // the other lineage: a fork for a host on M
		w.H.Chain.Update(farFuture)
	case "engine:TransactionsPool.Validate":
		w.H.Pool.Validate(w.H.Chain.LastBlockTimestamp() + w.S.Interval)
	case txRoot:
		submit(w, txKey)
	case "engine:AddressesRegistry.Synchronize":
		w.H.Humans.Set([]string{w.A.Address}, nil)
		w.H.Reg.Synchronize(0)
	case "handler:SendersController.HandleTargetsRequest":
		w.Nbh.AddTargets([]string{"127.0.0.1:10007"})
	default:
		if d, ok := drivers[inner]; ok {
			d(rc, 0)
		}
	}
}

func failedInvariants(w *World) ([]invResult, int) {
	time.Sleep(5 * time.Millisecond)
	logs := w.H.Log.Snapshot()
	replaced := false
	for _, l := range logs {
		if strings.Contains(l, "blockchain replaced") {
			replaced = true
		}
	}
	all := checkInvariants(w, replaced, logs)
	var bad []invResult
	for _, iv := range all {
		if !iv.Ok {
			bad = append(bad, iv)
		}
	}
	return bad, len(all)
}

func onePlacement(sp placementSpec) (out placementOutcome) {
	out.Spec = sp
	out.Failed = []invResult{}
	out.Sequential = []string{}
	defer func() {
		if r := recover(); r != nil {
			out.Panic = fmt.Sprint(r)
		}
	}()
	// a pending transaction gives block production and admission something to work on
	prepare := func(w *World) {
		submit(w, 1)
		submit(w, 2)
		if sp.Inner == "engine:Blockchain.Update:extend1" {
			c, err := extensionOf(w)
			if err != nil {
				out.Panic = "extension: " + err.Error()
			}
			w.competitor = c
		}
		if strings.HasPrefix(sp.Inner, "engine:Blockchain.Update:tipswap") || sp.Outer == "Blockchain.Update:tipswap" {
			c, err := competitorOf(w, strings.HasSuffix(sp.Inner, "-conflict"))
			if err != nil {
				out.Panic = "competitor: " + err.Error()
			}
			w.competitor = c
		}
	}
	// sequential orders first
	seqFailed := map[string]bool{}
	for order := 0; order < 2; order++ {
		h := &hookPoint{action: func() {}}
		w, err := newDecoratedWorld(h)
		if err != nil {
			out.Panic = "world: " + err.Error()
			return
		}
		rc := newRunCtx(w, 1)
		rc.progress = make([]atomic.Int64, 1)
		prepare(w)
		w.judging = sp.Table == "dynamic-async"
		if order == 0 {
			runInner(w, rc, sp.Inner, 3)
			runOuter(w, sp.Outer, 3)
		} else {
			runOuter(w, sp.Outer, 3)
			runInner(w, rc, sp.Inner, 3)
		}
		bad, n := failedInvariants(w)
		out.Checks += n
		for _, iv := range bad {
			seqFailed[iv.Name] = true
		}
	}
	// the placement
	h := &hookPoint{}
	w, err := newDecoratedWorld(h)
	if err != nil {
		out.Panic = "world: " + err.Error()
		return
	}
	rc := newRunCtx(w, 1)
	rc.progress = make([]atomic.Int64, 1)
	prepare(w)
	w.judging = sp.Table == "dynamic-async"
	async := sp.Table == "dynamic-async"
	innerDone := make(chan struct{})
	h.action = func() {
		done := innerDone
		go func() {
			defer close(done)
			defer func() {
				if r := recover(); r != nil {
					out.Panic = "inner: " + fmt.Sprint(r)
				}
			}()
			runInner(w, rc, sp.Inner, 3)
		}()
		if async {
			// the inner operation STARTS here (it reads what it reads) and may have to wait for a lock the outer one
			// holds: give it time to get there, then let the outer operation go on; it finishes afterwards
			select {
			case <-done:
			case <-time.After(150 * time.Millisecond):
			}
			return
		}
		select {
		case <-done:
		case <-time.After(3 * time.Second):
			out.Blocked = true
		}
	}
	label := sp.Label
	h.armed.Store(&label)
	fin := make(chan struct{})
	go func() {
		defer close(fin)
		defer func() {
			if r := recover(); r != nil {
				out.Panic = "outer: " + fmt.Sprint(r)
			}
		}()
		runOuter(w, sp.Outer, 3)
	}()
	select {
	case <-fin:
	case <-time.After(8 * time.Second):
		out.Blocked = true
		out.Fired = h.fired.Load()
		return
	}
	out.Fired = h.fired.Load()
	if out.Blocked {
		return
	}
	if async && out.Fired {
		select {
		case <-innerDone:
		case <-time.After(3 * time.Second):
			out.Blocked = true
			return
		}
	}
	bad, n := failedInvariants(w)
	out.Checks += n
	for _, iv := range bad {
		if seqFailed[iv.Name] {
			out.Sequential = append(out.Sequential, iv.Name)
		} else {
			out.Failed = append(out.Failed, iv)
		}
	}
	return
}

func runPlacementChild(params string) {
	var specs []placementSpec
	if err := json.Unmarshal([]byte(params), &specs); err != nil {
		emit(map[string]string{"fatal": err.Error()})
		os.Exit(2)
	}
	var outs []placementOutcome
	for _, sp := range specs {
		outs = append(outs, onePlacement(sp))
	}
	emit(map[string]interface{}{"outcomes": outs})
}

func runPlacements(tablesPath, work string, seed int64, sel string, workers int) {
	t := loadTables(tablesPath)
	// distinct dynamic placements: (outer, decorator label, inner), with the table's verdict (stale wins)
	byKey := map[string]*placementSpec{}
	skipped := map[string]int{}
	for _, p := range t.Placements {
		where, canon := hookFor(p.OuterName, p.Label)
		if where == "" {
			skipped[p.OuterName+"@"+p.Label]++
			continue
		}
		if _, ok := drivers[p.InnerRoot]; !ok {
			skipped["inner "+p.InnerRoot]++
			continue
		}
		k := p.OuterName + "@" + canon + "/" + p.InnerRoot
		if p.Verdict == "excluded" {
			// the inner cannot complete there (it needs a mutex the outer holds): not replayed
			if _, ok := byKey[k]; !ok {
				byKey[k] = &placementSpec{p.OuterName, where, canon, p.InnerRoot, "excluded", "C16/placement/" + k}
			}
			continue
		}
		cur, ok := byKey[k]
		if !ok || cur.Table == "excluded" || p.Verdict == "stale" && cur.Table != "stale" {
			byKey[k] = &placementSpec{p.OuterName, where, canon, p.InnerRoot, p.Verdict, "C16/placement/" + k}
		}
	}
	var specs []placementSpec
	excluded := 0
	for _, sp := range byKey {
		if sp.Table == "excluded" {
			excluded++
			continue
		}
		if sel != "thorough" && sp.Table != "stale" {
			continue
		}
		specs = append(specs, *sp)
	}
	// dynamic-only placements (not table rows): a sync round that swaps the tip for a same-height competitor — without
	// and with a transaction conflicting with the pool — inside each collaborator call of block production, the calls
	// made by Blockchain.AddBlock on the registry included
	for _, lab := range []string{"Blockchain.LastBlockTimestamp", "Blockchain.LastBlockTransactions", "UtxosRegistry.Copy",
		"UtxosRegistry.CalculateFee", "Blockchain.AddBlock", "AddressesRegistry.Filter", "AddressesRegistry.RemovedAddresses"} {
		for _, in := range []string{"engine:Blockchain.Update:tipswap", "engine:Blockchain.Update:tipswap-conflict"} {
			if sel != "thorough" && in == "engine:Blockchain.Update:tipswap" && lab != "Blockchain.AddBlock" && lab != "AddressesRegistry.Filter" {
				continue
			}
			where, canon := hookFor("TransactionsPool.Validate", lab)
			k := "TransactionsPool.Validate@" + canon + "/" + in
			specs = append(specs, placementSpec{"TransactionsPool.Validate", where, canon, in, "dynamic-only", "C16/placement/" + k})
		}
	}
	// a submission that STARTS inside the tick's AddBlock call (it reads the tip, then has to wait for the pool lock the
	// tick holds) and finishes after the tick: what it read before the block was appended must not decide its admission
	{
		where, canon := hookFor("TransactionsPool.Validate", "Blockchain.AddBlock")
		k := "TransactionsPool.Validate@" + canon + "/" + txRoot + ":async"
		specs = append(specs, placementSpec{"TransactionsPool.Validate", where, canon, txRoot, "dynamic-async", "C16/placement/" + k})
	}
	// a round that adopts one more block — dated as the tick's own slot — between the tick's reads and its AddBlock
	for _, lab := range []string{"Blockchain.LastBlockTransactions", "UtxosRegistry.Copy", "Blockchain.AddBlock"} {
		where, canon := hookFor("TransactionsPool.Validate", lab)
		k := "TransactionsPool.Validate@" + canon + "/engine:Blockchain.Update:extend1"
		specs = append(specs, placementSpec{"TransactionsPool.Validate", where, canon, "engine:Blockchain.Update:extend1", "dynamic-only", "C16/placement/" + k})
	}
	// … and the converse: block production (which confirms the host's tip) and an admission, run to completion while a
	// tip-swapping sync round waits for its neighbour's answer
	for _, in := range []string{"engine:TransactionsPool.Validate", txRoot} {
		k := "Blockchain.Update:tipswap@GetBlocks/" + in
		specs = append(specs, placementSpec{"Blockchain.Update:tipswap", "sender", "GetBlocks", in, "dynamic-only", "C16/placement/" + k})
	}
	sort.Slice(specs, func(i, j int) bool { return specs[i].Signature < specs[j].Signature })
	// chunks
	if workers < 1 {
		workers = 1
	}
	chunks := make([][]placementSpec, workers)
	for i, sp := range specs {
		chunks[i%workers] = append(chunks[i%workers], sp)
	}
	results := make([][]placementOutcome, workers)
	errs := make([]string, workers)
	var wg sync.WaitGroup
	for i := range chunks {
		if len(chunks[i]) == 0 {
			continue
		}
		wg.Add(1)
		go func(i int) {
			defer wg.Done()
			pb, _ := json.Marshal(chunks[i])
			ctx, cancel := context.WithTimeout(context.Background(), 10*time.Minute)
			defer cancel()
			cmd := exec.CommandContext(ctx, os.Args[0], "--mode", "child-placement", "--params", string(pb))
			cmd.Env = append(os.Environ(), "GORACE=halt_on_error=0 exitcode=0 log_path="+work+"/placement-race")
			out, err := cmd.Output()
			lines := strings.Split(strings.TrimSpace(string(out)), "\n")
			var r struct {
				Outcomes []placementOutcome `json:"outcomes"`
			}
			if e := json.Unmarshal([]byte(lines[len(lines)-1]), &r); e != nil || err != nil {
				errs[i] = fmt.Sprintf("placement child failed: %v %v: %s", err, e, tailS(string(out), 300))
			}
			results[i] = r.Outcomes
		}(i)
	}
	wg.Wait()
	if logs, _ := filepath.Glob(work + "/placement-race.*"); logs != nil {
		for _, l := range logs {
			_ = os.Remove(l)
		}
	}
	failures := []failure{}
	fired, notFired, blocked, checks, seqOnly := 0, 0, 0, 0, 0
	var samples []placementOutcome
	viol := []map[string]interface{}{}
	for i := range results {
		if errs[i] != "" {
			failures = append(failures, failure{"diff", fmt.Sprintf("C16/placement/harness/chunk%d", i), errs[i], false, map[string]interface{}{"tool": "ruconc", "mode": "placements"}})
		}
		for _, o := range results[i] {
			checks += o.Checks
			if o.Fired {
				fired++
			} else {
				notFired++
			}
			if len(o.Sequential) > 0 {
				seqOnly++
			}
			if len(samples) < 3 && o.Fired {
				samples = append(samples, o)
			}
			replay := map[string]interface{}{"tool": "ruconc", "mode": "placements", "spec": o.Spec}
			if o.Panic != "" {
				failures = append(failures, failure{"prop", o.Spec.Signature + "/panic", "panic while running " + o.Spec.Inner + " inside " + o.Spec.Outer + "@" + o.Spec.Label + ": " + o.Panic, true, replay})
			}
			// a call made by Blockchain.AddBlock on the registry runs under the chain's write lock: the sync round's
			// commit (and its snapshot read) cannot run there — blocking IS the expected outcome of these dynamic-only
			// placements; they exist to catch a change that moves such a call out of the lock
			if o.Blocked && o.Spec.Table == "dynamic-only" && strings.HasPrefix(o.Spec.Label, "AddressesRegistry.") {
				blocked++
			} else if o.Blocked {
				blocked++
				failures = append(failures, failure{"tie", o.Spec.Signature + "/blocked",
					"the inner operation did not complete inside the call although the table does not exclude the placement (a mutex the table does not know?)", true, replay})
			}
			if len(o.Failed) > 0 {
				var ds []string
				for _, iv := range o.Failed {
					ds = append(ds, iv.Name+": "+iv.Detail)
				}
				failures = append(failures, failure{"prop", o.Spec.Signature,
					fmt.Sprintf("running %s to completion inside %s of %s breaks, at quiescence, invariants that hold in both sequential orders: %s (table verdict: %s)",
						o.Spec.Inner, o.Spec.Label, o.Spec.Outer, strings.Join(ds, "; "), o.Spec.Table), true, replay})
				viol = append(viol, map[string]interface{}{"signature": o.Spec.Signature, "failed": o.Failed, "table": o.Spec.Table})
			}
		}
	}
	emit(map[string]interface{}{"mode": "placements", "replayed": len(specs), "fired": fired, "not_reached": notFired, "blocked": blocked,
		"excluded_by_table": excluded, "no_dynamic_hook": skipped, "invariant_checks": checks, "sequentially_failing_too": seqOnly,
		"violations": viol, "failures": failures, "samples": samples})
}
