// runeigh — correspondence and failing-input search for property C17 (neighbour set).
//
// Drives the REAL network.NewNeighborhood of the repo under test with a fake application.SenderCreator
// (scripted unreachable endpoints; created senders record SendTargets), generates scenarios from ONE
// PRNG (--seed), pipes every operation to the Lean model driver (lean/neigh, `neighdriver`) and compares
//
//	implementation result ∈ model's allowed set   (Go map order and rand.Shuffle are uncontrollable)
//	retained targets (the private score map, read through reflection, read-only) == model's
//	fan-out (SendTargets arguments) == model's
//
// and, independently of the model, evaluates the clauses of C17 on what the implementation did.
// A panic of the code under test is caught and reported with the operation that caused it.
//
// Output: human-readable progress on stderr, ONE JSON summary line on stdout (last line).
package main

import (
	"bufio"
	"crypto/sha256"
	"encoding/hex"
	"encoding/json"
	"flag"
	"fmt"
	"io"
	"math/rand"
	"os"
	"os/exec"
	"reflect"
	"runtime"
	"sort"
	"strings"
	"sync"
	"time"
	"unsafe"

	"github.com/my-cloud/ruthenium/validatornode/application"
	"github.com/my-cloud/ruthenium/validatornode/application/network"
)

// ---------------------------------------------------------------------------------------------- fakes

type endpoint struct{ Ip, Port string }

func (e endpoint) key() string { return e.Ip + "\x00" + e.Port }

type fakeSender struct {
	ep     endpoint
	target string
	mu     sync.Mutex
	calls  [][]string
	first  chan struct{}
	once   sync.Once
}

func (s *fakeSender) Target() string                         { return s.target }
func (s *fakeSender) GetBlocks(uint64) ([]byte, error)       { return nil, nil }
func (s *fakeSender) GetFirstBlockTimestamp() (int64, error) { return 0, nil }
func (s *fakeSender) GetSettings() ([]byte, error)           { return nil, nil }
func (s *fakeSender) AddTransaction([]byte) error            { return nil }
func (s *fakeSender) GetTransactions() ([]byte, error)       { return nil, nil }
func (s *fakeSender) GetUtxos(string) ([]byte, error)        { return nil, nil }
func (s *fakeSender) SendTargets(targets []string) error {
	cp := append([]string(nil), targets...)
	s.mu.Lock()
	s.calls = append(s.calls, cp)
	s.mu.Unlock()
	s.once.Do(func() { close(s.first) })
	return nil
}
func (s *fakeSender) snapshot() [][]string {
	s.mu.Lock()
	defer s.mu.Unlock()
	return append([][]string(nil), s.calls...)
}

// fakeCreator mirrors p2p.NeighborFactory: LookupIP(ip) (scripted table), then a sender whose Target() is
// network.NewTarget(lookedUpIp, port).Value(); CreateSender fails for scripted unreachable endpoints.
type fakeCreator struct {
	mu          sync.Mutex
	lookup      map[string]string
	unreachable map[string]bool
	calls       []endpoint
	created     []*fakeSender
}

func (c *fakeCreator) targetFor(ip, port string) string {
	if r, ok := c.lookup[ip]; ok {
		ip = r
	}
	return network.NewTarget(ip, port).Value()
}

func (c *fakeCreator) CreateSender(ip string, port string) (application.Sender, error) {
	c.mu.Lock()
	defer c.mu.Unlock()
	ep := endpoint{ip, port}
	c.calls = append(c.calls, ep)
	if c.unreachable[ep.key()] {
		return nil, fmt.Errorf("unreachable %s", network.NewTarget(ip, port).Value())
	}
	s := &fakeSender{ep: ep, target: c.targetFor(ip, port), first: make(chan struct{})}
	c.created = append(c.created, s)
	return s, nil
}

func (c *fakeCreator) beginRound(unreachable []endpoint) {
	c.mu.Lock()
	defer c.mu.Unlock()
	c.unreachable = map[string]bool{}
	for _, e := range unreachable {
		c.unreachable[e.key()] = true
	}
	c.calls = nil
	c.created = nil
}

// peekScores reads the private map Neighborhood.scoresByTargetValue (read-only, between operations).
func peekScores(nb *network.Neighborhood) (map[string]int, bool) {
	v := reflect.ValueOf(nb).Elem()
	f := v.FieldByName("scoresByTargetValue")
	if !f.IsValid() || f.Kind() != reflect.Map || !f.CanAddr() {
		return nil, false
	}
	f = reflect.NewAt(f.Type(), unsafe.Pointer(f.UnsafeAddr())).Elem()
	m, ok := f.Interface().(map[string]int)
	if !ok {
		return nil, false
	}
	cp := make(map[string]int, len(m))
	for k, s := range m {
		cp[k] = s
	}
	return cp, true
}

// ---------------------------------------------------------------------------------------------- scenarios

type Op struct {
	Kind        string     `json:"kind"` // add | inc | sync
	Targets     []string   `json:"targets,omitempty"`
	Target      string     `json:"target,omitempty"`
	Unreachable []endpoint `json:"unreachable,omitempty"`
}

type Seed struct {
	Value string `json:"value"`
	Score int    `json:"score"`
}

type Scenario struct {
	HostIp   string            `json:"hostIp"`
	HostPort string            `json:"hostPort"`
	Max      int               `json:"max"`
	Seeds    []Seed            `json:"seeds"`
	Lookup   map[string]string `json:"lookup,omitempty"`
	Ops      []Op              `json:"ops"`
	Kinds    map[string]string `json:"-"` // value -> generator kind (statistics only)
}

type Failure struct {
	Kind       string          `json:"kind"` // diff | prop
	Signature  string          `json:"signature"`
	Detail     string          `json:"detail"`
	OpIndex    int             `json:"op_index"`
	FoundInput bool            `json:"found_input"`
	Replay     json.RawMessage `json:"replay,omitempty"`
}

type Stats struct {
	Evaluations  int             `json:"evaluations"`
	Rounds       int             `json:"rounds"`
	Scenarios    int             `json:"scenarios"`
	Nontrivial   map[string]bool `json:"-"`
	OpKinds      map[string]int  `json:"op_kinds"`
	TargetKinds  map[string]int  `json:"target_kinds"`
	MaxHist      map[string]int  `json:"max_hist"`
	OutSizeHist  map[string]int  `json:"outbound_size_hist"`
	SourceHist   map[string]int  `json:"source_hist"`
	RoundShapes  map[string]int  `json:"round_shapes"`
	Strong       map[string]int  `json:"strong_reading_hits"`
	Samples      []string        `json:"samples"`
	ModelChecked int             `json:"model_answers_compared"`
}

func newStats() *Stats {
	return &Stats{Nontrivial: map[string]bool{}, OpKinds: map[string]int{}, TargetKinds: map[string]int{},
		MaxHist: map[string]int{}, OutSizeHist: map[string]int{}, SourceHist: map[string]int{},
		RoundShapes: map[string]int{}, Strong: map[string]int{}}
}

var malformed = []string{"junk", "10.0.0.77", "10.0.0.78:1:2", "[::1", "::1:10600", "", "[10.0.0.79]10600", "10.0.0.80:10600:", "]:10600["}

func portOnNetwork(rng *rand.Rand, hostPort string) string {
	switch {
	case hostPort == "10600":
		return "10600"
	case len(hostPort) == 5 && hostPort[:3] == "106":
		return fmt.Sprintf("106%02d", 1+rng.Intn(99))
	default:
		return []string{"8106", "443", "1060", "106000", "0", "65535"}[rng.Intn(6)]
	}
}

func foreignPort(rng *rand.Rand, hostPort string) string {
	switch {
	case hostPort == "10600":
		return []string{"10601", "10699", "8080", "106ab"}[rng.Intn(4)]
	case len(hostPort) == 5 && hostPort[:3] == "106":
		return []string{"10600", "8080", "1060", ""}[rng.Intn(4)]
	default:
		return []string{"10600", "10601", "10650"}[rng.Intn(3)]
	}
}

// genScenario draws everything from rng.
func genScenario(rng *rand.Rand, negMax bool) *Scenario {
	sc := &Scenario{Lookup: map[string]string{}, Kinds: map[string]string{}}
	switch rng.Intn(10) {
	case 0, 1:
		sc.HostIp = "2001:db8::9"
	case 2:
		sc.HostIp = "::1"
	default:
		sc.HostIp = "10.0.0.9"
	}
	switch rng.Intn(10) {
	case 0, 1, 2, 3:
		sc.HostPort = "10600"
	case 4, 5, 6, 7:
		sc.HostPort = fmt.Sprintf("106%02d", 1+rng.Intn(99))
	default:
		sc.HostPort = []string{"8106", "443", "106000"}[rng.Intn(3)]
	}
	sc.Max = rng.Intn(11)
	if negMax && rng.Intn(25) == 0 {
		sc.Max = -1 - rng.Intn(3)
	}
	hostValue := network.NewTarget(sc.HostIp, sc.HostPort).Value()

	// universe of target strings of this scenario
	var universe []string
	add := func(v, kind string) {
		if _, dup := sc.Kinds[v]; !dup {
			sc.Kinds[v] = kind
			universe = append(universe, v)
		}
	}
	nValid := 2 + rng.Intn(11)
	var validV4 []endpoint
	for i := 0; i < nValid; i++ {
		port := portOnNetwork(rng, sc.HostPort)
		switch rng.Intn(6) {
		case 0:
			ip := fmt.Sprintf("2001:db8::%x", 16+rng.Intn(200))
			add(network.NewTarget(ip, port).Value(), "valid-ipv6")
		case 1:
			name := fmt.Sprintf("node-%d.example", rng.Intn(50))
			if rng.Intn(2) == 0 && len(validV4) > 0 {
				sc.Lookup[name] = validV4[rng.Intn(len(validV4))].Ip // DNS alias of another announced peer
			} else {
				sc.Lookup[name] = fmt.Sprintf("10.1.0.%d", 1+rng.Intn(200))
			}
			add(name+":"+port, "valid-hostname")
		default:
			ip := fmt.Sprintf("10.0.%d.%d", rng.Intn(3), 10+rng.Intn(60))
			validV4 = append(validV4, endpoint{ip, port})
			add(ip+":"+port, "valid")
		}
	}
	if len(validV4) > 0 && rng.Intn(3) == 0 {
		e := validV4[rng.Intn(len(validV4))]
		add("["+e.Ip+"]:"+e.Port, "valid-alias-spelling")
	}
	for i, n := 0, rng.Intn(3); i < n; i++ {
		add(malformed[rng.Intn(len(malformed))], "malformed")
	}
	for i, n := 0, rng.Intn(3); i < n; i++ {
		ip := fmt.Sprintf("10.9.0.%d", 1+rng.Intn(200))
		add(network.NewTarget(ip, foreignPort(rng, sc.HostPort)).Value(), "foreign-network")
	}
	if rng.Intn(2) == 0 {
		add(hostValue, "self")
	}
	if rng.Intn(6) == 0 && !strings.Contains(sc.HostIp, ":") {
		add("["+sc.HostIp+"]:"+sc.HostPort, "self-alias-spelling")
	}
	if rng.Intn(8) == 0 {
		add(fmt.Sprintf("10.0.5.%d:", rng.Intn(200)), "empty-port")
	}
	pick := func() string { return universe[rng.Intn(len(universe))] }

	// seeds: distinct values, usually score 0 as in main.go, sometimes arbitrary scores
	seen := map[string]bool{}
	for i, n := 0, rng.Intn(5); i < n; i++ {
		v := pick()
		if seen[v] {
			continue
		}
		seen[v] = true
		score := 0
		if rng.Intn(4) == 0 {
			score = rng.Intn(7) - 3
		}
		sc.Seeds = append(sc.Seeds, Seed{v, score})
	}

	// endpoints that can be made unreachable
	var eps []endpoint
	epSeen := map[string]bool{}
	for _, v := range universe {
		if t, err := network.NewTargetFromValue(v); err == nil {
			e := endpoint{t.Ip(), t.Port()}
			if !epSeen[e.key()] {
				epSeen[e.key()] = true
				eps = append(eps, e)
			}
		}
	}
	nOps := 3 + rng.Intn(22)
	for i := 0; i < nOps; i++ {
		switch r := rng.Intn(10); {
		case r < 5:
			var ts []string
			for j, n := 0, rng.Intn(13); j < n; j++ {
				ts = append(ts, pick())
			}
			if rng.Intn(6) == 0 && len(ts) > 0 { // explicit duplicate burst
				ts = append(ts, ts[0], ts[0])
			}
			sc.Ops = append(sc.Ops, Op{Kind: "add", Targets: ts})
		case r < 8:
			v := pick()
			for j, n := 0, 1+rng.Intn(3); j < n; j++ {
				sc.Ops = append(sc.Ops, Op{Kind: "inc", Target: v})
			}
		default:
			p := []float64{0, 0, 0.2, 0.5, 1}[rng.Intn(5)]
			var un []endpoint
			for _, e := range eps {
				if rng.Float64() < p {
					un = append(un, e)
				}
			}
			sc.Ops = append(sc.Ops, Op{Kind: "sync", Unreachable: un})
		}
	}
	sc.Ops = append(sc.Ops, Op{Kind: "sync"}) // every scenario ends with a round
	return sc
}

// ---------------------------------------------------------------------------------------------- driver

type Driver struct {
	cmd *exec.Cmd
	in  io.WriteCloser
	out *bufio.Reader
}

func startDriver(path string) (*Driver, error) {
	cmd := exec.Command(path)
	in, err := cmd.StdinPipe()
	if err != nil {
		return nil, err
	}
	out, err := cmd.StdoutPipe()
	if err != nil {
		return nil, err
	}
	cmd.Stderr = os.Stderr
	if err := cmd.Start(); err != nil {
		return nil, err
	}
	return &Driver{cmd, in, bufio.NewReaderSize(out, 1<<20)}, nil
}

func (d *Driver) ask(req map[string]any) (map[string]any, error) {
	b, err := json.Marshal(req)
	if err != nil {
		return nil, err
	}
	if _, err := d.in.Write(append(b, '\n')); err != nil {
		return nil, err
	}
	line, err := d.out.ReadBytes('\n')
	if err != nil {
		return nil, fmt.Errorf("driver closed: %w", err)
	}
	var ans map[string]any
	if err := json.Unmarshal(line, &ans); err != nil {
		return nil, fmt.Errorf("driver answer unparsable: %s", line)
	}
	if e, ok := ans["error"]; ok {
		return nil, fmt.Errorf("driver error: %v", e)
	}
	return ans, nil
}

func (d *Driver) close() {
	d.in.Close()
	d.cmd.Wait()
}

// ---------------------------------------------------------------------------------------------- helpers

func sortedCopy(l []string) []string {
	c := append([]string{}, l...)
	sort.Strings(c)
	return c
}

func eqStrings(a, b []string) bool {
	if len(a) != len(b) {
		return false
	}
	for i := range a {
		if a[i] != b[i] {
			return false
		}
	}
	return true
}

func scoresCanon(m map[string]int) string {
	keys := make([]string, 0, len(m))
	for k := range m {
		keys = append(keys, k)
	}
	sort.Strings(keys)
	var sb strings.Builder
	for _, k := range keys {
		fmt.Fprintf(&sb, "%q=%d;", k, m[k])
	}
	return sb.String()
}

func modelScores(ans map[string]any) map[string]int {
	m := map[string]int{}
	arr, _ := ans["scores"].([]any)
	for _, e := range arr {
		p, _ := e.([]any)
		if len(p) == 2 {
			k, _ := p[0].(string)
			s, _ := p[1].(float64)
			m[k] = int(s)
		}
	}
	return m
}

func endpointsOf(v any) []string {
	var r []string
	arr, _ := v.([]any)
	for _, e := range arr {
		p, _ := e.([]any)
		if len(p) >= 2 {
			a, _ := p[0].(string)
			b, _ := p[1].(string)
			r = append(r, endpoint{a, b}.key())
		}
	}
	sort.Strings(r)
	return r
}

func show(keys []string) string {
	var r []string
	for _, k := range keys {
		r = append(r, strings.Replace(k, "\x00", "|", 1))
	}
	return "[" + strings.Join(r, " ") + "]"
}

// multiset a minus multiset b; ok=false when b is not contained in a
func msetMinus(a, b []string) (rest []string, ok bool) {
	cnt := map[string]int{}
	for _, x := range a {
		cnt[x]++
	}
	ok = true
	for _, x := range b {
		if cnt[x] == 0 {
			ok = false
		} else {
			cnt[x]--
		}
	}
	for _, x := range a {
		if cnt[x] > 0 {
			cnt[x]--
			rest = append(rest, x)
		}
	}
	sort.Strings(rest)
	return
}

type cand struct {
	value  string
	ep     endpoint
	score  int
	target string
}

// ---------------------------------------------------------------------------------------------- runner

type runner struct {
	drv    *Driver
	stats  *Stats
	strict bool
}

func safely(f func()) (msg string, panicked bool) {
	defer func() {
		if r := recover(); r != nil {
			panicked = true
			msg = fmt.Sprint(r)
		}
	}()
	f()
	return
}

func (r *runner) infoFor(c *fakeCreator, v string) map[string]any {
	t, err := network.NewTargetFromValue(v)
	if err != nil {
		return map[string]any{"v": v, "ok": false, "ip": "", "port": "", "target": ""}
	}
	return map[string]any{"v": v, "ok": true, "ip": t.Ip(), "port": t.Port(), "target": c.targetFor(t.Ip(), t.Port())}
}

// runScenario executes sc on a fresh real Neighborhood and a fresh model state; count=false while minimising.
func (r *runner) runScenario(sc *Scenario, count bool) (fails []Failure) {
	st := r.stats
	fail := func(kind, sig, detail string, op int) {
		fails = append(fails, Failure{Kind: kind, Signature: sig, Detail: detail, OpIndex: op, FoundInput: true})
	}
	creator := &fakeCreator{lookup: sc.Lookup, unreachable: map[string]bool{}}
	hostTarget := network.NewTarget(sc.HostIp, sc.HostPort)
	hostValue := hostTarget.Value()
	hostEp := endpoint{sc.HostIp, sc.HostPort}
	seeds := map[string]int{}
	var seedsJ [][]any
	for _, s := range sc.Seeds {
		if _, dup := seeds[s.Value]; dup {
			continue
		}
		seeds[s.Value] = s.Score
		seedsJ = append(seedsJ, []any{s.Value, s.Score})
	}
	if seedsJ == nil {
		seedsJ = [][]any{}
	}
	var nb *network.Neighborhood
	if msg, p := safely(func() {
		nb = network.NewNeighborhood(creator, sc.HostIp, sc.HostPort, sc.Max, seeds, nil)
	}); p {
		fail("prop", "C17/panic/new-neighborhood", "NewNeighborhood panicked: "+msg, -1)
		return
	}
	if nb.HostTarget() != hostValue {
		fail("diff", "C17/diff/host-target", fmt.Sprintf("HostTarget()=%q, NewTarget(ip,port).Value()=%q", nb.HostTarget(), hostValue), -1)
	}
	// everything the model needs to know about the strings of this scenario, from the real code
	mentioned := map[string]bool{hostValue: true}
	for _, s := range sc.Seeds {
		mentioned[s.Value] = true
	}
	for _, op := range sc.Ops {
		for _, t := range op.Targets {
			mentioned[t] = true
		}
		if op.Kind == "inc" {
			mentioned[op.Target] = true
		}
	}
	var vals []string
	for v := range mentioned {
		vals = append(vals, v)
	}
	sort.Strings(vals)
	var infos []map[string]any
	for _, v := range vals {
		infos = append(infos, r.infoFor(creator, v))
	}
	if _, err := r.drv.ask(map[string]any{"op": "init", "hostIp": sc.HostIp, "hostPort": sc.HostPort,
		"hostValue": hostValue, "max": sc.Max, "seeds": seedsJ, "info": infos}); err != nil {
		fail("diff", "C17/harness/driver", err.Error(), -1)
		fails[len(fails)-1].FoundInput = false
		return
	}
	if count {
		st.Scenarios++
		st.MaxHist[fmt.Sprint(sc.Max)]++
	}
	acceptable := func(v string) bool {
		t, err := network.NewTargetFromValue(v)
		return err == nil && hostTarget.IsSameNetworkId(t)
	}
	strong := func(k string) {
		if count {
			st.Strong[k]++
		}
		if r.strict {
			fail("prop", "C17/strong/"+k, "strong (endpoint) reading of C17 violated: "+k, -2)
		}
	}
	checkJunk := func(post map[string]int) {
		for k := range post {
			if !acceptable(k) {
				strong("retained-unacceptable-target")
				return
			}
		}
	}

	for i, op := range sc.Ops {
		nFailsBefore := len(fails)
		if count {
			st.Evaluations++
			st.OpKinds[op.Kind]++
		}
		pre, okPeek := peekScores(nb)
		if !okPeek {
			fail("diff", "C17/harness/peek-unavailable", "cannot read Neighborhood.scoresByTargetValue", i)
			fails[len(fails)-1].FoundInput = false
			return
		}
		switch op.Kind {
		case "add":
			if count {
				for _, t := range op.Targets {
					st.TargetKinds["add:"+sc.Kinds[t]]++
				}
			}
			if msg, p := safely(func() { nb.AddTargets(op.Targets) }); p {
				fail("prop", "C17/panic/add-targets", "AddTargets panicked: "+msg, i)
				return
			}
			post, _ := peekScores(nb)
			// C17 clause "retained only if well-formed and on the node's own network", evaluated directly
			want := map[string]int{}
			for k, s := range pre {
				want[k] = s
			}
			for _, t := range op.Targets {
				if _, known := want[t]; !known && acceptable(t) {
					want[t] = 0
				}
			}
			if scoresCanon(post) != scoresCanon(want) {
				sig := "C17/prop/retained"
				for k := range post {
					if _, w := want[k]; !w {
						if _, err := network.NewTargetFromValue(k); err != nil {
							sig = "C17/prop/retained/malformed-kept"
						} else if !acceptable(k) {
							sig = "C17/prop/retained/foreign-network-kept"
						}
					}
				}
				for k := range want {
					if _, h := post[k]; !h {
						sig = "C17/prop/retained/acceptable-dropped"
					}
				}
				fail("prop", sig, fmt.Sprintf("after AddTargets(%q): have {%s} want {%s}", op.Targets, scoresCanon(post), scoresCanon(want)), i)
			}
			ans, err := r.drv.ask(map[string]any{"op": "add", "targets": append([]string{}, op.Targets...)})
			if err != nil {
				fail("diff", "C17/harness/driver", err.Error(), i)
				return
			}
			st.ModelChecked++
			if m := modelScores(ans); scoresCanon(m) != scoresCanon(post) {
				fail("diff", "C17/diff/scores-after-add", fmt.Sprintf("model {%s} impl {%s}", scoresCanon(m), scoresCanon(post)), i)
			}
			checkJunk(post)
		case "inc":
			if count {
				st.TargetKinds["inc:"+sc.Kinds[op.Target]]++
			}
			if msg, p := safely(func() { nb.Incentive(op.Target) }); p {
				fail("prop", "C17/panic/incentive", "Incentive panicked: "+msg, i)
				return
			}
			post, _ := peekScores(nb)
			want := map[string]int{}
			for k, s := range pre {
				want[k] = s
			}
			want[op.Target]++
			if scoresCanon(post) != scoresCanon(want) {
				fail("prop", "C17/prop/incentive", fmt.Sprintf("after Incentive(%q): have {%s} want {%s}", op.Target, scoresCanon(post), scoresCanon(want)), i)
			}
			ans, err := r.drv.ask(map[string]any{"op": "inc", "target": op.Target})
			if err != nil {
				fail("diff", "C17/harness/driver", err.Error(), i)
				return
			}
			st.ModelChecked++
			if m := modelScores(ans); scoresCanon(m) != scoresCanon(post) {
				fail("diff", "C17/diff/scores-after-incentive", fmt.Sprintf("model {%s} impl {%s}", scoresCanon(m), scoresCanon(post)), i)
			}
			checkJunk(post)
		case "sync":
			r.syncOp(sc, i, op, nb, creator, pre, seeds, hostValue, hostEp, count, fail, strong)
		default:
			fail("diff", "C17/harness/bad-op", op.Kind, i)
			return
		}
		for j := nFailsBefore; j < len(fails); j++ {
			if fails[j].OpIndex == -2 {
				fails[j].OpIndex = i
			}
		}
		if len(fails) > 0 {
			return // stop at the first failing operation
		}
	}
	return
}

func (r *runner) syncOp(sc *Scenario, i int, op Op, nb *network.Neighborhood, creator *fakeCreator,
	pre map[string]int, seeds map[string]int, hostValue string, hostEp endpoint, count bool,
	fail func(kind, sig, detail string, op int), strong func(string)) {
	st := r.stats
	prev := nb.Senders()
	creator.beginRound(op.Unreachable)
	unreachable := map[string]bool{}
	for _, e := range op.Unreachable {
		unreachable[e.key()] = true
	}
	baseline := runtime.NumGoroutine()
	msg, panicked := safely(func() { nb.Synchronize(0) })
	outsRaw := nb.Senders()
	creator.mu.Lock()
	calls := append([]endpoint{}, creator.calls...)
	created := append([]*fakeSender{}, creator.created...)
	creator.mu.Unlock()
	post, _ := peekScores(nb)

	// ---- the model's prediction
	unJ := [][]string{}
	for _, e := range op.Unreachable {
		unJ = append(unJ, []string{e.Ip, e.Port})
	}
	ans, err := r.drv.ask(map[string]any{"op": "sync", "unreachable": unJ})
	if err != nil {
		fail("diff", "C17/harness/driver", err.Error(), i)
		return
	}
	st.ModelChecked++
	mPanic, _ := ans["panic"].(bool)

	src := pre
	source := "known"
	if len(pre) == 0 {
		src = seeds
		source = "seeds"
	}
	if count {
		st.Rounds++
		st.SourceHist[source]++
	}
	if panicked {
		if sc.Max >= 0 {
			fail("prop", "C17/panic/synchronize", fmt.Sprintf("Synchronize panicked with max=%d: %s", sc.Max, msg), i)
		}
		if !mPanic {
			fail("diff", "C17/diff/panic", "implementation panicked ("+msg+"), model did not", i)
		}
		if len(outsRaw) != len(prev) {
			fail("diff", "C17/diff/senders-after-panic", "Senders() changed by a panicking round", i)
		}
		if len(post) != 0 {
			fail("diff", "C17/diff/scores-after-sync", "score map not reset: {"+scoresCanon(post)+"}", i)
		}
		if count {
			st.RoundShapes["panic(max<0)"]++
		}
		return
	}
	if mPanic {
		fail("diff", "C17/diff/panic", "model predicts a panic, implementation returned", i)
		return
	}
	var outs []*fakeSender
	for _, s := range outsRaw {
		fs, ok := s.(*fakeSender)
		if !ok {
			fail("prop", "C17/prop/known-only", "an outbound is not a sender created by the SenderCreator", i)
			return
		}
		outs = append(outs, fs)
	}
	// wait for the fan-out goroutines: one SendTargets per outbound is expected
	deadline := time.After(3 * time.Second)
	for _, s := range outs {
		select {
		case <-s.first:
		case <-deadline:
			fail("prop", "C17/prop/fanout-missing", "outbound "+s.target+" was not sent any targets within 3 s", i)
			return
		}
	}
	for k := 0; k < 2000 && runtime.NumGoroutine() > baseline; k++ {
		time.Sleep(50 * time.Microsecond)
	}

	// ---- C17 evaluated directly on the implementation (peer = announced value, as the code sees it)
	var cands []cand
	var expCalls []string
	for k, score := range src {
		if k == hostValue {
			continue
		}
		t, err := network.NewTargetFromValue(k)
		if err != nil {
			continue
		}
		e := endpoint{t.Ip(), t.Port()}
		expCalls = append(expCalls, e.key())
		if unreachable[e.key()] {
			continue
		}
		cands = append(cands, cand{k, e, score, creator.targetFor(e.Ip, e.Port)})
	}
	sort.Strings(expCalls)
	sort.Slice(cands, func(a, b int) bool {
		if cands[a].score != cands[b].score {
			return cands[a].score > cands[b].score
		}
		return cands[a].value < cands[b].value
	})
	var outKeys, candKeys []string
	for _, s := range outs {
		outKeys = append(outKeys, s.ep.key())
	}
	sort.Strings(outKeys)
	for _, c := range cands {
		candKeys = append(candKeys, c.ep.key())
	}
	sort.Strings(candKeys)
	desc := fmt.Sprintf("max=%d source=%s map={%s} unreachable=%v outbounds=%s", sc.Max, source, scoresCanon(src), op.Unreachable, show(outKeys))
	if sc.Max >= 0 {
		if len(outs) > sc.Max {
			fail("prop", "C17/prop/bounded", "more outbounds than the maximum: "+desc, i)
		}
		want := sc.Max
		if len(cands) < want {
			want = len(cands)
		}
		if len(outs) < want {
			fail("prop", "C17/prop/count/reachable-left-out-with-room", fmt.Sprintf("expected %d outbounds: %s", want, desc), i)
		} else if len(outs) > want {
			fail("prop", "C17/prop/count/too-many", fmt.Sprintf("expected %d outbounds: %s", want, desc), i)
		}
	}
	if _, ok := msetMinus(candKeys, outKeys); !ok {
		sig := "C17/prop/known-only"
		for _, s := range outs {
			inC := false
			for _, c := range cands {
				if c.ep == s.ep {
					inC = true
				}
			}
			switch {
			case unreachable[s.ep.key()]:
				sig = "C17/prop/reachable-only"
			case inC:
				if sig == "C17/prop/known-only" {
					sig = "C17/prop/distinct"
				}
			default:
				if _, selfKnown := src[hostValue]; selfKnown && s.target == hostValue {
					sig = "C17/prop/not-self"
				}
			}
		}
		fail("prop", sig, "outbounds are not a sub-multiset of the selectable targets "+show(candKeys)+": "+desc, i)
	} else if len(outs) > 0 && len(outs) <= len(cands) {
		// best-scored: everything strictly above the threshold score is in, the rest comes from the threshold bucket
		t := cands[len(outs)-1].score
		var must, may []string
		for _, c := range cands {
			if c.score > t {
				must = append(must, c.ep.key())
			} else if c.score == t {
				may = append(may, c.ep.key())
			}
		}
		rest, ok := msetMinus(outKeys, must)
		if !ok {
			fail("prop", "C17/prop/best-scored", "a reachable higher-scored target was left out; must="+show(must)+": "+desc, i)
		} else if _, ok := msetMinus(may, rest); !ok {
			fail("prop", "C17/prop/best-scored", "a lower-scored target was selected; may="+show(may)+" must="+show(must)+": "+desc, i)
		}
	}
	// fan-out
	isOut := map[*fakeSender]bool{}
	for _, s := range outs {
		isOut[s] = true
		calls := s.snapshot()
		if len(calls) != 1 {
			fail("prop", "C17/prop/fanout-count", fmt.Sprintf("outbound %s got %d SendTargets calls", s.target, len(calls)), i)
			continue
		}
		got := calls[0]
		want := []string{}
		if hostValue != s.target {
			want = append(want, hostValue)
		}
		for _, c := range cands {
			if c.value != s.target {
				want = append(want, c.value)
			}
		}
		if !eqStrings(sortedCopy(got), sortedCopy(want)) {
			sig := "C17/prop/fanout-content"
			for _, g := range got {
				if g == s.target {
					sig = "C17/prop/fanout-own-target"
				}
			}
			hasHost := false
			for _, g := range got {
				if g == hostValue {
					hasHost = true
				}
			}
			if !hasHost && hostValue != s.target {
				sig = "C17/prop/fanout-host-missing"
			}
			fail("prop", sig, fmt.Sprintf("SendTargets to %s: got %q want (any order) %q", s.target, got, want), i)
		} else if len(want) > 0 && want[0] == hostValue && got[0] != hostValue {
			fail("diff", "C17/diff/fanout-host-not-first", fmt.Sprintf("SendTargets to %s: %q", s.target, got), i)
		}
		for _, g := range got { // strong reading: own endpoint under another spelling
			if tt, err := network.NewTargetFromValue(g); err == nil && g != s.target {
				if creator.targetFor(tt.Ip(), tt.Port()) == s.target {
					strong("peer-sent-its-own-target-in-other-spelling")
					break
				}
			}
		}
	}
	for _, s := range created {
		if !isOut[s] && len(s.snapshot()) > 0 {
			fail("prop", "C17/prop/fanout-unselected", "targets were sent to a peer that is not an outbound: "+s.target, i)
		}
	}
	if len(post) != 0 {
		fail("diff", "C17/diff/scores-after-sync", "score map not reset: {"+scoresCanon(post)+"}", i)
	}
	// strong reading counters
	for a := 0; a < len(outs); a++ {
		if creator.targetFor(outs[a].ep.Ip, outs[a].ep.Port) == hostValue || outs[a].ep == hostEp {
			strong("host-endpoint-selected-under-other-spelling")
		}
		for b := a + 1; b < len(outs); b++ {
			if outs[a].target == outs[b].target {
				strong("same-endpoint-selected-twice")
			}
		}
	}

	// ---- implementation vs model
	var callKeys []string
	for _, c := range calls {
		callKeys = append(callKeys, c.key())
	}
	sort.Strings(callKeys)
	if mc := endpointsOf(ans["calls"]); !eqStrings(mc, callKeys) {
		fail("diff", "C17/diff/create-sender-calls", "model "+show(mc)+" impl "+show(callKeys), i)
	}
	if !eqStrings(expCalls, callKeys) {
		fail("prop", "C17/prop/known-only/create-sender-calls", "CreateSender calls "+show(callKeys)+" expected "+show(expCalls), i)
	}
	if ms, _ := ans["source"].(string); ms != source {
		fail("diff", "C17/diff/source", "model iterates "+ms+", implementation state says "+source, i)
	}
	n, _ := ans["n"].(float64)
	kf, _ := ans["k"].(float64)
	must, may := endpointsOf(ans["must"]), endpointsOf(ans["may"])
	if int(n) != len(outs) {
		fail("diff", "C17/diff/outbounds-not-allowed/size", fmt.Sprintf("model %d impl %d: %s", int(n), len(outs), desc), i)
	} else if rest, ok := msetMinus(outKeys, must); !ok {
		fail("diff", "C17/diff/outbounds-not-allowed/must-missing", "must="+show(must)+": "+desc, i)
	} else if _, ok := msetMinus(may, rest); !ok || len(rest) != int(kf) {
		fail("diff", "C17/diff/outbounds-not-allowed/outside-threshold-bucket", fmt.Sprintf("must=%s may=%s k=%d: %s", show(must), show(may), int(kf), desc), i)
	}
	mf := map[string][]string{}
	if arr, ok := ans["fanout"].([]any); ok {
		for _, e := range arr {
			p, _ := e.([]any)
			if len(p) == 3 {
				a, _ := p[0].(string)
				b, _ := p[1].(string)
				var l []string
				if la, ok := p[2].([]any); ok {
					for _, x := range la {
						s, _ := x.(string)
						l = append(l, s)
					}
				}
				mf[endpoint{a, b}.key()] = l
			}
		}
	}
	for _, s := range outs {
		calls := s.snapshot()
		if len(calls) != 1 {
			continue
		}
		want, ok := mf[s.ep.key()]
		if !ok {
			fail("diff", "C17/diff/fanout", "model has no sender for "+s.target, i)
			continue
		}
		if !eqStrings(sortedCopy(calls[0]), sortedCopy(want)) {
			fail("diff", "C17/diff/fanout", fmt.Sprintf("to %s: model %q impl %q", s.target, want, calls[0]), i)
		}
	}

	if count {
		st.OutSizeHist[fmt.Sprint(len(outs))]++
		filtered := len(src) - len(cands)
		shape := "trivial"
		nontrivial := len(cands) >= 2 && len(outs) >= 1 && (len(cands) > len(outs) || filtered > 0)
		if nontrivial {
			shape = "nontrivial"
			if len(cands) > len(outs) {
				shape += "+left-out"
			}
			if int(kf) > 0 && len(may) > int(kf) {
				shape += "+tie"
			}
			if filtered > 0 {
				shape += "+filtered"
			}
			h := sha256.Sum256([]byte(fmt.Sprintf("%s|%d|%s|%v", hostValue, sc.Max, scoresCanon(src), sortedCopy(keysOf(unreachable)))))
			st.Nontrivial[hex.EncodeToString(h[:8])] = true
			if len(st.Samples) < 5 {
				st.Samples = append(st.Samples, desc)
			}
		}
		st.RoundShapes[shape]++
	}
}

func keysOf(m map[string]bool) []string {
	var r []string
	for k := range m {
		r = append(r, strings.Replace(k, "\x00", "|", 1))
	}
	return r
}

// ---------------------------------------------------------------------------------------------- minimise

func cloneScenario(sc *Scenario) *Scenario {
	c := *sc
	c.Ops = append([]Op{}, sc.Ops...)
	c.Seeds = append([]Seed{}, sc.Seeds...)
	return &c
}

// reproduces reports whether sc fails with signature sig in any of `tries` executions
func (r *runner) reproduces(sc *Scenario, sig string, tries int) bool {
	for t := 0; t < tries; t++ {
		for _, f := range r.runScenario(sc, false) {
			if f.Signature == sig {
				return true
			}
		}
	}
	return false
}

func (r *runner) minimise(sc *Scenario, f Failure) *Scenario {
	best := cloneScenario(sc)
	if f.OpIndex >= 0 && f.OpIndex+1 < len(best.Ops) {
		best.Ops = best.Ops[:f.OpIndex+1]
	}
	if !r.reproduces(best, f.Signature, 5) {
		return cloneScenario(sc)
	}
	for changed := true; changed; {
		changed = false
		for i := len(best.Ops) - 1; i >= 0; i-- {
			c := cloneScenario(best)
			c.Ops = append(append([]Op{}, best.Ops[:i]...), best.Ops[i+1:]...)
			if len(c.Ops) > 0 && r.reproduces(c, f.Signature, 5) {
				best, changed = c, true
			}
		}
		for i := range best.Ops { // shrink target lists and unreachable sets
			for j := len(best.Ops[i].Targets) - 1; j >= 0; j-- {
				c := cloneScenario(best)
				ts := best.Ops[i].Targets
				c.Ops[i].Targets = append(append([]string{}, ts[:j]...), ts[j+1:]...)
				if r.reproduces(c, f.Signature, 5) {
					best, changed = c, true
				}
			}
			for j := len(best.Ops[i].Unreachable) - 1; j >= 0; j-- {
				c := cloneScenario(best)
				us := best.Ops[i].Unreachable
				c.Ops[i].Unreachable = append(append([]endpoint{}, us[:j]...), us[j+1:]...)
				if r.reproduces(c, f.Signature, 5) {
					best, changed = c, true
				}
			}
		}
		for j := len(best.Seeds) - 1; j >= 0; j-- {
			c := cloneScenario(best)
			c.Seeds = append(append([]Seed{}, best.Seeds[:j]...), best.Seeds[j+1:]...)
			if r.reproduces(c, f.Signature, 5) {
				best, changed = c, true
			}
		}
	}
	return best
}

// ---------------------------------------------------------------------------------------------- witnesses

// witnesses replays, on the real code, the concrete witnesses of the Lean counterexample theorems
// (Neigh.Props: C17_*_counterexample, C17_negative_max_panics) and re-checks the parse table of Neigh.Ex.
func witnesses() []map[string]any {
	var res []map[string]any
	rec := func(name string, reproduced bool, detail string) {
		res = append(res, map[string]any{"name": name, "reproduced": reproduced, "detail": detail})
	}
	table := map[string][2]string{
		"10.0.0.1:10600": {"10.0.0.1", "10600"}, "10.0.0.2:10600": {"10.0.0.2", "10600"},
		"10.0.0.3:10600": {"10.0.0.3", "10600"}, "10.0.0.4:10600": {"10.0.0.4", "10600"},
		"[10.0.0.2]:10600": {"10.0.0.2", "10600"}, "10.0.0.9:10600": {"10.0.0.9", "10600"},
		"[10.0.0.9]:10600": {"10.0.0.9", "10600"}, "10.0.0.5:10601": {"10.0.0.5", "10601"},
		"10.0.0.6:8080": {"10.0.0.6", "8080"},
	}
	okTable := true
	var bad []string
	for v, want := range table {
		t, err := network.NewTargetFromValue(v)
		if err != nil || t.Ip() != want[0] || t.Port() != want[1] || network.NewTarget(want[0], want[1]).Value() != want[0]+":"+want[1] {
			okTable = false
			bad = append(bad, v)
		}
	}
	if _, err := network.NewTargetFromValue("junk"); err == nil {
		okTable = false
		bad = append(bad, "junk")
	}
	rec("Neigh.Ex.parse table matches NewTargetFromValue/NewTarget", okTable, strings.Join(bad, ","))

	mk := func(max int) (*network.Neighborhood, *fakeCreator) {
		c := &fakeCreator{lookup: map[string]string{}, unreachable: map[string]bool{}}
		return network.NewNeighborhood(c, "10.0.0.9", "10600", max, map[string]int{"10.0.0.1:10600": 0}, nil), c
	}
	settle := func(nb *network.Neighborhood) {
		for _, s := range nb.Senders() {
			select {
			case <-s.(*fakeSender).first:
			case <-time.After(3 * time.Second):
			}
		}
	}
	{ // C17_distinct_counterexample
		nb, _ := mk(5)
		nb.AddTargets([]string{"10.0.0.2:10600", "[10.0.0.2]:10600"})
		nb.Synchronize(0)
		settle(nb)
		ss := nb.Senders()
		ok := len(ss) == 2 && ss[0].Target() == ss[1].Target()
		var ts []string
		for _, s := range ss {
			ts = append(ts, s.Target())
		}
		rec("C17_distinct_counterexample: two spellings of one endpoint give two outbounds", ok, fmt.Sprintf("Senders() targets %q", ts))
	}
	{ // C17_not_self_counterexample
		nb, _ := mk(5)
		nb.AddTargets([]string{"[10.0.0.9]:10600"})
		nb.Synchronize(0)
		settle(nb)
		ss := nb.Senders()
		ok := len(ss) == 1 && ss[0].Target() == nb.HostTarget()
		rec("C17_not_self_counterexample: the host under another spelling becomes an outbound", ok, fmt.Sprintf("HostTarget()=%q outbounds=%d", nb.HostTarget(), len(ss)))
	}
	{ // C17_fanout_counterexample
		nb, _ := mk(5)
		nb.AddTargets([]string{"[10.0.0.2]:10600"})
		nb.Synchronize(0)
		settle(nb)
		ss := nb.Senders()
		ok := false
		detail := ""
		if len(ss) == 1 {
			calls := ss[0].(*fakeSender).snapshot()
			if len(calls) == 1 {
				detail = fmt.Sprintf("peer %s was sent %q", ss[0].Target(), calls[0])
				for _, v := range calls[0] {
					if v == "[10.0.0.2]:10600" {
						ok = true
					}
				}
			}
		}
		rec("C17_fanout_counterexample: a peer announced as [ip]:port is sent its own target", ok, detail)
	}
	{ // C17_retained_inv_counterexample (+ consequences)
		nb, _ := mk(3)
		nb.Incentive("junk")
		m, _ := peekScores(nb)
		nb.Synchronize(0)
		settle(nb)
		ok := m["junk"] == 1 && len(nb.Senders()) == 0
		rec("C17_retained_inv_counterexample: Incentive(\"junk\") is stored; the next round ignores the seeds and has no outbound", ok,
			fmt.Sprintf("scores={%s} outbounds=%d", scoresCanon(m), len(nb.Senders())))
		nb2, _ := mk(1)
		nb2.AddTargets([]string{"10.0.0.2:10600"})
		nb2.Incentive("10.0.0.6:8080")
		m2, _ := peekScores(nb2)
		nb2.Synchronize(0)
		settle(nb2)
		ss := nb2.Senders()
		ok2 := m2["10.0.0.6:8080"] == 1 && len(ss) == 1 && ss[0].Target() == "10.0.0.6:8080"
		rec("Incentive of a foreign-network target makes it the preferred outbound", ok2, fmt.Sprintf("scores={%s}", scoresCanon(m2)))
	}
	{ // C17_negative_max_panics
		nb, _ := mk(-1)
		msg, p := safely(func() { nb.Synchronize(0) })
		rec("C17_negative_max_panics: max=-1 with one reachable seed panics", p, msg)
	}
	return res
}

// ---------------------------------------------------------------------------------------------- main

func main() {
	seed := flag.Int64("seed", 1, "PRNG seed")
	rounds := flag.Int("rounds", 2000, "number of Synchronize rounds to run")
	driver := flag.String("driver", "", "path of the neighdriver executable")
	replay := flag.String("replay", "", "replay file (a ./check replay file or a bare scenario)")
	negMax := flag.Bool("negmax", true, "also generate negative maxima (conformance with the model only)")
	strict := flag.Bool("strict", false, "report violations of the strong (endpoint) reading as failures")
	wit := flag.Bool("witnesses", false, "run the counterexample witnesses of Neigh.Props on the real code")
	maxFailures := flag.Int("max-failures", 5, "stop after this many distinct failure signatures")
	flag.Parse()

	if *wit {
		out, _ := json.Marshal(map[string]any{"witnesses": witnesses()})
		fmt.Println(string(out))
		return
	}
	drv, err := startDriver(*driver)
	if err != nil {
		out, _ := json.Marshal(map[string]any{"fatal": "cannot start driver: " + err.Error()})
		fmt.Println(string(out))
		os.Exit(2)
	}
	defer drv.close()
	r := &runner{drv: drv, stats: newStats(), strict: *strict}
	var failures []Failure
	seenSig := map[string]bool{}
	record := func(sc *Scenario, fs []Failure, minimise bool) {
		for _, f := range fs {
			if seenSig[f.Signature] {
				continue
			}
			seenSig[f.Signature] = true
			m := sc
			if minimise && f.FoundInput {
				m = r.minimise(sc, f)
			}
			f.Replay, _ = json.Marshal(map[string]any{"seed": *seed, "signature": f.Signature, "scenario": m})
			failures = append(failures, f)
			fmt.Fprintf(os.Stderr, "FAIL %s: %s\n", f.Signature, f.Detail)
		}
	}
	if *replay != "" {
		raw, err := os.ReadFile(*replay)
		if err != nil {
			fmt.Println(`{"fatal":"cannot read replay file"}`)
			os.Exit(2)
		}
		var outer struct {
			Replay struct {
				Scenario *Scenario `json:"scenario"`
			} `json:"replay"`
			Scenario *Scenario `json:"scenario"`
		}
		_ = json.Unmarshal(raw, &outer)
		sc := outer.Replay.Scenario
		if sc == nil {
			sc = outer.Scenario
		}
		if sc == nil {
			sc = &Scenario{}
			if err := json.Unmarshal(raw, sc); err != nil || len(sc.Ops) == 0 {
				fmt.Println(`{"fatal":"no scenario in replay file"}`)
				os.Exit(2)
			}
		}
		sc.Kinds = map[string]string{}
		for t := 0; t < 50; t++ { // map order and shuffle are random: repeat
			record(sc, r.runScenario(sc, true), false)
		}
	} else {
		rng := rand.New(rand.NewSource(*seed))
		for r.stats.Rounds < *rounds && len(failures) < *maxFailures {
			sc := genScenario(rng, *negMax)
			record(sc, r.runScenario(sc, true), true)
		}
	}
	if failures == nil {
		failures = []Failure{}
	}
	if r.stats.Samples == nil {
		r.stats.Samples = []string{}
	}
	sum := map[string]any{
		"seed": *seed, "evaluations": r.stats.Evaluations, "rounds": r.stats.Rounds, "scenarios": r.stats.Scenarios,
		"distinct_nontrivial": len(r.stats.Nontrivial),
		"rule":                "distinct (host, max, iterated score map, unreachable set) of Synchronize rounds with >=2 selectable targets, >=1 outbound, and a target left out or filtered (host/malformed/unreachable)",
		"samples":             r.stats.Samples, "model_answers_compared": r.stats.ModelChecked,
		"hist": map[string]any{"op_kinds": r.stats.OpKinds, "target_kinds": r.stats.TargetKinds, "max": r.stats.MaxHist,
			"outbound_size": r.stats.OutSizeHist, "source": r.stats.SourceHist, "round_shapes": r.stats.RoundShapes,
			"strong_reading_hits": r.stats.Strong},
		"failures": failures,
	}
	out, _ := json.Marshal(sum)
	fmt.Println(string(out))
}
