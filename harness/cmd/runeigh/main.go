// runeigh — correspondence and failing-input search for property C17 (neighbour set).
//
// Drives the REAL network.NewNeighborhood of the repo under test with a fake application.SenderCreator
// (scripted unreachable endpoints; created senders record SendTargets), generates scenarios from ONE
// PRNG (--seed), pipes every operation to the Lean model driver (lean/neigh, `neighdriver`) and compares
//
//	implementation result ∈ model's allowed set   (Go map order and rand.Shuffle are uncontrollable)
//	retained targets (the private score map, read through reflection, read-only) == model's
//	fan-out (SendTargets arguments) == model's
//
// and, independently of the model, evaluates the clauses of C17 on what the implementation did.
// A panic of the code under test is caught and reported with the operation that caused it.
//
// Output: human-readable progress on stderr, ONE JSON summary line on stdout (last line).
package main

import (
	"bufio"
	"crypto/sha256"
	"encoding/hex"
	"encoding/json"
	"flag"
	"fmt"
	"io"
	"math/rand"
	"os"
	"os/exec"
	"reflect"
	"runtime"
	"sort"
	"strings"
	"sync"
	"time"
	"unsafe"

	"github.com/my-cloud/ruthenium/validatornode/application"
	"github.com/my-cloud/ruthenium/validatornode/application/network"
)

// ---------------------------------------------------------------------------------------------- fakes

type endpoint struct{ Ip, Port string }

func (e endpoint) key() string { return e.Ip + "\x00" + e.Port }

type fakeSender struct {
	ep     endpoint
	target string
	mu     sync.Mutex
	calls  [][]string
	first  chan struct{}
	once   sync.Once
}

func (s *fakeSender) Target() string                         { return s.target }
func (s *fakeSender) GetBlocks(uint64) ([]byte, error)       { return nil, nil }
func (s *fakeSender) GetFirstBlockTimestamp() (int64, error) { return 0, nil }
func (s *fakeSender) GetSettings() ([]byte, error)           { return nil, nil }
func (s *fakeSender) AddTransaction([]byte) error            { return nil }
func (s *fakeSender) GetTransactions() ([]byte, error)       { return nil, nil }
func (s *fakeSender) GetUtxos(string) ([]byte, error)        { return nil, nil }
func (s *fakeSender) SendTargets(targets []string) error {
	cp := append([]string(nil), targets...)
	s.mu.Lock()
	s.calls = append(s.calls, cp)
	s.mu.Unlock()
	s.once.Do(func() { close(s.first) })
	return nil
}
func (s *fakeSender) snapshot() [][]string {
	s.mu.Lock()
	defer s.mu.Unlock()
	return append([][]string(nil), s.calls...)
}

// fakeCreator mirrors p2p.NewNeighbor (LookupIP rewriting of host names is out of scope): a sender whose Target() is
// network.NewTarget(lookedUpIp, port).Value(); CreateSender fails for scripted unreachable endpoints.
type fakeCreator struct {
	mu          sync.Mutex
	unreachable map[string]bool
	calls       []endpoint
	created     []*fakeSender
}

func (c *fakeCreator) targetFor(ip, port string) string {
	return network.NewTarget(ip, port).Value()
}

func (c *fakeCreator) CreateSender(ip string, port string) (application.Sender, error) {
	c.mu.Lock()
	defer c.mu.Unlock()
	ep := endpoint{ip, port}
	c.calls = append(c.calls, ep)
	if c.unreachable[ep.key()] {
		return nil, fmt.Errorf("unreachable %s", network.NewTarget(ip, port).Value())
	}
	s := &fakeSender{ep: ep, target: c.targetFor(ip, port), first: make(chan struct{})}
	c.created = append(c.created, s)
	return s, nil
}

func (c *fakeCreator) beginRound(unreachable []endpoint) {
	c.mu.Lock()
	defer c.mu.Unlock()
	c.unreachable = map[string]bool{}
	for _, e := range unreachable {
		c.unreachable[e.key()] = true
	}
	c.calls = nil
	c.created = nil
}

// peekScores reads the private map Neighborhood.scoresByTargetValue (read-only, between operations).
func peekScores(nb *network.Neighborhood) (map[string]int, bool) {
	return peekMap(nb, "scoresByTargetValue")
}

func peekMap(nb *network.Neighborhood, field string) (map[string]int, bool) {
	v := reflect.ValueOf(nb).Elem()
	f := v.FieldByName(field)
	if !f.IsValid() || f.Kind() != reflect.Map || !f.CanAddr() {
		return nil, false
	}
	f = reflect.NewAt(f.Type(), unsafe.Pointer(f.UnsafeAddr())).Elem()
	m, ok := f.Interface().(map[string]int)
	if !ok {
		return nil, false
	}
	cp := make(map[string]int, len(m))
	for k, s := range m {
		cp[k] = s
	}
	return cp, true
}

// ---------------------------------------------------------------------------------------------- scenarios

type Op struct {
	Kind        string     `json:"kind"` // add | inc | sync
	Targets     []string   `json:"targets,omitempty"`
	Target      string     `json:"target,omitempty"`
	Unreachable []endpoint `json:"unreachable,omitempty"`
}

type Seed struct {
	Value string `json:"value"`
	Score int    `json:"score"`
}

type Scenario struct {
	HostIp   string            `json:"hostIp"`
	HostPort string            `json:"hostPort"`
	Max      int               `json:"max"`
	Seeds    []Seed            `json:"seeds"`
	Ops      []Op              `json:"ops"`
	Kinds    map[string]string `json:"-"` // value -> generator kind (statistics only)
}

type Failure struct {
	Kind       string          `json:"kind"` // diff | prop
	Signature  string          `json:"signature"`
	Detail     string          `json:"detail"`
	OpIndex    int             `json:"op_index"`
	FoundInput bool            `json:"found_input"`
	Replay     json.RawMessage `json:"replay,omitempty"`
}

type Stats struct {
	Evaluations  int             `json:"evaluations"`
	Rounds       int             `json:"rounds"`
	Scenarios    int             `json:"scenarios"`
	Nontrivial   map[string]bool `json:"-"`
	OpKinds      map[string]int  `json:"op_kinds"`
	TargetKinds  map[string]int  `json:"target_kinds"`
	MaxHist      map[string]int  `json:"max_hist"`
	OutSizeHist  map[string]int  `json:"outbound_size_hist"`
	SourceHist   map[string]int  `json:"source_hist"`
	RoundShapes  map[string]int  `json:"round_shapes"`
	Strong       map[string]int  `json:"strong_reading_hits"`
	Samples      []string        `json:"samples"`
	ModelChecked int             `json:"model_answers_compared"`
	NetworkPairs int             `json:"network_id_pairs"`
	ParamChecks  int             `json:"param_hypothesis_checks"`
}

func newStats() *Stats {
	return &Stats{Nontrivial: map[string]bool{}, OpKinds: map[string]int{}, TargetKinds: map[string]int{},
		MaxHist: map[string]int{}, OutSizeHist: map[string]int{}, SourceHist: map[string]int{},
		RoundShapes: map[string]int{}, Strong: map[string]int{}}
}

var malformed = []string{"junk", "10.0.0.77", "10.0.0.78:1:2", "[::1", "::1:10600", "", "[10.0.0.79]10600", "10.0.0.80:10600:", "]:10600["}

func portOnNetwork(rng *rand.Rand, hostPort string) string {
	switch {
	case hostPort == "10600":
		return "10600"
	case len(hostPort) == 5 && hostPort[:3] == "106":
		return fmt.Sprintf("106%02d", 1+rng.Intn(99))
	default:
		return []string{"8106", "443", "1060", "106000", "0", "65535", "10599", "10700", "20601"}[rng.Intn(9)]
	}
}

func foreignPort(rng *rand.Rand, hostPort string) string {
	switch {
	case hostPort == "10600":
		return []string{"10601", "10699", "8080", "106ab", "10599", "10700", "106000", "1060"}[rng.Intn(8)]
	case len(hostPort) == 5 && hostPort[:3] == "106":
		return []string{"10600", "8080", "1060", "", "10599", "10700", "20601", "10060", "106001"}[rng.Intn(9)]
	default:
		return []string{"10600", "10601", "10650"}[rng.Intn(3)]
	}
}

// genScenario draws everything from rng.
func genScenario(rng *rand.Rand, negMax bool) *Scenario {
	sc := &Scenario{Kinds: map[string]string{}}
	switch rng.Intn(10) {
	case 0, 1:
		sc.HostIp = "2001:db8::9"
	case 2:
		sc.HostIp = "::1"
	default:
		sc.HostIp = "10.0.0.9"
	}
	switch rng.Intn(10) {
	case 0, 1, 2, 3:
		sc.HostPort = "10600"
	case 4, 5, 6, 7:
		sc.HostPort = fmt.Sprintf("106%02d", 1+rng.Intn(99))
	default:
		sc.HostPort = []string{"8106", "443", "106000"}[rng.Intn(3)]
	}
	sc.Max = rng.Intn(11)
	if negMax && rng.Intn(25) == 0 {
		sc.Max = -1 - rng.Intn(3)
	}
	hostValue := network.NewTarget(sc.HostIp, sc.HostPort).Value()

	// universe of target strings of this scenario
	var universe []string
	add := func(v, kind string) {
		if _, dup := sc.Kinds[v]; !dup {
			sc.Kinds[v] = kind
			universe = append(universe, v)
		}
	}
	nValid := 2 + rng.Intn(11)
	var validV4 []endpoint
	for i := 0; i < nValid; i++ {
		port := portOnNetwork(rng, sc.HostPort)
		switch rng.Intn(6) {
		case 0:
			ip := fmt.Sprintf("2001:db8::%x", 16+rng.Intn(200))
			add(network.NewTarget(ip, port).Value(), "valid-ipv6")
		case 1:
			name := fmt.Sprintf("node-%d.example", rng.Intn(50))
			add(name+":"+port, "valid-hostname")
		default:
			ip := fmt.Sprintf("10.0.%d.%d", rng.Intn(3), 10+rng.Intn(60))
			validV4 = append(validV4, endpoint{ip, port})
			add(ip+":"+port, "valid")
		}
	}
	if len(validV4) > 0 && rng.Intn(3) == 0 {
		e := validV4[rng.Intn(len(validV4))]
		add("["+e.Ip+"]:"+e.Port, "valid-alias-spelling")
	}
	for i, n := 0, rng.Intn(3); i < n; i++ {
		add(malformed[rng.Intn(len(malformed))], "malformed")
	}
	for i, n := 0, rng.Intn(3); i < n; i++ {
		ip := fmt.Sprintf("10.9.0.%d", 1+rng.Intn(200))
		add(network.NewTarget(ip, foreignPort(rng, sc.HostPort)).Value(), "foreign-network")
	}
	if rng.Intn(2) == 0 {
		add(hostValue, "self")
	}
	if rng.Intn(6) == 0 && !strings.Contains(sc.HostIp, ":") {
		add("["+sc.HostIp+"]:"+sc.HostPort, "self-alias-spelling")
	}
	if rng.Intn(8) == 0 {
		add(fmt.Sprintf("10.0.5.%d:", rng.Intn(200)), "empty-port")
	}
	pick := func() string { return universe[rng.Intn(len(universe))] }

	// seeds: distinct values, usually score 0 as in main.go, sometimes arbitrary scores
	seen := map[string]bool{}
	for i, n := 0, rng.Intn(5); i < n; i++ {
		v := pick()
		if seen[v] {
			continue
		}
		seen[v] = true
		score := 0
		if rng.Intn(4) == 0 {
			score = rng.Intn(7) - 3
		}
		sc.Seeds = append(sc.Seeds, Seed{v, score})
	}

	// endpoints that can be made unreachable
	var eps []endpoint
	epSeen := map[string]bool{}
	for _, v := range universe {
		if t, err := network.NewTargetFromValue(v); err == nil {
			e := endpoint{t.Ip(), t.Port()}
			if !epSeen[e.key()] {
				epSeen[e.key()] = true
				eps = append(eps, e)
			}
		}
	}
	nOps := 3 + rng.Intn(22)
	for i := 0; i < nOps; i++ {
		switch r := rng.Intn(10); {
		case r < 5:
			var ts []string
			for j, n := 0, rng.Intn(13); j < n; j++ {
				ts = append(ts, pick())
			}
			if rng.Intn(6) == 0 && len(ts) > 0 { // explicit duplicate burst
				ts = append(ts, ts[0], ts[0])
			}
			sc.Ops = append(sc.Ops, Op{Kind: "add", Targets: ts})
		case r < 8:
			v := pick()
			for j, n := 0, 1+rng.Intn(3); j < n; j++ {
				sc.Ops = append(sc.Ops, Op{Kind: "inc", Target: v})
			}
		default:
			p := []float64{0, 0, 0.2, 0.5, 1}[rng.Intn(5)]
			var un []endpoint
			for _, e := range eps {
				if rng.Float64() < p {
					un = append(un, e)
				}
			}
			sc.Ops = append(sc.Ops, Op{Kind: "sync", Unreachable: un})
		}
	}
	sc.Ops = append(sc.Ops, Op{Kind: "sync"}) // every scenario ends with a round
	return sc
}

// ---------------------------------------------------------------------------------------------- driver

type Driver struct {
	cmd *exec.Cmd
	in  io.WriteCloser
	out *bufio.Reader
}

func startDriver(path string) (*Driver, error) {
	cmd := exec.Command(path)
	in, err := cmd.StdinPipe()
	if err != nil {
		return nil, err
	}
	out, err := cmd.StdoutPipe()
	if err != nil {
		return nil, err
	}
	cmd.Stderr = os.Stderr
	if err := cmd.Start(); err != nil {
		return nil, err
	}
	return &Driver{cmd, in, bufio.NewReaderSize(out, 1<<20)}, nil
}

func (d *Driver) ask(req map[string]any) (map[string]any, error) {
	b, err := json.Marshal(req)
	if err != nil {
		return nil, err
	}
	if _, err := d.in.Write(append(b, '\n')); err != nil {
		return nil, err
	}
	line, err := d.out.ReadBytes('\n')
	if err != nil {
		return nil, fmt.Errorf("driver closed: %w", err)
	}
	var ans map[string]any
	if err := json.Unmarshal(line, &ans); err != nil {
		return nil, fmt.Errorf("driver answer unparsable: %s", line)
	}
	if e, ok := ans["error"]; ok {
		return nil, fmt.Errorf("driver error: %v", e)
	}
	return ans, nil
}

func (d *Driver) close() {
	d.in.Close()
	d.cmd.Wait()
}

// ---------------------------------------------------------------------------------------------- helpers

func sortedCopy(l []string) []string {
	c := append([]string{}, l...)
	sort.Strings(c)
	return c
}

func eqStrings(a, b []string) bool {
	if len(a) != len(b) {
		return false
	}
	for i := range a {
		if a[i] != b[i] {
			return false
		}
	}
	return true
}

func scoresCanon(m map[string]int) string {
	keys := make([]string, 0, len(m))
	for k := range m {
		keys = append(keys, k)
	}
	sort.Strings(keys)
	var sb strings.Builder
	for _, k := range keys {
		fmt.Fprintf(&sb, "%q=%d;", k, m[k])
	}
	return sb.String()
}

func modelScores(ans map[string]any) map[string]int { return modelScoresOf(ans, "scores") }

func modelScoresOf(ans map[string]any, field string) map[string]int {
	m := map[string]int{}
	arr, _ := ans[field].([]any)
	for _, e := range arr {
		p, _ := e.([]any)
		if len(p) == 2 {
			k, _ := p[0].(string)
			s, _ := p[1].(float64)
			m[k] = int(s)
		}
	}
	return m
}

func endpointsOf(v any) []string {
	var r []string
	arr, _ := v.([]any)
	for _, e := range arr {
		p, _ := e.([]any)
		if len(p) >= 2 {
			a, _ := p[0].(string)
			b, _ := p[1].(string)
			r = append(r, endpoint{a, b}.key())
		}
	}
	sort.Strings(r)
	return r
}

func show(keys []string) string {
	var r []string
	for _, k := range keys {
		r = append(r, strings.Replace(k, "\x00", "|", 1))
	}
	return "[" + strings.Join(r, " ") + "]"
}

// multiset a minus multiset b; ok=false when b is not contained in a
func msetMinus(a, b []string) (rest []string, ok bool) {
	cnt := map[string]int{}
	for _, x := range a {
		cnt[x]++
	}
	ok = true
	for _, x := range b {
		if cnt[x] == 0 {
			ok = false
		} else {
			cnt[x]--
		}
	}
	for _, x := range a {
		if cnt[x] > 0 {
			cnt[x]--
			rest = append(rest, x)
		}
	}
	sort.Strings(rest)
	return
}

type cand struct {
	value  string
	ep     endpoint
	score  int
	target string
}

// ---------------------------------------------------------------------------------------------- runner

type runner struct {
	drv        *Driver
	stats      *Stats
	strongOnly bool // replaying a regression witness
}

func safely(f func()) (msg string, panicked bool) {
	defer func() {
		if r := recover(); r != nil {
			panicked = true
			msg = fmt.Sprint(r)
		}
	}()
	f()
	return
}

func (r *runner) infoFor(c *fakeCreator, v string) map[string]any {
	t, err := network.NewTargetFromValue(v)
	if err != nil {
		return map[string]any{"v": v, "ok": false, "ip": "", "port": "", "canon": "", "target": ""}
	}
	return map[string]any{"v": v, "ok": true, "ip": t.Ip(), "port": t.Port(),
		"canon": network.NewTarget(t.Ip(), t.Port()).Value(), "target": c.targetFor(t.Ip(), t.Port())}
}

// canonOf is the canonical spelling net.JoinHostPort(net.SplitHostPort(v)) computed with the repo's own
// NewTargetFromValue / NewTarget (independent of whether NewTargetFromValue itself canonicalises).
func canonOf(v string) (string, bool) {
	t, err := network.NewTargetFromValue(v)
	if err != nil {
		return "", false
	}
	return network.NewTarget(t.Ip(), t.Port()).Value(), true
}

// runScenario executes sc on a fresh real Neighborhood and a fresh model state; count=false while minimising.
// strongOnly: no model, no value-level checks; only the endpoint-level clauses, through all operations
// (used for the regression witnesses, so that a later symptom is not hidden by an earlier one).
func (r *runner) runScenario(sc *Scenario, count bool, strongOnly bool) (fails []Failure) {
	st := r.stats
	fail := func(kind, sig, detail string, op int) {
		fails = append(fails, Failure{Kind: kind, Signature: sig, Detail: detail, OpIndex: op, FoundInput: true})
	}
	creator := &fakeCreator{unreachable: map[string]bool{}}
	hostTarget := network.NewTarget(sc.HostIp, sc.HostPort)
	hostValue := hostTarget.Value()
	hostEp := endpoint{sc.HostIp, sc.HostPort}
	seeds := map[string]int{}
	var seedsJ [][]any
	for _, s := range sc.Seeds {
		if _, dup := seeds[s.Value]; dup {
			continue
		}
		seeds[s.Value] = s.Score
		seedsJ = append(seedsJ, []any{s.Value, s.Score})
	}
	if seedsJ == nil {
		seedsJ = [][]any{}
	}
	seedsArg := map[string]int{}
	for k, v := range seeds {
		seedsArg[k] = v
	}
	var nb *network.Neighborhood
	if msg, p := safely(func() {
		nb = network.NewNeighborhood(creator, sc.HostIp, sc.HostPort, sc.Max, seedsArg, nil)
	}); p {
		fail("prop", "C17/panic/new-neighborhood", "NewNeighborhood panicked: "+msg, -1)
		return
	}
	if nb.HostTarget() != hostValue {
		fail("diff", "C17/diff/host-target", fmt.Sprintf("HostTarget()=%q, NewTarget(ip,port).Value()=%q", nb.HostTarget(), hostValue), -1)
	}
	// everything the model needs to know about the strings of this scenario, from the real code
	mentioned := map[string]bool{hostValue: true}
	for _, s := range sc.Seeds {
		mentioned[s.Value] = true
	}
	for _, op := range sc.Ops {
		for _, t := range op.Targets {
			mentioned[t] = true
		}
		if op.Kind == "inc" {
			mentioned[op.Target] = true
		}
	}
	var vals []string
	for v := range mentioned {
		vals = append(vals, v)
		if c, ok := canonOf(v); ok && !mentioned[c] { // the keys the node files them under
			vals = append(vals, c)
		}
	}
	sort.Strings(vals)
	vals = dedupSorted(vals)
	var infos []map[string]any
	for _, v := range vals {
		infos = append(infos, r.infoFor(creator, v))
		// the hypotheses of the theorems on the parameters, checked on the real functions:
		//   Env.RoundTrip     SplitHostPort(JoinHostPort(SplitHostPort(v))) = SplitHostPort(v)
		//   Env.TargetIsJoin  Target() of the sender created for (ip, port) = JoinHostPort(ip, port)
		if t, err := network.NewTargetFromValue(v); err == nil {
			joined := network.NewTarget(t.Ip(), t.Port()).Value()
			t2, err2 := network.NewTargetFromValue(joined)
			if err2 != nil || t2.Ip() != t.Ip() || t2.Port() != t.Port() {
				fail("tie", "C17/param/round-trip", fmt.Sprintf("SplitHostPort(%q)=(%q,%q) but JoinHostPort gives %q which does not split back", v, t.Ip(), t.Port(), joined), -1)
				return
			}
			if creator.targetFor(t.Ip(), t.Port()) != joined {
				fail("tie", "C17/param/target-is-join", fmt.Sprintf("sender for (%q,%q) reports %q, JoinHostPort gives %q", t.Ip(), t.Port(), creator.targetFor(t.Ip(), t.Port()), joined), -1)
				return
			}
			if count {
				st.ParamChecks++
			}
		}
	}
	acceptable := func(v string) bool {
		t, err := network.NewTargetFromValue(v)
		return err == nil && hostTarget.IsSameNetworkId(t)
	}
	strongHit := false
	strong := func(k, detail string) {
		strongHit = true
		if count {
			st.Strong[k]++
		}
		fail("prop", "C17/strong/"+k, detail, -2)
	}
	checkKeys := func(what string, m map[string]int, needAcceptable bool) {
		for k := range m {
			c, ok := canonOf(k)
			switch {
			case needAcceptable && !acceptable(k):
				strong("retained-unacceptable-target", fmt.Sprintf("%s holds %q, which is malformed or on another network: {%s}", what, k, scoresCanon(m)))
				return
			case ok && c != k:
				strong("retained-noncanonical-spelling", fmt.Sprintf("%s holds %q, canonical spelling is %q: {%s}", what, k, c, scoresCanon(m)))
				return
			}
		}
	}
	implSeeds, okSeeds := peekMap(nb, "scoresBySeedTargetValue")
	if !okSeeds {
		fail("diff", "C17/harness/peek-unavailable", "cannot read Neighborhood.scoresBySeedTargetValue", -1)
		fails[len(fails)-1].FoundInput = false
		return
	}
	checkKeys("the seed map", implSeeds, false)
	if !strongOnly && !strongHit {
		// seeds re-keyed by canonical spelling, higher score wins, malformed seeds dropped (a malformed seed
		// that is kept has no observable effect and is tolerated: compared on the well-formed keys)
		wantSeeds := map[string]int{}
		for k, v := range seeds {
			if c, ok := canonOf(k); ok {
				if old, known := wantSeeds[c]; !known || old < v {
					wantSeeds[c] = v
				}
			}
		}
		haveSeeds := map[string]int{}
		for k, v := range implSeeds {
			if _, ok := canonOf(k); ok {
				haveSeeds[k] = v
			}
		}
		if scoresCanon(haveSeeds) != scoresCanon(wantSeeds) {
			fail("prop", "C17/prop/seeds", fmt.Sprintf("NewNeighborhood seeds: have {%s} want {%s}", scoresCanon(haveSeeds), scoresCanon(wantSeeds)), -1)
		}
		ans, err := r.drv.ask(map[string]any{"op": "init", "hostIp": sc.HostIp, "hostPort": sc.HostPort,
			"hostValue": hostValue, "max": sc.Max, "seeds": seedsJ, "info": infos})
		if err != nil {
			fail("diff", "C17/harness/driver", err.Error(), -1)
			fails[len(fails)-1].FoundInput = false
			return
		}
		st.ModelChecked++
		if m := modelScoresOf(ans, "seeds"); scoresCanon(m) != scoresCanon(haveSeeds) {
			fail("diff", "C17/diff/seeds-after-init", fmt.Sprintf("model {%s} impl {%s}", scoresCanon(m), scoresCanon(haveSeeds)), -1)
		}
		if h, _ := ans["host"].(string); h != hostValue {
			fail("diff", "C17/diff/host-target", fmt.Sprintf("model %q impl %q", h, hostValue), -1)
		}
	}
	for j := range fails {
		if fails[j].OpIndex == -2 {
			fails[j].OpIndex = -1
		}
	}
	if len(fails) > 0 && !strongOnly {
		return
	}
	if count {
		st.Scenarios++
		st.MaxHist[fmt.Sprint(sc.Max)]++
	}

	for i, op := range sc.Ops {
		nFailsBefore := len(fails)
		strongHit = false
		if count {
			st.Evaluations++
			st.OpKinds[op.Kind]++
		}
		pre, okPeek := peekScores(nb)
		if !okPeek {
			fail("diff", "C17/harness/peek-unavailable", "cannot read Neighborhood.scoresByTargetValue", i)
			fails[len(fails)-1].FoundInput = false
			return
		}
		switch op.Kind {
		case "add":
			if count {
				for _, t := range op.Targets {
					st.TargetKinds["add:"+sc.Kinds[t]]++
				}
			}
			if msg, p := safely(func() { nb.AddTargets(op.Targets) }); p {
				fail("prop", "C17/panic/add-targets", "AddTargets panicked: "+msg, i)
				return
			}
			post, _ := peekScores(nb)
			checkKeys(fmt.Sprintf("after AddTargets(%q) the score map", op.Targets), post, true)
			if strongOnly || strongHit {
				break
			}
			// C17 clause "retained only if well-formed and on the node's own network", evaluated directly
			want := map[string]int{}
			for k, s := range pre {
				want[k] = s
			}
			for _, t := range op.Targets {
				c, _ := canonOf(t)
				if _, known := want[c]; !known && acceptable(t) {
					want[c] = 0
				}
			}
			if scoresCanon(post) != scoresCanon(want) {
				sig := "C17/prop/retained"
				for k := range want {
					if _, h := post[k]; !h {
						sig = "C17/prop/retained/acceptable-dropped"
					}
				}
				fail("prop", sig, fmt.Sprintf("after AddTargets(%q): have {%s} want {%s}", op.Targets, scoresCanon(post), scoresCanon(want)), i)
			}
			ans, err := r.drv.ask(map[string]any{"op": "add", "targets": append([]string{}, op.Targets...)})
			if err != nil {
				fail("diff", "C17/harness/driver", err.Error(), i)
				return
			}
			st.ModelChecked++
			if m := modelScores(ans); scoresCanon(m) != scoresCanon(post) {
				fail("diff", "C17/diff/scores-after-add", fmt.Sprintf("model {%s} impl {%s}", scoresCanon(m), scoresCanon(post)), i)
			}
		case "inc":
			if count {
				st.TargetKinds["inc:"+sc.Kinds[op.Target]]++
			}
			if msg, p := safely(func() { nb.Incentive(op.Target) }); p {
				fail("prop", "C17/panic/incentive", "Incentive panicked: "+msg, i)
				return
			}
			post, _ := peekScores(nb)
			checkKeys(fmt.Sprintf("after Incentive(%q) the score map", op.Target), post, true)
			if strongOnly || strongHit {
				break
			}
			want := map[string]int{}
			for k, s := range pre {
				want[k] = s
			}
			if acceptable(op.Target) {
				c, _ := canonOf(op.Target)
				want[c]++
			}
			if scoresCanon(post) != scoresCanon(want) {
				fail("prop", "C17/prop/incentive", fmt.Sprintf("after Incentive(%q): have {%s} want {%s}", op.Target, scoresCanon(post), scoresCanon(want)), i)
			}
			ans, err := r.drv.ask(map[string]any{"op": "inc", "target": op.Target})
			if err != nil {
				fail("diff", "C17/harness/driver", err.Error(), i)
				return
			}
			st.ModelChecked++
			if m := modelScores(ans); scoresCanon(m) != scoresCanon(post) {
				fail("diff", "C17/diff/scores-after-incentive", fmt.Sprintf("model {%s} impl {%s}", scoresCanon(m), scoresCanon(post)), i)
			}
		case "sync":
			r.syncOp(sc, i, op, nb, creator, pre, implSeeds, hostValue, hostEp, count, strongOnly, fail, strong, &strongHit)
		default:
			fail("diff", "C17/harness/bad-op", op.Kind, i)
			return
		}
		for j := nFailsBefore; j < len(fails); j++ {
			if fails[j].OpIndex == -2 {
				fails[j].OpIndex = i
			}
		}
		if len(fails) > 0 && !strongOnly {
			return // stop at the first failing operation
		}
	}
	return
}

func (r *runner) syncOp(sc *Scenario, i int, op Op, nb *network.Neighborhood, creator *fakeCreator,
	pre map[string]int, seeds map[string]int, hostValue string, hostEp endpoint, count bool, strongOnly bool,
	fail func(kind, sig, detail string, op int), strong func(k, detail string), strongHit *bool) {
	st := r.stats
	prev := nb.Senders()
	creator.beginRound(op.Unreachable)
	unreachable := map[string]bool{}
	for _, e := range op.Unreachable {
		unreachable[e.key()] = true
	}
	baseline := runtime.NumGoroutine()
	msg, panicked := safely(func() { nb.Synchronize(0) })
	outsRaw := nb.Senders()
	creator.mu.Lock()
	calls := append([]endpoint{}, creator.calls...)
	created := append([]*fakeSender{}, creator.created...)
	creator.mu.Unlock()
	post, _ := peekScores(nb)

	// ---- the model's prediction (asked after the endpoint-level clauses were evaluated)
	askModel := func() (map[string]any, bool) {
		unJ := [][]string{}
		for _, e := range op.Unreachable {
			unJ = append(unJ, []string{e.Ip, e.Port})
		}
		ans, err := r.drv.ask(map[string]any{"op": "sync", "unreachable": unJ})
		if err != nil {
			fail("diff", "C17/harness/driver", err.Error(), i)
			return nil, false
		}
		st.ModelChecked++
		return ans, true
	}

	src := pre
	source := "known"
	if len(pre) == 0 {
		src = seeds
		source = "seeds"
	}
	if count {
		st.Rounds++
		st.SourceHist[source]++
	}
	if panicked {
		if strongOnly {
			return
		}
		ans, ok := askModel()
		if !ok {
			return
		}
		mPanic, _ := ans["panic"].(bool)
		if sc.Max >= 0 {
			fail("prop", "C17/panic/synchronize", fmt.Sprintf("Synchronize panicked with max=%d: %s", sc.Max, msg), i)
		}
		if !mPanic {
			fail("diff", "C17/diff/panic", "implementation panicked ("+msg+"), model did not", i)
		}
		if len(outsRaw) != len(prev) {
			fail("diff", "C17/diff/senders-after-panic", "Senders() changed by a panicking round", i)
		}
		if len(post) != 0 {
			fail("diff", "C17/diff/scores-after-sync", "score map not reset: {"+scoresCanon(post)+"}", i)
		}
		if count {
			st.RoundShapes["panic(max<0)"]++
		}
		return
	}
	var outs []*fakeSender
	for _, s := range outsRaw {
		fs, ok := s.(*fakeSender)
		if !ok {
			fail("prop", "C17/prop/known-only", "an outbound is not a sender created by the SenderCreator", i)
			return
		}
		outs = append(outs, fs)
	}
	// wait for the fan-out goroutines: one SendTargets per outbound is expected
	deadline := time.After(3 * time.Second)
	for _, s := range outs {
		select {
		case <-s.first:
		case <-deadline:
			fail("prop", "C17/prop/fanout-missing", "outbound "+s.target+" was not sent any targets within 3 s", i)
			return
		}
	}
	for k := 0; k < 2000 && runtime.NumGoroutine() > baseline; k++ {
		time.Sleep(50 * time.Microsecond)
	}

	// ---- C17 with peers identified by endpoint, evaluated directly on the implementation
	descOuts := func() string {
		var l []string
		for _, s := range outs {
			l = append(l, s.target)
		}
		return fmt.Sprintf("host=%s map={%s} outbounds=%q", hostValue, scoresCanon(src), l)
	}
	for a := 0; a < len(outs); a++ {
		if outs[a].target == hostValue || outs[a].ep == hostEp {
			strong("host-endpoint-selected-under-other-spelling", "the node selected its own endpoint as an outbound: "+descOuts())
			break
		}
	}
dup:
	for a := 0; a < len(outs); a++ {
		for b := a + 1; b < len(outs); b++ {
			if outs[a].ep == outs[b].ep {
				strong("same-endpoint-selected-twice", "two outbounds have the same endpoint: "+descOuts())
				break dup
			}
		}
	}
own:
	for _, s := range outs {
		for _, call := range s.snapshot() {
			for _, g := range call {
				if c, ok := canonOf(g); ok && g != s.target && c == s.target {
					strong("peer-sent-its-own-target-in-other-spelling", fmt.Sprintf("peer %s was sent %q", s.target, call))
					break own
				}
			}
		}
	}
	if strongOnly || *strongHit {
		return
	}
	ans, ok := askModel()
	if !ok {
		return
	}
	if mPanic, _ := ans["panic"].(bool); mPanic {
		fail("diff", "C17/diff/panic", "model predicts a panic, implementation returned", i)
		return
	}

	// ---- C17 evaluated directly on the implementation (peer = announced value, as the code sees it)
	var cands []cand
	var expCalls []string
	for k, score := range src {
		if k == hostValue {
			continue
		}
		t, err := network.NewTargetFromValue(k)
		if err != nil {
			continue
		}
		e := endpoint{t.Ip(), t.Port()}
		expCalls = append(expCalls, e.key())
		if unreachable[e.key()] {
			continue
		}
		cands = append(cands, cand{k, e, score, creator.targetFor(e.Ip, e.Port)})
	}
	sort.Strings(expCalls)
	sort.Slice(cands, func(a, b int) bool {
		if cands[a].score != cands[b].score {
			return cands[a].score > cands[b].score
		}
		return cands[a].value < cands[b].value
	})
	var outKeys, candKeys []string
	for _, s := range outs {
		outKeys = append(outKeys, s.ep.key())
	}
	sort.Strings(outKeys)
	for _, c := range cands {
		candKeys = append(candKeys, c.ep.key())
	}
	sort.Strings(candKeys)
	desc := fmt.Sprintf("max=%d source=%s map={%s} unreachable=%v outbounds=%s", sc.Max, source, scoresCanon(src), op.Unreachable, show(outKeys))
	if sc.Max >= 0 {
		if len(outs) > sc.Max {
			fail("prop", "C17/prop/bounded", "more outbounds than the maximum: "+desc, i)
		}
		want := sc.Max
		if len(cands) < want {
			want = len(cands)
		}
		if len(outs) < want {
			fail("prop", "C17/prop/count/reachable-left-out-with-room", fmt.Sprintf("expected %d outbounds: %s", want, desc), i)
		} else if len(outs) > want {
			fail("prop", "C17/prop/count/too-many", fmt.Sprintf("expected %d outbounds: %s", want, desc), i)
		}
	}
	if _, ok := msetMinus(candKeys, outKeys); !ok {
		sig := "C17/prop/known-only"
		for _, s := range outs {
			inC := false
			for _, c := range cands {
				if c.ep == s.ep {
					inC = true
				}
			}
			switch {
			case unreachable[s.ep.key()]:
				sig = "C17/prop/reachable-only"
			case inC:
				if sig == "C17/prop/known-only" {
					sig = "C17/prop/distinct"
				}
			default:
				if _, selfKnown := src[hostValue]; selfKnown && s.target == hostValue {
					sig = "C17/prop/not-self"
				}
			}
		}
		fail("prop", sig, "outbounds are not a sub-multiset of the selectable targets "+show(candKeys)+": "+desc, i)
	} else if len(outs) > 0 && len(outs) <= len(cands) {
		// best-scored: everything strictly above the threshold score is in, the rest comes from the threshold bucket
		t := cands[len(outs)-1].score
		var must, may []string
		for _, c := range cands {
			if c.score > t {
				must = append(must, c.ep.key())
			} else if c.score == t {
				may = append(may, c.ep.key())
			}
		}
		rest, ok := msetMinus(outKeys, must)
		if !ok {
			fail("prop", "C17/prop/best-scored", "a reachable higher-scored target was left out; must="+show(must)+": "+desc, i)
		} else if _, ok := msetMinus(may, rest); !ok {
			fail("prop", "C17/prop/best-scored", "a lower-scored target was selected; may="+show(may)+" must="+show(must)+": "+desc, i)
		}
	}
	// fan-out
	isOut := map[*fakeSender]bool{}
	for _, s := range outs {
		isOut[s] = true
		calls := s.snapshot()
		if len(calls) != 1 {
			fail("prop", "C17/prop/fanout-count", fmt.Sprintf("outbound %s got %d SendTargets calls", s.target, len(calls)), i)
			continue
		}
		got := calls[0]
		want := []string{}
		if hostValue != s.target {
			want = append(want, hostValue)
		}
		for _, c := range cands {
			if c.value != s.target {
				want = append(want, c.value)
			}
		}
		if !eqStrings(sortedCopy(got), sortedCopy(want)) {
			sig := "C17/prop/fanout-content"
			for _, g := range got {
				if g == s.target {
					sig = "C17/prop/fanout-own-target"
				}
			}
			hasHost := false
			for _, g := range got {
				if g == hostValue {
					hasHost = true
				}
			}
			if !hasHost && hostValue != s.target {
				sig = "C17/prop/fanout-host-missing"
			}
			fail("prop", sig, fmt.Sprintf("SendTargets to %s: got %q want (any order) %q", s.target, got, want), i)
		} else if len(want) > 0 && want[0] == hostValue && got[0] != hostValue {
			fail("diff", "C17/diff/fanout-host-not-first", fmt.Sprintf("SendTargets to %s: %q", s.target, got), i)
		}
	}
	for _, s := range created {
		if !isOut[s] && len(s.snapshot()) > 0 {
			fail("prop", "C17/prop/fanout-unselected", "targets were sent to a peer that is not an outbound: "+s.target, i)
		}
	}
	if len(post) != 0 {
		fail("diff", "C17/diff/scores-after-sync", "score map not reset: {"+scoresCanon(post)+"}", i)
	}

	// ---- implementation vs model
	var callKeys []string
	for _, c := range calls {
		callKeys = append(callKeys, c.key())
	}
	sort.Strings(callKeys)
	if mc := endpointsOf(ans["calls"]); !eqStrings(mc, callKeys) {
		fail("diff", "C17/diff/create-sender-calls", "model "+show(mc)+" impl "+show(callKeys), i)
	}
	if !eqStrings(expCalls, callKeys) {
		fail("prop", "C17/prop/known-only/create-sender-calls", "CreateSender calls "+show(callKeys)+" expected "+show(expCalls), i)
	}
	if ms, _ := ans["source"].(string); ms != source {
		fail("diff", "C17/diff/source", "model iterates "+ms+", implementation state says "+source, i)
	}
	n, _ := ans["n"].(float64)
	kf, _ := ans["k"].(float64)
	must, may := endpointsOf(ans["must"]), endpointsOf(ans["may"])
	if int(n) != len(outs) {
		fail("diff", "C17/diff/outbounds-not-allowed/size", fmt.Sprintf("model %d impl %d: %s", int(n), len(outs), desc), i)
	} else if rest, ok := msetMinus(outKeys, must); !ok {
		fail("diff", "C17/diff/outbounds-not-allowed/must-missing", "must="+show(must)+": "+desc, i)
	} else if _, ok := msetMinus(may, rest); !ok || len(rest) != int(kf) {
		fail("diff", "C17/diff/outbounds-not-allowed/outside-threshold-bucket", fmt.Sprintf("must=%s may=%s k=%d: %s", show(must), show(may), int(kf), desc), i)
	}
	mf := map[string][]string{}
	if arr, ok := ans["fanout"].([]any); ok {
		for _, e := range arr {
			p, _ := e.([]any)
			if len(p) == 3 {
				a, _ := p[0].(string)
				b, _ := p[1].(string)
				var l []string
				if la, ok := p[2].([]any); ok {
					for _, x := range la {
						s, _ := x.(string)
						l = append(l, s)
					}
				}
				mf[endpoint{a, b}.key()] = l
			}
		}
	}
	for _, s := range outs {
		calls := s.snapshot()
		if len(calls) != 1 {
			continue
		}
		want, ok := mf[s.ep.key()]
		if !ok {
			fail("diff", "C17/diff/fanout", "model has no sender for "+s.target, i)
			continue
		}
		if !eqStrings(sortedCopy(calls[0]), sortedCopy(want)) {
			fail("diff", "C17/diff/fanout", fmt.Sprintf("to %s: model %q impl %q", s.target, want, calls[0]), i)
		}
	}

	if count {
		st.OutSizeHist[fmt.Sprint(len(outs))]++
		filtered := len(src) - len(cands)
		shape := "trivial"
		nontrivial := len(cands) >= 2 && len(outs) >= 1 && (len(cands) > len(outs) || filtered > 0)
		if nontrivial {
			shape = "nontrivial"
			if len(cands) > len(outs) {
				shape += "+left-out"
			}
			if int(kf) > 0 && len(may) > int(kf) {
				shape += "+tie"
			}
			if filtered > 0 {
				shape += "+filtered"
			}
			h := sha256.Sum256([]byte(fmt.Sprintf("%s|%d|%s|%v", hostValue, sc.Max, scoresCanon(src), sortedCopy(keysOf(unreachable)))))
			st.Nontrivial[hex.EncodeToString(h[:8])] = true
			if len(st.Samples) < 5 {
				st.Samples = append(st.Samples, desc)
			}
		}
		st.RoundShapes[shape]++
	}
}

func dedupSorted(l []string) []string {
	var r []string
	for i, x := range l {
		if i == 0 || x != l[i-1] {
			r = append(r, x)
		}
	}
	return r
}

func keysOf(m map[string]bool) []string {
	var r []string
	for k := range m {
		r = append(r, strings.Replace(k, "\x00", "|", 1))
	}
	return r
}

// networkTable compares the partition of port strings induced by the real IsSameNetworkId with the model's
// networkId on a table of boundary ports plus random digit strings.
func (r *runner) networkTable(rng *rand.Rand) []Failure {
	return r.networkPorts(rng, nil)
}

func (r *runner) networkPorts(rng *rand.Rand, only []string) []Failure {
	ports := []string{"10600", "10601", "10699", "10650", "1060", "106", "10", "", "106000", "106001", "10599", "10700",
		"20600", "20601", "00600", "10060", "1060a", "106ab", "106  ", "a0600", "10 00", "8080", "443", "0", "65535",
		"106é", "10é00", "1060é", " 10600", "10600 ", "+10600", "010600"}
	for i := 0; i < 200 && only == nil; i++ {
		n := 3 + rng.Intn(4)
		b := make([]byte, n)
		for j := range b {
			b[j] = "0123456789"[rng.Intn(10)]
		}
		if rng.Intn(2) == 0 && n >= 3 {
			copy(b, "106")
		}
		ports = append(ports, string(b))
	}
	if only != nil {
		ports = only
	}
	ans, err := r.drv.ask(map[string]any{"op": "net", "ports": ports})
	if err != nil {
		return []Failure{{Kind: "diff", Signature: "C17/harness/driver", Detail: err.Error(), OpIndex: -1}}
	}
	ids, _ := ans["ids"].([]any)
	if len(ids) != len(ports) {
		return []Failure{{Kind: "diff", Signature: "C17/harness/driver", Detail: "net: wrong answer length", OpIndex: -1}}
	}
	r.stats.ModelChecked++
	for a := range ports {
		for b := range ports {
			same := network.NewTarget("h", ports[a]).IsSameNetworkId(network.NewTarget("h", ports[b]))
			if same != (ids[a] == ids[b]) {
				rp, _ := json.Marshal(map[string]any{"ports": []string{ports[a], ports[b]}})
				return []Failure{{Kind: "diff", Signature: "C17/diff/network-id", FoundInput: true, OpIndex: -1, Replay: rp,
					Detail: fmt.Sprintf("IsSameNetworkId(port %q, port %q)=%v, model networkId %v / %v", ports[a], ports[b], same, ids[a], ids[b])}}
			}
		}
	}
	r.stats.NetworkPairs += len(ports) * len(ports)
	return nil
}

// ---------------------------------------------------------------------------------------------- minimise

func cloneScenario(sc *Scenario) *Scenario {
	c := *sc
	c.Ops = append([]Op{}, sc.Ops...)
	c.Seeds = append([]Seed{}, sc.Seeds...)
	return &c
}

// reproduces reports whether sc fails with signature sig in any of `tries` executions
func (r *runner) reproduces(sc *Scenario, sig string, tries int) bool {
	for t := 0; t < tries; t++ {
		for _, f := range r.runScenario(sc, false, r.strongOnly) {
			if f.Signature == sig {
				return true
			}
		}
	}
	return false
}

func (r *runner) minimise(sc *Scenario, f Failure) *Scenario {
	best := cloneScenario(sc)
	if f.OpIndex >= 0 && f.OpIndex+1 < len(best.Ops) {
		best.Ops = best.Ops[:f.OpIndex+1]
	}
	if !r.reproduces(best, f.Signature, 5) {
		return cloneScenario(sc)
	}
	for changed := true; changed; {
		changed = false
		for i := len(best.Ops) - 1; i >= 0; i-- {
			c := cloneScenario(best)
			c.Ops = append(append([]Op{}, best.Ops[:i]...), best.Ops[i+1:]...)
			if len(c.Ops) > 0 && r.reproduces(c, f.Signature, 5) {
				best, changed = c, true
			}
		}
		for i := range best.Ops { // shrink target lists and unreachable sets
			for j := len(best.Ops[i].Targets) - 1; j >= 0; j-- {
				c := cloneScenario(best)
				ts := best.Ops[i].Targets
				c.Ops[i].Targets = append(append([]string{}, ts[:j]...), ts[j+1:]...)
				if r.reproduces(c, f.Signature, 5) {
					best, changed = c, true
				}
			}
			for j := len(best.Ops[i].Unreachable) - 1; j >= 0; j-- {
				c := cloneScenario(best)
				us := best.Ops[i].Unreachable
				c.Ops[i].Unreachable = append(append([]endpoint{}, us[:j]...), us[j+1:]...)
				if r.reproduces(c, f.Signature, 5) {
					best, changed = c, true
				}
			}
		}
		for j := len(best.Seeds) - 1; j >= 0; j-- {
			c := cloneScenario(best)
			c.Seeds = append(append([]Seed{}, best.Seeds[:j]...), best.Seeds[j+1:]...)
			if r.reproduces(c, f.Signature, 5) {
				best, changed = c, true
			}
		}
	}
	return best
}

// ---------------------------------------------------------------------------------------------- witnesses

// Regression witnesses: the concrete inputs on which the unrepaired code violated C17 (they were the
// counterexample witnesses of Neigh.Props before the repair).  They must NOT reproduce.
type witness struct {
	Name     string
	Sig      string // C17/strong/<Sig>
	Scenario *Scenario
}

func regressionWitnesses() []witness {
	mk := func(max int, ops ...Op) *Scenario {
		return &Scenario{HostIp: "10.0.0.9", HostPort: "10600", Max: max, Seeds: []Seed{{"10.0.0.1:10600", 0}},
			Ops: ops, Kinds: map[string]string{}}
	}
	return []witness{
		{"two spellings of one endpoint give two outbounds", "same-endpoint-selected-twice",
			mk(5, Op{Kind: "add", Targets: []string{"10.0.0.2:10600", "[10.0.0.2]:10600"}}, Op{Kind: "sync"})},
		{"the host under another spelling becomes an outbound", "host-endpoint-selected-under-other-spelling",
			mk(5, Op{Kind: "add", Targets: []string{"[10.0.0.9]:10600"}}, Op{Kind: "sync"})},
		{"a peer announced as [ip]:port is sent its own target", "peer-sent-its-own-target-in-other-spelling",
			mk(5, Op{Kind: "add", Targets: []string{"[10.0.0.2]:10600"}}, Op{Kind: "sync"})},
		{"Incentive stores a malformed or foreign-network target", "retained-unacceptable-target",
			mk(3, Op{Kind: "inc", Target: "junk"}, Op{Kind: "sync"}, Op{Kind: "add", Targets: []string{"10.0.0.2:10600"}},
				Op{Kind: "inc", Target: "10.0.0.6:8080"}, Op{Kind: "sync"})},
	}
}

// runWitnesses executes the regression witnesses on the real code (endpoint-level clauses only, through all
// operations), re-checks the parse table of Neigh.Ex, and the negative-maximum panic (outside C17's quantifier).
func (r *runner) runWitnesses() (res []map[string]any, fails []Failure) {
	rec := func(name string, reproduced bool, expected bool, detail string) {
		res = append(res, map[string]any{"name": name, "reproduced": reproduced, "expected": expected, "detail": detail})
	}
	table := map[string][2]string{
		"10.0.0.1:10600": {"10.0.0.1", "10600"}, "10.0.0.2:10600": {"10.0.0.2", "10600"},
		"10.0.0.3:10600": {"10.0.0.3", "10600"}, "10.0.0.4:10600": {"10.0.0.4", "10600"},
		"[10.0.0.2]:10600": {"10.0.0.2", "10600"}, "10.0.0.9:10600": {"10.0.0.9", "10600"},
		"[10.0.0.9]:10600": {"10.0.0.9", "10600"}, "10.0.0.5:10601": {"10.0.0.5", "10601"},
		"10.0.0.6:8080": {"10.0.0.6", "8080"},
	}
	var bad []string
	for v, want := range table {
		t, err := network.NewTargetFromValue(v)
		if err != nil || t.Ip() != want[0] || t.Port() != want[1] || network.NewTarget(want[0], want[1]).Value() != want[0]+":"+want[1] {
			bad = append(bad, v)
		}
	}
	if _, err := network.NewTargetFromValue("junk"); err == nil {
		bad = append(bad, "junk")
	}
	rec("Neigh.Ex parse/join table matches NewTargetFromValue/NewTarget", len(bad) == 0, true, strings.Join(bad, ","))
	if len(bad) > 0 {
		fails = append(fails, Failure{Kind: "tie", Signature: "C17/param/ex-table", Detail: "Neigh.Ex table differs from the real functions on " + strings.Join(bad, ","), OpIndex: -1})
	}
	for _, w := range regressionWitnesses() {
		reproduced, detail := false, ""
		for t := 0; t < 5 && !reproduced; t++ {
			for _, f := range r.runScenario(w.Scenario, false, true) {
				if f.Signature == "C17/strong/"+w.Sig {
					reproduced, detail = true, f.Detail
					f.Detail = "regression witness reproduces (" + w.Name + "): " + f.Detail
					f.Replay, _ = json.Marshal(map[string]any{"witness": w.Name, "signature": f.Signature, "scenario": w.Scenario})
					fails = append(fails, f)
					break
				}
			}
		}
		rec("C17/strong/"+w.Sig+": "+w.Name, reproduced, false, detail)
	}
	{ // C17_negative_max_panics (outside the quantifier of C17; conformance with the model only)
		c := &fakeCreator{unreachable: map[string]bool{}}
		nb := network.NewNeighborhood(c, "10.0.0.9", "10600", -1, map[string]int{"10.0.0.1:10600": 0}, nil)
		msg, p := safely(func() { nb.Synchronize(0) })
		rec("C17_negative_max_panics: max=-1 with one reachable seed panics", p, true, msg)
	}
	return
}

// ---------------------------------------------------------------------------------------------- main

func main() {
	seed := flag.Int64("seed", 1, "PRNG seed")
	rounds := flag.Int("rounds", 2000, "number of Synchronize rounds to run")
	driver := flag.String("driver", "", "path of the neighdriver executable")
	replay := flag.String("replay", "", "replay file (a ./check replay file or a bare scenario)")
	negMax := flag.Bool("negmax", true, "also generate negative maxima (conformance with the model only)")
	strongOnly := flag.Bool("strong-only", false, "with --replay: endpoint-level clauses only, through all operations (regression witnesses)")
	wit := flag.Bool("witnesses", false, "run the counterexample witnesses of Neigh.Props on the real code")
	maxFailures := flag.Int("max-failures", 5, "stop after this many distinct failure signatures")
	flag.Parse()

	if *wit {
		r := &runner{stats: newStats()}
		ws, fs := r.runWitnesses()
		if fs == nil {
			fs = []Failure{}
		}
		out, _ := json.Marshal(map[string]any{"witnesses": ws, "failures": fs})
		fmt.Println(string(out))
		return
	}
	drv, err := startDriver(*driver)
	if err != nil {
		out, _ := json.Marshal(map[string]any{"fatal": "cannot start driver: " + err.Error()})
		fmt.Println(string(out))
		os.Exit(2)
	}
	defer drv.close()
	r := &runner{drv: drv, stats: newStats(), strongOnly: *strongOnly}
	var failures []Failure
	seenSig := map[string]bool{}
	record := func(sc *Scenario, fs []Failure, minimise bool) {
		for _, f := range fs {
			if seenSig[f.Signature] {
				continue
			}
			seenSig[f.Signature] = true
			m := sc
			if minimise && f.FoundInput {
				m = r.minimise(sc, f)
			}
			f.Replay, _ = json.Marshal(map[string]any{"seed": *seed, "signature": f.Signature, "scenario": m})
			failures = append(failures, f)
			fmt.Fprintf(os.Stderr, "FAIL %s: %s\n", f.Signature, f.Detail)
		}
	}
	if *replay != "" {
		raw, err := os.ReadFile(*replay)
		if err != nil {
			fmt.Println(`{"fatal":"cannot read replay file"}`)
			os.Exit(2)
		}
		var outer struct {
			Replay struct {
				Scenario *Scenario `json:"scenario"`
				Ports    []string  `json:"ports"`
			} `json:"replay"`
			Scenario *Scenario `json:"scenario"`
		}
		_ = json.Unmarshal(raw, &outer)
		sc := outer.Replay.Scenario
		if sc == nil {
			sc = outer.Scenario
		}
		if sc == nil && len(outer.Replay.Ports) > 0 {
			for _, f := range r.networkPorts(nil, outer.Replay.Ports) {
				failures = append(failures, f)
			}
			sc = &Scenario{HostIp: "10.0.0.9", HostPort: "10600", Ops: []Op{{Kind: "sync"}}}
		}
		if sc == nil {
			sc = &Scenario{}
			if err := json.Unmarshal(raw, sc); err != nil || len(sc.Ops) == 0 {
				fmt.Println(`{"fatal":"no scenario in replay file"}`)
				os.Exit(2)
			}
		}
		sc.Kinds = map[string]string{}
		for t := 0; t < 50; t++ { // map order and shuffle are random: repeat
			record(sc, r.runScenario(sc, true, *strongOnly), false)
		}
	} else {
		rng := rand.New(rand.NewSource(*seed))
		for _, f := range r.networkTable(rng) {
			seenSig[f.Signature] = true
			failures = append(failures, f)
			fmt.Fprintf(os.Stderr, "FAIL %s: %s\n", f.Signature, f.Detail)
		}
		for r.stats.Rounds < *rounds && len(failures) < *maxFailures {
			sc := genScenario(rng, *negMax)
			record(sc, r.runScenario(sc, true, false), true)
		}
	}
	if failures == nil {
		failures = []Failure{}
	}
	if r.stats.Samples == nil {
		r.stats.Samples = []string{}
	}
	sum := map[string]any{
		"seed": *seed, "evaluations": r.stats.Evaluations, "rounds": r.stats.Rounds, "scenarios": r.stats.Scenarios,
		"distinct_nontrivial": len(r.stats.Nontrivial),
		"rule":                "distinct (host, max, iterated score map, unreachable set) of Synchronize rounds with >=2 selectable targets, >=1 outbound, and a target left out or filtered (host/malformed/unreachable)",
		"samples":             r.stats.Samples, "model_answers_compared": r.stats.ModelChecked, "network_id_pairs": r.stats.NetworkPairs, "param_hypothesis_checks": r.stats.ParamChecks,
		"hist": map[string]any{"op_kinds": r.stats.OpKinds, "target_kinds": r.stats.TargetKinds, "max": r.stats.MaxHist,
			"outbound_size": r.stats.OutSizeHist, "source": r.stats.SourceHist, "round_shapes": r.stats.RoundShapes,
			"strong_reading_hits": r.stats.Strong},
		"failures": failures,
	}
	out, _ := json.Marshal(sum)
	fmt.Println(string(out))
}
