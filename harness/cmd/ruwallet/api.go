package main

// The access node's REAL controllers, wired to a REAL in-process validator through an in-process
// application.Sender (with injectable failures per method) and a scripted clock.

import (
	"bytes"
	"encoding/json"
	"errors"
	"fmt"
	"net/http"
	"net/http/httptest"
	"time"

	"github.com/gin-gonic/gin"
	"github.com/my-cloud/ruthenium/accessnode/presentation/api/payment"
	"github.com/my-cloud/ruthenium/accessnode/presentation/api/wallet"
	"github.com/my-cloud/ruthenium/validatornode/application"
	"github.com/my-cloud/ruthenium/validatornode/domain/ledger"

	"ruverif/internal/node"
)

// reply modes of the fake sender
const (
	rOK      = 0
	rError   = 1
	rGarbage = 2
	rEmpty   = 3 // GetBlocks only: a well-formed empty list
)

type injection struct {
	Utxos   int `json:"utxos,omitempty"`
	Genesis int `json:"genesis,omitempty"`
	Blocks  int `json:"blocks,omitempty"`
	Txs     int `json:"txs,omitempty"`
	AddTx   int `json:"addtx,omitempty"`
}

func (i injection) none() bool { return i == injection{} }

func (i injection) String() string {
	if i.none() {
		return "none"
	}
	b, _ := json.Marshal(i)
	return string(b)
}

type fakeSender struct {
	n   *node.Node
	inj injection
}

var errInjected = errors.New("injected validator failure")
var garbageBytes = []byte("{not json")

func (s *fakeSender) Target() string { return "access:0" }

func (s *fakeSender) GetBlocks(h uint64) ([]byte, error) {
	switch s.inj.Blocks {
	case rError:
		return nil, errInjected
	case rGarbage:
		return garbageBytes, nil
	case rEmpty:
		return []byte("[]"), nil
	}
	return s.n.ServeBlocks(h)
}

func (s *fakeSender) GetFirstBlockTimestamp() (int64, error) {
	if s.inj.Genesis == rError {
		return 0, errInjected // the real Neighbor returns the zero timestamp with the error
	}
	// the real path: BlocksController marshals FirstBlockTimestamp(), Neighbor unmarshals it
	b, err := json.Marshal(s.n.Chain.FirstBlockTimestamp())
	if err != nil {
		return 0, err
	}
	var ts int64
	err = json.Unmarshal(b, &ts)
	return ts, err
}

func (s *fakeSender) GetSettings() ([]byte, error)   { return nil, errors.New("n/a") }
func (s *fakeSender) SendTargets(_ []string) error   { return nil }

func (s *fakeSender) AddTransaction(b []byte) error {
	if s.inj.AddTx == rError {
		return errInjected
	}
	// what TransactionsController.HandleTransactionRequest does, synchronously
	var req *ledger.TransactionRequest
	if err := json.Unmarshal(b, &req); err != nil {
		return err
	}
	if req == nil || req.Transaction() == nil {
		return nil
	}
	s.n.Pool.AddTransaction(req.Transaction(), req.TransactionBroadcasterTarget(), s.n.Senders.HostTarget())
	return nil
}

func (s *fakeSender) GetTransactions() ([]byte, error) {
	switch s.inj.Txs {
	case rError:
		return nil, errInjected
	case rGarbage:
		return garbageBytes, nil
	}
	return json.Marshal(s.n.Pool.Transactions())
}

func (s *fakeSender) GetUtxos(address string) ([]byte, error) {
	switch s.inj.Utxos {
	case rError:
		return nil, errInjected
	case rGarbage:
		return garbageBytes, nil
	}
	// what UtxosController.HandleUtxosRequest does
	return json.Marshal(s.n.Utxos.Utxos(address))
}

var _ application.Sender = (*fakeSender)(nil)

type clock struct{ now int64 }

func (c *clock) Now() time.Time { return time.Unix(0, c.now) }

var _ application.TimeProvider = (*clock)(nil)

type access struct {
	sender   *fakeSender
	clock    *clock
	log      *node.Logger
	info     *payment.InfoController
	progress *payment.ProgressController
	tx       *payment.TransactionController
	txs      *payment.TransactionsController
	amount   *wallet.AmountController
	engine   *gin.Engine
	ginPanic string
}

func newAccess(n *node.Node) *access {
	a := &access{sender: &fakeSender{n: n}, clock: &clock{}, log: &node.Logger{}}
	a.info = payment.NewInfoController(a.sender, n.Settings, a.clock, a.log)
	a.progress = payment.NewProgressController(a.sender, n.Settings, a.clock, a.log)
	a.tx = payment.NewTransactionController(a.sender, a.log)
	a.txs = payment.NewTransactionsController(a.sender, a.log)
	a.amount = wallet.NewAmountController(a.sender, n.Settings, a.clock, a.log)
	// same routes as accessnode/presentation/node.go (gin.Default = logger + recovery; the logger is left out)
	gin.SetMode(gin.ReleaseMode)
	r := gin.New()
	r.Use(gin.CustomRecovery(func(c *gin.Context, err any) {
		a.ginPanic = fmt.Sprint(err)
		c.AbortWithStatus(http.StatusInternalServerError)
	}))
	r.POST("/transaction", func(c *gin.Context) { a.tx.PostTransaction(c.Writer, c.Request) })
	r.GET("/transactions", func(c *gin.Context) { a.txs.GetTransactions(c.Writer, c.Request) })
	r.GET("/transaction/info", func(c *gin.Context) { a.info.GetTransactionInfo(c.Writer, c.Request) })
	r.PUT("/transaction/output/progress", func(c *gin.Context) { a.progress.GetTransactionProgress(c.Writer, c.Request) })
	r.GET("/wallet/amount", func(c *gin.Context) { a.amount.GetWalletAmount(c.Writer, c.Request) })
	a.engine = r
	return a
}

type httpResult struct {
	Status int
	Body   []byte
	Panic  string // non-empty when the controller panicked (direct: recovered here; gin: its recovery)
}

// call drives one request either through the gin engine or straight into the controller method.
func (a *access) call(viaGin bool, method, target string, body []byte) (res httpResult) {
	var rd *bytes.Reader
	if body != nil {
		rd = bytes.NewReader(body)
	} else {
		rd = bytes.NewReader(nil)
	}
	req := httptest.NewRequest(method, target, rd)
	if body != nil {
		req.Header.Set("Content-Type", "application/json")
	}
	rec := httptest.NewRecorder()
	a.log.Drain()
	if viaGin {
		a.ginPanic = ""
		a.engine.ServeHTTP(rec, req)
		return httpResult{rec.Code, rec.Body.Bytes(), a.ginPanic}
	}
	defer func() {
		if r := recover(); r != nil {
			res = httpResult{0, nil, fmt.Sprint(r)}
		}
	}()
	switch req.URL.Path {
	case "/transaction":
		a.tx.PostTransaction(rec, req)
	case "/transactions":
		a.txs.GetTransactions(rec, req)
	case "/transaction/info":
		a.info.GetTransactionInfo(rec, req)
	case "/transaction/output/progress":
		a.progress.GetTransactionProgress(rec, req)
	case "/wallet/amount":
		a.amount.GetWalletAmount(rec, req)
	default:
		rec.WriteHeader(404)
	}
	return httpResult{rec.Code, rec.Body.Bytes(), ""}
}
