package main

import (
	"encoding/json"
	"fmt"
	"math/rand"
	"net/url"
	"regexp"
	"strconv"
	"strings"
	"time"

	"github.com/my-cloud/ruthenium/validatornode/domain/ledger"

	"ruverif/internal/node"
)

type ref struct {
	Index uint16 `json:"output_index"`
	TxId  string `json:"transaction_id"`
}

type scen struct {
	st     *stats
	rng    *rand.Rand
	drv    *driver
	mode   string
	seed   int64
	idx    int
	step   int
	s      *node.Settings
	n      *node.Node
	a      *access
	V, R   *node.Wallet
	owners []*node.Wallet
	yield  map[string]bool // addresses that have been given a yielding output
	aborted bool
}

// ---------------------------------------------------------------- small helpers

func (sc *scen) last() int64    { return sc.n.Chain.LastBlockTimestamp() }
func (sc *scen) genesis() int64 { return sc.n.Chain.FirstBlockTimestamp() }

func (sc *scen) value(u *ledger.Utxo, ts int64) uint64 {
	return u.Value(ts, sc.s.HalfLife, sc.s.Base, sc.s.Limit)
}

func (sc *scen) listing(address string) []*ledger.Utxo {
	return append([]*ledger.Utxo(nil), sc.n.Utxos.Utxos(address)...)
}

func (sc *scen) values(l []*ledger.Utxo, ts int64) []uint64 {
	vs := make([]uint64, len(l))
	for i, u := range l {
		vs[i] = sc.value(u, ts)
	}
	return vs
}

func (sc *scen) replay(extra map[string]any) map[string]any {
	m := map[string]any{"seed": sc.seed, "scenario": sc.idx, "mode": sc.mode, "step": sc.step,
		"settings": sc.s}
	for k, v := range extra {
		m[k] = v
	}
	return m
}

func (sc *scen) fail(prop, kind, sig, detail string, extra map[string]any) {
	sc.st.fail(failure{Prop: prop, Kind: kind, Signature: prop + "/" + sig, Detail: detail, Replay: sc.replay(extra)})
}

func (sc *scen) prop() string {
	if sc.mode == "c18" {
		return "C18"
	}
	return "C19"
}

// tick lets the validator produce its next block; false (and the scenario is abandoned) if it did not.
func (sc *scen) tick() bool {
	before := len(sc.n.AllBlocks())
	ts := sc.last() + sc.s.Interval
	sc.n.Pool.Validate(ts)
	if len(sc.n.AllBlocks()) != before+1 {
		sc.fail(sc.prop(), "prop", "harness/validator-produced-no-block",
			"the validator did not produce a block on a regular tick: "+strings.Join(sc.validatorLog(), " | "),
			map[string]any{"tick": ts})
		sc.aborted = true
		return false
	}
	sc.n.Log.Drain()
	return true
}

var pointerRe = regexp.MustCompile(`0x[0-9a-f]+`)

// validatorLog drains the validator's log; pointer values printed by the code under test are masked.
func (sc *scen) validatorLog() []string {
	lines := sc.n.Log.Drain()
	for i, l := range lines {
		lines[i] = pointerRe.ReplaceAllString(l, "0x_")
	}
	return lines
}

func poolIds(n *node.Node) []string {
	ids := []string{}
	for _, t := range n.Pool.Transactions() {
		ids = append(ids, t.Id())
	}
	return ids
}

func contains(l []string, s string) bool {
	for _, x := range l {
		if x == s {
			return true
		}
	}
	return false
}

func blockIds(b *ledger.Block) []string {
	ids := []string{}
	for _, t := range b.Transactions() {
		ids = append(ids, t.Id())
	}
	return ids
}

// ---------------------------------------------------------------- scenario

func runScenario(st *stats, drv *driver, mode string, seed int64, idx int, scSeed int64) {
	rng := rand.New(rand.NewSource(scSeed))
	sc := &scen{st: st, rng: rng, drv: drv, mode: mode, seed: seed, idx: idx, yield: map[string]bool{}}
	defer func() {
		if r := recover(); r != nil {
			sc.fail(sc.prop(), "prop", "harness/panic", fmt.Sprint("panic outside a controller call: ", r), nil)
		}
	}()
	// --- settings lattice
	s := node.DefaultSettings()
	s.Interval = []int64{int64(time.Minute), int64(5 * time.Second), 37_000_000_123, 1_000_003}[rng.Intn(4)]
	long := rng.Intn(3) == 0
	if long {
		s.HalfLife = 373.59 * 24 * float64(time.Hour)
	} else {
		s.HalfLife = float64(s.Interval) * []float64{2.5, 10, 60, 400}[rng.Intn(4)]
	}
	s.MinFee = []uint64{1, 1000}[rng.Intn(2)]
	s.BlocksLimit = []uint64{1, 2, 3, 100}[rng.Intn(4)]
	s.Genesis = []uint64{10_000_000, 10_000_000_000_000}[rng.Intn(2)]
	switch rng.Intn(3) {
	case 0:
		s.Base, s.Limit = 500, 100_000
	case 1:
		s.Base, s.Limit = 50_000, 5_000_000
	}
	s.Units = []uint64{100_000_000, 100, 1}[rng.Intn(3)]
	sc.s = s
	hl := "short"
	if long {
		hl = "long"
	}
	st.hist("settings", fmt.Sprintf("fee=%d halflife=%s page=%d", s.MinFee, hl, s.BlocksLimit))
	// --- wallets and node
	base := rng.Intn(1 << 20)
	sc.V = node.NewWallet(base)
	sc.R = node.NewWallet(base + 1)
	for i := 0; i < 1+rng.Intn(3); i++ {
		sc.owners = append(sc.owners, node.NewWallet(base+2+i))
	}
	sc.n = node.New("v0", s, sc.V.Address)
	sc.a = newAccess(sc.n)
	ts0 := int64(1_700_000_000_000_000_000) + rng.Int63n(1_000_000_000_000)
	if rng.Intn(2) == 0 {
		// the access node is long-lived: it may be asked before its validator holds any block (the answers are refusals
		// or zeroes and are not compared; what matters is that nothing learnt here survives into the later answers)
		sc.a.clock.now = ts0 - rng.Int63n(s.Interval)
		for _, target := range []string{"/transaction/info?address=" + sc.V.Address + "&value=1&consolidation=false", "/wallet/amount?address=" + sc.V.Address} {
			res := sc.a.call(rng.Intn(2) == 0, "GET", target, nil)
			st.hist("pre-genesis", fmt.Sprintf("%s -> %d", strings.SplitN(target, "?", 2)[0], res.Status))
			if res.Panic != "" {
				sc.fail(sc.prop(), "prop", "pre-genesis/panic", "request before the first block panicked: "+res.Panic, nil)
				return
			}
		}
		pb, _ := json.Marshal(utxoBody{Address: sc.V.Address, Timestamp: ts0, TransactionId: strings.Repeat("0", 64)})
		res := sc.a.call(false, "PUT", "/transaction/output/progress", pb)
		st.hist("pre-genesis", fmt.Sprintf("/transaction/output/progress -> %d", res.Status))
	}
	sc.n.Pool.Validate(ts0)
	if len(sc.n.AllBlocks()) != 1 {
		sc.fail(sc.prop(), "prop", "harness/no-genesis-block", "no genesis block", nil)
		return
	}
	if !sc.tick() {
		return
	}
	// --- holdings, built by real transactions over 1..3 funding rounds (varied ages)
	rounds := 1 + rng.Intn(3)
	for r := 0; r < rounds && !sc.aborted; r++ {
		sc.fund(r, rounds)
	}
	for i := rng.Intn(3); i > 0 && !sc.aborted; i-- {
		sc.tick()
	}
	if sc.aborted {
		return
	}
	if mode == "c18" {
		sc.runC18()
	} else {
		sc.runC19()
	}
}

// fund: the validator's wallet pays outputs to every owner in one transaction; two ticks confirm them.
func (sc *scen) fund(round, rounds int) {
	rng := sc.rng
	next := sc.last() + sc.s.Interval
	var spends []node.Spend
	var avail uint64
	for _, u := range sc.listing(sc.V.Address) {
		v := sc.value(u, next)
		if v == 0 {
			continue
		}
		avail += v
		spends = append(spends, node.Spend{TxId: u.TransactionId(), Index: u.OutputIndex(), By: sc.V})
	}
	if avail <= sc.s.MinFee+20 {
		return
	}
	fundingFee := sc.s.MinFee + 1 + uint64(rng.Intn(5)) // above the minimum: the exact-minimum case is the wallet's
	budget := (avail - fundingFee) / 2               // keep half for later rounds
	var outs []node.RawOutput
	var counts []int
	total := 0
	for range sc.owners {
		var c int
		switch p := rng.Intn(100); {
		case p < 35:
			c = 1 + rng.Intn(5)
		case p < 70:
			c = 6 + rng.Intn(35)
		default:
			c = 41 + rng.Intn(260)
		}
		c = c / rounds
		if c == 0 {
			c = 1
		}
		counts = append(counts, c)
		total += c
	}
	cap := budget / uint64(total)
	if cap == 0 {
		return
	}
	var spent uint64
	for oi, o := range sc.owners {
		profile := rng.Intn(5)
		eq := 1 + uint64(rng.Int63n(int64(cap)))
		set := []uint64{1 + uint64(rng.Int63n(int64(cap))), 1 + uint64(rng.Int63n(int64(cap))), 1 + uint64(rng.Int63n(int64(cap)))}
		for k := 0; k < counts[oi]; k++ {
			var v uint64
			switch profile {
			case 0: // equal values
				v = eq
			case 1: // few distinct values
				v = set[rng.Intn(3)]
			case 2: // random
				v = 1 + uint64(rng.Int63n(int64(cap)))
			case 3: // mixed with zero-valued and dust
				switch rng.Intn(4) {
				case 0:
					v = 0
				case 1:
					v = 1 + uint64(rng.Intn(3))
				default:
					v = 1 + uint64(rng.Int63n(int64(cap)))
				}
			default: // small values around the fee
				v = uint64(rng.Int63n(int64(3*sc.s.MinFee + 5)))
				if v > cap {
					v = cap
				}
			}
			y := false
			if !sc.yield[o.Address] && rng.Intn(6) == 0 {
				y = true
				sc.yield[o.Address] = true
			}
			outs = append(outs, node.RawOutput{Address: o.Address, IsYielding: y, Value: v})
			spent += v
		}
	}
	rng.Shuffle(len(outs), func(i, j int) { outs[i], outs[j] = outs[j], outs[i] })
	outs = append(outs, node.RawOutput{Address: sc.V.Address, IsYielding: false, Value: avail - spent - fundingFee})
	tx, _, err := node.MakeTx(spends, outs, sc.last()+rng.Int63n(sc.s.Interval))
	if err != nil {
		sc.fail(sc.prop(), "prop", "harness/funding-build", err.Error(), nil)
		sc.aborted = true
		return
	}
	sc.n.Pool.AddTransaction(tx, "", "")
	if !contains(poolIds(sc.n), tx.Id()) {
		sc.fail(sc.prop(), "prop", "harness/funding-rejected",
			"funding transaction refused: "+strings.Join(sc.validatorLog(), " | "), nil)
		sc.aborted = true
		return
	}
	if sc.tick() {
		sc.tick()
	}
}

// ---------------------------------------------------------------- info queries (C18)

type infoQuery struct {
	Address   string    `json:"address"`
	Value     string    `json:"value"`
	Cons      string    `json:"consolidation"`
	Now       int64     `json:"now"`
	Inj       injection `json:"inj"`
	ViaGin    bool      `json:"via_gin"`
	Cat       string    `json:"category"`
	NoAddress bool      `json:"no_address,omitempty"`
}

type infoAnswer struct {
	Status    int    `json:"status"`
	Rest      uint64 `json:"rest"`
	Inputs    []ref  `json:"inputs"`
	Timestamp int64  `json:"timestamp"`
	Raw       string `json:"raw,omitempty"`
}

// doInfo performs one GET /transaction/info, compares it with the model and evaluates C18's clauses.
func (sc *scen) doInfo(q infoQuery) (infoAnswer, bool) {
	sc.step++
	st := sc.st
	sc.a.clock.now = q.Now
	sc.a.sender.inj = q.Inj
	params := url.Values{}
	if !q.NoAddress {
		params.Set("address", q.Address)
	}
	params.Set("value", q.Value)
	params.Set("consolidation", q.Cons)
	res := sc.a.call(q.ViaGin, "GET", "/transaction/info?"+params.Encode(), nil)
	sc.a.sender.inj = injection{}
	st.Evaluations++
	var ans infoAnswer
	ans.Status = res.Status
	ctx := func(extra map[string]any) map[string]any {
		m := map[string]any{"query": q, "answer": ans, "body": string(res.Body)}
		for k, v := range extra {
			m[k] = v
		}
		return m
	}
	if res.Panic != "" {
		sc.fail("C18", "prop", "info/panic", "GetTransactionInfo panicked: "+res.Panic, ctx(nil))
		return ans, false
	}
	if res.Status == 200 {
		var body struct {
			Inputs    []ref  `json:"inputs"`
			Rest      uint64 `json:"rest"`
			Timestamp int64  `json:"timestamp"`
		}
		if err := json.Unmarshal(res.Body, &body); err != nil {
			sc.fail("C18", "diff", "info/undecodable-answer", err.Error(), ctx(nil))
			return ans, false
		}
		ans.Rest, ans.Inputs, ans.Timestamp = body.Rest, body.Inputs, body.Timestamp
	} else {
		ans.Raw = string(res.Body)
	}
	st.hist("status", strconv.Itoa(res.Status))
	st.hist("category", q.Cat)
	if q.ViaGin {
		st.hist("via", "gin")
	} else {
		st.hist("via", "direct")
	}
	st.hist("injection", q.Inj.String())

	// ---- the model's prediction
	gen, interval := sc.genesis(), sc.s.Interval
	times := strings.Fields(sc.drv.ask(fmt.Sprintf("times %d %d %d", gen, interval, q.Now)))
	if len(times) != 3 {
		sc.fail("C18", "diff", "info/driver", "driver: "+strings.Join(times, " "), ctx(nil))
		return ans, false
	}
	modelNext, _ := strconv.ParseInt(times[0], 10, 64)
	addr := q.Address
	if q.NoAddress {
		addr = ""
	}
	list := sc.listing(addr)
	vals := sc.values(list, modelNext)
	parsed, perr := strconv.Atoi(q.Value)
	cons, cerr := strconv.ParseBool(q.Cons)
	line := fmt.Sprintf("info %s %s %s %d %s %d %d %s %s", b01(addr == ""), b01(perr == nil), b01(cerr == nil),
		q.Inj.Utxos, b01(q.Inj.Genesis == 0), parsed, sc.s.MinFee, b01(cons), joinU64(vals))
	pred := strings.Fields(sc.drv.ask(line))
	if len(pred) == 0 {
		pred = []string{"driver-error"}
	}
	if pred[0] != strconv.Itoa(res.Status) {
		sc.fail("C18", "diff", "info/status", fmt.Sprintf("status: model %s, implementation %d", pred[0], res.Status),
			ctx(map[string]any{"model": strings.Join(pred, " "), "values": vals}))
		return ans, false
	}
	if res.Status == 200 {
		mrest, _ := strconv.ParseUint(pred[1], 10, 64)
		var mrefs []ref
		for _, p := range pred[3:] {
			i, _ := strconv.Atoi(p)
			if i < len(list) {
				mrefs = append(mrefs, ref{list[i].OutputIndex(), list[i].TransactionId()})
			}
		}
		same := len(mrefs) == len(ans.Inputs)
		for i := 0; same && i < len(mrefs); i++ {
			same = mrefs[i] == ans.Inputs[i]
		}
		if !same {
			sc.fail("C18", "diff", "info/inputs", fmt.Sprintf("selected outputs differ: model %d entries, implementation %d",
				len(mrefs), len(ans.Inputs)), ctx(map[string]any{"model": strings.Join(pred, " "), "values": vals}))
			return ans, false
		}
		if mrest != ans.Rest {
			sc.fail("C18", "diff", "info/rest", fmt.Sprintf("rest: model %d, implementation %d", mrest, ans.Rest),
				ctx(map[string]any{"model": strings.Join(pred, " "), "values": vals}))
			return ans, false
		}
		if ans.Timestamp != q.Now {
			sc.fail("C18", "diff", "info/timestamp", fmt.Sprintf("timestamp %d, clock %d", ans.Timestamp, q.Now), ctx(nil))
			return ans, false
		}
	}

	// ---- the property's clauses, evaluated directly (valid request, non-negative amount, no failure injected)
	if q.NoAddress || perr != nil || cerr != nil || parsed < 0 || !q.Inj.none() {
		return ans, res.Status == 200
	}
	next := sc.last() + interval // the validator's next block time
	if modelNext != next && q.Now >= sc.last() && q.Now < next {
		sc.fail("C18", "diff", "info/next-block-time", fmt.Sprintf("model next block time %d, validator %d", modelNext, next), ctx(nil))
	}
	pv := sc.values(list, next)
	var balance uint64
	nonzero := 0
	var maxv uint64
	for _, v := range pv {
		balance += v
		if v != 0 {
			nonzero++
		}
		if v > maxv {
			maxv = v
		}
	}
	amount := uint64(parsed)
	target := amount + sc.s.MinFee
	st.hist("holdings", bucket(len(list)))
	zeros, yielding := 0, 0
	for i, u := range list {
		if pv[i] == 0 {
			zeros++
		}
		if u.IsYielding() {
			yielding++
		}
	}
	st.hist("zero_valued_listed", bucket(zeros))
	st.hist("yielding_listed", strconv.Itoa(yielding))
	clause := func(name, detail string) {
		sc.fail("C18", "prop", "clause/"+name, detail, ctx(map[string]any{"values": pv, "balance": balance}))
	}
	if balance < target {
		if res.Status != 405 {
			clause("refusal", fmt.Sprintf("balance %d < amount+fee %d but status %d", balance, target, res.Status))
			return ans, false
		}
		if strings.Contains(string(res.Body), "transaction_id") || strings.HasPrefix(strings.TrimSpace(string(res.Body)), "{") {
			clause("refusal-lists-nothing", "405 answer carries a body that lists outputs")
		}
		return ans, false
	}
	if res.Status != 200 {
		clause("affordable-served", fmt.Sprintf("balance %d >= amount+fee %d but status %d", balance, target, res.Status))
		return ans, false
	}
	st.hist("selection_size", bucket(len(ans.Inputs)))
	if cons {
		st.hist("mode", "consolidation")
	} else {
		st.hist("mode", "selection")
	}
	pos := map[ref]int{}
	for i, u := range list {
		pos[ref{u.OutputIndex(), u.TransactionId()}] = i
	}
	seen := map[ref]bool{}
	var sum uint64
	ok := true
	for _, in := range ans.Inputs {
		if seen[in] {
			clause("distinct", fmt.Sprintf("output %v listed twice", in))
			ok = false
		}
		seen[in] = true
		i, listed := pos[in]
		if !listed {
			clause("spendable", fmt.Sprintf("output %v is not listed by the validator", in))
			ok = false
			continue
		}
		if pv[i] == 0 {
			clause("non-zero", fmt.Sprintf("output %v is worth 0 at the next block time", in))
			ok = false
		}
		sum += pv[i]
	}
	if sum != target+ans.Rest {
		clause("sum", fmt.Sprintf("selected total %d != amount %d + fee %d + rest %d", sum, amount, sc.s.MinFee, ans.Rest))
		ok = false
	}
	if cons && len(ans.Inputs) != nonzero {
		clause("all-when-consolidating", fmt.Sprintf("%d selected, %d non-zero outputs", len(ans.Inputs), nonzero))
		ok = false
	}
	if !cons && maxv >= target && len(ans.Inputs) != 1 {
		clause("single-when-one-suffices", fmt.Sprintf("an output worth %d covers %d but %d are selected", maxv, target, len(ans.Inputs)))
		ok = false
	}
	if len(ans.Inputs) > 0 {
		st.nontrivial(pv, amount, cons)
		st.sample(q.Cat+fmt.Sprint(cons), "info category=%s holdings=%d amount=%d fee=%d consolidation=%v -> %d inputs rest=%d", q.Cat, len(list), amount, sc.s.MinFee, cons, len(ans.Inputs), ans.Rest)
	}
	return ans, ok
}

// amounts proposes (category, decimal string) pairs for a wallet whose outputs are worth pv at next block time.
func (sc *scen) amounts(pv []uint64) [][2]string {
	rng := sc.rng
	fee := sc.s.MinFee
	var balance uint64
	var nz []uint64
	for _, v := range pv {
		balance += v
		if v != 0 {
			nz = append(nz, v)
		}
	}
	u := func(v uint64) string { return strconv.FormatUint(v, 10) }
	res := [][2]string{{"zero", "0"}, {"one", "1"}}
	if balance >= fee+1 {
		res = append(res, [2]string{"afford-1", u(balance - fee - 1)})
	}
	if balance >= fee {
		res = append(res, [2]string{"afford", u(balance - fee)})
	}
	if balance+1 >= fee {
		res = append(res, [2]string{"afford+1", u(balance + 1 - fee)})
	}
	res = append(res, [2]string{"random", u(uint64(rng.Int63n(int64(balance + 1))))})
	res = append(res, [2]string{"beyond", u(balance + 1 + uint64(rng.Int63n(1_000_000)))})
	if len(nz) > 0 {
		v := nz[rng.Intn(len(nz))]
		if v >= fee {
			res = append(res, [2]string{"single-eq", u(v - fee)})
		}
		if v >= fee+1 {
			res = append(res, [2]string{"single-1", u(v - fee - 1)})
		}
		if v+1 >= fee {
			res = append(res, [2]string{"single+1", u(v + 1 - fee)})
		}
		var sum uint64
		for k := 1 + rng.Intn(4); k > 0; k-- {
			sum += nz[rng.Intn(len(nz))]
		}
		if sum >= fee && sum <= balance {
			res = append(res, [2]string{"sum-of-some", u(sum - fee)})
		}
	}
	return res
}

var badValues = []string{"", "abc", "1.5", "99999999999999999999", "1e3", " 7", "0x10"}
var badBools = []string{"", "maybe", "yes", "2", "tRuE"}
var goodBools = map[bool][]string{true: {"true", "1", "t", "T", "TRUE", "True"}, false: {"false", "0", "f", "F", "FALSE", "False"}}

func (sc *scen) offsets() []int64 {
	I := sc.s.Interval
	return []int64{0, 1, I / 2, I - 1, sc.rng.Int63n(I), sc.rng.Int63n(I)}
}

// sweepInfo asks many questions about one wallet at the current validator state.
func (sc *scen) sweepInfo(o *node.Wallet, count int) {
	rng := sc.rng
	next := sc.last() + sc.s.Interval
	pv := sc.values(sc.listing(o.Address), next)
	ams := sc.amounts(pv)
	offs := sc.offsets()
	for k := 0; k < count; k++ {
		am := ams[rng.Intn(len(ams))]
		cons := rng.Intn(2) == 0
		q := infoQuery{Address: o.Address, Value: am[1], Cons: goodBools[cons][rng.Intn(6)], Now: sc.last() + offs[rng.Intn(len(offs))],
			ViaGin: rng.Intn(2) == 0, Cat: am[0]}
		if rng.Intn(4) != 0 {
			q.Cons = strconv.FormatBool(cons)
		}
		switch p := rng.Intn(100); {
		case p < 2:
			q.NoAddress, q.Cat = true, "no-address"
		case p < 4:
			q.Value, q.Cat = badValues[rng.Intn(len(badValues))], "bad-value"
		case p < 6:
			q.Cons, q.Cat = badBools[rng.Intn(len(badBools))], "bad-consolidation"
		case p < 8:
			q.Value, q.Cat = "-"+strconv.FormatUint(1+uint64(rng.Int63n(int64(2*sc.s.MinFee+3))), 10), "negative"
		case p < 10:
			q.Inj.Utxos, q.Cat = 1+rng.Intn(2), "utxos-failure"
		case p < 12:
			q.Inj.Genesis, q.Cat = rError, "genesis-failure"
		}
		sc.doInfo(q)
	}
}

type sentTx struct {
	Id        string
	Owner     *node.Wallet
	Timestamp int64
	Amount    uint64
	Rest      uint64
	RestYield bool
	Inputs    []ref
	Raw       *node.RawTx
	Posted    bool
}

// buildTx builds the transaction exactly as template.html does from an info answer.
func (sc *scen) buildTx(o *node.Wallet, amount uint64, ans infoAnswer, yieldRest bool) (*sentTx, []byte) {
	raw := &node.RawTx{Timestamp: ans.Timestamp, Inputs: []node.RawInput{}, Outputs: []node.RawOutput{
		{Address: sc.R.Address, IsYielding: false, Value: amount},
		{Address: o.Address, IsYielding: yieldRest, Value: ans.Rest},
	}}
	for _, in := range ans.Inputs {
		raw.Inputs = append(raw.Inputs, node.RawInput{OutputIndex: in.Index, TransactionId: in.TxId, PublicKey: o.PubHex, Signature: o.Sign(in.Index, in.TxId)})
	}
	id, err := raw.ComputeId()
	if err != nil {
		return nil, nil
	}
	raw.Id = id
	body, _ := json.Marshal(raw)
	return &sentTx{Id: id, Owner: o, Timestamp: ans.Timestamp, Amount: amount, Rest: ans.Rest, RestYield: yieldRest, Inputs: ans.Inputs, Raw: raw}, body
}

// canYieldRest: the rest may ask for income when no other income-bearing output of the owner stays unspent.
func (sc *scen) canYieldRest(o *node.Wallet, ans infoAnswer) bool {
	spent := map[ref]bool{}
	for _, in := range ans.Inputs {
		spent[in] = true
	}
	for _, u := range sc.listing(o.Address) {
		if u.IsYielding() && !spent[ref{u.OutputIndex(), u.TransactionId()}] {
			return false
		}
	}
	return true
}

// askAndPost: one affordable info query at the given clock, then the wallet's transaction through POST /transaction.
func (sc *scen) askAndPost(o *node.Wallet, now int64) *sentTx {
	rng := sc.rng
	next := sc.last() + sc.s.Interval
	pv := sc.values(sc.listing(o.Address), next)
	var balance uint64
	for _, v := range pv {
		balance += v
	}
	if balance < sc.s.MinFee {
		return nil
	}
	var cands [][2]string
	for _, am := range sc.amounts(pv) {
		if v, _ := strconv.ParseUint(am[1], 10, 64); v+sc.s.MinFee <= balance {
			cands = append(cands, am)
		}
	}
	am := cands[rng.Intn(len(cands))]
	amount, _ := strconv.ParseUint(am[1], 10, 64)
	cons := rng.Intn(3) == 0
	viaGin := rng.Intn(2) == 0
	q := infoQuery{Address: o.Address, Value: am[1], Cons: strconv.FormatBool(cons), Now: now, ViaGin: viaGin, Cat: "post:" + am[0]}
	ans, ok := sc.doInfo(q)
	if !ok || ans.Status != 200 {
		return nil
	}
	yieldRest := rng.Intn(3) == 0 && sc.canYieldRest(o, ans)
	return sc.post(o, q, amount, ans, yieldRest, "")
}

const inflightSignature = "listed-output-already-spent-by-last-block"

// spentByLastBlock: which of the offered outputs a transaction of the validator's last block consumes.
func (sc *scen) spentByLastBlock(refs []ref) []ref {
	blocks := sc.n.AllBlocks()
	spent := map[ref]bool{}
	for _, t := range blocks[len(blocks)-1].Transactions() {
		for _, in := range t.Inputs() {
			spent[ref{in.OutputIndex(), in.TransactionId()}] = true
		}
	}
	var res []ref
	for _, r := range refs {
		if spent[r] {
			res = append(res, r)
		}
	}
	return res
}

// inflightReplay: for the fixed scenario the payload is kept free of transaction ids (signatures are randomised, so
// ids differ from run to run) and is therefore identical in every run; random scenarios carry everything.
func (sc *scen) inflightReplay(ctx map[string]any, regression string, q infoQuery, ans infoAnswer, already []ref) map[string]any {
	if regression == "" {
		return sc.replay(ctx)
	}
	return map[string]any{"regression": regression, "seed": sc.seed, "scenario": "regression/" + regression, "mode": sc.mode,
		"settings": sc.s, "query": q, "offered_outputs": len(ans.Inputs), "of_which_spent_by_last_block": len(already),
		"rest": ans.Rest, "post_status": ctx["post_status"], "post_body": ctx["post_body"], "last_block": sc.last()}
}

// post builds the wallet's transaction from an info answer, posts it and checks the pool admitted it.
func (sc *scen) post(o *node.Wallet, q infoQuery, amount uint64, ans infoAnswer, yieldRest bool, regression string) *sentTx {
	viaGin := q.ViaGin
	cons, _ := strconv.ParseBool(q.Cons)
	am := [2]string{strings.TrimPrefix(q.Cat, "post:"), q.Value}
	now := q.Now
	tx, body := sc.buildTx(o, amount, ans, yieldRest)
	if tx == nil {
		return nil
	}
	sc.step++
	sc.n.Log.Drain()
	res := sc.a.call(viaGin, "POST", "/transaction", body)
	sc.st.Evaluations++
	sc.st.hist("post_status", strconv.Itoa(res.Status))
	ctx := map[string]any{"transaction": tx.Raw, "now": now, "amount": amount, "answer": ans, "query": q}
	if regression != "" {
		ctx["regression"] = regression
	}
	if res.Panic != "" {
		sc.fail(sc.prop(), "prop", "post/panic", "PostTransaction panicked: "+res.Panic, ctx)
		return nil
	}
	if res.Status != 201 || string(res.Body) != "success" {
		sc.fail(sc.prop(), "prop", "post/status", fmt.Sprintf("POST /transaction answered %d %q", res.Status, string(res.Body)), ctx)
		return nil
	}
	if !contains(poolIds(sc.n), tx.Id) {
		ctx["validator_log"] = sc.validatorLog()
		if already := sc.spentByLastBlock(ans.Inputs); len(already) > 0 {
			// the one known reason: the validator's listing lags its last block (C07), see known_findings.json
			ctx["offered_although_spent_by_last_block"] = already
			ctx["post_status"] = res.Status
			ctx["post_body"] = string(res.Body)
			sc.st.inflight(failure{Prop: "C18", Kind: "prop", Signature: "C18/" + inflightSignature,
				Detail: fmt.Sprintf("GET /transaction/info offered %d output(s) that a transaction of the validator's last (unconfirmed) block has already spent (Utxos(address) still lists them); "+
					"the wallet's transaction built from the answer got POST %d %q but the validator's pool refused it", len(already), res.Status, string(res.Body)),
				Replay: sc.inflightReplay(ctx, regression, q, ans, already)})
			return nil
		}
		sc.fail("C18", "prop", "clause/admitted", fmt.Sprintf("the validator's pool did not admit the transaction built from the answer (category %s, consolidation %v, %d inputs, rest %d, yielding rest %v)",
			am[0], cons, len(ans.Inputs), ans.Rest, yieldRest), ctx)
		return nil
	}
	tx.Posted = true
	if ans.Rest == 0 {
		sc.st.observe("posted_with_zero_rest_output", tx.Id)
	}
	if amount == 0 {
		sc.st.observe("posted_with_zero_amount_output", tx.Id)
	}
	return tx
}

func (sc *scen) checkIncluded(txs []*sentTx) {
	blocks := sc.n.AllBlocks()
	ids := blockIds(blocks[len(blocks)-1])
	for _, tx := range txs {
		if tx == nil || !tx.Posted {
			continue
		}
		if !contains(ids, tx.Id) {
			sc.fail("C18", "prop", "clause/included", "the validator's next block does not contain the admitted transaction",
				map[string]any{"transaction": tx.Raw, "block_transactions": ids})
		} else {
			sc.st.Followed++
		}
	}
}

func (sc *scen) runC18() {
	rng := sc.rng
	for round := 0; round < 2 && !sc.aborted; round++ {
		for _, o := range sc.owners {
			sc.sweepInfo(o, 25+rng.Intn(30))
		}
		var sent []*sentTx
		offs := sc.offsets()
		for _, o := range sc.owners {
			sent = append(sent, sc.askAndPost(o, sc.last()+offs[rng.Intn(len(offs))]))
		}
		if !sc.tick() {
			return
		}
		sc.checkIncluded(sent)
		// the in-flight situation: a second payment while the first is in the last block but unconfirmed
		if round == 0 && rng.Intn(4) == 0 {
			sc.inflight(sent)
		}
		if !sc.tick() {
			return
		}
		if round == 0 && rng.Intn(3) == 0 {
			if !sc.incomeUpdate() {
				return
			}
		}
	}
}

// incomeUpdate: the web wallet's "send everything, keep the income" — a wallet pays all it can afford with a YIELDING
// rest of 0; once that is confirmed the recipient spends what it received (the rest's sibling output) and that is
// confirmed too; blocks pass, income accrues on the empty rest; then the wallet asks again and pays from it.  Every
// answer is checked like any other (doInfo / post evaluate C18's clauses).  false = the validator stopped producing.
func (sc *scen) incomeUpdate() bool {
	rng := sc.rng
	o := sc.owners[rng.Intn(len(sc.owners))]
	next := sc.last() + sc.s.Interval
	var balance uint64
	for _, v := range sc.values(sc.listing(o.Address), next) {
		balance += v
	}
	if balance < sc.s.MinFee+1 {
		return true
	}
	amount := balance - sc.s.MinFee
	q := infoQuery{Address: o.Address, Value: strconv.FormatUint(amount, 10), Cons: "true", Now: sc.last() + rng.Int63n(sc.s.Interval), ViaGin: rng.Intn(2) == 0, Cat: "post:income-update-all"}
	ans, ok := sc.doInfo(q)
	if !ok || ans.Status != 200 || ans.Rest != 0 || !sc.canYieldRest(o, ans) {
		return true
	}
	first := sc.post(o, q, amount, ans, true, "")
	if first == nil {
		return true
	}
	sc.st.observe("income_update_posted", first.Id)
	for k := 0; k < 2; k++ {
		if !sc.tick() {
			return false
		}
	}
	// the recipient spends everything it holds, the sibling of the empty rest included
	if spent := sc.askAndPostAll(sc.R); spent != nil {
		sc.st.observe("income_update_sibling_spent", spent.Id)
	}
	for k := 0; k < 2+rng.Intn(4); k++ {
		if !sc.tick() {
			return false
		}
	}
	if again := sc.askAndPost(o, sc.last()+rng.Int63n(sc.s.Interval)); again != nil {
		sc.st.observe("income_update_paid_from_accrued_income", again.Id)
	}
	return sc.tick()
}

// askAndPostAll: the wallet consolidates everything it holds into one payment (all inputs, affordable amount).
func (sc *scen) askAndPostAll(o *node.Wallet) *sentTx {
	next := sc.last() + sc.s.Interval
	var balance uint64
	for _, v := range sc.values(sc.listing(o.Address), next) {
		balance += v
	}
	if balance < sc.s.MinFee+1 {
		return nil
	}
	amount := balance - sc.s.MinFee - 1
	q := infoQuery{Address: o.Address, Value: strconv.FormatUint(amount, 10), Cons: "true", Now: sc.last() + sc.rng.Int63n(sc.s.Interval), Cat: "post:consolidate-all"}
	ans, ok := sc.doInfo(q)
	if !ok || ans.Status != 200 {
		return nil
	}
	return sc.post(o, q, amount, ans, false, "")
}

// inflight: the wallet pays again while its previous payment sits in the validator's last block, unconfirmed.
func (sc *scen) inflight(sent []*sentTx) {
	for _, tx := range sent {
		if tx == nil || !tx.Posted || len(tx.Inputs) == 0 {
			continue
		}
		q := infoQuery{Address: tx.Owner.Address, Value: "0", Cons: "true", Now: sc.last() + sc.rng.Int63n(sc.s.Interval), Cat: "post:second-payment"}
		ans, ok := sc.doInfo(q)
		if !ok || ans.Status != 200 {
			return
		}
		if second := sc.post(tx.Owner, q, 0, ans, false, ""); second != nil {
			sc.st.observe("second_payment_before_confirmation_admitted", second.Id)
		}
		return
	}
}

// ---------------------------------------------------------------- progress and amount (C19)

type utxoBody struct {
	Address       string `json:"address"`
	Timestamp     int64  `json:"timestamp"`
	IsYielding    bool   `json:"is_yielding"`
	OutputIndex   uint16 `json:"output_index"`
	TransactionId string `json:"transaction_id"`
	Value         uint64 `json:"value"`
}

type progressQuery struct {
	Searched utxoBody  `json:"searched"`
	Body     string    `json:"body_kind"` // value | garbage | null
	Now      int64     `json:"now"`
	Inj      injection `json:"inj"`
	ViaGin   bool      `json:"via_gin"`
	Moment   string    `json:"moment"`
	Clock    string    `json:"clock"` // sync | ahead | behind
}

func (sc *scen) doProgress(q progressQuery) {
	sc.step++
	st := sc.st
	sc.a.clock.now = q.Now
	sc.a.sender.inj = q.Inj
	var body []byte
	switch q.Body {
	case "garbage":
		body = []byte("{\"address\": 5")
	case "null":
		body = []byte("null")
	default:
		body, _ = json.Marshal(q.Searched)
	}
	res := sc.a.call(q.ViaGin, "PUT", "/transaction/output/progress", body)
	sc.a.sender.inj = injection{}
	st.Evaluations++
	ctx := func(extra map[string]any) map[string]any {
		m := map[string]any{"query": q, "status": res.Status, "body": string(res.Body)}
		for k, v := range extra {
			m[k] = v
		}
		return m
	}
	if res.Panic != "" {
		sc.fail("C19", "prop", "progress/panic", "GetTransactionProgress panicked: "+res.Panic, ctx(nil))
		return
	}
	var got struct {
		Current  int64  `json:"current_block_timestamp"`
		Status   string `json:"transaction_status"`
		Interval int64  `json:"validation_timestamp"`
	}
	if res.Status == 200 {
		if err := json.Unmarshal(res.Body, &got); err != nil {
			sc.fail("C19", "diff", "progress/undecodable-answer", err.Error(), ctx(nil))
			return
		}
	}
	st.hist("status", strconv.Itoa(res.Status))
	st.hist("moment", q.Moment+"/"+q.Clock)
	st.hist("injection", q.Inj.String())
	if res.Status == 200 {
		st.hist("label", got.Status)
	}
	// ---- the validator's actual state
	list := sc.listing(q.Searched.Address)
	chain := sc.n.AllBlocks()
	pool := poolIds(sc.n)
	var sb strings.Builder
	bodyKind := 2
	if q.Body == "garbage" {
		bodyKind = 0
	} else if q.Body == "null" {
		bodyKind = 1
	}
	st.hist("body", q.Body)
	fmt.Fprintf(&sb, "progress %d %d %s %d %d %d %d %d %d %s %d", bodyKind, q.Inj.Utxos, b01(q.Inj.Genesis == 0), q.Inj.Blocks, q.Inj.Txs,
		sc.genesis(), q.Now, sc.s.Interval, sc.s.BlocksLimit, q.Searched.TransactionId, q.Searched.OutputIndex)
	fmt.Fprintf(&sb, " %d", len(list))
	for _, u := range list {
		fmt.Fprintf(&sb, " %s %d", u.TransactionId(), u.OutputIndex())
	}
	fmt.Fprintf(&sb, " %d", len(chain))
	for _, b := range chain {
		ids := blockIds(b)
		fmt.Fprintf(&sb, " %d", len(ids))
		for _, id := range ids {
			sb.WriteString(" " + id)
		}
	}
	fmt.Fprintf(&sb, " %d", len(pool))
	for _, id := range pool {
		sb.WriteString(" " + id)
	}
	pred := strings.Fields(sc.drv.ask(sb.String()))
	if len(pred) == 0 {
		pred = []string{"driver-error"}
	}
	if pred[0] != strconv.Itoa(res.Status) {
		sc.fail("C19", "diff", "progress/status", fmt.Sprintf("status: model %s, implementation %d (%s)", strings.Join(pred, " "), res.Status, string(res.Body)), ctx(nil))
		return
	}
	if res.Status == 200 {
		if pred[1] != got.Status {
			sc.fail("C19", "diff", "progress/label", fmt.Sprintf("progress: model %s, implementation %s", pred[1], got.Status), ctx(nil))
			return
		}
		if pred[2] != strconv.FormatInt(got.Current, 10) || got.Interval != sc.s.Interval {
			sc.fail("C19", "diff", "progress/block-timestamp", fmt.Sprintf("current block timestamp: model %s, implementation %d; interval %d", pred[2], got.Current, got.Interval), ctx(nil))
			return
		}
	}
	if q.Body != "value" {
		return
	}
	// ---- the property's cascade, evaluated directly on the validator's state
	listed := false
	for _, u := range list {
		if u.TransactionId() == q.Searched.TransactionId && u.OutputIndex() == q.Searched.OutputIndex {
			listed = true
		}
	}
	height := (q.Now - sc.genesis()) / sc.s.Interval
	inBlock, haveBlock := false, height >= 0 && height < int64(len(chain))
	if haveBlock {
		inBlock = contains(blockIds(chain[height]), q.Searched.TransactionId)
	}
	// the block scan is skipped when the validator has no block at that height (or an empty list is served)
	scanned := inBlock && q.Inj.Blocks != rEmpty
	expected := "rejected"
	switch {
	case listed:
		expected = "confirmed"
	case scanned:
		expected = "validated"
	case contains(pool, q.Searched.TransactionId):
		expected = "sent"
	}
	if res.Status == 200 {
		st.nontrivial(len(chain), pool, q.Searched.TransactionId, q.Searched.OutputIndex, q.Now, q.Inj, got.Status)
		st.sample(q.Moment+q.Clock+got.Status, "progress moment=%s clock=%s injection=%s -> %s", q.Moment, q.Clock, q.Inj.String(), got.Status)
	}
	if !listed && !haveBlock {
		st.hist("no_block_at_clock_height", fmt.Sprintf("%d %s", res.Status, got.Status))
	}
	// an injected failure matters exactly when the cascade reaches the failing call
	reached := q.Inj.Utxos != 0 || (!listed && (q.Inj.Genesis != 0 || q.Inj.Blocks == rError || q.Inj.Blocks == rGarbage || (!scanned && q.Inj.Txs != 0)))
	if reached {
		if res.Status != 500 {
			sc.fail("C19", "prop", "progress/error-not-reported", fmt.Sprintf("injected %s is on the path but the answer is %d %s", q.Inj.String(), res.Status, got.Status), ctx(nil))
		}
		return
	}
	if res.Status != 200 || got.Status != expected {
		sig := "progress/cascade"
		if res.Status == 500 && !listed && !haveBlock && q.Inj.none() {
			sig = "progress-500-when-validator-has-no-block-at-clock-height"
		}
		sc.fail("C19", "prop", sig, fmt.Sprintf("validator state says %s (injected: %s), answer is %d %s", expected, q.Inj.String(), res.Status, got.Status),
			ctx(map[string]any{"listed": listed, "in_block_at_height": inBlock, "in_pool": contains(pool, q.Searched.TransactionId), "height": height, "chain_length": len(chain)}))
		return
	}
	if q.Clock == "behind" && expected == "rejected" {
		for _, b := range chain {
			if contains(blockIds(b), q.Searched.TransactionId) {
				st.observe("progress_rejected_for_included_transaction_when_clock_behind", map[string]any{
					"seed": sc.seed, "scenario": sc.idx, "clock": q.Now, "last_block": sc.last()})
			}
		}
	}
}

type amountQuery struct {
	Address   string    `json:"address"`
	NoAddress bool      `json:"no_address,omitempty"`
	Now       int64     `json:"now"`
	Inj       injection `json:"inj"`
	ViaGin    bool      `json:"via_gin"`
}

func (sc *scen) doAmount(q amountQuery) {
	sc.step++
	st := sc.st
	sc.a.clock.now = q.Now
	sc.a.sender.inj = q.Inj
	target := "/wallet/amount"
	if !q.NoAddress {
		target += "?" + url.Values{"address": {q.Address}}.Encode()
	}
	res := sc.a.call(q.ViaGin, "GET", target, nil)
	sc.a.sender.inj = injection{}
	st.Evaluations++
	ctx := map[string]any{"query": q, "status": res.Status, "body": string(res.Body)}
	if res.Panic != "" {
		sc.fail("C19", "prop", "amount/panic", "GetWalletAmount panicked: "+res.Panic, ctx)
		return
	}
	st.hist("amount_status", strconv.Itoa(res.Status))
	addr := q.Address
	if q.NoAddress {
		addr = ""
	}
	list := sc.listing(addr)
	vals := sc.values(list, q.Now)
	pred := strings.Fields(sc.drv.ask(fmt.Sprintf("amount %s %d %s", b01(addr == ""), q.Inj.Utxos, joinU64(vals))))
	if len(pred) == 0 {
		pred = []string{"driver-error"}
	}
	ctx["values"] = vals
	if pred[0] != strconv.Itoa(res.Status) {
		sc.fail("C19", "diff", "amount/status", fmt.Sprintf("status: model %s, implementation %d", pred[0], res.Status), ctx)
		return
	}
	if res.Status != 200 {
		return
	}
	var got float64
	if err := json.Unmarshal(res.Body, &got); err != nil {
		sc.fail("C19", "diff", "amount/undecodable-answer", err.Error(), ctx)
		return
	}
	mbal, _ := strconv.ParseUint(pred[1], 10, 64)
	if want := float64(mbal) / float64(sc.s.Units); got != want {
		sc.fail("C19", "diff", "amount/value", fmt.Sprintf("amount: model balance %d / %d = %v, implementation %v", mbal, sc.s.Units, want, got), ctx)
		return
	}
	// directly: sum of the listed outputs' values at query time / unit size
	var sum uint64
	for _, v := range vals {
		sum += v
	}
	if want := float64(sum) / float64(sc.s.Units); got != want {
		sc.fail("C19", "prop", "amount/sum", fmt.Sprintf("reported %v, listed outputs are worth %d / %d = %v", got, sum, sc.s.Units, want), ctx)
		return
	}
	st.hist("amount_holdings", bucket(len(list)))
	if len(list) > 0 {
		st.nontrivial("amount", vals, got)
		st.sample("amount"+bucket(len(list)), "amount outputs=%d units=%d -> %v", len(list), sc.s.Units, got)
	}
}

var progressInjections = []injection{{}, {}, {Utxos: rError}, {Utxos: rGarbage}, {Genesis: rError}, {Blocks: rError},
	{Blocks: rGarbage}, {Blocks: rEmpty}, {Txs: rError}, {Txs: rGarbage}}

// moment queries progress of every tracked output and the amounts of every address, at several clock
// readings, with every injected failure.
func (sc *scen) moment(name string, tracked []utxoBody) {
	rng := sc.rng
	I := sc.s.Interval
	type clk struct {
		name string
		now  int64
	}
	clocks := []clk{{"sync", sc.last()}, {"sync", sc.last() + I - 1}, {"sync", sc.last() + rng.Int63n(I)},
		{"ahead", sc.last() + I + rng.Int63n(I)}}
	if len(sc.n.AllBlocks()) >= 2 {
		clocks = append(clocks, clk{"behind", sc.last() - 1 - rng.Int63n(I)})
	}
	for _, u := range tracked {
		for _, c := range clocks {
			for _, inj := range progressInjections {
				if !inj.none() && rng.Intn(3) != 0 {
					continue // every failure at every moment, but not for every clock reading
				}
				sc.doProgress(progressQuery{Searched: u, Body: "value", Now: c.now, Inj: inj, ViaGin: rng.Intn(2) == 0, Moment: name, Clock: c.name})
			}
		}
		sc.doProgress(progressQuery{Searched: u, Body: []string{"garbage", "null"}[rng.Intn(2)], Now: sc.last(), ViaGin: rng.Intn(2) == 0, Moment: name, Clock: "sync"})
	}
	addrs := []string{sc.V.Address, sc.R.Address}
	for _, o := range sc.owners {
		addrs = append(addrs, o.Address)
	}
	for _, a := range addrs {
		now := sc.last() + rng.Int63n(I)
		sc.doAmount(amountQuery{Address: a, Now: now, ViaGin: rng.Intn(2) == 0})
		switch rng.Intn(4) {
		case 0:
			sc.doAmount(amountQuery{Address: a, Now: now, Inj: injection{Utxos: rError}, ViaGin: rng.Intn(2) == 0})
		case 1:
			sc.doAmount(amountQuery{Address: a, Now: now, Inj: injection{Utxos: rGarbage}, ViaGin: rng.Intn(2) == 0})
		case 2:
			sc.doAmount(amountQuery{NoAddress: true, Now: now, ViaGin: rng.Intn(2) == 0})
		}
	}
}

func (sc *scen) outputsOf(tx *sentTx) []utxoBody {
	return []utxoBody{
		{Address: tx.Owner.Address, Timestamp: tx.Timestamp, IsYielding: tx.RestYield, OutputIndex: 1, TransactionId: tx.Id, Value: tx.Rest},
		{Address: sc.R.Address, Timestamp: tx.Timestamp, IsYielding: false, OutputIndex: 0, TransactionId: tx.Id, Value: tx.Amount},
	}
}

func (sc *scen) runC19() {
	rng := sc.rng
	o := sc.owners[rng.Intn(len(sc.owners))]
	// a listed output of the owner (confirmed from the start) and an output that never existed
	var tracked []utxoBody
	if l := sc.listing(o.Address); len(l) > 0 {
		u := l[rng.Intn(len(l))]
		tracked = append(tracked, utxoBody{Address: o.Address, Timestamp: sc.last(), IsYielding: u.IsYielding(), OutputIndex: u.OutputIndex(), TransactionId: u.TransactionId(), Value: u.InitialValue()})
	}
	tracked = append(tracked, utxoBody{Address: o.Address, Timestamp: sc.last(), OutputIndex: uint16(rng.Intn(3)), TransactionId: fmt.Sprintf("%064x", rng.Uint64())})
	sc.moment("before-submission", tracked)

	// injected failure of the validator's add-transaction endpoint
	if rng.Intn(3) == 0 {
		sc.a.sender.inj = injection{AddTx: rError}
		res := sc.a.call(rng.Intn(2) == 0, "POST", "/transaction", []byte(`{"id":"`+node.Sha256Hex([]byte(`{"inputs":null,"outputs":[{"address":"a","is_yielding":false,"value":1}],"timestamp":5}`))+`","inputs":null,"outputs":[{"address":"a","is_yielding":false,"value":1}],"timestamp":5}`))
		sc.a.sender.inj = injection{}
		sc.st.Evaluations++
		sc.st.hist("post_status", strconv.Itoa(res.Status)+"(add-transaction failure injected)")
		if res.Status != 500 {
			sc.fail("C19", "prop", "post/add-transaction-error-not-reported", fmt.Sprintf("status %d %s", res.Status, string(res.Body)), nil)
		}
	}

	tx := sc.askAndPost(o, sc.last()+rng.Int63n(sc.s.Interval))
	if tx == nil {
		return
	}
	// a second transaction of another owner that the pool refuses (timestamp before the last block)
	var refused *sentTx
	if len(sc.owners) > 1 && len(sc.n.AllBlocks()) >= 2 {
		for _, p := range sc.owners {
			if p == o {
				continue
			}
			sc.a.clock.now = sc.last() - 1
			params := url.Values{"address": {p.Address}, "value": {"0"}, "consolidation": {"false"}}
			res := sc.a.call(false, "GET", "/transaction/info?"+params.Encode(), nil)
			var body infoAnswer
			if res.Status == 200 && json.Unmarshal(res.Body, &body) == nil {
				var raw []byte
				refused, raw = sc.buildTx(p, 0, body, false)
				if refused != nil {
					sc.a.call(false, "POST", "/transaction", raw)
					if contains(poolIds(sc.n), refused.Id) {
						refused = nil
					}
				}
			}
			break
		}
	}
	follow := sc.outputsOf(tx)
	if len(tx.Inputs) > 0 { // an output the transaction spends
		in := tx.Inputs[0]
		follow = append(follow, utxoBody{Address: o.Address, Timestamp: sc.last(), OutputIndex: in.Index, TransactionId: in.TxId})
	}
	if refused != nil {
		follow = append(follow, sc.outputsOf(refused)[0])
	}
	sc.moment("submitted", follow)
	if !sc.tick() {
		return
	}
	sc.checkIncluded([]*sentTx{tx})
	sc.moment("included", follow)
	if !sc.tick() {
		return
	}
	sc.moment("confirmed", follow)
	// later: the rest output is spent again (when it is worth something), and followed until that is confirmed
	tx2 := sc.askAndPost(o, sc.last()+rng.Int63n(sc.s.Interval))
	if tx2 == nil {
		return
	}
	follow = append(follow, sc.outputsOf(tx2)...)
	sc.moment("second-submitted", follow)
	if !sc.tick() {
		return
	}
	sc.checkIncluded([]*sentTx{tx2})
	sc.moment("second-included", follow)
	if !sc.tick() {
		return
	}
	sc.moment("second-confirmed", follow)
}
