// ruwallet: correspondence and property check for C18 (coin selection) and C19 (balance and progress
// views).  The REAL access-node controllers are driven over HTTP (httptest, half of the requests
// through a gin engine with the production routes) against a REAL in-process validator; every answer
// is compared with the prediction of the Lean model (walletdriver) and with the property clauses
// evaluated directly on the validator's state; transactions built the way the web wallet builds them
// are posted and followed into the pool, the next block and confirmation.
//
//	ruwallet --mode c18|c19 --seed N --queries N --driver path [--only-scenario K]
package main

import (
	"crypto/sha256"
	"encoding/json"
	"flag"
	"fmt"
	"math/rand"
	"os"
	"sort"
)

type failure struct {
	Prop      string         `json:"prop"`
	Kind      string         `json:"kind"` // diff | prop
	Signature string         `json:"signature"`
	Detail    string         `json:"detail"`
	Replay    map[string]any `json:"replay"`
	Count     int            `json:"count,omitempty"` // occurrences, for findings reported once per run
}

type stats struct {
	Mode         string                    `json:"mode"`
	Seed         int64                     `json:"seed"`
	Scenarios    int                       `json:"scenarios"`
	Evaluations  int                       `json:"evaluations"`
	Distinct     int                       `json:"distinct_nontrivial"`
	Rule         string                    `json:"rule"`
	Followed     int                       `json:"transactions_followed"`
	Hist         map[string]map[string]int `json:"hist"`
	Samples      []string                  `json:"samples"`
	Failures     []failure                 `json:"failures"`
	FailureCount int                       `json:"failure_count"`
	Observations map[string]any            `json:"observations"`
	distinct     map[[32]byte]struct{}
	obsCount     map[string]int
	sampleKeys   map[string]bool
	inflightN    int
	inflight1    *failure
}

func newStats(mode string, seed int64) *stats {
	return &stats{Mode: mode, Seed: seed, Hist: map[string]map[string]int{}, Observations: map[string]any{},
		distinct: map[[32]byte]struct{}{}, obsCount: map[string]int{}, sampleKeys: map[string]bool{}}
}

func (s *stats) hist(name, key string) {
	m := s.Hist[name]
	if m == nil {
		m = map[string]int{}
		s.Hist[name] = m
	}
	m[key]++
}

func (s *stats) nontrivial(parts ...any) {
	b, _ := json.Marshal(parts)
	s.distinct[sha256.Sum256(b)] = struct{}{}
}

// sample keeps one example per key (at most 16), so that the examples are varied.
func (s *stats) sample(key, format string, a ...any) {
	if s.sampleKeys[key] || len(s.Samples) >= 16 {
		return
	}
	s.sampleKeys[key] = true
	s.Samples = append(s.Samples, fmt.Sprintf(format, a...))
}

// observe counts a noteworthy behaviour that is not a failure and keeps the first example.
func (s *stats) observe(key string, example any) {
	s.obsCount[key]++
	if _, ok := s.Observations[key]; !ok {
		s.Observations[key] = example
	}
}

func (s *stats) fail(f failure) {
	s.FailureCount++
	for _, g := range s.Failures {
		if g.Signature == f.Signature && len(s.Failures) >= 3 {
			return // keep a few per signature at most
		}
	}
	if len(s.Failures) < 25 {
		s.Failures = append(s.Failures, f)
	}
}

// inflight counts the C18 finding "listed output already spent by the last block"; it is reported once.
func (s *stats) inflight(f failure) {
	s.inflightN++
	if s.inflight1 == nil {
		s.inflight1 = &f
	}
}

func bucket(n int) string {
	switch {
	case n == 0:
		return "0"
	case n == 1:
		return "1"
	case n <= 3:
		return "2-3"
	case n <= 10:
		return "4-10"
	case n <= 40:
		return "11-40"
	case n <= 100:
		return "41-100"
	default:
		return "101-300"
	}
}

func main() {
	mode := flag.String("mode", "c18", "c18 | c19")
	seed := flag.Int64("seed", 1, "PRNG seed (the single source of randomness)")
	queries := flag.Int("queries", 1000, "stop after at least this many compared HTTP queries")
	maxScen := flag.Int("max-scenarios", 100000, "upper bound on scenarios")
	only := flag.Int("only-scenario", -1, "run just this scenario of the seed (replay); -2: the fixed regression scenarios only")
	drvPath := flag.String("driver", "", "path of walletdriver")
	flag.Parse()
	if *mode != "c18" && *mode != "c19" {
		fmt.Fprintln(os.Stderr, "bad --mode")
		os.Exit(2)
	}
	drv, err := startDriver(*drvPath)
	if err != nil {
		fmt.Fprintln(os.Stderr, "cannot start driver:", err)
		os.Exit(2)
	}
	defer drv.close()
	st := newStats(*mode, *seed)
	master := rand.New(rand.NewSource(*seed))
	// fixed regression scenarios first, in every run
	runRegressions(st, drv, *mode)
	for k := 0; k < *maxScen && *only != -2; k++ {
		scSeed := master.Int63()
		if *only >= 0 && k != *only {
			if k > *only {
				break
			}
			continue
		}
		runScenario(st, drv, *mode, *seed, k, scSeed)
		st.Scenarios++
		if *only < 0 && st.Evaluations >= *queries {
			break
		}
	}
	if st.inflight1 != nil {
		f := *st.inflight1
		f.Count = st.inflightN
		f.Detail = fmt.Sprintf("%s [%d occurrence(s) in this run]", f.Detail, st.inflightN)
		st.FailureCount++
		st.Failures = append([]failure{f}, st.Failures...)
	}
	st.Distinct = len(st.distinct)
	if *mode == "c18" {
		st.Rule = "distinct (listing values at next block time, amount, mode) digests among info queries answered 200 with at least one selected output"
	} else {
		st.Rule = "distinct (validator state digest, searched output, clock, injected failure, answer) digests among progress queries answered 200, plus distinct (listing values, answer) digests among amount queries answered 200 with a non-empty listing"
	}
	for k, v := range st.obsCount {
		st.hist("observations", k)
		st.Hist["observations"][k] = v
	}
	sort.Strings(st.Samples)
	if st.Failures == nil {
		st.Failures = []failure{}
	}
	if st.Samples == nil {
		st.Samples = []string{}
	}
	out, _ := json.Marshal(st)
	fmt.Println(string(out))
}
