package main

import (
	"bufio"
	"fmt"
	"io"
	"os/exec"
	"strings"
)

// driver is the compiled Lean model (walletdriver) behind a line protocol.
type driver struct {
	cmd *exec.Cmd
	in  io.WriteCloser
	out *bufio.Reader
}

func startDriver(path string) (*driver, error) {
	cmd := exec.Command(path)
	in, err := cmd.StdinPipe()
	if err != nil {
		return nil, err
	}
	out, err := cmd.StdoutPipe()
	if err != nil {
		return nil, err
	}
	if err := cmd.Start(); err != nil {
		return nil, err
	}
	return &driver{cmd, in, bufio.NewReaderSize(out, 1<<20)}, nil
}

func (d *driver) ask(line string) string {
	if _, err := io.WriteString(d.in, line+"\n"); err != nil {
		return "driver-error " + err.Error()
	}
	s, err := d.out.ReadString('\n')
	if err != nil {
		return "driver-error " + err.Error()
	}
	return strings.TrimSpace(s)
}

func (d *driver) close() {
	d.in.Close()
	d.cmd.Wait()
}

func b01(b bool) string {
	if b {
		return "1"
	}
	return "0"
}

func joinU64(vs []uint64) string {
	var sb strings.Builder
	fmt.Fprintf(&sb, "%d", len(vs))
	for _, v := range vs {
		fmt.Fprintf(&sb, " %d", v)
	}
	return sb.String()
}
