package main

// Fixed regression scenarios, run first in every run of the harness (no randomness involved).

import (
	"encoding/json"
	"fmt"
	"math/rand"
	"strings"

	"ruverif/internal/node"
)

// fixedScen: default settings with a 60 ns interval, genesis block at 1000, second block at 1060.
func fixedScen(st *stats, drv *driver, mode, name string) *scen {
	s := node.DefaultSettings()
	s.Interval = 60
	sc := &scen{st: st, rng: rand.New(rand.NewSource(1)), drv: drv, mode: mode, seed: 0, idx: -1, yield: map[string]bool{}, s: s}
	sc.V, sc.R = node.NewWallet(1), node.NewWallet(2)
	sc.owners = []*node.Wallet{node.NewWallet(3)}
	sc.n = node.New("v0", s, sc.V.Address)
	sc.a = newAccess(sc.n)
	sc.n.Pool.Validate(1000)
	if len(sc.n.AllBlocks()) != 1 || !sc.tick() {
		sc.fail(sc.prop(), "prop", "harness/regression-setup/"+name, "the fixed scenario could not be set up", nil)
		return nil
	}
	st.hist("settings", "regression:"+name)
	return sc
}

func runRegressions(st *stats, drv *driver, mode string) {
	defer func() {
		if r := recover(); r != nil {
			st.fail(failure{Prop: strings.ToUpper(mode), Kind: "prop", Signature: strings.ToUpper(mode) + "/harness/regression-panic",
				Detail: fmt.Sprint("panic in a regression scenario: ", r), Replay: map[string]any{"regression": mode, "mode": mode}})
		}
	}()
	if mode == "c19" {
		regressionLaggingValidator(st, drv)
	} else {
		regressionSpentByLastBlock(st, drv)
	}
}

// The former witness of C19_progress_sent_counterexample: genesis 1000, interval 60, two blocks, clock 1125
// (height 2 by the clock, the validator has blocks 0 and 1), the transaction waits in the pool.
// The answer was 500 before the repair (62b2b20); it must be 'sent'.
func regressionLaggingValidator(st *stats, drv *driver) {
	const name = "c19-lagging-validator"
	sc := fixedScen(st, drv, "c19", name)
	if sc == nil {
		return
	}
	q := infoQuery{Address: sc.V.Address, Value: "12345", Cons: "false", Now: 1065, Cat: "post:regression"}
	ans, ok := sc.doInfo(q)
	if !ok || ans.Status != 200 {
		sc.fail("C19", "prop", "harness/regression-setup/"+name, "the validator's wallet got no info answer", map[string]any{"regression": name, "answer": ans})
		return
	}
	tx := sc.post(sc.V, q, 12345, ans, false, name)
	if tx == nil {
		sc.fail("C19", "prop", "harness/regression-setup/"+name, "the transaction was not admitted", map[string]any{"regression": name})
		return
	}
	searched := sc.outputsOf(tx)[0]
	body, _ := json.Marshal(searched)
	sc.a.clock.now = 1125
	for _, viaGin := range []bool{false, true} {
		res := sc.a.call(viaGin, "PUT", "/transaction/output/progress", body)
		st.Evaluations++
		var got struct {
			Status string `json:"transaction_status"`
		}
		json.Unmarshal(res.Body, &got)
		st.hist("regression", fmt.Sprintf("%s: %d %s", name, res.Status, got.Status))
		ctx := map[string]any{"regression": name, "genesis": 1000, "interval": 60, "blocks": len(sc.n.AllBlocks()), "clock": 1125,
			"searched": searched, "pool": poolIds(sc.n), "status": res.Status, "body": string(res.Body), "via_gin": viaGin}
		switch {
		case res.Status == 500:
			sc.fail("C19", "prop", "progress-500-when-validator-has-no-block-at-clock-height",
				"the validator has no block at the height of the access node's clock and the transaction waits in the pool: the answer is 500 "+
					string(res.Body)+" instead of 'sent'", ctx)
		case res.Status != 200 || got.Status != "sent":
			sc.fail("C19", "prop", "progress/regression-lagging-validator", fmt.Sprintf("expected 200 sent, got %d %s", res.Status, string(res.Body)), ctx)
		}
	}
	// the same moment through the ordinary comparison with the model and the cascade
	sc.doProgress(progressQuery{Searched: searched, Body: "value", Now: 1125, Moment: "regression", Clock: "ahead"})
	sc.doProgress(progressQuery{Searched: sc.outputsOf(tx)[1], Body: "value", Now: 1125, Moment: "regression", Clock: "ahead", ViaGin: true})
}

// The C18 finding: the wallet pays, the payment enters the validator's next block, and the wallet pays again
// before that block is confirmed.  Utxos(address) still lists the outputs the first payment spent; the info
// answer offers them; POST /transaction answers 201 but the pool refuses the transaction.
func regressionSpentByLastBlock(st *stats, drv *driver) {
	const name = "c18-spent-by-last-block"
	sc := fixedScen(st, drv, "c18", name)
	if sc == nil {
		return
	}
	o := sc.owners[0]
	setup := func(what string) {
		sc.fail("C18", "prop", "harness/regression-setup/"+name, what+": "+strings.Join(sc.validatorLog(), " | "), map[string]any{"regression": name})
	}
	// the validator's wallet gives the owner three outputs (5000, 3000, 2000); confirmed two blocks later
	gen := sc.listing(sc.V.Address)
	if len(gen) != 1 {
		setup("no genesis output")
		return
	}
	avail := sc.value(gen[0], sc.last()+sc.s.Interval)
	outs := []node.RawOutput{{Address: o.Address, Value: 5000}, {Address: o.Address, Value: 3000}, {Address: o.Address, Value: 2000},
		{Address: sc.V.Address, Value: avail - 10000 - sc.s.MinFee - 1}}
	ftx, _, err := node.MakeTx([]node.Spend{{TxId: gen[0].TransactionId(), Index: gen[0].OutputIndex(), By: sc.V}}, outs, sc.last())
	if err != nil {
		setup("funding transaction: " + err.Error())
		return
	}
	sc.n.Pool.AddTransaction(ftx, "", "")
	if !contains(poolIds(sc.n), ftx.Id()) {
		setup("funding transaction refused")
		return
	}
	if !sc.tick() || !sc.tick() {
		return
	}
	// first payment: 1000 to the recipient
	q1 := infoQuery{Address: o.Address, Value: "1000", Cons: "false", Now: sc.last() + 5, Cat: "post:regression-first"}
	a1, ok := sc.doInfo(q1)
	if !ok || a1.Status != 200 {
		setup("first info query failed")
		return
	}
	first := sc.post(o, q1, 1000, a1, false, name)
	if first == nil || !sc.tick() {
		return
	}
	sc.checkIncluded([]*sentTx{first})
	// second payment one interval later, the first one being in the last block, unconfirmed
	q2 := infoQuery{Address: o.Address, Value: "0", Cons: "true", Now: sc.last() + 5, ViaGin: true, Cat: "post:regression-second"}
	a2, ok := sc.doInfo(q2)
	if !ok || a2.Status != 200 {
		setup("second info query failed")
		return
	}
	before := st.inflightN
	second := sc.post(o, q2, 0, a2, false, name)
	switch {
	case st.inflightN > before:
		st.hist("regression", name+": offered again and refused")
	case second != nil:
		st.hist("regression", name+": second payment admitted")
	default:
		st.hist("regression", name+": refused for another reason")
	}
}
