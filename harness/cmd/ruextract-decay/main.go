// ruextract-decay translates the five valuation functions of
// <repo>/validatornode/domain/ledger/utxo.go (Utxo.Value, Utxo.f, Utxo.g, k1, k2) expression by
// expression into noncomputable real-valued Lean 4 definitions (namespace Gen).
//
// The translator is deliberately small and fails closed: every statement / expression form that is
// not listed below is an error (exit status 1), never skipped.
//
//	float64 ↦ ℝ   uint64 ↦ ℕ   int64 ↦ ℤ   bool ↦ Bool
//	math.Exp ↦ Real.exp   math.Log ↦ Real.log   math.Pow(a,b) ↦ a ^ b (real exponent)
//	math.Floor(a) ↦ ((⌊a⌋ : ℤ) : ℝ)   math.Ceil(a) ↦ ((⌈a⌉ : ℤ) : ℝ)
//	float64(u) ↦ ((u : ℕ) : ℝ) / ((i : ℤ) : ℝ)      uint64(r) ↦ ⌊r⌋₊
//	v := e ↦ let v : T := e      if c { … } else { … } ↦ if c then … else …
//	utxo.InitialValue() ↦ initialValue : ℕ   utxo.IsYielding() ↦ isYielding : Bool
//	utxo.timestamp ↦ timestamp : ℤ
//
// Usage: ruextract-decay --repo /repo [--out Decay/Gen.lean]
package main

import (
	"flag"
	"fmt"
	"go/ast"
	"go/parser"
	"go/token"
	"os"
	"path/filepath"
	"sort"
	"strconv"
	"strings"
)

type typ int

const (
	tUntyped typ = iota // untyped numeric constant
	tReal
	tNat
	tInt
	tBool
	tProp
)

func (t typ) lean() string {
	switch t {
	case tReal:
		return "ℝ"
	case tNat:
		return "ℕ"
	case tInt:
		return "ℤ"
	case tBool:
		return "Bool"
	case tProp:
		return "Prop"
	}
	return "?"
}

type xerr struct{ msg string }

var fset = token.NewFileSet()

func fail(n ast.Node, format string, a ...interface{}) {
	pos := ""
	if n != nil {
		pos = fset.Position(n.Pos()).String() + ": "
	}
	panic(xerr{pos + fmt.Sprintf(format, a...)})
}

func goType(e ast.Expr) typ {
	if id, ok := e.(*ast.Ident); ok {
		switch id.Name {
		case "float64":
			return tReal
		case "uint64":
			return tNat
		case "int64":
			return tInt
		case "bool":
			return tBool
		}
	}
	fail(e, "unsupported Go type in an anchored function signature")
	return tUntyped
}

type param struct {
	name string
	t    typ
}

type fn struct {
	goName   string
	leanName string
	method   bool
	recv     string
	decl     *ast.FuncDecl
	params   []param
	result   typ
	recvUse  map[string]bool // receiver-derived parameters used (transitively)
	body     string
}

// receiver-derived parameters, in canonical order
var recvParams = []param{{"initialValue", tNat}, {"isYielding", tBool}, {"timestamp", tInt}}

type translator struct {
	fns map[string]*fn // by Go name
	cur *fn
}

type env map[string]typ

func (e env) clone() env {
	c := env{}
	for k, v := range e {
		c[k] = v
	}
	return c
}

var reserved = map[string]bool{"initialValue": true, "isYielding": true, "timestamp": true,
	"Real": true, "if": true, "then": true, "else": true, "let": true, "fun": true, "def": true,
	"theorem": true, "Nat": true, "Int": true}

// ---------------------------------------------------------------- expressions

type val struct {
	s string
	t typ
}

func (tr *translator) isRecv(e ast.Expr) bool {
	id, ok := e.(*ast.Ident)
	return ok && tr.cur.method && id.Name == tr.cur.recv
}

func lit(e *ast.BasicLit, want typ) string {
	switch e.Kind {
	case token.INT:
		if _, err := strconv.ParseUint(e.Value, 10, 64); err != nil {
			fail(e, "unsupported integer literal %q", e.Value)
		}
	case token.FLOAT:
		if want != tReal {
			fail(e, "float literal %q in a non-float64 context", e.Value)
		}
		for _, c := range e.Value {
			if !(c >= '0' && c <= '9') && c != '.' {
				fail(e, "unsupported float literal %q", e.Value)
			}
		}
		if strings.HasPrefix(e.Value, ".") || strings.HasSuffix(e.Value, ".") {
			fail(e, "unsupported float literal %q", e.Value)
		}
	default:
		fail(e, "unsupported literal %q", e.Value)
	}
	return fmt.Sprintf("(%s : %s)", e.Value, want.lean())
}

// staticType computes the type of e without emitting (tUntyped for untyped constants).
func (tr *translator) staticType(e ast.Expr, en env) typ {
	switch x := e.(type) {
	case *ast.BasicLit:
		return tUntyped
	case *ast.ParenExpr:
		return tr.staticType(x.X, en)
	case *ast.UnaryExpr:
		return tr.staticType(x.X, en)
	case *ast.BinaryExpr:
		switch x.Op {
		case token.EQL, token.NEQ, token.LSS, token.LEQ, token.GTR, token.GEQ:
			return tProp
		}
		l, r := tr.staticType(x.X, en), tr.staticType(x.Y, en)
		if l == tUntyped {
			return r
		}
		return l
	default:
		return tr.expr(e, en, tUntyped).t
	}
}

// expr translates e; want is the type required by the context (tUntyped: none known).
func (tr *translator) expr(e ast.Expr, en env, want typ) val {
	switch x := e.(type) {
	case *ast.ParenExpr:
		return tr.expr(x.X, en, want)
	case *ast.BasicLit:
		if want == tUntyped {
			fail(e, "untyped constant %s without a typed context (constant folding is not translated)", x.Value)
		}
		if want != tReal && want != tNat && want != tInt {
			fail(e, "numeric literal in a %s context", want.lean())
		}
		return val{lit(x, want), want}
	case *ast.Ident:
		if t, ok := en[x.Name]; ok {
			return val{x.Name, t}
		}
		fail(e, "unknown identifier %q", x.Name)
	case *ast.SelectorExpr:
		if tr.isRecv(x.X) && x.Sel.Name == "timestamp" {
			tr.cur.recvUse["timestamp"] = true
			return val{"timestamp", tInt}
		}
		fail(e, "unsupported selector expression")
	case *ast.UnaryExpr:
		if x.Op != token.SUB {
			fail(e, "unsupported unary operator %s", x.Op)
		}
		v := tr.expr(x.X, en, want)
		if v.t != tReal && v.t != tInt {
			fail(e, "unary minus on %s", v.t.lean())
		}
		return val{"(-" + v.s + ")", v.t}
	case *ast.BinaryExpr:
		return tr.binary(x, en, want)
	case *ast.CallExpr:
		return tr.call(x, en)
	}
	fail(e, "unsupported expression form %T", e)
	return val{}
}

func (tr *translator) binary(x *ast.BinaryExpr, en env, want typ) val {
	lt, rt := tr.staticType(x.X, en), tr.staticType(x.Y, en)
	if lt == tUntyped && rt == tUntyped {
		fail(x, "binary operation on two untyped constants (Go folds it at compile time; not translated)")
	}
	cmp := map[token.Token]string{token.EQL: "=", token.NEQ: "≠", token.LSS: "<", token.LEQ: "≤",
		token.GTR: ">", token.GEQ: "≥"}
	if op, ok := cmp[x.Op]; ok {
		ot := lt
		if ot == tUntyped {
			ot = rt
		}
		if ot != tReal && ot != tNat && ot != tInt {
			fail(x, "comparison of %s operands", ot.lean())
		}
		l, r := tr.expr(x.X, en, ot), tr.expr(x.Y, en, ot)
		if l.t != ot || r.t != ot {
			fail(x, "comparison of mismatched types %s and %s", l.t.lean(), r.t.lean())
		}
		return val{"(" + l.s + " " + op + " " + r.s + ")", tProp}
	}
	ot := lt
	if ot == tUntyped {
		ot = rt
	}
	if lt != tUntyped && rt != tUntyped && lt != rt {
		fail(x, "arithmetic on mismatched types %s and %s", lt.lean(), rt.lean())
	}
	var op string
	switch x.Op {
	case token.ADD:
		op = "+"
	case token.MUL:
		op = "*"
	case token.SUB:
		op = "-"
		if ot == tNat {
			fail(x, "uint64 subtraction (wraps in Go) is not translated")
		}
	case token.QUO:
		op = "/"
		if ot != tReal {
			fail(x, "integer division is not translated")
		}
	default:
		fail(x, "unsupported binary operator %s", x.Op)
	}
	if ot != tReal && ot != tNat && ot != tInt {
		fail(x, "arithmetic on %s", ot.lean())
	}
	l, r := tr.expr(x.X, en, ot), tr.expr(x.Y, en, ot)
	if l.t != ot || r.t != ot {
		fail(x, "arithmetic on mismatched types %s and %s", l.t.lean(), r.t.lean())
	}
	_ = want
	return val{"(" + l.s + " " + op + " " + r.s + ")", ot}
}

func (tr *translator) args(call *ast.CallExpr, en env, want []typ, what string) []string {
	if call.Ellipsis != token.NoPos {
		fail(call, "variadic call")
	}
	if len(call.Args) != len(want) {
		fail(call, "%s expects %d argument(s), got %d", what, len(want), len(call.Args))
	}
	out := make([]string, len(want))
	for i, a := range call.Args {
		v := tr.expr(a, en, want[i])
		if v.t != want[i] {
			fail(a, "argument %d of %s has type %s, want %s", i+1, what, v.t.lean(), want[i].lean())
		}
		out[i] = v.s
	}
	return out
}

func (tr *translator) callFn(call *ast.CallExpr, en env, callee *fn) val {
	if callee.body == "" {
		fail(call, "call of %s before its translation (unsupported dependency order / recursion)", callee.goName)
	}
	want := make([]typ, len(callee.params))
	for i, p := range callee.params {
		want[i] = p.t
	}
	as := tr.args(call, en, want, callee.goName)
	parts := []string{callee.leanName}
	for _, rp := range recvParams {
		if callee.recvUse[rp.name] {
			tr.cur.recvUse[rp.name] = true
			parts = append(parts, rp.name)
		}
	}
	parts = append(parts, as...)
	return val{"(" + strings.Join(parts, " ") + ")", callee.result}
}

func (tr *translator) call(call *ast.CallExpr, en env) val {
	switch f := call.Fun.(type) {
	case *ast.Ident:
		if _, shadow := en[f.Name]; shadow {
			// a local variable named like a function (k1 := k1(...)): Go resolves the callee to the
			// variable *after* the declaration; before it, to the package function.  A call through
			// a float64 variable does not type-check in Go, so this is the package function only if
			// the variable is not yet in scope — which the env models (definition adds it afterwards).
			fail(call, "call through local identifier %q", f.Name)
		}
		switch f.Name {
		case "float64":
			if len(call.Args) != 1 {
				fail(call, "float64 conversion arity")
			}
			v := tr.expr(call.Args[0], en, tReal)
			switch v.t {
			case tReal:
				return v
			case tNat:
				return val{"((" + v.s + " : ℕ) : ℝ)", tReal}
			case tInt:
				return val{"((" + v.s + " : ℤ) : ℝ)", tReal}
			}
			fail(call, "float64 conversion of %s", v.t.lean())
		case "uint64":
			if len(call.Args) != 1 {
				fail(call, "uint64 conversion arity")
			}
			if tr.staticType(call.Args[0], en) == tUntyped {
				fail(call, "uint64 conversion of an untyped constant")
			}
			v := tr.expr(call.Args[0], en, tUntyped)
			switch v.t {
			case tNat:
				return v
			case tReal:
				return val{"⌊" + v.s + "⌋₊", tNat}
			}
			fail(call, "uint64 conversion of %s", v.t.lean())
		}
		if callee, ok := tr.fns[f.Name]; ok && !callee.method {
			return tr.callFn(call, en, callee)
		}
		fail(call, "call of unknown function %q", f.Name)
	case *ast.SelectorExpr:
		if pk, ok := f.X.(*ast.Ident); ok && pk.Name == "math" {
			if _, shadow := en["math"]; shadow {
				fail(call, "identifier math is shadowed")
			}
			switch f.Sel.Name {
			case "Exp":
				a := tr.args(call, en, []typ{tReal}, "math.Exp")
				return val{"(Real.exp " + a[0] + ")", tReal}
			case "Log":
				a := tr.args(call, en, []typ{tReal}, "math.Log")
				return val{"(Real.log " + a[0] + ")", tReal}
			case "Pow":
				a := tr.args(call, en, []typ{tReal, tReal}, "math.Pow")
				return val{"((" + a[0] + " : ℝ) ^ (" + a[1] + " : ℝ))", tReal}
			case "Floor":
				a := tr.args(call, en, []typ{tReal}, "math.Floor")
				return val{"((⌊" + a[0] + "⌋ : ℤ) : ℝ)", tReal}
			case "Ceil":
				a := tr.args(call, en, []typ{tReal}, "math.Ceil")
				return val{"((⌈" + a[0] + "⌉ : ℤ) : ℝ)", tReal}
			}
			fail(call, "unsupported math function math.%s", f.Sel.Name)
		}
		if tr.isRecv(f.X) {
			switch f.Sel.Name {
			case "InitialValue":
				tr.args(call, en, nil, "InitialValue")
				tr.cur.recvUse["initialValue"] = true
				return val{"initialValue", tNat}
			case "IsYielding":
				tr.args(call, en, nil, "IsYielding")
				tr.cur.recvUse["isYielding"] = true
				return val{"isYielding", tBool}
			}
			if callee, ok := tr.fns[f.Sel.Name]; ok && callee.method {
				return tr.callFn(call, en, callee)
			}
			fail(call, "call of unknown method %q on the receiver", f.Sel.Name)
		}
		fail(call, "unsupported call target")
	}
	fail(call, "unsupported call form")
	return val{}
}

func (tr *translator) cond(e ast.Expr, en env) string {
	t := tr.staticType(e, en)
	if t == tUntyped {
		fail(e, "constant condition")
	}
	v := tr.expr(e, en, tUntyped)
	switch v.t {
	case tProp:
		return v.s
	case tBool:
		return "(" + v.s + " = true)"
	}
	fail(e, "condition of type %s", v.t.lean())
	return ""
}

// ---------------------------------------------------------------- statements

// block translates a statement list; k (may be nil) renders the code following the block when
// control falls off its end.  Every path must end in a return.
func (tr *translator) block(stmts []ast.Stmt, en env, ind string, k func(ind string) string, at ast.Node) string {
	if len(stmts) == 0 {
		if k == nil {
			fail(at, "control reaches the end of the function without a return")
		}
		return k(ind)
	}
	s, rest := stmts[0], stmts[1:]
	switch x := s.(type) {
	case *ast.ReturnStmt:
		if len(rest) != 0 {
			fail(rest[0], "statement after return")
		}
		if len(x.Results) != 1 {
			fail(x, "return with %d results", len(x.Results))
		}
		v := tr.expr(x.Results[0], en, tr.cur.result)
		if v.t != tr.cur.result {
			fail(x, "return of %s from a function returning %s", v.t.lean(), tr.cur.result.lean())
		}
		return ind + v.s + "\n"
	case *ast.AssignStmt:
		if x.Tok != token.DEFINE || len(x.Lhs) != 1 || len(x.Rhs) != 1 {
			fail(x, "only single `name := expr` bindings are translated")
		}
		id, ok := x.Lhs[0].(*ast.Ident)
		if !ok || id.Name == "_" {
			fail(x, "unsupported binding target")
		}
		if reserved[id.Name] || (tr.cur.method && id.Name == tr.cur.recv) {
			fail(x, "local name %q collides with a name used by the translation", id.Name)
		}
		if tr.staticType(x.Rhs[0], en) == tUntyped {
			fail(x, "binding of an untyped constant")
		}
		v := tr.expr(x.Rhs[0], en, tUntyped)
		if v.t == tProp || v.t == tUntyped {
			fail(x, "binding of type %s", v.t.lean())
		}
		en2 := en.clone()
		en2[id.Name] = v.t
		return ind + "let " + id.Name + " : " + v.t.lean() + " := " + v.s + "\n" + tr.block(rest, en2, ind, k, x)
	case *ast.IfStmt:
		if x.Init != nil {
			fail(x, "if with init statement")
		}
		k2 := k
		if len(rest) != 0 {
			k2 = func(ind string) string { return tr.block(rest, en, ind, k, x) }
		}
		c := tr.cond(x.Cond, en)
		out := ind + "if " + c + " then\n"
		out += tr.block(x.Body.List, en.clone(), ind+"  ", k2, x.Body)
		out += ind + "else\n"
		switch el := x.Else.(type) {
		case nil:
			if k2 == nil {
				fail(x, "if without else at the end of a function")
			}
			out += k2(ind + "  ")
		case *ast.BlockStmt:
			out += tr.block(el.List, en.clone(), ind+"  ", k2, el)
		case *ast.IfStmt:
			out += tr.block([]ast.Stmt{el}, en.clone(), ind+"  ", k2, el)
		default:
			fail(x, "unsupported else form")
		}
		return out
	}
	fail(s, "unsupported statement form %T", s)
	return ""
}

// ---------------------------------------------------------------- driver

func (tr *translator) translate(f *fn) {
	tr.cur = f
	en := env{}
	for _, p := range f.params {
		if reserved[p.name] || (f.method && p.name == f.recv) {
			fail(f.decl, "parameter name %q collides with a name used by the translation", p.name)
		}
		if _, dup := en[p.name]; dup {
			fail(f.decl, "duplicate parameter %q", p.name)
		}
		en[p.name] = p.t
	}
	if f.decl.Body == nil {
		fail(f.decl, "function without body")
	}
	body := tr.block(f.decl.Body.List, en, "  ", nil, f.decl)
	f.body = body
}

func (f *fn) header() string {
	var b strings.Builder
	b.WriteString("noncomputable def " + f.leanName)
	for _, rp := range recvParams {
		if f.recvUse[rp.name] {
			fmt.Fprintf(&b, " (%s : %s)", rp.name, rp.t.lean())
		}
	}
	for _, p := range f.params {
		fmt.Fprintf(&b, " (%s : %s)", p.name, p.t.lean())
	}
	fmt.Fprintf(&b, " : %s :=\n", f.result.lean())
	return b.String()
}

func collect(file *ast.File) map[string]*fn {
	want := map[string]struct {
		method bool
		lean   string
		res    typ
	}{
		"Value": {true, "value", tNat}, "f": {true, "f", tNat}, "g": {true, "g", tNat},
		"k1": {false, "k1", tReal}, "k2": {false, "k2", tReal},
	}
	fns := map[string]*fn{}
	for _, d := range file.Decls {
		fd, ok := d.(*ast.FuncDecl)
		if !ok {
			continue
		}
		w, anchored := want[fd.Name.Name]
		if !anchored {
			continue
		}
		isMethod := fd.Recv != nil
		if isMethod {
			// only methods of *Utxo are anchored
			if len(fd.Recv.List) != 1 {
				continue
			}
			st, ok := fd.Recv.List[0].Type.(*ast.StarExpr)
			if !ok {
				if id, ok2 := fd.Recv.List[0].Type.(*ast.Ident); ok2 && id.Name == "Utxo" {
					fail(fd, "value receiver on Utxo.%s (expected *Utxo)", fd.Name.Name)
				}
				continue
			}
			if id, ok := st.X.(*ast.Ident); !ok || id.Name != "Utxo" {
				continue
			}
		}
		if isMethod != w.method {
			fail(fd, "%s: expected method=%v", fd.Name.Name, w.method)
		}
		if _, dup := fns[fd.Name.Name]; dup {
			fail(fd, "duplicate declaration of %s", fd.Name.Name)
		}
		f := &fn{goName: fd.Name.Name, leanName: w.lean, method: isMethod, decl: fd, recvUse: map[string]bool{}}
		if fd.Type.TypeParams != nil {
			fail(fd, "generic function")
		}
		if isMethod {
			if len(fd.Recv.List[0].Names) != 1 {
				fail(fd, "unnamed receiver")
			}
			f.recv = fd.Recv.List[0].Names[0].Name
		}
		for _, fld := range fd.Type.Params.List {
			t := goType(fld.Type)
			if len(fld.Names) == 0 {
				fail(fld, "unnamed parameter")
			}
			for _, n := range fld.Names {
				f.params = append(f.params, param{n.Name, t})
			}
		}
		if fd.Type.Results == nil || len(fd.Type.Results.List) != 1 || len(fd.Type.Results.List[0].Names) != 0 {
			fail(fd, "%s must have exactly one unnamed result", fd.Name.Name)
		}
		f.result = goType(fd.Type.Results.List[0].Type)
		if f.result != w.res {
			fail(fd, "%s returns %s, expected %s", fd.Name.Name, f.result.lean(), w.res.lean())
		}
		fns[fd.Name.Name] = f
	}
	var missing []string
	for n := range want {
		if fns[n] == nil {
			missing = append(missing, n)
		}
	}
	sort.Strings(missing)
	if len(missing) > 0 {
		fail(nil, "anchored function(s) not found in utxo.go: %s", strings.Join(missing, ", "))
	}
	return fns
}

func checkImports(file *ast.File) {
	ok := false
	for _, im := range file.Imports {
		if im.Path.Value == `"math"` {
			if im.Name != nil {
				fail(im, "package math imported under another name")
			}
			ok = true
		} else if im.Name != nil && im.Name.Name == "math" {
			fail(im, "another package imported as math")
		} else if im.Name != nil && im.Name.Name == "." {
			fail(im, "dot import")
		}
	}
	if !ok {
		fail(nil, "utxo.go does not import math")
	}
	// no package-level declaration may shadow the names the translation gives a fixed meaning
	for _, d := range file.Decls {
		switch x := d.(type) {
		case *ast.GenDecl:
			for _, sp := range x.Specs {
				switch s := sp.(type) {
				case *ast.ValueSpec:
					for _, n := range s.Names {
						if n.Name == "math" || n.Name == "float64" || n.Name == "uint64" || n.Name == "int64" {
							fail(n, "package-level %q shadows a translated name", n.Name)
						}
					}
				case *ast.TypeSpec:
					if s.Name.Name == "float64" || s.Name.Name == "uint64" || s.Name.Name == "int64" || s.Name.Name == "math" {
						fail(s, "type %q shadows a translated name", s.Name.Name)
					}
				}
			}
		case *ast.FuncDecl:
			if x.Recv == nil && (x.Name.Name == "float64" || x.Name.Name == "uint64" || x.Name.Name == "math") {
				fail(x, "function %q shadows a translated name", x.Name.Name)
			}
		}
	}
}

// checkAccessors checks the meaning the translation assigns to the receiver accessors:
// Output.InitialValue returns output.value (uint64), Output.IsYielding returns output.isYielding
// (bool), Utxo embeds *Output and has a field `timestamp int64` set by NewUtxo's third argument.
func checkAccessors(dir string, utxoFile *ast.File) {
	out, err := parser.ParseFile(fset, filepath.Join(dir, "output.go"), nil, parser.SkipObjectResolution)
	if err != nil {
		fail(nil, "cannot parse output.go: %v", err)
	}
	fields := map[string]string{}
	for _, d := range out.Decls {
		gd, ok := d.(*ast.GenDecl)
		if !ok {
			continue
		}
		for _, sp := range gd.Specs {
			ts, ok := sp.(*ast.TypeSpec)
			if !ok || ts.Name.Name != "Output" {
				continue
			}
			st, ok := ts.Type.(*ast.StructType)
			if !ok {
				fail(ts, "Output is not a struct")
			}
			for _, fl := range st.Fields.List {
				id, _ := fl.Type.(*ast.Ident)
				for _, n := range fl.Names {
					if id != nil {
						fields[n.Name] = id.Name
					}
				}
			}
		}
	}
	if fields["value"] != "uint64" || fields["isYielding"] != "bool" {
		fail(nil, "output.go: Output.value uint64 / Output.isYielding bool not found")
	}
	checkGetter := func(name, field, rtype string) {
		for _, d := range out.Decls {
			fd, ok := d.(*ast.FuncDecl)
			if !ok || fd.Name.Name != name || fd.Recv == nil {
				continue
			}
			if len(fd.Recv.List) != 1 || len(fd.Recv.List[0].Names) != 1 || fd.Body == nil || len(fd.Body.List) != 1 ||
				len(fd.Type.Params.List) != 0 || fd.Type.Results == nil || len(fd.Type.Results.List) != 1 {
				fail(fd, "output.go: %s is not a plain getter", name)
			}
			if id, ok := fd.Type.Results.List[0].Type.(*ast.Ident); !ok || id.Name != rtype {
				fail(fd, "output.go: %s does not return %s", name, rtype)
			}
			rs, ok := fd.Body.List[0].(*ast.ReturnStmt)
			if !ok || len(rs.Results) != 1 {
				fail(fd, "output.go: %s is not a plain getter", name)
			}
			sel, ok := rs.Results[0].(*ast.SelectorExpr)
			if !ok || sel.Sel.Name != field {
				fail(fd, "output.go: %s does not return .%s", name, field)
			}
			if id, ok := sel.X.(*ast.Ident); !ok || id.Name != fd.Recv.List[0].Names[0].Name {
				fail(fd, "output.go: %s does not return the receiver's field", name)
			}
			return
		}
		fail(nil, "output.go: getter %s not found", name)
	}
	checkGetter("InitialValue", "value", "uint64")
	checkGetter("IsYielding", "isYielding", "bool")
	// Utxo struct
	okStruct := false
	for _, d := range utxoFile.Decls {
		gd, ok := d.(*ast.GenDecl)
		if !ok {
			continue
		}
		for _, sp := range gd.Specs {
			ts, ok := sp.(*ast.TypeSpec)
			if !ok || ts.Name.Name != "Utxo" {
				continue
			}
			st, ok := ts.Type.(*ast.StructType)
			if !ok {
				fail(ts, "Utxo is not a struct")
			}
			embedsOutput, hasTs := false, false
			for _, fl := range st.Fields.List {
				if len(fl.Names) == 0 {
					if se, ok := fl.Type.(*ast.StarExpr); ok {
						if id, ok := se.X.(*ast.Ident); ok && id.Name == "Output" {
							embedsOutput = true
						}
					}
				}
				for _, n := range fl.Names {
					if n.Name == "timestamp" {
						if id, ok := fl.Type.(*ast.Ident); ok && id.Name == "int64" {
							hasTs = true
						}
					}
					if n.Name == "InitialValue" || n.Name == "IsYielding" {
						fail(n, "Utxo field shadows an accessor")
					}
				}
			}
			okStruct = embedsOutput && hasTs
		}
	}
	if !okStruct {
		fail(nil, "utxo.go: Utxo must embed *Output and have `timestamp int64`")
	}
	// Utxo must not override the accessors
	for _, d := range utxoFile.Decls {
		if fd, ok := d.(*ast.FuncDecl); ok && fd.Recv != nil && (fd.Name.Name == "InitialValue" || fd.Name.Name == "IsYielding") {
			fail(fd, "utxo.go overrides accessor %s", fd.Name.Name)
		}
	}
}

const header = `/-
GENERATED by harness/cmd/ruextract-decay from validatornode/domain/ledger/utxo.go — DO NOT EDIT.
Regenerated by engines/decay.py before every build; Decay/Tie.lean ties it to Decay/Model.lean by rfl.

Real-valued reading of the Go source: float64 ↦ ℝ, uint64 ↦ ℕ, int64 ↦ ℤ, math.Exp/Log/Pow/Floor ↦
Real.exp / Real.log / real power / Int.floor, uint64(r) ↦ Nat.floor, utxo.InitialValue() ↦ initialValue,
utxo.IsYielding() ↦ isYielding, utxo.timestamp ↦ timestamp.
-/
import Mathlib.Analysis.SpecialFunctions.Pow.Real

namespace Gen

`

func generate(repo string) (res string, err error) {
	defer func() {
		if r := recover(); r != nil {
			if xe, ok := r.(xerr); ok {
				err = fmt.Errorf("%s", xe.msg)
				return
			}
			panic(r)
		}
	}()
	dir := filepath.Join(repo, "validatornode", "domain", "ledger")
	path := filepath.Join(dir, "utxo.go")
	file, perr := parser.ParseFile(fset, path, nil, parser.SkipObjectResolution)
	if perr != nil {
		return "", fmt.Errorf("cannot parse %s: %v", path, perr)
	}
	checkImports(file)
	checkAccessors(dir, file)
	tr := &translator{fns: collect(file)}
	var b strings.Builder
	b.WriteString(header)
	for _, name := range []string{"k1", "k2", "f", "g", "Value"} {
		f := tr.fns[name]
		tr.translate(f)
		fmt.Fprintf(&b, "/-- Go: `%s` -/\n", signature(f))
		b.WriteString(f.header())
		b.WriteString(f.body)
		b.WriteString("\n")
	}
	b.WriteString("end Gen\n")
	return b.String(), nil
}

func signature(f *fn) string {
	var ps []string
	for _, p := range f.params {
		ps = append(ps, p.name)
	}
	r := ""
	if f.method {
		r = "(" + f.recv + " *Utxo) "
	}
	return "func " + r + f.goName + "(" + strings.Join(ps, ", ") + ")"
}

func main() {
	repo := flag.String("repo", "", "path of the ruthenium source tree")
	out := flag.String("out", "-", "output file (- = stdout)")
	flag.Parse()
	if *repo == "" {
		fmt.Fprintln(os.Stderr, "ruextract-decay: --repo is required")
		os.Exit(2)
	}
	txt, err := generate(*repo)
	if err != nil {
		fmt.Fprintln(os.Stderr, "ruextract-decay: ERROR:", err)
		os.Exit(1)
	}
	if *out == "-" {
		fmt.Print(txt)
		return
	}
	if err := os.WriteFile(*out, []byte(txt), 0o644); err != nil {
		fmt.Fprintln(os.Stderr, "ruextract-decay: ERROR:", err)
		os.Exit(1)
	}
}
