// rudecay: numerical correspondence for C09 (decay and income).
//
// It calls the REAL ledger.Utxo.Value of the tree the harness is built against, on scenarios drawn
// from the property's quantifier (boundary lattice × random points, single PRNG seeded by --seed),
// and evaluates the property's own inequalities on the Go function itself, with exactly the slack
// the property text grants.  Every evaluated point is written out (--emit) so that
// engines/decay_ref.py can compare it with a 100-digit evaluation of the same formula.
//
// Modes:
//
//	rudecay --seed S --scenarios N [--core] [--workers W] [--emit PREFIX]   sweep (fixed corpus first), JSON summary on stdout
//	rudecay --replay        scenarios (JSON array) on stdin, same summary
//	rudecay --points        lines "y yl created now h_ns B L" on stdin, same line + value on stdout
package main

import (
	"bufio"
	"encoding/json"
	"flag"
	"fmt"
	"math"
	"math/rand"
	"os"
	"sort"
	"strconv"
	"strings"
	"sync"

	"github.com/my-cloud/ruthenium/validatornode/domain/ledger"
)

const maxAmount = uint64(1) << 53

// Scenario: an output of Y units created at Created, valued after X1 and after X1+X2 nanoseconds,
// re-valued (as a fresh output of the intermediate value) over the second interval, valued after one
// half-life, and valued with both timestamps shifted by D.
type Scenario struct {
	Y        uint64 `json:"y"`
	Yielding bool   `json:"yielding"`
	HNs      int64  `json:"h_ns"` // half-life in ns; the float64 passed to Value is float64(HNs), exact
	B        uint64 `json:"base"`
	L        uint64 `json:"limit"`
	Created  int64  `json:"created"`
	X1       int64  `json:"x1"`
	X2       int64  `json:"x2"`
	D        int64  `json:"shift"`
}

type Values struct {
	V0  uint64 `json:"v_at_0"`
	V1  uint64 `json:"v_at_x1"`
	V12 uint64 `json:"v_at_x1_plus_x2"`
	V2  uint64 `json:"v_two_step"`
	VH  uint64 `json:"v_at_half_life"`
	VS  uint64 `json:"v_at_x1_shifted"`
	VZ  uint64 `json:"v_from_zero_at_half_life"`
}

type Failure struct {
	Clause    string   `json:"clause"`
	Branch    string   `json:"branch"`
	Signature string   `json:"signature"`
	Detail    string   `json:"detail"`
	Index     int      `json:"scenario_index"` // position in this run's scenario list (corpus first)
	Count     int64    `json:"count"`          // scenarios of this run with the same signature
	Scenario  Scenario `json:"scenario"`
	Values    Values   `json:"values"`
}

func value(y uint64, yl bool, created, now int64, h float64, B, L uint64) uint64 {
	u := ledger.NewUtxo(ledger.NewInputInfo(0, "t"), ledger.NewOutput("a", yl, y), created)
	return u.Value(now, h, B, L)
}

func absdiff(a, b uint64) uint64 {
	if a > b {
		return a - b
	}
	return b - a
}

func max64(a, b uint64) uint64 {
	if a > b {
		return a
	}
	return b
}

// withinSlack: d ≤ 1 + 2^-44·m, exactly (d, m integers: (d−1)·2^44 ≤ m ⇔ d−1 ≤ ⌊m/2^44⌋).
func withinSlack(d, m uint64) bool {
	return d <= 1 || d-1 <= m>>44
}

// dust: 0 < amount < 2^-28 · limit (exact: y·2^28 < L ⇔ y ≤ (L−1)>>28).  In float64 the quotient
// (l-y)/l then keeps fewer than ~25 significant bits of the amount.
func dust(a, L uint64) bool {
	return a > 0 && L > 0 && a <= (L-1)>>28
}

func branch(s Scenario) string {
	switch {
	case !s.Yielding:
		return "f"
	case s.Y < s.L:
		return "g-low"
	case s.Y > s.L:
		return "g-high"
	}
	return "g-eq"
}

type point struct {
	y                 uint64
	yl                bool
	created, now, hns int64
	B, L, v           uint64
}

type stats struct {
	evals      int64
	scenarios  int64
	hist       map[string]int64
	distinct   map[uint64]struct{}
	first      map[string]*Failure // first witness (smallest scenario index) per signature
	failCounts map[string]int64
	samples    []map[string]interface{}
}

func newStats() *stats {
	return &stats{hist: map[string]int64{}, distinct: map[uint64]struct{}{}, failCounts: map[string]int64{},
		first: map[string]*Failure{}}
}

func mix(h uint64, v uint64) uint64 {
	h ^= v + 0x9E3779B97F4A7C15 + (h << 6) + (h >> 2)
	h *= 0xBF58476D1CE4E5B9
	h ^= h >> 31
	return h
}

func elapsedBucket(x, h int64) string {
	switch {
	case x == 0:
		return "elapsed=0"
	case x <= 1000:
		return "elapsed<=1us"
	case float64(x) < float64(h)/1000:
		return "elapsed<h/1000"
	case x < h:
		return "elapsed<h"
	case x == h:
		return "elapsed=h"
	case float64(x) <= 2*float64(h):
		return "elapsed<=2h"
	case float64(x) < 20*float64(h):
		return "elapsed<20h"
	}
	return "elapsed=20h"
}

// evaluate runs one scenario on the real code and checks every clause of the property.
func evaluate(idx int, s Scenario, st *stats, emit *bufio.Writer) {
	h := float64(s.HNs)
	rec := func(y uint64, created, now int64) uint64 {
		v := value(y, s.Yielding, created, now, h, s.B, s.L)
		st.evals++
		if now != created {
			hh := mix(mix(mix(mix(mix(mix(1, y), uint64(now-created)), uint64(s.HNs)), s.B), s.L), map[bool]uint64{false: 0, true: 1}[s.Yielding])
			st.distinct[hh] = struct{}{}
		}
		if emit != nil {
			yl := 0
			if s.Yielding {
				yl = 1
			}
			fmt.Fprintf(emit, "%d %d %d %d %d %d %d %d\n", y, yl, created, now, s.HNs, s.B, s.L, v)
		}
		return v
	}
	var v Values
	m := s.Created + s.X1
	n := m + s.X2
	v.V0 = rec(s.Y, s.Created, s.Created)
	v.V1 = rec(s.Y, s.Created, m)
	v.V12 = rec(s.Y, s.Created, n)
	v.V2 = rec(v.V1, m, n)
	v.VH = rec(s.Y, s.Created, s.Created+s.HNs)
	v.VS = value(s.Y, s.Yielding, s.Created+s.D, m+s.D, h, s.B, s.L)
	st.evals++
	if s.Yielding {
		v.VZ = rec(0, s.Created, s.Created+s.HNs)
	}
	st.scenarios++
	br := branch(s)
	st.hist["branch:"+br]++
	st.hist["x1:"+elapsedBucket(s.X1, s.HNs)]++
	st.hist["x1+x2:"+elapsedBucket(s.X1+s.X2, s.HNs)]++
	if len(st.samples) < 3 {
		st.samples = append(st.samples, map[string]interface{}{"scenario": s, "values": v, "branch": br})
	}
	// fail records a clause failure under a regime-tagged signature: sig = C09/<clause>/<branch>/<tag>.
	// At most one witness per signature is kept (the scenario with the smallest index), plus a count.
	failBr := func(clause, fbr, tag, detail string) {
		sig := "C09/" + clause + "/" + fbr + "/" + tag
		st.failCounts[sig]++
		if cur, ok := st.first[sig]; !ok || idx < cur.Index {
			st.first[sig] = &Failure{Clause: clause, Branch: fbr, Signature: sig, Detail: detail, Index: idx, Scenario: s, Values: v}
		}
	}
	fail := func(clause, tag, detail string) { failBr(clause, br, tag, detail) }
	lb := limitBucket(s.L)
	slackM := max64(s.Y, s.L)
	// ---- value depends only on elapsed time
	if v.VS != v.V1 {
		fail("elapsed-only", lb, fmt.Sprintf("Value over [created,created+x1] = %d but over the same interval shifted by %d ns = %d", v.V1, s.D, v.VS))
	}
	dipTag := func(d uint64, word string) string {
		switch {
		case d == 1:
			return word + "-1-unit"
		case d == 2 && s.L >= 1<<52:
			return word + "-2-units/limit>=2^52"
		case d == 2:
			return word + ">=2"
		}
		return word + ">=3"
	}
	chain := []uint64{v.V0, v.V1, v.V12} // values at elapsed 0 ≤ x1 ≤ x1+x2
	names := []string{"0", "x1", "x1+x2"}
	if !s.Yielding {
		// never exceeds the initial value
		for i, c := range chain {
			if c > s.Y {
				fail("f-le-init", lb, fmt.Sprintf("non-yielding value %d at elapsed %s exceeds the initial value %d", c, names[i], s.Y))
			}
		}
		if v.VH > s.Y {
			fail("f-le-init", lb, fmt.Sprintf("non-yielding value %d at one half-life exceeds the initial value %d", v.VH, s.Y))
		}
		// never increases with time
		for i := 0; i+1 < len(chain); i++ {
			if chain[i+1] > chain[i] {
				fail("monotone", dipTag(chain[i+1]-chain[i], "rise"), fmt.Sprintf("non-yielding value increases with time: %d at elapsed %s, %d at elapsed %s", chain[i], names[i], chain[i+1], names[i+1]))
			}
		}
		// halves every half-life: |vh − y/2| ≤ 1 + 2^-44·y   (⇔ |2vh − y| ≤ 2 + 2^-43·y)
		d2 := absdiff(2*v.VH, s.Y)
		if !(d2 <= 2 || d2-2 <= s.Y>>43) {
			fail("f-half", lb, fmt.Sprintf("after one half-life the value is %d, initial value %d (half = %d.%d)", v.VH, s.Y, s.Y/2, (s.Y%2)*5))
		}
		st.hist[fmt.Sprintf("f-half-dev(2v-y):%s", devBucket(d2))]++
	} else {
		lo, hi := s.Y, s.L
		if lo > hi {
			lo, hi = hi, lo
		}
		// stays between the initial value and the limit, within one unit
		all := append(append([]uint64{}, chain...), v.VH)
		an := append(append([]string{}, names...), "h")
		for i, c := range all {
			if c+1 < lo || c > hi+1 {
				off := uint64(0) // distance from [lo, hi]
				if c < lo {
					off = lo - c
				} else {
					off = c - hi
				}
				tag := lb
				if off >= 4 {
					tag = lb + "/off-by>=4"
				}
				fail("g-bounds", tag, fmt.Sprintf("yielding value %d at elapsed %s is outside [%d-1, %d+1] (initial value %d, limit %d), off by %d units", c, an[i], lo, hi, s.Y, s.L, off))
			} else if c < lo || c > hi {
				st.hist["g-bounds-used-the-one-unit-grace"]++
			}
		}
		// moves monotonically toward the limit — checked STRICTLY (no slack).  Known on the unchanged
		// tree: the float product before math.Floor can land just below an integer (y=1, B=1, L=4:
		// -4*exp(..) = -3.0000000000000004 ↦ floor -4 ↦ value 0), so the value dips by one unit right
		// after creation; the regime tags give such exceptions their own signatures.
		for i := 0; i+1 < len(chain); i++ {
			a, b := chain[i], chain[i+1]
			switch {
			case s.Y < s.L && b < a:
				fail("monotone", dipTag(a-b, "dip"), fmt.Sprintf("yielding value below the limit decreases with time by %d: %d at elapsed %s, %d at elapsed %s", a-b, a, names[i], b, names[i+1]))
			case s.Y > s.L && b > a:
				fail("monotone", dipTag(b-a, "rise"), fmt.Sprintf("yielding value above the limit increases with time by %d: %d at elapsed %s, %d at elapsed %s", b-a, a, names[i], b, names[i+1]))
			case s.Y == s.L && b != a:
				fail("monotone", "moved-at-limit", fmt.Sprintf("yielding value at the limit moves: %d at elapsed %s, %d at elapsed %s", a, names[i], b, names[i+1]))
			}
		}
		// from zero reaches the income base after one half-life
		dz := absdiff(v.VZ, s.B)
		if !withinSlack(dz, s.L) {
			// the from-zero valuation is always the low branch (0 < L), whatever the scenario's own amount
			failBr("g-from-zero", "g-low", lb, fmt.Sprintf("from zero, after one half-life the value is %d, income base %d, limit %d", v.VZ, s.B, s.L))
		}
		st.hist["g-from-zero-dev:"+devBucket(dz)]++
	}
	// ---- no gain from valuing over two consecutive intervals
	if v.V2 > v.V12 {
		d := v.V2 - v.V12
		if !withinSlack(d, slackM) {
			tag := lb
			if s.L >= 1<<48 && (dust(s.Y, s.L) || dust(v.V1, s.L)) {
				// float64 cancellation in (l-y)/l for dust amounts under huge limits; the amount
				// valued is the initial one in the first step and the intermediate one in the second
				tag = "limit>=2^48-dust"
			}
			fail("no-gain", tag, fmt.Sprintf("two-step valuation %d (via %d) exceeds the one-step valuation %d by %d > 1 + 2^-44*%d", v.V2, v.V1, v.V12, d, slackM))
		}
		st.hist["no-gain:two-step-above-by:"+devBucket(d)]++
	} else if v.V2 == v.V12 {
		st.hist["no-gain:equal"]++
	} else {
		st.hist["no-gain:two-step-below"]++
	}
}

// limitBucket tags a failure signature with the magnitude of the income limit, so that a finding
// that only exists at extreme limits (float64 cancellation in (l-y)/l and 1-B/L) has its own signature.
func limitBucket(L uint64) string {
	switch {
	case L < 1<<44:
		return "limit<2^44"
	case L < 1<<48:
		return "2^44<=limit<2^48"
	case L < 1<<52:
		return "2^48<=limit<2^52"
	}
	return "limit>=2^52"
}

func devBucket(d uint64) string {
	switch {
	case d == 0:
		return "0"
	case d == 1:
		return "1"
	case d == 2:
		return "2"
	case d <= 8:
		return "3..8"
	case d <= 64:
		return "9..64"
	case d <= 512:
		return "65..512"
	}
	return ">512"
}

// ---------------------------------------------------------------- generation

var fixedPairs = [][2]uint64{
	{1, 2}, {1, 3}, {2, 3}, {1, 4}, {3, 4}, {4, 5}, {1, 1000}, {500, 1000}, {999, 1000},
	{50000000000, 10000000000000}, // settings.json: base 500 * 1e8, limit 100000 * 1e8
	{1, 1000000000000000}, {1, 1 << 53}, {1 << 52, 1 << 53}, {(1 << 53) - 1, 1 << 53}, {1 << 26, 1 << 52},
	{3, 1 << 40}, {123456789, 987654321987},
}

const (
	minute = int64(60e9)
	hour   = 60 * minute
	day    = 24 * hour
	year   = 365 * day
)

func productionHalfLife() int64 {
	// as protocol_settings.go computes it: days * 24 * float64(time.Hour.Nanoseconds())
	h := 373.59 * 24 * float64(hour)
	return int64(h)
}

func fixedHalfLives() []int64 {
	return []int64{minute, hour, day, 30 * day, productionHalfLife(), year, 10 * year}
}

func logUniform(r *rand.Rand, lo, hi float64) float64 {
	return math.Exp(math.Log(lo) + r.Float64()*(math.Log(hi)-math.Log(lo)))
}

func pickPair(r *rand.Rand) (uint64, uint64) {
	if r.Intn(2) == 0 {
		p := fixedPairs[r.Intn(len(fixedPairs))]
		return p[0], p[1]
	}
	var L uint64
	switch r.Intn(3) {
	case 0:
		L = uint64(logUniform(r, 2, float64(maxAmount)))
	case 1:
		L = uint64(1) << uint(1+r.Intn(53))
	default:
		L = 2 + uint64(r.Int63n(int64(maxAmount)-1))
	}
	if L < 2 {
		L = 2
	}
	if L > maxAmount {
		L = maxAmount
	}
	var B uint64
	switch r.Intn(5) {
	case 0:
		B = 1
	case 1:
		B = L - 1
	case 2:
		B = L / 2
	case 3:
		B = uint64(logUniform(r, 1, float64(L)))
	default:
		B = 1 + uint64(r.Int63n(int64(L-1)))
	}
	if B < 1 {
		B = 1
	}
	if B >= L {
		B = L - 1
	}
	return B, L
}

func pickHalfLife(r *rand.Rand) int64 {
	if r.Intn(2) == 0 {
		f := fixedHalfLives()
		return f[r.Intn(len(f))]
	}
	h := math.Floor(logUniform(r, float64(minute), float64(10*year)))
	return int64(h) // integer-valued float64 ⇒ float64(int64(h)) == h
}

func amountLattice(B, L uint64) []uint64 {
	c := []uint64{0, 1, B, L - 1, L, L + 1, 2 * L}
	for k := uint(0); k <= 53; k++ {
		c = append(c, uint64(1)<<k)
	}
	out := c[:0]
	for _, a := range c {
		if a <= maxAmount {
			out = append(out, a)
		}
	}
	return out
}

func pickAmount(r *rand.Rand, B, L uint64) uint64 {
	var a uint64
	switch r.Intn(8) {
	case 0, 1, 2:
		lat := amountLattice(B, L)
		a = lat[r.Intn(len(lat))]
	case 3:
		a = uint64(logUniform(r, 1, float64(maxAmount)))
	case 4:
		a = uint64(r.Int63n(int64(maxAmount) + 1))
	case 5: // below the limit, any scale
		a = uint64(logUniform(r, 1, float64(L)))
	case 6: // just around the limit
		off := uint64(logUniform(r, 1, float64(L)))
		if r.Intn(2) == 0 && off <= L {
			a = L - off
		} else {
			a = L + off
		}
	default: // powers of two ± 1
		a = uint64(1) << uint(r.Intn(54))
		if r.Intn(2) == 0 {
			a++
		} else if a > 0 {
			a--
		}
	}
	if a > maxAmount {
		a = maxAmount
	}
	return a
}

func elapsedLattice(h int64) []int64 {
	return []int64{0, 1, 2, 1000, h / 1000, h / 2, h - 1, h, h + 1, 2 * h, 10 * h, 20*h - 1, 20 * h}
}

func pickElapsed(r *rand.Rand, h int64) (int64, int64) {
	maxX := 20 * h
	var x1 int64
	switch r.Intn(4) {
	case 0, 1:
		lat := elapsedLattice(h)
		x1 = lat[r.Intn(len(lat))]
	case 2:
		x1 = int64(logUniform(r, 1, float64(maxX)))
	default:
		x1 = r.Int63n(maxX + 1)
	}
	if x1 > maxX {
		x1 = maxX
	}
	rem := maxX - x1
	var x2 int64
	switch r.Intn(6) {
	case 0:
		x2 = 0
	case 1:
		x2 = 1
	case 2:
		lat := elapsedLattice(h)
		x2 = lat[r.Intn(len(lat))]
	case 3:
		if rem > 0 {
			x2 = int64(logUniform(r, 1, float64(rem)+1))
		}
	case 4:
		x2 = rem
	default:
		x2 = r.Int63n(rem + 1)
	}
	if x2 > rem {
		x2 = rem
	}
	return x1, x2
}

func pickCreated(r *rand.Rand) int64 {
	switch r.Intn(5) {
	case 0:
		return 0
	case 1:
		return 1
	case 2:
		return 1700000000000000000 // a realistic unix-ns timestamp
	case 3:
		return -1000000000000000000
	}
	return r.Int63n(1800000000000000000)
}

func pickShift(r *rand.Rand, created, span int64) int64 {
	// keep created+shift+span within int64
	hi := math.MaxInt64 - span
	if created > 0 {
		hi -= created
	}
	cands := []int64{1, -1, 1000000007, -created, int64(1) << 53, -(int64(1) << 53), hi}
	d := cands[r.Intn(len(cands))]
	if r.Intn(3) == 0 && hi > 0 {
		d = r.Int63n(hi)
	}
	if d > hi {
		d = hi
	}
	if d == 0 {
		d = 1
	}
	return d
}

func randomScenario(r *rand.Rand) Scenario {
	var s Scenario
	s.B, s.L = pickPair(r)
	s.HNs = pickHalfLife(r)
	s.Y = pickAmount(r, s.B, s.L)
	s.Yielding = r.Intn(3) != 0
	s.X1, s.X2 = pickElapsed(r, s.HNs)
	s.Created = pickCreated(r)
	s.D = pickShift(r, s.Created, 20*s.HNs)
	return s
}

// coreScenarios enumerates the boundary lattice: fixed pairs × three half-lives × amount lattice ×
// elapsed lattice × yielding, the second interval drawn at random.
func coreScenarios(r *rand.Rand) []Scenario {
	var out []Scenario
	hs := []int64{minute, productionHalfLife(), 10 * year}
	for _, p := range fixedPairs {
		for _, h := range hs {
			for _, a := range amountLattice(p[0], p[1]) {
				for _, x1 := range elapsedLattice(h) {
					for _, yl := range []bool{false, true} {
						s := Scenario{Y: a, Yielding: yl, HNs: h, B: p[0], L: p[1], X1: x1}
						rem := 20*h - x1
						switch r.Intn(3) {
						case 0:
							s.X2 = 1
						case 1:
							s.X2 = r.Int63n(rem + 1)
						default:
							lat := elapsedLattice(h)
							s.X2 = lat[r.Intn(len(lat))]
						}
						if s.X2 > rem {
							s.X2 = rem
						}
						s.Created = pickCreated(r)
						s.D = pickShift(r, s.Created, 20*h)
						out = append(out, s)
					}
				}
			}
		}
	}
	return out
}

// corpus: fixed scenarios evaluated first in every sweep, so that the witnesses of what is known about
// the unchanged tree (regime-tagged signatures) do not depend on the seed, plus ordinary points at the
// production settings (settings.json: half-life 373.59 days, base 5e10, limit 1e13).
func corpus() []Scenario {
	ph := productionHalfLife()
	return []Scenario{
		// C09/monotone/g-low/dip-1-unit: 1 ↦ 0 one nanosecond after creation
		{Y: 1, Yielding: true, HNs: ph, B: 1, L: 4, Created: 0, X1: 1, X2: 1, D: 1},
		// the same at the production settings: 7319303767953 ↦ 7319303767952
		{Y: 7319303767953, Yielding: true, HNs: ph, B: 50000000000, L: 10000000000000, Created: 1700000000000000000, X1: 1, X2: 1, D: 1},
		// C09/g-bounds/g-low/limit>=2^52 and C09/monotone/g-low/dip-2-units/limit>=2^52: y ↦ y-2
		{Y: 6038788121131732, Yielding: true, HNs: 903394565637904, B: 1, L: 1 << 53, Created: 1700000000000000000, X1: 1000, X2: 18067891312757080, D: 1},
		// C09/no-gain/g-low/limit>=2^48-dust: 50 ↦ 51 after 1.2 ms, two-step exceeds one-step by 400 > 164
		{Y: 50, Yielding: true, HNs: 31536000000000000, B: 6462500629317, L: 2879745510405332, Created: 0, X1: 1176553, X2: 630719999998823447, D: 1},
		// ordinary production points
		{Y: 0, Yielding: true, HNs: ph, B: 50000000000, L: 10000000000000, Created: 1700000000000000000, X1: day, X2: 30 * day, D: 1000000007},
		{Y: 100000000, Yielding: true, HNs: ph, B: 50000000000, L: 10000000000000, Created: 1700000000000000000, X1: day, X2: 30 * day, D: 1000000007},
		{Y: 20000000000000, Yielding: true, HNs: ph, B: 50000000000, L: 10000000000000, Created: 1700000000000000000, X1: day, X2: 30 * day, D: 1000000007},
		{Y: 123456789012, Yielding: false, HNs: ph, B: 50000000000, L: 10000000000000, Created: 1700000000000000000, X1: day, X2: 30 * day, D: 1000000007},
	}
}

// ---------------------------------------------------------------- driver

func summarize(all []*stats, mode string, seed int64) map[string]interface{} {
	tot := newStats()
	for _, st := range all {
		tot.evals += st.evals
		tot.scenarios += st.scenarios
		for k, v := range st.hist {
			tot.hist[k] += v
		}
		for k := range st.distinct {
			tot.distinct[k] = struct{}{}
		}
		for k, v := range st.failCounts {
			tot.failCounts[k] += v
		}
		for sig, f := range st.first {
			if cur, ok := tot.first[sig]; !ok || f.Index < cur.Index {
				tot.first[sig] = f
			}
		}
		if len(tot.samples) < 3 {
			tot.samples = append(tot.samples, st.samples...)
		}
	}
	if len(tot.samples) > 3 {
		tot.samples = tot.samples[:3]
	}
	sigs := make([]string, 0, len(tot.first))
	for sig := range tot.first {
		sigs = append(sigs, sig)
	}
	sort.Strings(sigs)
	fl := []Failure{}
	for _, sig := range sigs {
		f := *tot.first[sig]
		f.Count = tot.failCounts[sig]
		f.Detail = fmt.Sprintf("%s  [%d scenario(s) of this run with this signature; first witness: scenario #%d]", f.Detail, f.Count, f.Index)
		fl = append(fl, f)
		tot.hist["failures:"+sig] = f.Count
	}
	return map[string]interface{}{
		"mode": mode, "seed": seed, "evaluations": tot.evals, "scenarios": tot.scenarios,
		"distinct_nontrivial": len(tot.distinct),
		"rule": "one evaluation = one call of the real ledger.Utxo.Value; distinct_nontrivial = number of distinct " +
			"(amount, yielding, elapsed, half-life, base, limit) tuples with elapsed > 0 (elapsed = 0 short-circuits), counted by hash",
		"hist": tot.hist, "fail_counts": tot.failCounts, "failures": fl, "samples": tot.samples,
	}
}

func main() {
	seed := flag.Int64("seed", 1, "PRNG seed")
	nScen := flag.Int("scenarios", 3000, "number of random scenarios")
	core := flag.Bool("core", false, "also enumerate the boundary-lattice core")
	workers := flag.Int("workers", 1, "parallel workers")
	emit := flag.String("emit", "", "write every evaluated point to PREFIX.<worker>")
	replay := flag.Bool("replay", false, "read a JSON array of scenarios from stdin")
	points := flag.Bool("points", false, "read points from stdin, print their values")
	flag.Parse()

	if *points {
		sc := bufio.NewScanner(os.Stdin)
		w := bufio.NewWriter(os.Stdout)
		defer w.Flush()
		for sc.Scan() {
			line := strings.TrimSpace(sc.Text())
			if line == "" {
				continue
			}
			f := strings.Fields(line)
			if len(f) < 7 {
				fmt.Fprintln(os.Stderr, "rudecay: malformed point:", line)
				os.Exit(2)
			}
			y, e1 := strconv.ParseUint(f[0], 10, 64)
			yl := f[1] == "1"
			cr, e2 := strconv.ParseInt(f[2], 10, 64)
			now, e3 := strconv.ParseInt(f[3], 10, 64)
			hns, e4 := strconv.ParseInt(f[4], 10, 64)
			B, e5 := strconv.ParseUint(f[5], 10, 64)
			L, e6 := strconv.ParseUint(f[6], 10, 64)
			for _, e := range []error{e1, e2, e3, e4, e5, e6} {
				if e != nil {
					fmt.Fprintln(os.Stderr, "rudecay: malformed point:", line, e)
					os.Exit(2)
				}
			}
			v := value(y, yl, cr, now, float64(hns), B, L)
			fmt.Fprintf(w, "%s %s %s %s %s %s %s %d\n", f[0], f[1], f[2], f[3], f[4], f[5], f[6], v)
		}
		return
	}

	var scenarios []Scenario
	mode := "sweep"
	if *replay {
		mode = "replay"
		if err := json.NewDecoder(os.Stdin).Decode(&scenarios); err != nil {
			fmt.Fprintln(os.Stderr, "rudecay: cannot read scenarios:", err)
			os.Exit(2)
		}
	} else {
		r := rand.New(rand.NewSource(*seed))
		scenarios = append(scenarios, corpus()...)
		if *core {
			scenarios = append(scenarios, coreScenarios(r)...)
		}
		for i := 0; i < *nScen; i++ {
			scenarios = append(scenarios, randomScenario(r))
		}
	}
	W := *workers
	if W < 1 {
		W = 1
	}
	all := make([]*stats, W)
	var wg sync.WaitGroup
	errs := make([]error, W)
	for w := 0; w < W; w++ {
		all[w] = newStats()
		wg.Add(1)
		go func(w int) {
			defer wg.Done()
			var bw *bufio.Writer
			if *emit != "" {
				f, err := os.Create(fmt.Sprintf("%s.%d", *emit, w))
				if err != nil {
					errs[w] = err
					return
				}
				defer f.Close()
				bw = bufio.NewWriterSize(f, 1<<20)
				defer bw.Flush()
			}
			for i := w; i < len(scenarios); i += W {
				evaluate(i, scenarios[i], all[w], bw)
			}
		}(w)
	}
	wg.Wait()
	for _, e := range errs {
		if e != nil {
			fmt.Fprintln(os.Stderr, "rudecay:", e)
			os.Exit(2)
		}
	}
	out, _ := json.Marshal(summarize(all, mode, *seed))
	fmt.Println(string(out))
}
