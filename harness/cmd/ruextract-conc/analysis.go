package main

import (
	"fmt"
	"sort"
	"strings"
)

// Go-side mirror of the table computations that lean/conc re-derives and re-checks (Conc/Table.lean): the
// extractor needs them to name the failing rows (knownRaces), a rank for the lock graph and the placements.

type Held struct {
	M    int    `json:"m"`
	Mode string `json:"mode"`
}

type Acc struct {
	Loc   int    `json:"loc"`
	Kind  string `json:"kind"`
	Owner int    `json:"owner"`
	File  string `json:"file"`
	Line  int    `json:"line"`
	Held  []Held `json:"held"`
	Pos   int    `json:"pos"`
	key   int
}

type Point struct {
	Pos   int    `json:"pos"`
	Site  int    `json:"site"`  // method whose body contains the call
	Label string `json:"label"` // callee / external call
	File  string `json:"file"`
	Line  int    `json:"line"`
	Held  []Held `json:"held"`
}

type Thread struct {
	Id     int     `json:"id"`
	Root   int     `json:"root"`
	Copy   int     `json:"copy"`
	Child  int     `json:"child"` // 0 = main thread of the root, otherwise method id of the spawned body
	Name   string  `json:"name"`
	Accs   []Acc   `json:"accs"`
	Acqs   []Acc   `json:"-"` // acquisitions: Loc = mutex, Kind = mode, Held = held before
	Points []Point `json:"points,omitempty"`
	Len    int     `json:"len"`
}

type Witness struct {
	RootA string `json:"rootA"`
	RootB string `json:"rootB"`
	FileA string `json:"fileA"`
	LineA int    `json:"lineA"`
	KindA string `json:"kindA"`
	HeldA string `json:"heldA"`
	FileB string `json:"fileB"`
	LineB int    `json:"lineB"`
	KindB string `json:"kindB"`
	HeldB string `json:"heldB"`
}

type Row struct {
	Loc       int       `json:"loc"`
	A         int       `json:"a"`
	B         int       `json:"b"`
	LocName   string    `json:"locName"`
	AName     string    `json:"aName"`
	BName     string    `json:"bName"`
	Signature string    `json:"signature"`
	Desc      string    `json:"desc"`
	Common    string    `json:"common,omitempty"` // protected rows: the mutex that orders them
	Witnesses []Witness `json:"witnesses"`
}

type Edge struct {
	From     int    `json:"from"`
	To       int    `json:"to"`
	FromMode string `json:"fromMode"`
	ToMode   string `json:"toMode"`
	Root     string `json:"root"`
	Owner    string `json:"owner"`
	File     string `json:"file"`
	Line     int    `json:"line"`
}

type Placement struct {
	Outer     int    `json:"outer"` // thread id
	OuterRoot string `json:"outerRoot"`
	OuterName string `json:"outerName"` // method label used in signatures
	Pos       int    `json:"pos"`
	Label     string `json:"label"`
	File      string `json:"file"`
	Line      int    `json:"line"`
	Inner     int    `json:"inner"` // root index
	InnerRoot string `json:"innerRoot"`
	Verdict   string `json:"verdict"` // excluded | safe | stale
	Why       string `json:"why"`
	Signature string `json:"signature"`
}

type MethodOut struct {
	Id     int     `json:"id"`
	Name   string  `json:"name"`
	File   string  `json:"file"`
	Line   int     `json:"line"`
	Child  bool    `json:"child"`
	Events []Event `json:"events"`
}

type LineFact struct {
	Loc   string `json:"loc"`
	Owner string `json:"owner"`
	Kind  string `json:"kind"`
}

type Tables struct {
	Sources         []Source              `json:"sources"`
	Mutexes         []string              `json:"mutexes"`
	Locs            []string              `json:"locs"`
	PrivLocs        []int                 `json:"privLocs"`
	Methods         []MethodOut           `json:"methods"`
	Roots           []Root                `json:"roots"`
	Threads         []Thread              `json:"threads"`
	Rows            []Row                 `json:"rows"`      // failing rows = knownRaces
	Protected       []Row                 `json:"protected"` // conflicting rows that ARE protected (negative controls)
	LockEdges       []Edge                `json:"lockEdges"`
	LockRank        []int                 `json:"lockRank"`
	LockCycle       []string              `json:"lockCycle"`
	Unbalanced      []string              `json:"unbalanced"`
	Escapes         []Escape              `json:"escapes"`
	Fetch           *FetchShape           `json:"fetch"`
	Placements      []Placement           `json:"placements"`
	KnownPlacements []Placement           `json:"knownPlacements"`
	Lines           map[string][]LineFact `json:"lines"`
	Wiring          map[string]map[string]string `json:"wiring"`
	Notes           []string              `json:"notes"`
	FlatFuel        int                   `json:"flatFuel"`
}

const privStride = 1000

func incompat(a, b string) bool { return a == "W" || b == "W" }

func conflict(a, b string) bool {
	if a == "read" && (b == "read" || b == "append") {
		return false
	}
	if a == "append" && b == "read" {
		return false
	}
	return true
}

func heldString(ex *Extractor, h []Held) string {
	if len(h) == 0 {
		return "{}"
	}
	var s []string
	for _, x := range h {
		s = append(s, ex.mutexes[x.M]+":"+x.Mode)
	}
	return "{" + strings.Join(s, ", ") + "}"
}

type flattener struct {
	ex       *Extractor
	inst     int
	th       *Thread
	held     []Held
	children []int
	steps    int
}

func (f *flattener) run(mid int, depth int) {
	if depth > 40 {
		failf("call depth exceeded while flattening %s", f.ex.methods[mid].Name)
	}
	m := f.ex.methods[mid]
	for _, e := range m.Events {
		f.steps++
		switch e.Op {
		case "acq":
			f.th.Acqs = append(f.th.Acqs, Acc{Loc: e.M, Kind: e.Mode, Owner: mid, File: e.File, Line: e.Line, Held: append([]Held(nil), f.held...), Pos: f.th.Len})
			f.held = append(f.held, Held{e.M, e.Mode})
			f.th.Len++
		case "rel":
			found := false
			for i := len(f.held) - 1; i >= 0; i-- {
				if f.held[i].M == e.M {
					f.held = append(f.held[:i:i], f.held[i+1:]...)
					found = true
					break
				}
			}
			if !found {
				failf("flatten: release of %s not held in %s", f.ex.mutexes[e.M], m.Name)
			}
			f.th.Len++
		case "acc":
			key := e.Loc
			if f.ex.locPriv[e.Loc] {
				key = e.Loc + privStride*f.inst
			}
			f.th.Accs = append(f.th.Accs, Acc{Loc: e.Loc, Kind: e.Kind, Owner: mid, File: e.File, Line: e.Line,
				Held: append([]Held(nil), f.held...), Pos: f.th.Len, key: key})
			f.th.Len++
		case "call":
			f.th.Points = append(f.th.Points, Point{Pos: f.th.Len, Site: mid, Label: f.ex.methods[e.Callee].Name, File: e.File, Line: e.Line, Held: append([]Held(nil), f.held...)})
			f.run(e.Callee, depth+1)
		case "spawn":
			f.children = append(f.children, e.Callee)
			label := "go:" + f.ex.methods[e.Callee].Name
			for _, ce := range f.ex.methods[e.Callee].Events {
				if ce.Op == "ext" {
					label = "go:" + ce.Name
					break
				}
				if ce.Op == "call" {
					label = "go:" + f.ex.methods[ce.Callee].Name
					break
				}
			}
			f.th.Points = append(f.th.Points, Point{Pos: f.th.Len, Site: mid, Label: label, File: e.File, Line: e.Line, Held: append([]Held(nil), f.held...)})
			f.th.Len++
		case "ext":
			f.th.Points = append(f.th.Points, Point{Pos: f.th.Len, Site: mid, Label: e.Name, File: e.File, Line: e.Line, Held: append([]Held(nil), f.held...)})
			f.th.Len++
		default:
			f.th.Len++
		}
	}
}

func (ex *Extractor) tables(roots []Root) *Tables {
	tb := &Tables{Mutexes: ex.mutexes, Locs: ex.locs, Roots: roots, Escapes: ex.escapes, Notes: ex.notes,
		Lines: map[string][]LineFact{}, Wiring: ex.wiring, LockCycle: []string{}, Unbalanced: []string{}}
	for id := range ex.locs {
		if ex.locPriv[id] {
			tb.PrivLocs = append(tb.PrivLocs, id)
		}
	}
	for _, m := range ex.methods {
		ev := m.Events
		if ev == nil {
			ev = []Event{}
		}
		tb.Methods = append(tb.Methods, MethodOut{m.Id, m.Name, m.File, m.Line, m.Child, ev})
		for _, e := range m.Events {
			if e.Op == "acc" {
				k := fmt.Sprintf("%s:%d", e.File, e.Line)
				lf := LineFact{ex.locs[e.Loc], ownerName(m.Name), e.Kind}
				dup := false
				for _, x := range tb.Lines[k] {
					if x == lf {
						dup = true
					}
				}
				if !dup {
					tb.Lines[k] = append(tb.Lines[k], lf)
				}
			}
		}
	}
	// threads
	maxSteps := 0
	for ri, r := range roots {
		copies := 1
		if r.Multi {
			copies = 2
		}
		for cp := 0; cp < copies; cp++ {
			pending := []int{0}
			seen := map[int]bool{}
			for len(pending) > 0 {
				child := pending[0]
				pending = pending[1:]
				th := Thread{Id: len(tb.Threads), Root: ri, Copy: cp, Child: child, Name: r.Name}
				fl := &flattener{ex: ex, inst: r.Inst, th: &th}
				if child == 0 {
					for _, e := range r.Entries {
						fl.run(e, 0)
					}
				} else {
					th.Name = r.Name + "/" + ex.methods[child].Name
					fl.run(child, 0)
				}
				if len(fl.held) != 0 {
					tb.Unbalanced = append(tb.Unbalanced, th.Name)
				}
				if fl.steps > maxSteps {
					maxSteps = fl.steps
				}
				for _, ch := range fl.children {
					if !seen[ch] {
						seen[ch] = true
						pending = append(pending, ch)
					}
				}
				if th.Accs == nil {
					th.Accs = []Acc{}
				}
				tb.Threads = append(tb.Threads, th)
			}
		}
	}
	tb.FlatFuel = 2*maxSteps + 64
	ex.raceRows(tb)
	ex.lockOrder(tb)
	ex.placements(tb)
	return tb
}

// strip the $goN suffix: a spawned closure belongs to its method for naming purposes
func ownerName(n string) string {
	if i := strings.Index(n, "$go"); i >= 0 {
		return n[:i]
	}
	return n
}

func (ex *Extractor) raceRows(tb *Tables) {
	type rk struct{ loc, a, b int }
	failing := map[rk]*Row{}
	protected := map[rk]*Row{}
	for i := 0; i < len(tb.Threads); i++ {
		for j := i + 1; j < len(tb.Threads); j++ {
			ti, tj := &tb.Threads[i], &tb.Threads[j]
			for _, x := range ti.Accs {
				for _, y := range tj.Accs {
					if x.key != y.key || !conflict(x.Kind, y.Kind) {
						continue
					}
					common := ""
					for _, hx := range x.Held {
						for _, hy := range y.Held {
							if hx.M == hy.M && incompat(hx.Mode, hy.Mode) {
								common = ex.mutexes[hx.M]
							}
						}
					}
					a, b := x, y
					ra, rb := tb.Roots[ti.Root].Name, tb.Roots[tj.Root].Name
					if a.Owner > b.Owner {
						a, b = b, a
						ra, rb = rb, ra
					}
					k := rk{x.Loc, a.Owner, b.Owner}
					target := failing
					if common != "" {
						target = protected
					}
					row := target[k]
					if row == nil {
						row = &Row{Loc: x.Loc, A: a.Owner, B: b.Owner, LocName: ex.locs[x.Loc],
							AName: ex.methods[a.Owner].Name, BName: ex.methods[b.Owner].Name, Common: common}
						target[k] = row
					}
					w := Witness{ra, rb, a.File, a.Line, a.Kind, heldString(ex, a.Held), b.File, b.Line, b.Kind, heldString(ex, b.Held)}
					dup := false
					for _, o := range row.Witnesses {
						if o == w {
							dup = true
						}
					}
					if !dup && len(row.Witnesses) < 12 {
						row.Witnesses = append(row.Witnesses, w)
					}
				}
			}
		}
	}
	collect := func(m map[rk]*Row) []Row {
		var out []Row
		for _, r := range m {
			names := []string{ownerName(r.AName), ownerName(r.BName)}
			sort.Strings(names)
			r.Signature = "C16/race/" + r.LocName + "/" + names[0] + "|" + names[1]
			sort.Slice(r.Witnesses, func(i, j int) bool {
				a, b := r.Witnesses[i], r.Witnesses[j]
				return fmt.Sprint(a) < fmt.Sprint(b)
			})
			w := r.Witnesses[0]
			r.Desc = fmt.Sprintf("%s: %s at %s:%d holding %s (%s) vs %s at %s:%d holding %s (%s)", r.LocName,
				w.KindA, w.FileA, w.LineA, w.HeldA, w.RootA, w.KindB, w.FileB, w.LineB, w.HeldB, w.RootB)
			out = append(out, *r)
		}
		sort.Slice(out, func(i, j int) bool {
			if out[i].Loc != out[j].Loc {
				return out[i].Loc < out[j].Loc
			}
			if out[i].A != out[j].A {
				return out[i].A < out[j].A
			}
			return out[i].B < out[j].B
		})
		return out
	}
	tb.Rows = collect(failing)
	// a row that fails for one pair of paths is a failing row even if other paths are protected
	for k := range failing {
		delete(protected, k)
	}
	tb.Protected = collect(protected)
	if tb.Rows == nil {
		tb.Rows = []Row{}
	}
	if tb.Protected == nil {
		tb.Protected = []Row{}
	}
}

func (ex *Extractor) lockOrder(tb *Tables) {
	n := len(ex.mutexes)
	adj := make([]map[int]bool, n)
	for i := range adj {
		adj[i] = map[int]bool{}
	}
	seen := map[string]bool{}
	for _, th := range tb.Threads {
		for _, a := range th.Acqs {
			for _, h := range a.Held {
				key := fmt.Sprintf("%d>%d", h.M, a.Loc)
				if !seen[key] {
					seen[key] = true
					tb.LockEdges = append(tb.LockEdges, Edge{h.M, a.Loc, h.Mode, a.Kind, tb.Roots[th.Root].Name,
						ex.methods[a.Owner].Name, a.File, a.Line})
				}
				adj[h.M][a.Loc] = true
			}
		}
	}
	sort.Slice(tb.LockEdges, func(i, j int) bool {
		if tb.LockEdges[i].From != tb.LockEdges[j].From {
			return tb.LockEdges[i].From < tb.LockEdges[j].From
		}
		return tb.LockEdges[i].To < tb.LockEdges[j].To
	})
	if tb.LockEdges == nil {
		tb.LockEdges = []Edge{}
	}
	// longest-path rank by repeated relaxation; a cycle (incl. self edge) makes it diverge
	rank := make([]int, n)
	for round := 0; round <= n+1; round++ {
		changed := false
		for u := 0; u < n; u++ {
			for v := range adj[u] {
				if rank[v] < rank[u]+1 {
					rank[v] = rank[u] + 1
					changed = true
				}
			}
		}
		if !changed {
			tb.LockRank = rank
			return
		}
	}
	// find one cycle for the report
	color := make([]int, n)
	var stack []int
	var cyc []string
	var dfs func(u int) bool
	dfs = func(u int) bool {
		color[u] = 1
		stack = append(stack, u)
		var vs []int
		for v := range adj[u] {
			vs = append(vs, v)
		}
		sort.Ints(vs)
		for _, v := range vs {
			if color[v] == 1 {
				for i := len(stack) - 1; i >= 0; i-- {
					cyc = append([]string{ex.mutexes[stack[i]]}, cyc...)
					if stack[i] == v {
						break
					}
				}
				return true
			}
			if color[v] == 0 && dfs(v) {
				return true
			}
		}
		stack = stack[:len(stack)-1]
		color[u] = 2
		return false
	}
	for u := 0; u < n && cyc == nil; u++ {
		if color[u] == 0 {
			dfs(u)
		}
	}
	tb.LockCycle = cyc
	tb.LockRank = make([]int, n) // all zero: the Lean check fails on the first edge
}

// outer operations whose collaborator calls are placement points
var placementSites = map[string]string{
	"Blockchain.Update":                   "Blockchain.Update",
	"Blockchain.verifyNeighborBlockchain": "Blockchain.Update",
	"Blockchain.verify":                   "Blockchain.Update",
	"TransactionsPool.Validate":           "TransactionsPool.Validate",
	"TransactionsPool.addTransaction":     "TransactionsPool.AddTransaction",
	"TransactionsPool.AddTransaction":     "TransactionsPool.AddTransaction",
}

func (ex *Extractor) placements(tb *Tables) {
	// per root: what it writes and which mutexes it acquires (all its threads, copy 0)
	type rootFacts struct {
		writes map[int]bool
		acqs   map[int]string // strongest mode
	}
	facts := make([]rootFacts, len(tb.Roots))
	for i := range facts {
		facts[i] = rootFacts{map[int]bool{}, map[int]string{}}
	}
	for _, th := range tb.Threads {
		if th.Copy != 0 {
			continue
		}
		for _, a := range th.Accs {
			if a.Kind != "read" {
				facts[th.Root].writes[a.key] = true
			}
		}
		for _, a := range th.Acqs {
			if facts[th.Root].acqs[a.Loc] != "W" {
				facts[th.Root].acqs[a.Loc] = a.Kind
			}
		}
	}
	seen := map[string]bool{}
	for _, th := range tb.Threads {
		if th.Copy != 0 {
			continue
		}
		for _, pt := range th.Points {
			outerName, ok := placementSites[ownerName(ex.methods[pt.Site].Name)]
			if !ok {
				continue
			}
			for ri, r := range tb.Roots {
				if r.Kind == "api" {
					continue
				}
				if ri == th.Root && !r.Multi {
					continue
				}
				p := Placement{Outer: th.Id, OuterRoot: tb.Roots[th.Root].Name, OuterName: outerName, Pos: pt.Pos, Label: pt.Label,
					File: pt.File, Line: pt.Line, Inner: ri, InnerRoot: r.Name}
				p.Signature = "C16/placement/" + outerName + "@" + pt.Label + "/" + r.Name
				// excluded: the outer holds a mutex here that the inner must take in an incompatible mode
				for _, h := range pt.Held {
					if md, ok := facts[ri].acqs[h.M]; ok && incompat(h.Mode, md) {
						p.Verdict = "excluded"
						p.Why = "outer holds " + ex.mutexes[h.M] + ":" + h.Mode + ", inner acquires it in mode " + md
					}
				}
				if p.Verdict == "" {
					// stale read-then-write: read of l before the point, write of l after it, inner writes l
					var locs []string
					for _, a := range th.Accs {
						if a.Kind != "read" || a.Pos >= pt.Pos || !facts[ri].writes[a.key] {
							continue
						}
						for _, b := range th.Accs {
							if b.key == a.key && b.Kind != "read" && b.Pos > pt.Pos {
								n := ex.locs[a.Loc]
								dup := false
								for _, x := range locs {
									if x == n {
										dup = true
									}
								}
								if !dup {
									locs = append(locs, n)
								}
							}
						}
					}
					if len(locs) > 0 {
						sort.Strings(locs)
						p.Verdict = "stale"
						p.Why = "outer reads " + strings.Join(locs, ", ") + " before the call and writes it after; inner writes it in between"
					} else {
						p.Verdict = "safe"
						p.Why = "no location is read before and written after the call by the outer and written by the inner"
					}
				}
				tb.Placements = append(tb.Placements, p)
				if p.Verdict == "stale" && !seen[p.Signature] {
					seen[p.Signature] = true
					tb.KnownPlacements = append(tb.KnownPlacements, p)
				}
			}
		}
	}
	if tb.Placements == nil {
		tb.Placements = []Placement{}
	}
	if tb.KnownPlacements == nil {
		tb.KnownPlacements = []Placement{}
	}
}
