package main

import (
	"go/ast"
	"go/token"
	"strconv"
)

// Shape of Blockchain.verifyNeighborBlockchain, the only place where the node hands work to a goroutine and
// waits for it with a timeout.  The worker body is compiled to a flat program
//
//	getBlocks | send | ret | brErr else | jmp target
//
// (`if err != nil {A} else {B}` ↦ brErr Lelse; A; jmp Lend; Lelse: B; Lend:) which Conc/Fetch.lean explores
// against the receiver's select for every outcome of each error test and every schedule.

type WI struct {
	Op     string `json:"op"`
	Target int    `json:"target,omitempty"`
	Line   int    `json:"line"`
}

type FetchShape struct {
	Method     string `json:"method"`
	File       string `json:"file"`
	Line       int    `json:"line"`
	Chan       string `json:"chan"`
	Cap        int    `json:"cap"`
	DeferClose bool   `json:"deferClose"`
	Worker     []WI   `json:"worker"`
	RecvArm    bool   `json:"recvArm"`
	TimeoutArm bool   `json:"timeoutArm"`
}

func hasChanOp(n ast.Node) bool {
	found := false
	ast.Inspect(n, func(x ast.Node) bool {
		switch x := x.(type) {
		case *ast.SendStmt, *ast.GoStmt, *ast.SelectStmt:
			found = true
		case *ast.UnaryExpr:
			if x.Op == token.ARROW {
				found = true
			}
		case *ast.CallExpr:
			if identName(x.Fun) == "close" {
				found = true
			}
		}
		return true
	})
	return found
}

func callsMethod(n ast.Node, name string) bool {
	found := false
	ast.Inspect(n, func(x ast.Node) bool {
		if c, ok := x.(*ast.CallExpr); ok {
			if s, ok := c.Fun.(*ast.SelectorExpr); ok && s.Sel.Name == name {
				found = true
			}
		}
		return true
	})
	return found
}

func (ex *Extractor) fetchShape() *FetchShape {
	comp := ex.comps["Blockchain"]
	fd := comp.Methods["verifyNeighborBlockchain"]
	if fd == nil {
		failf("%s: Blockchain.verifyNeighborBlockchain not found (fetch shape)", comp.Rel)
	}
	file, line := ex.pos(fd.Pos())
	fs := &FetchShape{Method: "Blockchain.verifyNeighborBlockchain", File: file, Line: line, Cap: -1}
	bad := func(n ast.Node, msg string) {
		_, l := ex.pos(n.Pos())
		failf("%s:%d: fetch shape of verifyNeighborBlockchain: %s", file, l, msg)
	}
	var worker *ast.FuncLit
	recvSeen := false
	for _, s := range fd.Body.List {
		switch s := s.(type) {
		case *ast.DeclStmt:
			if hasChanOp(s) {
				bad(s, "channel operation in a declaration")
			}
		case *ast.AssignStmt:
			if len(s.Rhs) == 1 {
				if call, ok := s.Rhs[0].(*ast.CallExpr); ok && identName(call.Fun) == "make" && len(call.Args) >= 1 {
					if _, ok := call.Args[0].(*ast.ChanType); ok {
						if fs.Chan != "" {
							bad(s, "second channel")
						}
						fs.Chan = identName(s.Lhs[0])
						fs.Cap = 0
						if len(call.Args) > 1 {
							bl, ok := call.Args[1].(*ast.BasicLit)
							if !ok {
								bad(s, "channel capacity is not a literal")
							}
							fs.Cap, _ = strconv.Atoi(bl.Value)
						}
						continue
					}
				}
			}
			if hasChanOp(s) {
				bad(s, "channel operation outside the select")
			}
		case *ast.GoStmt:
			fl, ok := s.Call.Fun.(*ast.FuncLit)
			if !ok || worker != nil {
				bad(s, "unexpected go statement")
			}
			worker = fl
		case *ast.SelectStmt:
			if recvSeen {
				bad(s, "second receive")
			}
			recvSeen = true
			for _, cl := range s.Body.List {
				cc := cl.(*ast.CommClause)
				if cc.Comm == nil {
					bad(cc, "select with a default arm is not understood")
				}
				var rx ast.Expr
				switch cm := cc.Comm.(type) {
				case *ast.AssignStmt:
					rx = cm.Rhs[0]
				case *ast.ExprStmt:
					rx = cm.X
				default:
					bad(cc, "select arm is not a receive")
				}
				ue, ok := rx.(*ast.UnaryExpr)
				if !ok || ue.Op != token.ARROW {
					bad(cc, "select arm is not a receive")
				}
				if identName(ue.X) == fs.Chan && fs.Chan != "" {
					fs.RecvArm = true
				} else if call, ok := ue.X.(*ast.CallExpr); ok {
					if sel, ok := call.Fun.(*ast.SelectorExpr); ok && identName(sel.X) == "time" && sel.Sel.Name == "After" {
						fs.TimeoutArm = true
					} else {
						bad(cc, "select arm receives from an unknown source")
					}
				} else {
					bad(cc, "select arm receives from an unknown channel")
				}
				// every arm must leave the function: the receiver never receives twice
				if len(cc.Body) == 0 {
					bad(cc, "select arm falls through")
				}
				if _, ok := cc.Body[len(cc.Body)-1].(*ast.ReturnStmt); !ok {
					bad(cc, "select arm does not end in return")
				}
				for _, b := range cc.Body {
					if hasChanOp(b) {
						bad(b, "channel operation inside a select arm")
					}
				}
			}
		case *ast.ExprStmt, *ast.ReturnStmt:
			// a plain `res := <-ch` / `return <-ch` receiver
			if hasChanOp(s) {
				if recvSeen {
					bad(s, "second receive")
				}
				recvSeen = true
				fs.RecvArm = true
			}
		default:
			if hasChanOp(s) {
				bad(s, "channel operation in an unexpected statement")
			}
		}
	}
	if fs.Chan == "" || worker == nil || !recvSeen {
		failf("%s: verifyNeighborBlockchain no longer has the channel / goroutine / receive shape", file)
	}
	gotBlocks := false
	var conv func(list []ast.Stmt, top bool)
	emit := func(op string, n ast.Node) int {
		_, l := ex.pos(n.Pos())
		fs.Worker = append(fs.Worker, WI{Op: op, Line: l})
		return len(fs.Worker) - 1
	}
	conv = func(list []ast.Stmt, top bool) {
		for _, s := range list {
			switch s := s.(type) {
			case *ast.DeferStmt:
				if !top || identName(s.Call.Fun) != "close" || len(s.Call.Args) != 1 || identName(s.Call.Args[0]) != fs.Chan {
					bad(s, "unsupported defer in the worker")
				}
				fs.DeferClose = true
			case *ast.SendStmt:
				if identName(s.Chan) != fs.Chan {
					bad(s, "send on another channel")
				}
				emit("send", s)
			case *ast.ReturnStmt:
				emit("ret", s)
			case *ast.IfStmt:
				if s.Init != nil && hasChanOp(s.Init) {
					bad(s, "channel operation in if-init")
				}
				be, ok := s.Cond.(*ast.BinaryExpr)
				if !ok || be.Op != token.NEQ || identName(be.Y) != "nil" {
					bad(s, "worker branches on something other than `x != nil`")
				}
				br := emit("brErr", s)
				conv(s.Body.List, false)
				if s.Else != nil {
					j := emit("jmp", s)
					fs.Worker[br].Target = len(fs.Worker)
					switch e := s.Else.(type) {
					case *ast.BlockStmt:
						conv(e.List, false)
					case *ast.IfStmt:
						conv([]ast.Stmt{e}, false)
					}
					fs.Worker[j].Target = len(fs.Worker)
				} else {
					fs.Worker[br].Target = len(fs.Worker)
				}
			case *ast.AssignStmt, *ast.ExprStmt, *ast.DeclStmt:
				if hasChanOp(s) {
					bad(s, "channel operation in an unexpected worker statement")
				}
				if callsMethod(s, "GetBlocks") {
					if gotBlocks || !top {
						bad(s, "GetBlocks called twice or conditionally")
					}
					gotBlocks = true
					emit("getBlocks", s)
				}
			default:
				bad(s, "unsupported statement in the worker goroutine")
			}
		}
	}
	conv(worker.Body.List, true)
	if !gotBlocks {
		failf("%s: the worker goroutine does not call GetBlocks", file)
	}
	return fs
}
