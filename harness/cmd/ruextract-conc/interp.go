package main

// Abstract interpreter over go/ast for the six anchored component files.
//
// It is deliberately syntactic and fails closed: every statement / expression form it does not know is
// an error.  Values are tracked only as far as the lock/access/escape tables need:
//
//	VOpaque   scalars, strings, pointers to ledger objects, results of external calls
//	VFresh    a slice/map allocated by this thread (make, literal, nil var, copy helper); Elem = join of
//	          what was stored in it (so that an alias stored in a fresh map is found again)
//	VAlias    the SAME slice/map reference as live field T.F at nesting level L (0 = the field's own
//	          header value: indexing it touches the backing store `T.F[]`, level 1 `T.F[][]`, ...)
//	VInst     an instance of a component: Live (the node's singleton) or local (created by this thread:
//	          &T{}, new(T), a constructor, the result of Copy()); local instances carry their fields
//	VMutex    a sync.(RW)Mutex field (live or local)
//	VChan     a channel made in the function
//	VFunc     a function literal (closure over the defining environment)
import (
	"fmt"
	"go/ast"
	"go/token"
	"sort"
	"strconv"
	"strings"
)

type xerr struct{ msg string }

func failf(format string, a ...interface{}) { panic(xerr{fmt.Sprintf(format, a...)}) }

// ------------------------------------------------------------------ component model

type FieldKind int

const (
	fkMutex FieldKind = iota
	fkData            // slice / map / scalar owned by the component
	fkIface           // interface-typed collaborator bound by the constructor wiring
	fkExt             // external collaborator (logger, settings, clock, ticker, ...): calls are opaque
	fkFunc            // function value (Engine.function)
)

type Field struct {
	Name  string
	Kind  FieldKind
	Depth int    // nesting depth of slice/map types (0 = scalar)
	Type  string // rendered type
	Pos   token.Pos
}

type Comp struct {
	Name    string
	Rel     string // repo-relative file
	PkgDir  string
	File    *ast.File
	Fields  map[string]*Field
	Order   []string
	Methods map[string]*ast.FuncDecl
	MOrder  []string
	Private bool // one instance per root (Engine)
}

type ChanInfo struct {
	Name  string
	Cap   int
	Timer bool
}

type VKind int

const (
	VOpaque VKind = iota
	VFresh
	VAlias
	VInst
	VMutex
	VChan
	VFunc
)

type aref struct {
	T, F string
	L    int
}

type Val struct {
	K      VKind
	T, F   string // mutex: component and field; inst: component
	As     []aref // alias: the live stores this value may share (T.F at level L)
	Via    string // opaque: derived from an element of live storage (for foreign escape facts)
	Live   bool   // inst / mutex
	Fields map[string]*Val
	Elem   *Val
	Ch     *ChanInfo
	Fn     *ast.FuncLit
	Env    *Env
	Ext    string // opaque: name of the external collaborator kind (for ext events)
}

var opaque = &Val{K: VOpaque}

func fresh() *Val { return &Val{K: VFresh} }

func (v *Val) String() string {
	if v == nil {
		return "nil"
	}
	switch v.K {
	case VOpaque:
		return "opaque"
	case VFresh:
		return "fresh"
	case VAlias:
		return "alias(" + v.refName() + ")"
	case VInst:
		return fmt.Sprintf("inst(%s,live=%v)", v.T, v.Live)
	case VMutex:
		return fmt.Sprintf("mutex(%s.%s,live=%v)", v.T, v.F, v.Live)
	case VChan:
		return "chan(" + v.Ch.Name + ")"
	case VFunc:
		return "func"
	}
	return "?"
}

func (v *Val) refName() string {
	var names []string
	for _, r := range v.As {
		names = append(names, locName(r.T, r.F, r.L))
	}
	return strings.Join(names, "+")
}

func sameRefs(a, b *Val) bool {
	for _, x := range a.As {
		for _, y := range b.As {
			if x.T == y.T && x.F == y.F {
				return true
			}
		}
	}
	return false
}

func unionRefs(a, b []aref) []aref {
	out := append([]aref(nil), a...)
	for _, y := range b {
		dup := false
		for _, x := range out {
			if x == y {
				dup = true
			}
		}
		if !dup {
			out = append(out, y)
		}
	}
	return out
}

// join of two abstract values (may-alias: an alias wins over fresh/opaque; alias sets are united)
func join(a, b *Val) *Val {
	if a == nil {
		return b
	}
	if b == nil {
		return a
	}
	if a.K == VAlias {
		if b.K == VAlias {
			return &Val{K: VAlias, As: unionRefs(a.As, b.As)}
		}
		if b.K == VFresh && b.Elem != nil && b.Elem.K == VAlias {
			return a
		}
		return a
	}
	if b.K == VAlias {
		return b
	}
	if a.K == VInst || a.K == VChan || a.K == VFunc || a.K == VMutex {
		return a
	}
	if b.K == VInst || b.K == VChan || b.K == VFunc || b.K == VMutex {
		return b
	}
	if a.K == VFresh {
		if b.K == VFresh {
			return &Val{K: VFresh, Elem: join(a.Elem, b.Elem)}
		}
		return a
	}
	if b.K == VFresh {
		return b
	}
	return a
}

type Env struct {
	vars   map[string]*Val
	parent *Env
}

func newEnv(p *Env) *Env { return &Env{map[string]*Val{}, p} }
func (e *Env) get(n string) (*Val, bool) {
	for x := e; x != nil; x = x.parent {
		if v, ok := x.vars[n]; ok {
			return v, true
		}
	}
	return nil, false
}
func (e *Env) set(n string, v *Val) {
	for x := e; x != nil; x = x.parent {
		if _, ok := x.vars[n]; ok {
			x.vars[n] = v
			return
		}
	}
	e.vars[n] = v
}
func (e *Env) def(n string, v *Val) { e.vars[n] = v }

// ------------------------------------------------------------------ events

type Event struct {
	Op     string `json:"op"` // acq rel acc call spawn send recv close ext
	M      int    `json:"m,omitempty"`
	Mode   string `json:"mode,omitempty"`
	Kind   string `json:"kind,omitempty"` // read write append
	Loc    int    `json:"loc,omitempty"`
	Callee int    `json:"callee,omitempty"`
	Name   string `json:"name,omitempty"` // channel / external call name
	Line   int    `json:"line"`
	File   string `json:"file,omitempty"`
}

type heldLock struct {
	m      int
	mode   string
	guard  string // "" = unconditional
	active bool   // currently counted as held (guarded locks are inactive outside their guard)
	frame  int
}

type deferred struct {
	m    int
	mode string
	ch   *ChanInfo // defer close(ch)
}

type frame struct {
	id      int
	defers  []deferred
	rets    [][]*Val
	local   bool // frame of an inlined callee (helper or method of a local instance)
	fn      string
	results int
}

type Escape struct {
	Loc    string `json:"loc"`
	Method string `json:"method"`
	How    string `json:"how"`
	Line   int    `json:"line"`
	File   string `json:"file"`
}

type MethodInfo struct {
	Id      int
	Name    string // "T.m", "T.m$go1", "Controller.HandleX"
	Comp    string
	File    string
	Line    int
	Events  []Event
	Ret     []*Val
	done    bool
	running bool
	Child   bool
}

type Extractor struct {
	fset      *token.FileSet
	repo      string
	comps     map[string]*Comp
	compOrder []string
	pkgFuncs  map[string]map[string]*ast.FuncDecl // pkgDir -> helper functions defined in anchored files
	pkgFile   map[*ast.FuncDecl]*Comp
	wiring    map[string]map[string]string // comp -> iface field -> concrete comp
	mutexes   []string
	mutexId   map[string]int
	locs      []string
	locId     map[string]int
	locPriv   map[int]bool
	methods   []*MethodInfo
	methodId  map[string]int
	escapes   []Escape
	escSeen   map[string]bool
	callSites map[string]int // resolved call sites per "T.m"
	notes     []string
}

func (ex *Extractor) mutex(name string) int {
	if id, ok := ex.mutexId[name]; ok {
		return id
	}
	failf("unknown mutex %s", name)
	return -1
}

func locName(t, f string, level int) string {
	return t + "." + f + strings.Repeat("[]", level)
}

func (ex *Extractor) loc(t, f string, level int) int {
	n := locName(t, f, level)
	if id, ok := ex.locId[n]; ok {
		return id
	}
	failf("unknown location %s", n)
	return -1
}

func (ex *Extractor) pos(p token.Pos) (string, int) {
	pp := ex.fset.Position(p)
	rel := strings.TrimPrefix(pp.Filename, ex.repo+"/")
	return rel, pp.Line
}

func (ex *Extractor) escape(loc, method, how string, p token.Pos) {
	file, line := ex.pos(p)
	key := loc + "|" + method + "|" + how
	if ex.escSeen[key] {
		return
	}
	ex.escSeen[key] = true
	ex.escapes = append(ex.escapes, Escape{loc, method, how, line, file})
}

// ------------------------------------------------------------------ interpretation context

type Ctx struct {
	ex      *Extractor
	mi      *MethodInfo // events go here
	comp    *Comp       // component whose file we are reading (for helper lookup and imports)
	imports map[string]bool
	held    []*heldLock
	guards  []string
	frames  []*frame
	depth   int
	cond    int // nesting depth of conditional code (if / loop bodies)
	// when inlining a callee whose source lines are elsewhere, events are attributed to the call site
	siteFile string
	siteLine int
	goCount  *int
}

func (c *Ctx) cur() *frame { return c.frames[len(c.frames)-1] }

func (c *Ctx) where(p token.Pos) (string, int) {
	if c.siteLine != 0 {
		return c.siteFile, c.siteLine
	}
	return c.ex.pos(p)
}

func (c *Ctx) emit(e Event, p token.Pos) {
	e.File, e.Line = c.where(p)
	c.mi.Events = append(c.mi.Events, e)
}

// access to the live stores behind alias v, `delta` levels below the alias
func (c *Ctx) access(kind string, v *Val, delta int, p token.Pos) {
	for _, r := range v.As {
		if r.L+delta <= c.ex.comps[r.T].Fields[r.F].Depth {
			c.emit(Event{Op: "acc", Kind: kind, Loc: c.ex.loc(r.T, r.F, r.L+delta)}, p)
		}
	}
}

func (c *Ctx) fail(n ast.Node, format string, a ...interface{}) {
	file, line := c.ex.pos(n.Pos())
	failf("%s:%d: in %s: %s", file, line, c.mi.Name, fmt.Sprintf(format, a...))
}


// deepRead: a value handed to code we do not see (json.Marshal, fmt, ledger constructors, a live callee):
// every level below the alias is read.
func (c *Ctx) deepRead(v *Val, p token.Pos) {
	if v == nil {
		return
	}
	switch v.K {
	case VAlias:
		for d := 1; d <= 3; d++ {
			c.access("read", v, d, p)
		}
	case VFresh:
		c.deepRead(v.Elem, p)
	}
}

// elem: the value obtained by indexing / ranging over v (emits the read of the backing store)
func (c *Ctx) elem(v *Val, p token.Pos) *Val {
	switch v.K {
	case VAlias:
		c.access("read", v, 1, p)
		var deeper []aref
		for _, r := range v.As {
			if r.L+1 < c.ex.comps[r.T].Fields[r.F].Depth {
				deeper = append(deeper, aref{r.T, r.F, r.L + 1})
			}
		}
		if len(deeper) > 0 {
			return &Val{K: VAlias, As: deeper}
		}
		return &Val{K: VOpaque, Via: v.refName() + "[]"}
	case VFresh:
		if v.Elem != nil {
			return v.Elem
		}
		return opaque
	}
	return opaque
}

// store: a[i] = x / delete(a, i) / in-place element write
func (c *Ctx) store(v *Val, x *Val, p token.Pos) {
	switch v.K {
	case VAlias:
		c.access("write", v, 1, p)
		if x != nil && x.K == VAlias && !sameRefs(x, v) {
			c.ex.escape(x.refName(), c.mi.Name, "stored into "+v.refName()+"[]", p)
		}
	case VFresh:
		if x != nil {
			v.Elem = join(v.Elem, x)
		}
	}
}

// ------------------------------------------------------------------ locks

func (c *Ctx) activeGuard(g string) bool {
	for _, x := range c.guards {
		if x == g {
			return true
		}
	}
	return false
}

func (c *Ctx) acquire(m int, mode string, n ast.Node) {
	for _, h := range c.held {
		if h.m == m && h.active {
			// re-entrant acquisition inside ONE method: keep it visible (the lock-order check reports the self edge)
			break
		}
	}
	guard := ""
	if len(c.guards) > 0 {
		guard = c.guards[len(c.guards)-1]
	}
	c.held = append(c.held, &heldLock{m: m, mode: mode, guard: guard, active: true, frame: c.cur().id})
	c.emit(Event{Op: "acq", M: m, Mode: mode}, n.Pos())
}

func (c *Ctx) release(m int, mode string, n ast.Node, p token.Pos) {
	for i := len(c.held) - 1; i >= 0; i-- {
		h := c.held[i]
		if h.m == m {
			if h.mode != mode {
				c.fail(n, "mutex %s acquired in mode %s released in mode %s", c.ex.mutexes[m], h.mode, mode)
			}
			if h.active {
				c.emit(Event{Op: "rel", M: m, Mode: mode}, p)
			}
			c.held = append(c.held[:i], c.held[i+1:]...)
			return
		}
	}
	c.fail(n, "release of mutex %s that is not held on this path", c.ex.mutexes[m])
}

// ------------------------------------------------------------------ function bodies

// runBody interprets a function body in a new frame; returns the joined return values.
func (c *Ctx) runBody(name string, body *ast.BlockStmt, env *Env, local bool, results int) []*Val {
	fr := &frame{id: len(c.frames) + 1000*c.depth, local: local, fn: name, results: results}
	c.frames = append(c.frames, fr)
	heldBefore := len(c.held)
	c.block(body.List, env)
	// function end: deferred actions in LIFO order
	for i := len(fr.defers) - 1; i >= 0; i-- {
		d := fr.defers[i]
		if d.ch != nil {
			c.emit(Event{Op: "close", Name: d.ch.Name}, body.Rbrace)
			continue
		}
		c.release(d.m, d.mode, body, body.Rbrace)
	}
	if len(c.held) != heldBefore {
		var names []string
		for _, h := range c.held[heldBefore:] {
			names = append(names, c.ex.mutexes[h.m])
		}
		failf("%s: function ends with mutexes still held and no deferred release: %v", name, names)
	}
	c.frames = c.frames[:len(c.frames)-1]
	out := make([]*Val, results)
	for i := range out {
		out[i] = opaque
	}
	first := true
	for _, r := range fr.rets {
		for i := 0; i < results && i < len(r); i++ {
			if first {
				out[i] = r[i]
			} else {
				out[i] = join(out[i], r[i])
			}
		}
		first = false
	}
	return out
}

func (c *Ctx) block(list []ast.Stmt, env *Env) {
	for _, s := range list {
		c.stmt(s, env)
	}
}

func identName(e ast.Expr) string {
	if id, ok := e.(*ast.Ident); ok {
		return id.Name
	}
	return ""
}

func (c *Ctx) stmt(s ast.Stmt, env *Env) {
	switch s := s.(type) {
	case *ast.BlockStmt:
		c.block(s.List, newEnv(env))
	case *ast.ExprStmt:
		c.eval(s.X, env)
	case *ast.AssignStmt:
		c.assign(s, env)
	case *ast.IncDecStmt:
		c.eval(s.X, env)
		c.writeTo(s.X, opaque, env, s)
	case *ast.DeclStmt:
		gd, ok := s.Decl.(*ast.GenDecl)
		if !ok {
			c.fail(s, "unsupported declaration")
		}
		for _, sp := range gd.Specs {
			switch sp := sp.(type) {
			case *ast.TypeSpec:
				// local type: nothing to do
			case *ast.ValueSpec:
				for i, n := range sp.Names {
					var v *Val
					if i < len(sp.Values) {
						v = c.eval(sp.Values[i], env)
					} else {
						v = c.zero(sp.Type)
					}
					env.def(n.Name, v)
				}
			default:
				c.fail(s, "unsupported declaration spec")
			}
		}
	case *ast.IfStmt:
		inner := newEnv(env)
		if s.Init != nil {
			c.stmt(s.Init, inner)
		}
		c.eval(s.Cond, inner)
		guard := identName(s.Cond)
		if guard != "" {
			c.enterGuard(guard, s)
		}
		c.cond++
		c.block(s.Body.List, newEnv(inner))
		if guard != "" {
			c.leaveGuard(guard, s)
		}
		if s.Else != nil {
			c.stmt(s.Else, inner)
		}
		c.cond--
	case *ast.ForStmt:
		inner := newEnv(env)
		if s.Init != nil {
			c.stmt(s.Init, inner)
		}
		if s.Cond != nil {
			c.eval(s.Cond, inner)
		}
		c.loopBody(s.Body, inner, s)
		if s.Post != nil {
			c.stmt(s.Post, inner)
		}
	case *ast.RangeStmt:
		inner := newEnv(env)
		x := c.eval(s.X, inner)
		var ev *Val = opaque
		if x.K == VChan {
			c.emit(Event{Op: "recv", Name: x.Ch.Name}, s.Pos())
		} else {
			ev = c.elem(x, s.X.Pos())
		}
		if s.Key != nil && identName(s.Key) != "_" {
			if s.Tok == token.DEFINE {
				inner.def(identName(s.Key), opaque)
			}
		}
		if s.Value != nil && identName(s.Value) != "_" {
			if s.Tok == token.DEFINE {
				inner.def(identName(s.Value), ev)
			} else {
				c.writeTo(s.Value, ev, inner, s)
			}
		}
		c.loopBody(s.Body, inner, s)
	case *ast.ReturnStmt:
		fr := c.cur()
		var vals []*Val
		for _, r := range s.Results {
			v := c.eval(r, env)
			vals = append(vals, v)
		}
		if len(s.Results) == 1 && fr.results > 1 {
			// return f() with a multi-valued f: opaque
			vals = make([]*Val, fr.results)
			for i := range vals {
				vals[i] = opaque
			}
		}
		fr.rets = append(fr.rets, vals)
		if len(c.frames) == 1 && !c.mi.Child {
			for _, v := range vals {
				if v == nil {
					continue
				}
				if v.K == VAlias {
					c.ex.escape(v.refName(), c.mi.Name, "returned without copy", s.Pos())
				} else if v.K == VOpaque && strings.Contains(v.Via, "()") {
					c.ex.escape(v.Via, c.mi.Name, "returned without copy (internal slice of a ledger object)", s.Pos())
				}
			}
		}
		c.checkReturnLocks(s)
	case *ast.BranchStmt:
		if s.Tok != token.CONTINUE && s.Tok != token.BREAK {
			c.fail(s, "unsupported branch statement %s", s.Tok)
		}
		if s.Label != nil {
			c.fail(s, "labelled branch")
		}
	case *ast.DeferStmt:
		c.deferStmt(s, env)
	case *ast.GoStmt:
		c.goStmt(s, env)
	case *ast.SendStmt:
		ch := c.eval(s.Chan, env)
		c.eval(s.Value, env)
		if ch.K != VChan {
			c.fail(s, "send on a channel that was not made in this function")
		}
		c.emit(Event{Op: "send", Name: ch.Ch.Name}, s.Pos())
	case *ast.SelectStmt:
		c.cond++
		for _, cl := range s.Body.List {
			cc := cl.(*ast.CommClause)
			inner := newEnv(env)
			if cc.Comm != nil {
				c.stmt(cc.Comm, inner)
			}
			c.block(cc.Body, inner)
		}
		c.cond--
	case *ast.EmptyStmt:
	default:
		c.fail(s, "unsupported statement %T", s)
	}
}

// A loop body is interpreted twice so that aliases carried around the loop are seen; events of the
// second pass are dropped when they repeat the first (the tables are sets of facts per method).
func (c *Ctx) loopBody(body *ast.BlockStmt, env *Env, n ast.Node) {
	c.cond++
	defer func() { c.cond-- }()
	heldBefore := len(c.held)
	start := len(c.mi.Events)
	c.block(body.List, newEnv(env))
	if len(c.held) != heldBefore {
		c.fail(n, "mutex acquired in a loop body and not released in the same iteration")
	}
	mid := len(c.mi.Events)
	c.block(body.List, newEnv(env))
	if len(c.held) != heldBefore {
		c.fail(n, "mutex acquired in a loop body and not released in the same iteration")
	}
	// keep only events of the second pass that are new
	first := c.mi.Events[start:mid]
	second := append([]Event(nil), c.mi.Events[mid:]...)
	same := len(first) == len(second)
	if same {
		for i := range first {
			if first[i] != second[i] {
				same = false
				break
			}
		}
	}
	if same {
		c.mi.Events = c.mi.Events[:mid]
	}
}

func (c *Ctx) enterGuard(g string, n ast.Node) {
	c.guards = append(c.guards, g)
	// a lock acquired under the same guard earlier (with a deferred release) is held again here
	for _, h := range c.held {
		if h.guard == g && !h.active {
			h.active = true
			c.emit(Event{Op: "acq", M: h.m, Mode: h.mode}, n.Pos())
		}
	}
}

func (c *Ctx) leaveGuard(g string, n ast.Node) {
	c.guards = c.guards[:len(c.guards)-1]
	if c.activeGuard(g) {
		return
	}
	end := n.End()
	if is, ok := n.(*ast.IfStmt); ok {
		end = is.Body.Rbrace
	}
	for _, h := range c.held {
		if h.guard == g && h.active {
			// conditional critical section: outside the guard the lock is not known to be held
			h.active = false
			c.emit(Event{Op: "rel", M: h.m, Mode: h.mode}, end)
		}
	}
}

// a `return` while a lock taken with an explicit (not deferred) release is held would leak the lock
func (c *Ctx) checkReturnLocks(n ast.Node) {
	fr := c.cur()
	for _, h := range c.held {
		if h.frame != fr.id {
			continue
		}
		deferredRel := false
		for _, d := range fr.defers {
			if d.ch == nil && d.m == h.m {
				deferredRel = true
			}
		}
		if !deferredRel {
			c.fail(n, "return while mutex %s is held without a deferred release", c.ex.mutexes[h.m])
		}
	}
}

func (c *Ctx) zero(t ast.Expr) *Val {
	switch t := t.(type) {
	case *ast.ArrayType, *ast.MapType:
		return fresh()
	case *ast.SelectorExpr:
		if identName(t.X) == "sync" {
			return &Val{K: VMutex, T: "", F: "local", Live: false}
		}
	case *ast.StarExpr:
		_ = t
	}
	return opaque
}

func (c *Ctx) deferStmt(s *ast.DeferStmt, env *Env) {
	call := s.Call
	if id, ok := call.Fun.(*ast.Ident); ok && id.Name == "close" && len(call.Args) == 1 {
		ch := c.eval(call.Args[0], env)
		if ch.K != VChan {
			c.fail(s, "defer close of something that is not a local channel")
		}
		c.cur().defers = append(c.cur().defers, deferred{ch: ch.Ch})
		return
	}
	if sel, ok := call.Fun.(*ast.SelectorExpr); ok {
		if sel.Sel.Name == "Unlock" || sel.Sel.Name == "RUnlock" {
			mv := c.eval(sel.X, env)
			if mv.K != VMutex {
				c.fail(s, "deferred %s on something that is not a mutex field", sel.Sel.Name)
			}
			if !mv.Live {
				return
			}
			mode := "W"
			if sel.Sel.Name == "RUnlock" {
				mode = "R"
			}
			m := c.ex.mutex(mv.T + "." + mv.F)
			// the lock must be held now
			found := false
			for _, h := range c.held {
				if h.m == m {
					found = true
					if h.guard != "" {
						// conditional acquisition with deferred release: every later assignment to the guard must
						// be `guard = false` (checked in assign)
					}
				}
			}
			if !found {
				c.fail(s, "deferred unlock of %s which is not held", c.ex.mutexes[m])
			}
			c.cur().defers = append(c.cur().defers, deferred{m: m, mode: mode})
			return
		}
	}
	c.fail(s, "unsupported defer (only deferred Unlock/RUnlock/close are understood)")
}

func (c *Ctx) goStmt(s *ast.GoStmt, env *Env) {
	file, line := c.ex.pos(s.Pos())
	posKey := fmt.Sprintf("%s@%s:%d:%d", c.mi.Name, file, line, c.ex.fset.Position(s.Pos()).Column)
	var child *MethodInfo
	if id, ok := c.ex.methodId[posKey]; ok {
		// the same go statement interpreted again (second pass over a loop body): same child, events rebuilt
		child = c.ex.methods[id]
		child.Events = nil
	} else {
		*c.goCount++
		name := fmt.Sprintf("%s$go%d", c.mi.Name, *c.goCount)
		child = &MethodInfo{Id: len(c.ex.methods), Name: name, Comp: c.mi.Comp, File: file, Line: line, Child: true, done: true}
		c.ex.methods = append(c.ex.methods, child)
		c.ex.methodId[name] = child.Id
		c.ex.methodId[posKey] = child.Id
	}
	name := child.Name
	cc := &Ctx{ex: c.ex, mi: child, comp: c.comp, imports: c.imports, depth: c.depth, goCount: c.goCount}
	// arguments are evaluated by the parent
	var args []*Val
	for _, a := range s.Call.Args {
		args = append(args, c.eval(a, env))
	}
	switch fn := s.Call.Fun.(type) {
	case *ast.FuncLit:
		cenv := newEnv(env)
		i := 0
		for _, p := range fn.Type.Params.List {
			for _, n := range p.Names {
				if i < len(args) {
					cenv.def(n.Name, args[i])
				} else {
					cenv.def(n.Name, opaque)
				}
				i++
			}
		}
		cc.runBody(name, fn.Body, cenv, false, 0)
	case *ast.SelectorExpr:
		// go x.m(args): the child is exactly that call
		cenv := newEnv(env)
		var idents []ast.Expr
		for i := range s.Call.Args {
			n := "$arg" + strconv.Itoa(i)
			cenv.def(n, args[i])
			idents = append(idents, ast.NewIdent(n))
		}
		call := &ast.CallExpr{Fun: fn, Args: idents, Lparen: s.Call.Lparen, Rparen: s.Call.Rparen}
		fr := &frame{id: 1, fn: name}
		cc.frames = append(cc.frames, fr)
		cc.evalCall(call, cenv, s.Call.Pos())
		cc.frames = cc.frames[:0]
	default:
		c.fail(s, "unsupported go statement")
	}
	if len(cc.held) != 0 {
		c.fail(s, "spawned function ends with a mutex held")
	}
	c.emit(Event{Op: "spawn", Callee: child.Id}, s.Pos())
}

// ------------------------------------------------------------------ assignments

func (c *Ctx) assign(s *ast.AssignStmt, env *Env) {
	if s.Tok != token.ASSIGN && s.Tok != token.DEFINE {
		// x op= y : read and write x
		if len(s.Lhs) != 1 || len(s.Rhs) != 1 {
			c.fail(s, "unsupported compound assignment")
		}
		c.eval(s.Rhs[0], env)
		c.eval(s.Lhs[0], env)
		c.writeTo(s.Lhs[0], opaque, env, s)
		return
	}
	var vals []*Val
	if len(s.Rhs) == 1 && len(s.Lhs) > 1 {
		vals = c.evalMulti(s.Rhs[0], env, len(s.Lhs))
	} else {
		if len(s.Rhs) != len(s.Lhs) {
			c.fail(s, "assignment count mismatch")
		}
		for _, r := range s.Rhs {
			vals = append(vals, c.eval(r, env))
		}
	}
	for i, l := range s.Lhs {
		if id, ok := l.(*ast.Ident); ok {
			if id.Name == "_" {
				continue
			}
			c.guardAssignCheck(id.Name, s.Rhs, i, s)
			if s.Tok == token.DEFINE {
				if _, exists := env.vars[id.Name]; !exists {
					env.def(id.Name, vals[i])
					continue
				}
			}
			if old, ok := env.get(id.Name); ok {
				if c.cond > 0 && old != nil && old.K == VAlias {
					env.set(id.Name, join(old, vals[i])) // assignment on one branch only: may still be the old alias
				} else {
					env.set(id.Name, vals[i])
				}
			} else {
				env.def(id.Name, vals[i])
			}
			continue
		}
		c.writeTo(l, vals[i], env, s)
	}
}

// a guard variable of a conditionally held lock may only be reset to false
func (c *Ctx) guardAssignCheck(name string, rhs []ast.Expr, i int, n ast.Node) {
	for _, h := range c.held {
		if h.guard == name {
			if i < len(rhs) && identName(rhs[i]) == "false" {
				continue
			}
			c.fail(n, "guard variable %s of a conditionally held mutex is reassigned to something other than false", name)
		}
	}
}

// writeTo handles non-identifier assignment targets: x.f, a[i], a[i][j], *p
func (c *Ctx) writeTo(l ast.Expr, v *Val, env *Env, n ast.Node) {
	switch l := l.(type) {
	case *ast.Ident:
		if l.Name != "_" {
			env.set(l.Name, v)
		}
	case *ast.SelectorExpr:
		x := c.eval(l.X, env)
		if x.K == VInst {
			comp := c.ex.comps[x.T]
			if comp == nil {
				// pseudo instance (controller): ignore
				return
			}
			f := comp.Fields[l.Sel.Name]
			if f == nil {
				c.fail(l, "unknown field %s.%s", x.T, l.Sel.Name)
			}
			if !x.Live {
				if x.Fields == nil {
					x.Fields = map[string]*Val{}
				}
				x.Fields[l.Sel.Name] = v
				return
			}
			switch f.Kind {
			case fkData:
				c.emit(Event{Op: "acc", Kind: "write", Loc: c.ex.loc(x.T, f.Name, 0)}, l.Pos())
				if v != nil && v.K == VAlias && !sameRefs(v, &Val{As: []aref{{x.T, f.Name, 0}}}) {
					c.ex.escape(v.refName(), c.mi.Name, "stored into "+x.T+"."+f.Name, l.Pos())
				}
				c.detachOnSwap(x.T, f.Name, v, env)
			default:
				c.fail(l, "assignment to the wiring/mutex field %s.%s of the live instance outside its constructor", x.T, f.Name)
			}
			return
		}
		// field of an opaque struct value: nothing shared
	case *ast.IndexExpr:
		a := c.eval(l.X, env)
		c.eval(l.Index, env)
		c.store(a, v, l.Pos())
	case *ast.StarExpr:
		c.eval(l.X, env)
	default:
		c.fail(n, "unsupported assignment target %T", l)
	}
}

// Swap-detach rule: `x := o.f ... o.f = <fresh>` inside one critical section of a W-held mutex makes the old
// container private to this thread (nobody else can reach it without a header read that conflicts with this
// write).  Only applied when a W lock of the same component is held.
func (c *Ctx) detachOnSwap(t, f string, v *Val, env *Env) {
	if v == nil || v.K != VFresh {
		return
	}
	wHeld := false
	for _, h := range c.held {
		if h.active && h.mode == "W" && strings.HasPrefix(c.ex.mutexes[h.m], t+".") {
			wHeld = true
		}
	}
	if !wHeld {
		return
	}
	for e := env; e != nil; e = e.parent {
		for k, x := range e.vars {
			if x == nil || x.K != VAlias {
				continue
			}
			var rest []aref
			hit := false
			for _, r := range x.As {
				if r.T == t && r.F == f && r.L == 0 {
					hit = true
				} else {
					rest = append(rest, r)
				}
			}
			if !hit {
				continue
			}
			if len(rest) == 0 {
				e.vars[k] = &Val{K: VFresh}
			} else {
				e.vars[k] = &Val{K: VAlias, As: rest}
			}
			c.ex.note(fmt.Sprintf("%s: local %s detached from %s.%s by the swap under the W lock", c.mi.Name, k, t, f))
		}
	}
}

func (ex *Extractor) note(s string) {
	for _, n := range ex.notes {
		if n == s {
			return
		}
	}
	ex.notes = append(ex.notes, s)
	sort.Strings(ex.notes)
}
