// ruextract-conc regenerates the concurrency tables of property C16 (and the fetch-protocol shape of C13)
// from the CURRENT sources of the node:
//
//	methods   per method of the six components, the ordered events
//	          acq m mode | rel m mode | acc read/write/append loc | call T.m | spawn child | send/recv/close ch | ext
//	          (`defer` resolved: a deferred Unlock releases at function end)
//	escapes   internal slices/maps returned, stored or handed out without copy
//	roots     the activities validatornode/main.go runs concurrently (4 engines + host handler goroutines)
//	          + exported methods nobody calls (assumed callable from any goroutine)
//	fetch     shape of Blockchain.verifyNeighborBlockchain (capacity, sends, returns, select arms, defer close)
//
// and derives from them (the Lean package re-derives and re-checks all of it):
//
//	knownRaces      the rows (location, method A, method B) whose accesses are reachable from two concurrently
//	                running roots, conflict, and hold no common mutex in incompatible modes
//	lockRank        a topological rank of the acquired-while-holding graph (or the cycle found)
//	placements      stale-read-then-write patterns per (outer root, collaborator call, inner root)
//
// Purely syntactic (go/ast of the standard library), deterministic, and FAIL CLOSED: a construct that is not
// understood inside an anchored file is an error (exit 1), never skipped.
//
// Usage: ruextract-conc --repo /repo --out lean/conc/Conc/Gen.lean --json lean/conc/gen/tables.json
package main

import (
	"crypto/sha256"
	"encoding/json"
	"flag"
	"fmt"
	"go/ast"
	"go/parser"
	"go/token"
	"os"
	"path/filepath"
	"sort"
	"strings"
)

var anchored = []struct{ rel, comp string }{
	{"validatornode/application/verification/blockchain.go", "Blockchain"},
	{"validatornode/application/verification/utxos_registry.go", "UtxosRegistry"},
	{"validatornode/application/verification/addresses_registry.go", "AddressesRegistry"},
	{"validatornode/application/validation/transactions_pool.go", "TransactionsPool"},
	{"validatornode/application/network/neighborhood.go", "Neighborhood"},
	{"validatornode/domain/clock/engine.go", "Engine"},
}

const (
	mainRel = "validatornode/main.go"
	nodeRel = "validatornode/presentation/node.go"
	hostRel = "validatornode/presentation/api/host.go"
)

type Root struct {
	Name    string `json:"name"`
	Kind    string `json:"kind"` // engine | handler | api
	Entries []int  `json:"entries"`
	Multi   bool   `json:"multi"`
	Inst    int    `json:"inst"`
	Desc    string `json:"desc"`
}

func main() {
	repo := flag.String("repo", "/repo", "repository root")
	out := flag.String("out", "", "Gen.lean output path (default stdout)")
	jsonOut := flag.String("json", "", "JSON twin of the tables")
	flag.Parse()
	defer func() {
		if r := recover(); r != nil {
			if xe, ok := r.(xerr); ok {
				fmt.Fprintln(os.Stderr, "ruextract-conc: "+xe.msg)
				os.Exit(1)
			}
			panic(r)
		}
	}()
	abs, err := filepath.Abs(*repo)
	if err != nil {
		failf("%v", err)
	}
	ex := &Extractor{fset: token.NewFileSet(), repo: abs, comps: map[string]*Comp{}, pkgFuncs: map[string]map[string]*ast.FuncDecl{},
		pkgFile: map[*ast.FuncDecl]*Comp{}, wiring: map[string]map[string]string{}, mutexId: map[string]int{},
		locId: map[string]int{}, locPriv: map[int]bool{}, methodId: map[string]int{}, escSeen: map[string]bool{},
		callSites: map[string]int{}}
	sources := ex.load()
	w := ex.readWiring()
	ex.analyseAll()
	roots := ex.buildRoots(w)
	tb := ex.tables(roots)
	tb.Fetch = ex.fetchShape()
	tb.Sources = sources
	lean := ex.renderLean(tb)
	if *out == "" {
		fmt.Print(lean)
	} else if err := os.WriteFile(*out, []byte(lean), 0o644); err != nil {
		failf("%v", err)
	}
	if *jsonOut != "" {
		b, err := json.MarshalIndent(tb, "", " ")
		if err != nil {
			failf("%v", err)
		}
		if err := os.MkdirAll(filepath.Dir(*jsonOut), 0o755); err != nil {
			failf("%v", err)
		}
		if err := os.WriteFile(*jsonOut, append(b, '\n'), 0o644); err != nil {
			failf("%v", err)
		}
	}
}

func (ex *Extractor) parse(rel string) *ast.File {
	f, err := parser.ParseFile(ex.fset, filepath.Join(ex.repo, rel), nil, parser.SkipObjectResolution)
	if err != nil {
		failf("cannot parse %s: %v", rel, err)
	}
	return f
}

type Source struct {
	File   string `json:"file"`
	Sha256 string `json:"sha256"`
}

func (ex *Extractor) sha(rel string) Source {
	b, err := os.ReadFile(filepath.Join(ex.repo, rel))
	if err != nil {
		failf("%v", err)
	}
	return Source{rel, fmt.Sprintf("%x", sha256.Sum256(b))}
}

func typeString(e ast.Expr) string {
	switch e := e.(type) {
	case *ast.Ident:
		return e.Name
	case *ast.SelectorExpr:
		return typeString(e.X) + "." + e.Sel.Name
	case *ast.StarExpr:
		return "*" + typeString(e.X)
	case *ast.ArrayType:
		return "[]" + typeString(e.Elt)
	case *ast.MapType:
		return "map[" + typeString(e.Key) + "]" + typeString(e.Value)
	case *ast.FuncType:
		return "func"
	case *ast.Ellipsis:
		return "..." + typeString(e.Elt)
	case *ast.InterfaceType:
		return "interface"
	case *ast.ChanType:
		return "chan " + typeString(e.Value)
	}
	return fmt.Sprintf("%T", e)
}

func typeDepth(e ast.Expr) int {
	switch e := e.(type) {
	case *ast.ArrayType:
		if e.Len != nil {
			return 0
		}
		return 1 + typeDepth(e.Elt)
	case *ast.MapType:
		return 1 + typeDepth(e.Value)
	}
	return 0
}

var scalarTypes = map[string]bool{"bool": true, "int": true, "int64": true, "uint64": true, "string": true,
	"time.Duration": true, "float64": true, "uint16": true, "int32": true, "uint32": true}

func classify(t ast.Expr) (FieldKind, int) {
	ts := typeString(t)
	switch {
	case ts == "sync.RWMutex" || ts == "sync.Mutex":
		return fkMutex, 0
	case typeDepth(t) > 0:
		return fkData, typeDepth(t)
	case scalarTypes[ts]:
		return fkData, 0
	case strings.HasPrefix(ts, "application.") && strings.HasSuffix(ts, "Manager"):
		return fkIface, 0
	case ts == "func":
		return fkFunc, 0
	}
	return fkExt, 0
}

// load parses the anchored files and builds the component model (fields, mutexes, locations, methods, helpers).
func (ex *Extractor) load() []Source {
	var sources []Source
	for _, a := range anchored {
		f := ex.parse(a.rel)
		sources = append(sources, ex.sha(a.rel))
		comp := &Comp{Name: a.comp, Rel: a.rel, PkgDir: filepath.Dir(a.rel), File: f, Fields: map[string]*Field{},
			Methods: map[string]*ast.FuncDecl{}, Private: a.comp == "Engine"}
		ex.comps[a.comp] = comp
		ex.compOrder = append(ex.compOrder, a.comp)
		if ex.pkgFuncs[comp.PkgDir] == nil {
			ex.pkgFuncs[comp.PkgDir] = map[string]*ast.FuncDecl{}
		}
		found := false
		for _, d := range f.Decls {
			switch d := d.(type) {
			case *ast.GenDecl:
				for _, sp := range d.Specs {
					ts, ok := sp.(*ast.TypeSpec)
					if !ok || ts.Name.Name != a.comp {
						continue
					}
					st, ok := ts.Type.(*ast.StructType)
					if !ok {
						failf("%s: %s is not a struct", a.rel, a.comp)
					}
					found = true
					for _, fl := range st.Fields.List {
						if len(fl.Names) == 0 {
							failf("%s: embedded field in %s is not understood", a.rel, a.comp)
						}
						for _, n := range fl.Names {
							k, depth := classify(fl.Type)
							comp.Fields[n.Name] = &Field{Name: n.Name, Kind: k, Depth: depth, Type: typeString(fl.Type), Pos: n.Pos()}
							comp.Order = append(comp.Order, n.Name)
						}
					}
				}
			case *ast.FuncDecl:
				if d.Body == nil {
					failf("%s: function %s without body", a.rel, d.Name.Name)
				}
				if d.Recv == nil {
					ex.pkgFuncs[comp.PkgDir][d.Name.Name] = d
					ex.pkgFile[d] = comp
					continue
				}
				rt := typeString(d.Recv.List[0].Type)
				if rt != "*"+a.comp {
					failf("%s: method %s has receiver %s (only pointer receivers of %s are understood)", a.rel, d.Name.Name, rt, a.comp)
				}
				comp.Methods[d.Name.Name] = d
				comp.MOrder = append(comp.MOrder, d.Name.Name)
				ex.pkgFile[d] = comp
			}
		}
		if !found {
			failf("%s: struct %s not found", a.rel, a.comp)
		}
	}
	for _, cn := range ex.compOrder {
		comp := ex.comps[cn]
		for _, fn := range comp.Order {
			f := comp.Fields[fn]
			switch f.Kind {
			case fkMutex:
				ex.mutexId[cn+"."+fn] = len(ex.mutexes)
				ex.mutexes = append(ex.mutexes, cn+"."+fn)
			case fkData:
				for l := 0; l <= f.Depth; l++ {
					n := locName(cn, fn, l)
					ex.locId[n] = len(ex.locs)
					if comp.Private {
						ex.locPriv[len(ex.locs)] = true
					}
					ex.locs = append(ex.locs, n)
				}
			}
		}
	}
	// pre-register every method so that ids follow declaration order
	for _, cn := range ex.compOrder {
		comp := ex.comps[cn]
		for _, mn := range comp.MOrder {
			file, line := ex.pos(comp.Methods[mn].Pos())
			mi := &MethodInfo{Id: len(ex.methods), Name: cn + "." + mn, Comp: cn, File: file, Line: line}
			ex.methodId[mi.Name] = mi.Id
			ex.methods = append(ex.methods, mi)
		}
	}
	return sources
}

func (ex *Extractor) newCtx(mi *MethodInfo, comp *Comp) *Ctx {
	n := 0
	return &Ctx{ex: ex, mi: mi, comp: comp, imports: importsOf(comp.File), goCount: &n}
}

// analyse interprets method T.m on the LIVE instance (memoised).
func (ex *Extractor) analyse(t, m string) *MethodInfo {
	mi := ex.methods[ex.methodId[t+"."+m]]
	if mi.done {
		return mi
	}
	if mi.running {
		failf("recursive call cycle through %s: not understood", mi.Name)
	}
	mi.running = true
	comp := ex.comps[t]
	fd := comp.Methods[m]
	c := ex.newCtx(mi, comp)
	env := newEnv(nil)
	if len(fd.Recv.List[0].Names) == 1 {
		env.def(fd.Recv.List[0].Names[0].Name, &Val{K: VInst, T: t, Live: true})
	}
	c.bindParams(fd, env, nil)
	results := 0
	if fd.Type.Results != nil {
		results = fd.Type.Results.NumFields()
	}
	mi.Ret = c.runBody(mi.Name, fd.Body, env, false, results)
	mi.running = false
	mi.done = true
	return mi
}

func (ex *Extractor) analyseAll() {
	for _, cn := range ex.compOrder {
		for _, mn := range ex.comps[cn].MOrder {
			ex.analyse(cn, mn)
		}
	}
}

// ------------------------------------------------------------------ wiring (validatornode/main.go, node.go, host.go, controllers)

type engineBinding struct {
	Comp, Method string
	Var          string
}

type handlerRoot struct {
	Controller string
	Method     string
	Info       *MethodInfo
}

type Wiring struct {
	Vars     map[string]string // main.go variable -> component
	Engines  []engineBinding
	Handlers []handlerRoot
}

func (ex *Extractor) readWiring() *Wiring {
	w := &Wiring{Vars: map[string]string{}}
	mainFile := ex.parse(mainRel)
	var create *ast.FuncDecl
	for _, d := range mainFile.Decls {
		if fd, ok := d.(*ast.FuncDecl); ok && fd.Name.Name == "createHostNode" {
			create = fd
		}
	}
	if create == nil {
		failf("%s: createHostNode not found", mainRel)
	}
	var hostArgs []ast.Expr
	var nodeArgs []ast.Expr
	engineVar := map[string]int{}
	ast.Inspect(create.Body, func(n ast.Node) bool {
		as, ok := n.(*ast.AssignStmt)
		if ok && len(as.Rhs) == 1 {
			if call, ok := as.Rhs[0].(*ast.CallExpr); ok {
				if sel, ok := call.Fun.(*ast.SelectorExpr); ok {
					fn := sel.Sel.Name
					lhs := identName(as.Lhs[0])
					if strings.HasPrefix(fn, "New") {
						if comp, ok := ex.comps[strings.TrimPrefix(fn, "New")]; ok && comp.Name != "Engine" {
							w.Vars[lhs] = comp.Name
							ex.bindConstructor(comp, fn, call, w)
						}
					}
					if fn == "NewEngine" {
						if len(call.Args) == 0 {
							failf("%s: NewEngine without arguments", mainRel)
						}
						s, ok := call.Args[0].(*ast.SelectorExpr)
						if !ok {
							failf("%s: first argument of NewEngine is not a method value", mainRel)
						}
						cv := identName(s.X)
						ct, ok := w.Vars[cv]
						if !ok {
							failf("%s: NewEngine(%s.%s): %s is not a known component variable", mainRel, cv, s.Sel.Name, cv)
						}
						if ex.comps[ct].Methods[s.Sel.Name] == nil {
							failf("%s: %s has no method %s", mainRel, ct, s.Sel.Name)
						}
						engineVar[lhs] = len(w.Engines)
						w.Engines = append(w.Engines, engineBinding{ct, s.Sel.Name, lhs})
						ex.callSites[ct+"."+s.Sel.Name]++
					}
					if fn == "NewHost" {
						hostArgs = call.Args
					}
				}
			}
		}
		if rs, ok := n.(*ast.ReturnStmt); ok {
			for _, r := range rs.Results {
				if call, ok := r.(*ast.CallExpr); ok {
					if sel, ok := call.Fun.(*ast.SelectorExpr); ok && sel.Sel.Name == "NewNode" {
						nodeArgs = call.Args
					}
				}
			}
		}
		return true
	})
	if hostArgs == nil {
		failf("%s: api.NewHost call not found", mainRel)
	}
	if nodeArgs == nil {
		failf("%s: presentation.NewNode call not found", mainRel)
	}
	// every engine must be handed to NewNode; node.go must start each with `go engine.Start()`
	started := map[string]bool{}
	for _, a := range nodeArgs[1:] {
		started[identName(a)] = true
	}
	for _, e := range w.Engines {
		if !started[e.Var] {
			failf("%s: engine %s is created but not handed to presentation.NewNode", mainRel, e.Var)
		}
	}
	nodeFile := ex.parse(nodeRel)
	startFound := false
	ast.Inspect(nodeFile, func(n ast.Node) bool {
		if g, ok := n.(*ast.GoStmt); ok {
			if sel, ok := g.Call.Fun.(*ast.SelectorExpr); ok && sel.Sel.Name == "Start" {
				startFound = true
				ex.callSites["Engine.Start"]++
			}
		}
		if call, ok := n.(*ast.CallExpr); ok {
			if sel, ok := call.Fun.(*ast.SelectorExpr); ok && (sel.Sel.Name == "Stop" || sel.Sel.Name == "Pulse") {
				ex.callSites["Engine."+sel.Sel.Name]++
			}
		}
		return true
	})
	if !startFound {
		failf("%s: `go engine.Start()` not found", nodeRel)
	}
	ex.readHandlers(w, hostArgs)
	return w
}

// bindConstructor interprets the constructor with the main.go arguments to learn which concrete component is
// behind each interface-typed field.
func (ex *Extractor) bindConstructor(comp *Comp, fn string, call *ast.CallExpr, w *Wiring) {
	fd := ex.pkgFuncs[comp.PkgDir][fn]
	if fd == nil {
		failf("%s: constructor %s not found", comp.Rel, fn)
	}
	var args []*Val
	for _, a := range call.Args {
		if t, ok := w.Vars[identName(a)]; ok && identName(a) != "" {
			args = append(args, &Val{K: VInst, T: t, Live: true})
		} else {
			args = append(args, opaque)
		}
	}
	scratch := &MethodInfo{Name: "constructor " + fn, Comp: comp.Name}
	c := ex.newCtx(scratch, comp)
	c.frames = append(c.frames, &frame{id: 0, fn: "wiring"})
	res := c.inlineFunc(fd, nil, args, call, call.Pos())
	if len(res) == 0 || res[0].K != VInst || res[0].T != comp.Name {
		failf("%s: constructor %s does not return a fresh %s", comp.Rel, fn, comp.Name)
	}
	ex.wiring[comp.Name] = map[string]string{}
	for _, f := range comp.Order {
		if comp.Fields[f].Kind != fkIface {
			continue
		}
		v := res[0].Fields[f]
		if v != nil && v.K == VInst && v.Live {
			ex.wiring[comp.Name][f] = v.T
		}
	}
	for _, e := range scratch.Events {
		if e.Op == "acc" || e.Op == "call" || e.Op == "acq" {
			failf("%s: constructor %s touches live state (%s): not understood", comp.Rel, fn, e.Op)
		}
	}
}

func (ex *Extractor) readHandlers(w *Wiring, hostArgs []ast.Expr) {
	hostFile := ex.parse(hostRel)
	var newHost *ast.FuncDecl
	registered := map[string]bool{}
	for _, d := range hostFile.Decls {
		fd, ok := d.(*ast.FuncDecl)
		if !ok {
			continue
		}
		if fd.Name.Name == "NewHost" {
			newHost = fd
		}
		ast.Inspect(fd, func(n ast.Node) bool {
			if sel, ok := n.(*ast.SelectorExpr); ok && strings.HasPrefix(sel.Sel.Name, "Handle") && strings.HasSuffix(sel.Sel.Name, "Request") {
				registered[sel.Sel.Name] = true
			}
			return true
		})
	}
	if newHost == nil {
		failf("%s: NewHost not found", hostRel)
	}
	// interface type -> concrete component, by position of the NewHost parameter
	byType := map[string]string{}
	i := 0
	for _, p := range newHost.Type.Params.List {
		for range p.Names {
			ts := typeString(p.Type)
			if strings.HasPrefix(ts, "application.") {
				if i >= len(hostArgs) {
					failf("%s: NewHost called with too few arguments", mainRel)
				}
				t, ok := w.Vars[identName(hostArgs[i])]
				if !ok {
					failf("%s: argument %d of NewHost is not a known component variable", mainRel, i)
				}
				if old, dup := byType[ts]; dup && old != t {
					failf("%s: two NewHost parameters of type %s: ambiguous", hostRel, ts)
				}
				byType[ts] = t
			}
			i++
		}
	}
	// controller packages imported by host.go
	var dirs []string
	for _, im := range hostFile.Imports {
		path := strings.Trim(im.Path.Value, `"`)
		if idx := strings.Index(path, "validatornode/presentation/api/"); idx >= 0 {
			dirs = append(dirs, path[idx:])
		}
	}
	sort.Strings(dirs)
	for _, dir := range dirs {
		entries, err := os.ReadDir(filepath.Join(ex.repo, dir))
		if err != nil {
			failf("%v", err)
		}
		for _, en := range entries {
			if en.IsDir() || !strings.HasSuffix(en.Name(), ".go") || strings.HasSuffix(en.Name(), "_test.go") {
				continue
			}
			rel := filepath.Join(dir, en.Name())
			f := ex.parse(rel)
			fields := map[string]map[string]string{} // controller -> field -> component
			for _, d := range f.Decls {
				gd, ok := d.(*ast.GenDecl)
				if !ok {
					continue
				}
				for _, sp := range gd.Specs {
					ts, ok := sp.(*ast.TypeSpec)
					if !ok {
						continue
					}
					st, ok := ts.Type.(*ast.StructType)
					if !ok {
						continue
					}
					fm := map[string]string{}
					for _, fl := range st.Fields.List {
						t := typeString(fl.Type)
						if comp, ok := byType[t]; ok {
							for _, n := range fl.Names {
								fm[n.Name] = comp
							}
						} else if strings.HasPrefix(t, "application.") && strings.HasSuffix(t, "Manager") {
							failf("%s: controller field of type %s is not bound by NewHost", rel, t)
						}
					}
					if len(fm) > 0 {
						fields[ts.Name.Name] = fm
					}
				}
			}
			for _, d := range f.Decls {
				fd, ok := d.(*ast.FuncDecl)
				if !ok || fd.Recv == nil || !registered[fd.Name.Name] {
					continue
				}
				ctl := strings.TrimPrefix(typeString(fd.Recv.List[0].Type), "*")
				fm, ok := fields[ctl]
				if !ok {
					continue // controller without component collaborators (settings)
				}
				pseudo := &Comp{Name: ctl, Rel: rel, PkgDir: dir, File: f, Fields: map[string]*Field{}, Methods: map[string]*ast.FuncDecl{}}
				file, line := ex.pos(fd.Pos())
				mi := &MethodInfo{Id: len(ex.methods), Name: ctl + "." + fd.Name.Name, Comp: ctl, File: file, Line: line, done: true}
				ex.methodId[mi.Name] = mi.Id
				ex.methods = append(ex.methods, mi)
				c := ex.newCtx(mi, pseudo)
				recv := &Val{K: VInst, T: ctl, Live: false, Fields: map[string]*Val{}}
				for fn, comp := range fm {
					recv.Fields[fn] = &Val{K: VInst, T: comp, Live: true}
				}
				env := newEnv(nil)
				if len(fd.Recv.List[0].Names) == 1 {
					env.def(fd.Recv.List[0].Names[0].Name, recv)
				}
				c.bindParams(fd, env, nil)
				c.runBody(mi.Name, fd.Body, env, false, fd.Type.Results.NumFields())
				w.Handlers = append(w.Handlers, handlerRoot{ctl, fd.Name.Name, mi})
			}
		}
	}
	if len(w.Handlers) == 0 {
		failf("no host handler found")
	}
}

// buildRoots: engines (single instance each), host handlers (any number of goroutines), and exported methods
// without any call site (assumed callable from any goroutine).
func (ex *Extractor) buildRoots(w *Wiring) []Root {
	var roots []Root
	start, ok := ex.methodId["Engine.Start"]
	if !ok {
		failf("Engine.Start not found")
	}
	for i, e := range w.Engines {
		roots = append(roots, Root{Name: "engine:" + e.Comp + "." + e.Method, Kind: "engine",
			Entries: []int{start, ex.methodId[e.Comp+"."+e.Method]}, Multi: false, Inst: i + 1,
			Desc: "clock.Engine.Start loop calling " + e.Comp + "." + e.Method})
	}
	for _, h := range w.Handlers {
		roots = append(roots, Root{Name: "handler:" + h.Controller + "." + h.Method, Kind: "handler",
			Entries: []int{h.Info.Id}, Multi: true, Inst: 0, Desc: "host handler goroutine (one per request)"})
	}
	for _, cn := range ex.compOrder {
		comp := ex.comps[cn]
		for _, mn := range comp.MOrder {
			if !ast.IsExported(mn) || ex.callSites[cn+"."+mn] > 0 {
				continue
			}
			inst := 0
			if comp.Private {
				inst = 1 // representative instance (all engines run the same code)
			}
			roots = append(roots, Root{Name: "api:" + cn + "." + mn, Kind: "api", Entries: []int{ex.methodId[cn+"."+mn]},
				Multi: true, Inst: inst, Desc: "exported method without a call site in the node: assumed callable from any goroutine"})
		}
	}
	return roots
}
