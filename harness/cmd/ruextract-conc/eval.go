package main

import (
	"go/ast"
	"go/token"
	"strconv"
	"strings"
)

// external collaborator methods that are recorded as `ext` events (placement points / blocking calls)
var extMethods = map[string]bool{
	"GetBlocks": true, "GetFirstBlockTimestamp": true, "GetSettings": true, "SendTargets": true,
	"GetTransactions": true, "GetUtxos": true, "CreateSender": true, "IsRegistered": true, "AddTransaction": true,
}

// same-package functions defined outside the anchored files that may be called (pure constructors / parsers)
var extFuncs = map[string]bool{"NewTargetFromValue": true, "NewTarget": true}

var builtinConv = map[string]bool{
	"uint64": true, "int64": true, "int": true, "uint16": true, "uint": true, "float64": true, "string": true,
	"uint32": true, "int32": true, "byte": true, "bool": true, "uint8": true,
}

func (c *Ctx) evalMulti(e ast.Expr, env *Env, n int) []*Val {
	out := make([]*Val, n)
	for i := range out {
		out[i] = opaque
	}
	switch e := e.(type) {
	case *ast.CallExpr:
		r := c.evalCall(e, env, e.Pos())
		for i := 0; i < n && i < len(r); i++ {
			out[i] = r[i]
		}
	case *ast.IndexExpr: // v, ok := m[k]
		out[0] = c.eval(e, env)
	case *ast.UnaryExpr: // v, ok := <-ch
		out[0] = c.eval(e, env)
	case *ast.TypeAssertExpr:
		out[0] = c.eval(e.X, env)
	default:
		c.fail(e, "unsupported multi-valued expression %T", e)
	}
	return out
}

func (c *Ctx) eval(e ast.Expr, env *Env) *Val {
	switch e := e.(type) {
	case *ast.Ident:
		if v, ok := env.get(e.Name); ok {
			return v
		}
		return opaque // constants, nil, true/false, package-level names
	case *ast.BasicLit:
		return opaque
	case *ast.ParenExpr:
		return c.eval(e.X, env)
	case *ast.StarExpr:
		return c.eval(e.X, env)
	case *ast.BinaryExpr:
		c.eval(e.X, env)
		c.eval(e.Y, env)
		return opaque
	case *ast.UnaryExpr:
		if e.Op == token.ARROW {
			ch := c.eval(e.X, env)
			if ch.K == VOpaque {
				// channel of an external collaborator (time.Ticker.C): a blocking wait, no table fact
				c.emit(Event{Op: "recv", Name: "external"}, e.Pos())
				return opaque
			}
			if ch.K != VChan {
				c.fail(e, "receive from something that is not a channel")
			}
			c.emit(Event{Op: "recv", Name: ch.Ch.Name}, e.Pos())
			return opaque
		}
		if e.Op == token.AND {
			if cl, ok := e.X.(*ast.CompositeLit); ok {
				return c.composite(cl, env)
			}
		}
		return c.eval(e.X, env)
	case *ast.CompositeLit:
		return c.composite(e, env)
	case *ast.FuncLit:
		return &Val{K: VFunc, Fn: e, Env: env}
	case *ast.KeyValueExpr:
		return c.eval(e.Value, env)
	case *ast.SelectorExpr:
		return c.selector(e, env)
	case *ast.IndexExpr:
		a := c.eval(e.X, env)
		c.eval(e.Index, env)
		return c.elem(a, e.Pos())
	case *ast.SliceExpr:
		a := c.eval(e.X, env)
		for _, x := range []ast.Expr{e.Low, e.High, e.Max} {
			if x != nil {
				c.eval(x, env)
			}
		}
		return a // shares the backing store
	case *ast.CallExpr:
		r := c.evalCall(e, env, e.Pos())
		if len(r) == 0 {
			return opaque
		}
		return r[0]
	case *ast.TypeAssertExpr:
		return c.eval(e.X, env)
	case *ast.ArrayType, *ast.MapType, *ast.ChanType, *ast.InterfaceType, *ast.StructType, *ast.FuncType:
		return opaque
	}
	c.fail(e, "unsupported expression %T", e)
	return nil
}

func (c *Ctx) composite(cl *ast.CompositeLit, env *Env) *Val {
	// &T{} / T{} of a component: a local instance
	if id, ok := cl.Type.(*ast.Ident); ok {
		if comp, ok := c.ex.comps[id.Name]; ok && comp.PkgDir == c.comp.PkgDir {
			inst := &Val{K: VInst, T: comp.Name, Live: false, Fields: map[string]*Val{}}
			for i, el := range cl.Elts {
				if kv, ok := el.(*ast.KeyValueExpr); ok {
					inst.Fields[identName(kv.Key)] = c.eval(kv.Value, env)
				} else if i < len(comp.Order) {
					inst.Fields[comp.Order[i]] = c.eval(el, env)
				}
			}
			return inst
		}
	}
	switch cl.Type.(type) {
	case *ast.ArrayType, *ast.MapType:
		v := fresh()
		for _, el := range cl.Elts {
			v.Elem = join(v.Elem, c.eval(el, env))
		}
		return v
	}
	for _, el := range cl.Elts {
		x := c.eval(el, env)
		if x.K == VAlias {
			c.deepRead(x, el.Pos())
		}
	}
	return opaque
}

func (c *Ctx) selector(e *ast.SelectorExpr, env *Env) *Val {
	if id, ok := e.X.(*ast.Ident); ok {
		if _, isVar := env.get(id.Name); !isVar && c.imports[id.Name] {
			return opaque // package-level name
		}
	}
	x := c.eval(e.X, env)
	if x.K != VInst {
		return opaque
	}
	comp := c.ex.comps[x.T]
	if comp == nil {
		// pseudo instance (controller): its fields are in Fields
		if v, ok := x.Fields[e.Sel.Name]; ok {
			return v
		}
		return opaque
	}
	f := comp.Fields[e.Sel.Name]
	if f == nil {
		// method value (x.m without call)
		if _, ok := comp.Methods[e.Sel.Name]; ok {
			c.fail(e, "method value %s.%s: not understood", x.T, e.Sel.Name)
		}
		c.fail(e, "unknown field %s.%s", x.T, e.Sel.Name)
	}
	if !x.Live {
		if f.Kind == fkMutex {
			return &Val{K: VMutex, T: x.T, F: f.Name, Live: false}
		}
		if v, ok := x.Fields[f.Name]; ok && v != nil {
			return v
		}
		if f.Kind == fkIface {
			c.fail(e, "collaborator field %s.%s of a local instance was never bound", x.T, f.Name)
		}
		if f.Kind == fkData && f.Depth > 0 {
			v := fresh()
			x.Fields[f.Name] = v
			return v
		}
		return opaque
	}
	switch f.Kind {
	case fkMutex:
		return &Val{K: VMutex, T: x.T, F: f.Name, Live: true}
	case fkData:
		c.emit(Event{Op: "acc", Kind: "read", Loc: c.ex.loc(x.T, f.Name, 0)}, e.Pos())
		if f.Depth > 0 {
			return &Val{K: VAlias, As: []aref{{x.T, f.Name, 0}}}
		}
		return opaque
	case fkIface:
		t, ok := c.ex.wiring[x.T][f.Name]
		if !ok {
			c.fail(e, "collaborator %s.%s is not bound by the constructor wiring of validatornode/main.go", x.T, f.Name)
		}
		return &Val{K: VInst, T: t, Live: true}
	case fkExt:
		return &Val{K: VOpaque, Ext: f.Name}
	case fkFunc:
		return &Val{K: VOpaque, Ext: "func:" + f.Name}
	}
	return opaque
}

// ------------------------------------------------------------------ calls

func (c *Ctx) evalArgs(args []ast.Expr, env *Env) []*Val {
	var out []*Val
	for _, a := range args {
		out = append(out, c.eval(a, env))
	}
	return out
}

func (c *Ctx) evalCall(call *ast.CallExpr, env *Env, p token.Pos) []*Val {
	switch fn := call.Fun.(type) {
	case *ast.Ident:
		return c.callIdent(fn, call, env, p)
	case *ast.SelectorExpr:
		return c.callSelector(fn, call, env, p)
	case *ast.FuncLit:
		args := c.evalArgs(call.Args, env)
		return c.inlineFuncLit(&Val{K: VFunc, Fn: fn, Env: env}, args, p)
	case *ast.ArrayType, *ast.ParenExpr, *ast.MapType, *ast.InterfaceType:
		// conversion
		args := c.evalArgs(call.Args, env)
		if len(args) == 1 {
			return []*Val{args[0]}
		}
		return []*Val{opaque}
	}
	c.fail(call, "unsupported call form %T", call.Fun)
	return nil
}

func (c *Ctx) inlineFuncLit(f *Val, args []*Val, p token.Pos) []*Val {
	env := newEnv(f.Env)
	i := 0
	for _, prm := range f.Fn.Type.Params.List {
		for _, n := range prm.Names {
			if i < len(args) {
				env.def(n.Name, args[i])
			} else {
				env.def(n.Name, opaque)
			}
			i++
		}
	}
	results := 0
	if f.Fn.Type.Results != nil {
		results = f.Fn.Type.Results.NumFields()
	}
	return c.runBody("func literal", f.Fn.Body, env, true, results)
}

func (c *Ctx) callIdent(fn *ast.Ident, call *ast.CallExpr, env *Env, p token.Pos) []*Val {
	name := fn.Name
	if v, ok := env.get(name); ok {
		if v.K == VFunc {
			return c.inlineFuncLit(v, c.evalArgs(call.Args, env), p)
		}
		c.fail(call, "call of local variable %s that is not a function literal", name)
	}
	switch name {
	case "len", "cap":
		c.evalArgs(call.Args, env)
		return []*Val{opaque}
	case "panic", "print", "println":
		c.evalArgs(call.Args, env)
		return nil
	case "make":
		if len(call.Args) == 0 {
			c.fail(call, "make without type")
		}
		for _, a := range call.Args[1:] {
			c.eval(a, env)
		}
		if ct, ok := call.Args[0].(*ast.ChanType); ok {
			_ = ct
			capacity := 0
			if len(call.Args) > 1 {
				bl, ok := call.Args[1].(*ast.BasicLit)
				if !ok {
					c.fail(call, "channel capacity is not a literal")
				}
				capacity, _ = strconv.Atoi(bl.Value)
			}
			return []*Val{{K: VChan, Ch: &ChanInfo{Name: "ch" + strconv.Itoa(c.ex.fset.Position(call.Pos()).Line), Cap: capacity}}}
		}
		return []*Val{fresh()}
	case "new":
		if id, ok := call.Args[0].(*ast.Ident); ok {
			if comp, ok := c.ex.comps[id.Name]; ok && comp.PkgDir == c.comp.PkgDir {
				return []*Val{{K: VInst, T: comp.Name, Live: false, Fields: map[string]*Val{}}}
			}
		}
		return []*Val{opaque}
	case "close":
		ch := c.eval(call.Args[0], env)
		if ch.K != VChan {
			c.fail(call, "close of something that is not a local channel")
		}
		c.emit(Event{Op: "close", Name: ch.Ch.Name}, p)
		return nil
	case "delete":
		m := c.eval(call.Args[0], env)
		c.eval(call.Args[1], env)
		c.store(m, nil, p)
		return nil
	case "copy":
		dst := c.eval(call.Args[0], env)
		src := c.eval(call.Args[1], env)
		el := c.elem(src, call.Args[1].Pos())
		c.store(dst, el, p)
		return []*Val{opaque}
	case "append":
		return []*Val{c.appendCall(call, env, p)}
	}
	if builtinConv[name] {
		c.evalArgs(call.Args, env)
		return []*Val{opaque}
	}
	// package-level helper defined in an anchored file of this package: inline
	if fd, ok := c.ex.pkgFuncs[c.comp.PkgDir][name]; ok {
		args := c.evalArgs(call.Args, env)
		return c.inlineFunc(fd, nil, args, call, p)
	}
	if extFuncs[name] {
		for _, a := range c.evalArgs(call.Args, env) {
			c.deepRead(a, p)
		}
		return []*Val{opaque, opaque}
	}
	c.fail(call, "call of unknown function %s", name)
	return nil
}

// append(a, xs...) / append(a, b...)
func (c *Ctx) appendCall(call *ast.CallExpr, env *Env, p token.Pos) *Val {
	base := c.eval(call.Args[0], env)
	var elems []*Val
	for i, a := range call.Args[1:] {
		v := c.eval(a, env)
		if call.Ellipsis != token.NoPos && i == len(call.Args)-2 {
			v = c.elem(v, a.Pos()) // spread: reads the elements
		}
		elems = append(elems, v)
	}
	switch base.K {
	case VAlias:
		// in-place when the first argument is a re-slice of the same store (shift idiom), append otherwise
		kind := "append"
		if _, isSlice := call.Args[0].(*ast.SliceExpr); isSlice {
			kind = "write"
		}
		for _, r := range base.As {
			c.emit(Event{Op: "acc", Kind: kind, Loc: c.ex.loc(r.T, r.F, r.L+1)}, p)
		}
		for _, el := range elems {
			if el.K == VAlias && !sameRefs(el, base) {
				c.ex.escape(el.refName(), c.mi.Name, "appended into "+base.refName()+"[]", p)
			}
		}
		return base
	case VFresh:
		out := &Val{K: VFresh, Elem: base.Elem}
		for _, el := range elems {
			out.Elem = join(out.Elem, el)
		}
		return out
	}
	// opaque base (parameter / result of a call): the result is a slice we do not track, but remember aliases
	out := fresh()
	for _, el := range elems {
		out.Elem = join(out.Elem, el)
	}
	return out
}

func (c *Ctx) bindParams(fd *ast.FuncDecl, env *Env, args []*Val) {
	i := 0
	if fd.Type.Params == nil {
		return
	}
	for _, prm := range fd.Type.Params.List {
		_, variadic := prm.Type.(*ast.Ellipsis)
		for _, n := range prm.Names {
			var v *Val = opaque
			if variadic {
				v = fresh()
				for ; i < len(args); i++ {
					v.Elem = join(v.Elem, args[i])
				}
			} else if i < len(args) {
				v = args[i]
				i++
			}
			if n.Name != "_" {
				env.def(n.Name, v)
			}
		}
	}
}

// inlineFunc interprets a helper function or a method of a LOCAL instance at the call site: its accesses
// (through aliases handed in as arguments) belong to the calling method and are attributed to the call line.
func (c *Ctx) inlineFunc(fd *ast.FuncDecl, recv *Val, args []*Val, n ast.Node, p token.Pos) []*Val {
	if c.depth > 12 {
		c.fail(n, "inlining too deep (recursion?) at %s", fd.Name.Name)
	}
	env := newEnv(nil)
	if recv != nil && fd.Recv != nil && len(fd.Recv.List) == 1 && len(fd.Recv.List[0].Names) == 1 {
		env.def(fd.Recv.List[0].Names[0].Name, recv)
	}
	c.bindParams(fd, env, args)
	results := 0
	if fd.Type.Results != nil {
		results = fd.Type.Results.NumFields()
	}
	savedFile, savedLine := c.siteFile, c.siteLine
	savedComp, savedImports := c.comp, c.imports
	if c.siteLine == 0 {
		c.siteFile, c.siteLine = c.ex.pos(p)
	}
	if owner, ok := c.ex.pkgFile[fd]; ok {
		c.comp = owner
		c.imports = importsOf(owner.File)
	}
	c.depth++
	out := c.runBody(fd.Name.Name, fd.Body, env, true, results)
	c.depth--
	c.siteFile, c.siteLine = savedFile, savedLine
	c.comp, c.imports = savedComp, savedImports
	return out
}

func (c *Ctx) callSelector(sel *ast.SelectorExpr, call *ast.CallExpr, env *Env, p token.Pos) []*Val {
	m := sel.Sel.Name
	// package function
	if id, ok := sel.X.(*ast.Ident); ok {
		if _, isVar := env.get(id.Name); !isVar && c.imports[id.Name] {
			return c.callPackage(id.Name, m, call, env, p)
		}
	}
	x := c.eval(sel.X, env)
	switch x.K {
	case VMutex:
		c.evalArgs(call.Args, env)
		switch m {
		case "Lock", "RLock":
			if x.Live {
				mode := "W"
				if m == "RLock" {
					mode = "R"
				}
				c.acquire(c.ex.mutex(x.T+"."+x.F), mode, call)
			}
		case "Unlock", "RUnlock":
			if x.Live {
				mode := "W"
				if m == "RUnlock" {
					mode = "R"
				}
				c.release(c.ex.mutex(x.T+"."+x.F), mode, call, p)
			}
		case "Add", "Done", "Wait": // sync.WaitGroup declared locally
			if x.Live {
				c.fail(call, "WaitGroup method on a mutex field")
			}
		default:
			c.fail(call, "unsupported mutex method %s", m)
		}
		return nil
	case VInst:
		comp := c.ex.comps[x.T]
		args := c.evalArgs(call.Args, env)
		if comp == nil {
			c.fail(call, "method call on pseudo instance %s", x.T)
		}
		if f := comp.Fields[m]; f != nil && f.Kind == fkFunc {
			// call of a function-typed field (Engine.function): the root binding says what runs here
			c.emit(Event{Op: "ext", Name: "callback " + m}, p)
			return []*Val{opaque}
		}
		fd := comp.Methods[m]
		if fd == nil {
			c.fail(call, "component %s has no method %s in its anchored file", x.T, m)
		}
		c.ex.callSites[x.T+"."+m]++
		if x.Live {
			callee := c.ex.analyse(x.T, m)
			for i, a := range args {
				if a.K == VAlias {
					c.deepRead(a, call.Args[i].Pos())
					c.ex.escape(a.refName(), c.mi.Name, "passed to "+x.T+"."+m, p)
				} else if a.K == VFresh && a.Elem != nil && a.Elem.K == VAlias {
					c.deepRead(a.Elem, call.Args[i].Pos())
				}
			}
			c.emit(Event{Op: "call", Callee: callee.Id, Name: callee.Name}, p)
			return cloneRets(callee.Ret)
		}
		return c.inlineFunc(fd, x, args, call, p)
	case VFunc:
		c.fail(call, "method call on a function value")
	}
	// method of an opaque object (ledger value, sender, logger, settings, wait group, ...)
	args := c.evalArgs(call.Args, env)
	for i, a := range args {
		if a.K == VAlias {
			c.deepRead(a, call.Args[i].Pos())
		} else if a.K == VFresh && a.Elem != nil {
			c.deepRead(a.Elem, call.Args[i].Pos())
		}
	}
	if x.K == VAlias || x.K == VFresh {
		c.fail(call, "method call on a slice/map value")
	}
	if strings.HasPrefix(x.Ext, "func:") {
		c.emit(Event{Op: "ext", Name: "callback " + x.Ext[5:]}, p)
		return []*Val{opaque}
	}
	if extMethods[m] {
		c.emit(Event{Op: "ext", Name: m}, p)
	}
	if x.Via != "" {
		// getter of a ledger object reached through live storage: remember where the result comes from
		return []*Val{{K: VOpaque, Via: x.Via + "." + m + "()"}, opaque}
	}
	return []*Val{opaque, opaque}
}

func cloneRets(r []*Val) []*Val {
	out := make([]*Val, len(r))
	for i, v := range r {
		out[i] = cloneVal(v)
	}
	return out
}

func cloneVal(v *Val) *Val {
	if v == nil {
		return opaque
	}
	switch v.K {
	case VInst:
		if v.Live {
			return v
		}
		n := &Val{K: VInst, T: v.T, Live: false, Fields: map[string]*Val{}}
		for k, f := range v.Fields {
			n.Fields[k] = cloneVal(f)
		}
		return n
	case VFresh:
		return &Val{K: VFresh, Elem: cloneVal2(v.Elem)}
	}
	return v
}

func cloneVal2(v *Val) *Val {
	if v == nil {
		return nil
	}
	return cloneVal(v)
}

func (c *Ctx) callPackage(pkg, fn string, call *ast.CallExpr, env *Env, p token.Pos) []*Val {
	if pkg == "rand" && fn == "Shuffle" && len(call.Args) == 2 {
		c.eval(call.Args[0], env)
		f := c.eval(call.Args[1], env)
		if f.K != VFunc {
			c.fail(call, "rand.Shuffle with something that is not a function literal")
		}
		c.inlineFuncLit(f, []*Val{opaque, opaque}, p)
		return nil
	}
	if pkg == "time" && fn == "After" {
		c.evalArgs(call.Args, env)
		return []*Val{{K: VChan, Ch: &ChanInfo{Name: "timer", Timer: true}}}
	}
	args := c.evalArgs(call.Args, env)
	for i, a := range args {
		switch a.K {
		case VAlias:
			if pkg == "sort" {
				for _, r := range a.As {
					c.emit(Event{Op: "acc", Kind: "write", Loc: c.ex.loc(r.T, r.F, r.L+1)}, call.Args[i].Pos())
				}
			} else {
				c.deepRead(a, call.Args[i].Pos())
				if pkg == "ledger" {
					c.ex.escape(a.refName(), c.mi.Name, "handed to "+pkg+"."+fn+" (stored without copy)", p)
				}
			}
		case VFresh:
			c.deepRead(a.Elem, call.Args[i].Pos())
		case VFunc:
			c.fail(call, "function literal passed to %s.%s", pkg, fn)
		}
	}
	return []*Val{opaque, opaque}
}

func importsOf(f *ast.File) map[string]bool {
	m := map[string]bool{}
	for _, im := range f.Imports {
		path := strings.Trim(im.Path.Value, `"`)
		name := path[strings.LastIndex(path, "/")+1:]
		if im.Name != nil {
			name = im.Name.Name
		}
		if name == "golang-p2p" {
			name = "p2p"
		}
		m[name] = true
	}
	return m
}
