// ruextract-arith translates the integer arithmetic of
//
//	<repo>/validatornode/application/verification/blockchain.go : (*Blockchain).Blocks
//
// (the page a peer's GetBlocks(height) request selects) statement by statement into a Lean 4 definition over UInt64
// — Go's wrap-around arithmetic — in namespace Gen.  It is deliberately small and fails closed: every statement or
// expression form not listed below is an error (exit status 1), never skipped.
//
//	uint64 variable / parameter           ↦ UInt64          x + y, x - y, x * y ↦ the UInt64 operations (wrapping)
//	blocksCount := len(blockchain.blocks) ↦ the parameter (blocksCount : Nat)  (a Go int: the theorems assume < 2^63)
//	uint64(blocksCount)                   ↦ UInt64.ofNat blocksCount      (also x := uint64(len(blockchain.blocks)))
//	x := blockchain.settings.M()          ↦ the parameter (x : UInt64)
//	blockchain.isEmpty()                  ↦ (blocksCount == 0), only if isEmpty's body is `return len(blockchain.blocks) == 0`
//	a < b, a > b, a <= b, a >= b          ↦ decide (…)        a == b, a != b ↦ (a == b), (a != b)      ||, && ↦ ||, &&
//	var x uint64 / x := e / x = e         ↦ let x : UInt64 := …
//	if c {…} else if d {…} else {…}        ↦ if c then … else …   (each branch continued with the statements after the if)
//	return []*ledger.Block{}              ↦ none
//	return blockchain.blocks[a:b]         ↦ some (a, b)
//	blockchain.mutex.RLock() / defer blockchain.mutex.RUnlock()   (dropped: no arithmetic)
//
// Usage: ruextract-arith --repo /repo [--out Core/GenBlocks.lean]
package main

import (
	"flag"
	"fmt"
	"go/ast"
	"go/parser"
	"go/token"
	"os"
	"path/filepath"
	"strings"
)

var fset = token.NewFileSet()

type xerr struct{ msg string }

func fail(n ast.Node, format string, a ...interface{}) {
	pos := ""
	if n != nil {
		pos = fset.Position(n.Pos()).String() + ": "
	}
	panic(xerr{pos + fmt.Sprintf(format, a...)})
}

type tr struct {
	params []string        // UInt64 parameters obtained from settings calls, in order
	u64    map[string]bool // names known to be UInt64 (parameter, settings values, declared variables)
	count  string          // the name bound to len(blockchain.blocks)
}

func sel(e ast.Expr) string {
	switch x := e.(type) {
	case *ast.Ident:
		return x.Name
	case *ast.SelectorExpr:
		return sel(x.X) + "." + x.Sel.Name
	}
	return "?"
}

// expr translates an expression; wantBool tells whether a Bool is expected
func (t *tr) expr(e ast.Expr) (string, bool) {
	switch x := e.(type) {
	case *ast.ParenExpr:
		s, b := t.expr(x.X)
		return "(" + s + ")", b
	case *ast.Ident:
		if t.u64[x.Name] {
			return x.Name, false
		}
		fail(e, "identifier %s is not a known uint64 value", x.Name)
	case *ast.BasicLit:
		if x.Kind != token.INT {
			fail(e, "literal %s", x.Value)
		}
		return "(" + x.Value + " : UInt64)", false
	case *ast.CallExpr:
		if id, ok := x.Fun.(*ast.Ident); ok && id.Name == "uint64" && len(x.Args) == 1 {
			if a, ok := x.Args[0].(*ast.Ident); ok && a.Name == t.count {
				return "(UInt64.ofNat " + t.count + ")", false
			}
			fail(e, "uint64(…) of something else than the blocks count")
		}
		if sel(x.Fun) == "blockchain.isEmpty" && len(x.Args) == 0 {
			if t.count == "" {
				fail(e, "isEmpty() used before the blocks count is bound")
			}
			return "(" + t.count + " == 0)", true
		}
		fail(e, "call %s", sel(x.Fun))
	case *ast.BinaryExpr:
		l, lb := t.expr(x.X)
		r, rb := t.expr(x.Y)
		switch x.Op {
		case token.ADD, token.SUB, token.MUL:
			if lb || rb {
				fail(e, "arithmetic on booleans")
			}
			return "(" + l + " " + x.Op.String() + " " + r + ")", false
		case token.LSS, token.GTR, token.LEQ, token.GEQ:
			if lb || rb {
				fail(e, "comparison of booleans")
			}
			op := map[token.Token]string{token.LSS: "<", token.GTR: ">", token.LEQ: "≤", token.GEQ: "≥"}[x.Op]
			return "decide (" + l + " " + op + " " + r + ")", true
		case token.EQL, token.NEQ:
			if lb || rb {
				fail(e, "equality of booleans")
			}
			op := "=="
			if x.Op == token.NEQ {
				op = "!="
			}
			return "(" + l + " " + op + " " + r + ")", true
		case token.LOR, token.LAND:
			if !lb || !rb {
				fail(e, "logical operator on non-booleans")
			}
			op := "||"
			if x.Op == token.LAND {
				op = "&&"
			}
			return "(" + l + " " + op + " " + r + ")", true
		}
		fail(e, "operator %s", x.Op)
	}
	fail(e, "expression form %T", e)
	return "", false
}

// stmts translates a statement list in continuation style: every path must end in a return
func (t *tr) stmts(ss []ast.Stmt, ind string) string {
	if len(ss) == 0 {
		fail(nil, "a path does not end in a return")
	}
	s, rest := ss[0], ss[1:]
	switch x := s.(type) {
	case *ast.ExprStmt:
		if c, ok := x.X.(*ast.CallExpr); ok && sel(c.Fun) == "blockchain.mutex.RLock" {
			return t.stmts(rest, ind)
		}
		fail(s, "expression statement")
	case *ast.DeferStmt:
		if sel(x.Call.Fun) == "blockchain.mutex.RUnlock" {
			return t.stmts(rest, ind)
		}
		fail(s, "defer")
	case *ast.DeclStmt:
		gd, ok := x.Decl.(*ast.GenDecl)
		if !ok || gd.Tok != token.VAR || len(gd.Specs) != 1 {
			fail(s, "declaration")
		}
		vs := gd.Specs[0].(*ast.ValueSpec)
		if len(vs.Names) != 1 || len(vs.Values) != 0 || sel(vs.Type) != "uint64" {
			fail(s, "only `var x uint64`")
		}
		t.u64[vs.Names[0].Name] = true
		return ind + "let " + vs.Names[0].Name + " : UInt64 := 0\n" + t.stmts(rest, ind)
	case *ast.AssignStmt:
		if len(x.Lhs) != 1 || len(x.Rhs) != 1 {
			fail(s, "multiple assignment")
		}
		name := x.Lhs[0].(*ast.Ident).Name
		if c, ok := x.Rhs[0].(*ast.CallExpr); ok {
			f := sel(c.Fun)
			if strings.HasPrefix(f, "blockchain.settings.") && len(c.Args) == 0 && x.Tok == token.DEFINE {
				t.params = append(t.params, name)
				t.u64[name] = true
				return t.stmts(rest, ind)
			}
			if f == "len" && len(c.Args) == 1 && sel(c.Args[0]) == "blockchain.blocks" && x.Tok == token.DEFINE {
				if t.count != "" {
					fail(s, "the blocks count is bound twice")
				}
				t.count = name
				return t.stmts(rest, ind)
			}
			// x := uint64(len(blockchain.blocks)): the count parameter gets a name of its own, x is its UInt64 image
			if id, ok := c.Fun.(*ast.Ident); ok && id.Name == "uint64" && len(c.Args) == 1 && x.Tok == token.DEFINE {
				if in, ok := c.Args[0].(*ast.CallExpr); ok && sel(in.Fun) == "len" && len(in.Args) == 1 && sel(in.Args[0]) == "blockchain.blocks" {
					if t.count != "" {
						fail(s, "the blocks count is bound twice")
					}
					t.count = name + "Len"
					t.u64[name] = true
					return ind + "let " + name + " : UInt64 := UInt64.ofNat " + t.count + "\n" + t.stmts(rest, ind)
				}
			}
		}
		if x.Tok != token.DEFINE && x.Tok != token.ASSIGN {
			fail(s, "assignment operator %s", x.Tok)
		}
		if x.Tok == token.ASSIGN && !t.u64[name] {
			fail(s, "assignment to %s, which is not a declared uint64 variable", name)
		}
		e, b := t.expr(x.Rhs[0])
		if b {
			fail(s, "boolean assigned")
		}
		t.u64[name] = true
		return ind + "let " + name + " : UInt64 := " + e + "\n" + t.stmts(rest, ind)
	case *ast.IfStmt:
		if x.Init != nil {
			fail(s, "if with init")
		}
		c, b := t.expr(x.Cond)
		if !b {
			fail(s, "non-boolean condition")
		}
		thenS := t.stmts(append(append([]ast.Stmt{}, x.Body.List...), rest...), ind+"  ")
		var elseList []ast.Stmt
		switch el := x.Else.(type) {
		case nil:
		case *ast.BlockStmt:
			elseList = el.List
		case *ast.IfStmt:
			elseList = []ast.Stmt{el}
		default:
			fail(s, "else form")
		}
		elseS := t.stmts(append(append([]ast.Stmt{}, elseList...), rest...), ind+"  ")
		return ind + "if " + c + " then\n" + thenS + ind + "else\n" + elseS
	case *ast.ReturnStmt:
		if len(x.Results) != 1 {
			fail(s, "return arity")
		}
		switch r := x.Results[0].(type) {
		case *ast.CompositeLit:
			if len(r.Elts) != 0 {
				fail(s, "non-empty literal returned")
			}
			return ind + "none\n"
		case *ast.SliceExpr:
			if sel(r.X) != "blockchain.blocks" || r.Low == nil || r.High == nil || r.Max != nil {
				fail(s, "slice expression")
			}
			lo, b1 := t.expr(r.Low)
			hi, b2 := t.expr(r.High)
			if b1 || b2 {
				fail(s, "boolean slice bound")
			}
			return ind + "some (" + lo + ", " + hi + ")\n"
		}
		fail(s, "returned expression")
	}
	fail(s, "statement form %T", s)
	return ""
}

func main() {
	repo := flag.String("repo", "/repo", "repository root")
	out := flag.String("out", "", "output file (stdout when empty)")
	flag.Parse()
	var text string
	func() {
		defer func() {
			if r := recover(); r != nil {
				if x, ok := r.(xerr); ok {
					fmt.Fprintln(os.Stderr, "ruextract-arith: ERROR: "+x.msg)
					os.Exit(1)
				}
				panic(r)
			}
		}()
		path := filepath.Join(*repo, "validatornode/application/verification/blockchain.go")
		f, err := parser.ParseFile(fset, path, nil, 0)
		if err != nil {
			fail(nil, "parse: %v", err)
		}
		var blocks, isEmpty *ast.FuncDecl
		for _, d := range f.Decls {
			if fd, ok := d.(*ast.FuncDecl); ok && fd.Recv != nil {
				switch fd.Name.Name {
				case "Blocks":
					blocks = fd
				case "isEmpty":
					isEmpty = fd
				}
			}
		}
		if blocks == nil || isEmpty == nil {
			fail(nil, "Blocks / isEmpty not found")
		}
		// isEmpty must be `return len(blockchain.blocks) == 0`
		okEmpty := false
		if len(isEmpty.Body.List) == 1 {
			if r, ok := isEmpty.Body.List[0].(*ast.ReturnStmt); ok && len(r.Results) == 1 {
				if b, ok := r.Results[0].(*ast.BinaryExpr); ok && b.Op == token.EQL {
					if c, ok := b.X.(*ast.CallExpr); ok && sel(c.Fun) == "len" && len(c.Args) == 1 && sel(c.Args[0]) == "blockchain.blocks" {
						if l, ok := b.Y.(*ast.BasicLit); ok && l.Value == "0" {
							okEmpty = true
						}
					}
				}
			}
		}
		if !okEmpty {
			fail(isEmpty, "isEmpty is no longer `return len(blockchain.blocks) == 0`")
		}
		if blocks.Type.Params.NumFields() != 1 || sel(blocks.Type.Params.List[0].Type) != "uint64" {
			fail(blocks, "Blocks no longer takes one uint64")
		}
		p0 := blocks.Type.Params.List[0].Names[0].Name
		t := &tr{u64: map[string]bool{p0: true}}
		body := t.stmts(blocks.Body.List, "  ")
		if t.count == "" {
			fail(blocks, "the blocks count is never bound")
		}
		var sb strings.Builder
		sb.WriteString("-- generated by harness/cmd/ruextract-arith from validatornode/application/verification/blockchain.go; do not edit\n")
		sb.WriteString("namespace Gen\n\n")
		sb.WriteString("/-- `(*Blockchain).Blocks`: the bounds of the slice expression it returns (`none` = the empty list literal) -/\n")
		sb.WriteString("def blocksRange (" + p0)
		for _, p := range t.params {
			sb.WriteString(" " + p)
		}
		sb.WriteString(" : UInt64) (" + t.count + " : Nat) : Option (UInt64 × UInt64) :=\n")
		sb.WriteString(body)
		sb.WriteString("\nend Gen\n")
		text = sb.String()
	}()
	if *out == "" {
		fmt.Print(text)
		return
	}
	if err := os.WriteFile(*out, []byte(text), 0o644); err != nil {
		fmt.Fprintln(os.Stderr, err)
		os.Exit(1)
	}
}
