// ruextract-arith translates the integer arithmetic of
//
//	<repo>/validatornode/application/verification/blockchain.go : (*Blockchain).Blocks
//
// (the page a peer's GetBlocks(height) request selects) statement by statement into a Lean 4 definition over UInt64
// — Go's wrap-around arithmetic — in namespace Gen.  It is deliberately small and fails closed: every statement or
// expression form not listed below is an error (exit status 1), never skipped.
//
//	uint64 variable / parameter           ↦ UInt64          x + y, x - y, x * y ↦ the UInt64 operations (wrapping)
//	blocksCount := len(blockchain.blocks) ↦ the parameter (blocksCount : Nat)  (a Go int: the theorems assume < 2^63)
//	uint64(blocksCount)                   ↦ UInt64.ofNat blocksCount      (also x := uint64(len(blockchain.blocks)))
//	x := blockchain.settings.M()          ↦ the parameter (x : UInt64)
//	blockchain.isEmpty()                  ↦ (blocksCount == 0), only if isEmpty's body is `return len(blockchain.blocks) == 0`
//	a < b, a > b, a <= b, a >= b          ↦ decide (…)        a == b, a != b ↦ (a == b), (a != b)      ||, && ↦ ||, &&
//	var x uint64 / x := e / x = e         ↦ let x : UInt64 := …
//	if c {…} else if d {…} else {…}        ↦ if c then … else …   (each branch continued with the statements after the if)
//	return []*ledger.Block{}              ↦ none
//	return blockchain.blocks[a:b]         ↦ some (a, b)
//	blockchain.mutex.RLock() / defer blockchain.mutex.RUnlock()   (dropped: no arithmetic)
//
// and of <repo>/validatornode/application/verification/utxos_registry.go : (*UtxosRegistry).CalculateFee the checked sums
// over inputs and outputs (one loop iteration each, as far as the accumulator is concerned) and the final fee rule:
//
//	if c { return 0, err }  ↦ if c then none else …      acc += e ↦ let acc := acc + e      return fee, nil ↦ some fee
//
// Usage: ruextract-arith --repo /repo [--out Core/GenBlocks.lean]
package main

import (
	"flag"
	"fmt"
	"go/ast"
	"go/parser"
	"go/token"
	"os"
	"path/filepath"
	"strings"
)

var fset = token.NewFileSet()

type xerr struct{ msg string }

func fail(n ast.Node, format string, a ...interface{}) {
	pos := ""
	if n != nil {
		pos = fset.Position(n.Pos()).String() + ": "
	}
	panic(xerr{pos + fmt.Sprintf(format, a...)})
}

type tr struct {
	params []string          // UInt64 parameters obtained from settings calls, in order
	u64    map[string]bool   // names known to be UInt64 (parameter, settings values, declared variables)
	count  string            // the name bound to len(blockchain.blocks)
	calls  map[string]string // method calls read as UInt64 values (output.InitialValue() ↦ initialValue)
	used   map[string]bool   // values of `calls` that were used
}

func sel(e ast.Expr) string {
	switch x := e.(type) {
	case *ast.Ident:
		return x.Name
	case *ast.SelectorExpr:
		return sel(x.X) + "." + x.Sel.Name
	}
	return "?"
}

// expr translates an expression; wantBool tells whether a Bool is expected
func (t *tr) expr(e ast.Expr) (string, bool) {
	switch x := e.(type) {
	case *ast.ParenExpr:
		s, b := t.expr(x.X)
		return "(" + s + ")", b
	case *ast.Ident:
		if t.u64[x.Name] {
			return x.Name, false
		}
		fail(e, "identifier %s is not a known uint64 value", x.Name)
	case *ast.BasicLit:
		if x.Kind != token.INT {
			fail(e, "literal %s", x.Value)
		}
		return "(" + x.Value + " : UInt64)", false
	case *ast.CallExpr:
		if id, ok := x.Fun.(*ast.Ident); ok && id.Name == "uint64" && len(x.Args) == 1 {
			if a, ok := x.Args[0].(*ast.Ident); ok && a.Name == t.count {
				return "(UInt64.ofNat " + t.count + ")", false
			}
			fail(e, "uint64(…) of something else than the blocks count")
		}
		if nm, ok := t.calls[sel(x.Fun)]; ok && len(x.Args) == 0 {
			t.u64[nm] = true
			t.used[nm] = true
			return nm, false
		}
		if sel(x.Fun) == "blockchain.isEmpty" && len(x.Args) == 0 {
			if t.count == "" {
				fail(e, "isEmpty() used before the blocks count is bound")
			}
			return "(" + t.count + " == 0)", true
		}
		fail(e, "call %s", sel(x.Fun))
	case *ast.BinaryExpr:
		l, lb := t.expr(x.X)
		r, rb := t.expr(x.Y)
		switch x.Op {
		case token.ADD, token.SUB, token.MUL:
			if lb || rb {
				fail(e, "arithmetic on booleans")
			}
			return "(" + l + " " + x.Op.String() + " " + r + ")", false
		case token.LSS, token.GTR, token.LEQ, token.GEQ:
			if lb || rb {
				fail(e, "comparison of booleans")
			}
			op := map[token.Token]string{token.LSS: "<", token.GTR: ">", token.LEQ: "≤", token.GEQ: "≥"}[x.Op]
			return "decide (" + l + " " + op + " " + r + ")", true
		case token.EQL, token.NEQ:
			if lb || rb {
				fail(e, "equality of booleans")
			}
			op := "=="
			if x.Op == token.NEQ {
				op = "!="
			}
			return "(" + l + " " + op + " " + r + ")", true
		case token.LOR, token.LAND:
			if !lb || !rb {
				fail(e, "logical operator on non-booleans")
			}
			op := "||"
			if x.Op == token.LAND {
				op = "&&"
			}
			return "(" + l + " " + op + " " + r + ")", true
		}
		fail(e, "operator %s", x.Op)
	}
	fail(e, "expression form %T", e)
	return "", false
}

// stmts translates a statement list in continuation style: every path must end in a return
func (t *tr) stmts(ss []ast.Stmt, ind string) string {
	if len(ss) == 0 {
		fail(nil, "a path does not end in a return")
	}
	s, rest := ss[0], ss[1:]
	switch x := s.(type) {
	case *ast.ExprStmt:
		if c, ok := x.X.(*ast.CallExpr); ok && sel(c.Fun) == "blockchain.mutex.RLock" {
			return t.stmts(rest, ind)
		}
		fail(s, "expression statement")
	case *ast.DeferStmt:
		if sel(x.Call.Fun) == "blockchain.mutex.RUnlock" {
			return t.stmts(rest, ind)
		}
		fail(s, "defer")
	case *ast.DeclStmt:
		gd, ok := x.Decl.(*ast.GenDecl)
		if !ok || gd.Tok != token.VAR || len(gd.Specs) != 1 {
			fail(s, "declaration")
		}
		vs := gd.Specs[0].(*ast.ValueSpec)
		if len(vs.Names) != 1 || len(vs.Values) != 0 || sel(vs.Type) != "uint64" {
			fail(s, "only `var x uint64`")
		}
		t.u64[vs.Names[0].Name] = true
		return ind + "let " + vs.Names[0].Name + " : UInt64 := 0\n" + t.stmts(rest, ind)
	case *ast.AssignStmt:
		if len(x.Lhs) != 1 || len(x.Rhs) != 1 {
			fail(s, "multiple assignment")
		}
		name := x.Lhs[0].(*ast.Ident).Name
		if c, ok := x.Rhs[0].(*ast.CallExpr); ok {
			f := sel(c.Fun)
			if strings.HasPrefix(f, "blockchain.settings.") && len(c.Args) == 0 && x.Tok == token.DEFINE {
				t.params = append(t.params, name)
				t.u64[name] = true
				return t.stmts(rest, ind)
			}
			if f == "len" && len(c.Args) == 1 && sel(c.Args[0]) == "blockchain.blocks" && x.Tok == token.DEFINE {
				if t.count != "" {
					fail(s, "the blocks count is bound twice")
				}
				t.count = name
				return t.stmts(rest, ind)
			}
			// x := uint64(len(blockchain.blocks)): the count parameter gets a name of its own, x is its UInt64 image
			if id, ok := c.Fun.(*ast.Ident); ok && id.Name == "uint64" && len(c.Args) == 1 && x.Tok == token.DEFINE {
				if in, ok := c.Args[0].(*ast.CallExpr); ok && sel(in.Fun) == "len" && len(in.Args) == 1 && sel(in.Args[0]) == "blockchain.blocks" {
					if t.count != "" {
						fail(s, "the blocks count is bound twice")
					}
					t.count = name + "Len"
					t.u64[name] = true
					return ind + "let " + name + " : UInt64 := UInt64.ofNat " + t.count + "\n" + t.stmts(rest, ind)
				}
			}
		}
		if x.Tok != token.DEFINE && x.Tok != token.ASSIGN {
			fail(s, "assignment operator %s", x.Tok)
		}
		if x.Tok == token.ASSIGN && !t.u64[name] {
			fail(s, "assignment to %s, which is not a declared uint64 variable", name)
		}
		e, b := t.expr(x.Rhs[0])
		if b {
			fail(s, "boolean assigned")
		}
		t.u64[name] = true
		return ind + "let " + name + " : UInt64 := " + e + "\n" + t.stmts(rest, ind)
	case *ast.IfStmt:
		if x.Init != nil {
			fail(s, "if with init")
		}
		c, b := t.expr(x.Cond)
		if !b {
			fail(s, "non-boolean condition")
		}
		thenS := t.stmts(append(append([]ast.Stmt{}, x.Body.List...), rest...), ind+"  ")
		var elseList []ast.Stmt
		switch el := x.Else.(type) {
		case nil:
		case *ast.BlockStmt:
			elseList = el.List
		case *ast.IfStmt:
			elseList = []ast.Stmt{el}
		default:
			fail(s, "else form")
		}
		elseS := t.stmts(append(append([]ast.Stmt{}, elseList...), rest...), ind+"  ")
		return ind + "if " + c + " then\n" + thenS + ind + "else\n" + elseS
	case *ast.ReturnStmt:
		if len(x.Results) != 1 {
			fail(s, "return arity")
		}
		switch r := x.Results[0].(type) {
		case *ast.CompositeLit:
			if len(r.Elts) != 0 {
				fail(s, "non-empty literal returned")
			}
			return ind + "none\n"
		case *ast.SliceExpr:
			if sel(r.X) != "blockchain.blocks" || r.Low == nil || r.High == nil || r.Max != nil {
				fail(s, "slice expression")
			}
			lo, b1 := t.expr(r.Low)
			hi, b2 := t.expr(r.High)
			if b1 || b2 {
				fail(s, "boolean slice bound")
			}
			return ind + "some (" + lo + ", " + hi + ")\n"
		}
		fail(s, "returned expression")
	}
	fail(s, "statement form %T", s)
	return ""
}

// mentions reports whether the node mentions the identifier
func mentions(n ast.Node, name string) bool {
	found := false
	ast.Inspect(n, func(x ast.Node) bool {
		if id, ok := x.(*ast.Ident); ok && id.Name == name {
			found = true
		}
		return !found
	})
	return found
}

// isErrReturn: `return 0, <anything>` (the error paths of CalculateFee)
func isErrReturn(s ast.Stmt) bool {
	r, ok := s.(*ast.ReturnStmt)
	if !ok || len(r.Results) != 2 {
		return false
	}
	l, ok := r.Results[0].(*ast.BasicLit)
	return ok && l.Value == "0"
}

// allPathsErr: every path through the block ends in an error return (`return 0, err`), whatever it tests on the way
func allPathsErr(ss []ast.Stmt) bool {
	if len(ss) == 0 {
		return false
	}
	for _, s := range ss[:len(ss)-1] {
		switch x := s.(type) {
		case *ast.IfStmt:
			if x.Init != nil || !allPathsErr(x.Body.List) {
				return false
			}
			if x.Else != nil {
				if b, ok := x.Else.(*ast.BlockStmt); !ok || !allPathsErr(b.List) {
					return false
				}
			}
		default:
			return false
		}
	}
	return isErrReturn(ss[len(ss)-1])
}

// accStep translates the statements of a loop body that mention the accumulator `acc` into
//
//	if c then none else … some acc'      (an error return ↦ none, `acc += e` ↦ let acc := acc + e)
//
// statements that do not mention `acc` are not arithmetic on it (look-ups, owner check, valuation) and are dropped: they
// are the model's lookup / owner / valuation steps, tied by the source skeleton and the correspondence.
func (t *tr) accStep(body []ast.Stmt, acc string, ind string) string {
	var rel []ast.Stmt
	for _, s := range body {
		if mentions(s, acc) {
			rel = append(rel, s)
		}
	}
	var rec func(ss []ast.Stmt, ind string) string
	rec = func(ss []ast.Stmt, ind string) string {
		if len(ss) == 0 {
			return ind + "some " + acc + "\n"
		}
		switch x := ss[0].(type) {
		case *ast.IfStmt:
			if x.Init != nil || x.Else != nil || !allPathsErr(x.Body.List) {
				fail(x, "accumulator check whose body does not end every path in `return 0, err`")
			}
			c, b := t.expr(x.Cond)
			if !b {
				fail(x, "non-boolean condition")
			}
			return ind + "if " + c + " then none\n" + ind + "else\n" + rec(ss[1:], ind+"  ")
		case *ast.AssignStmt:
			if len(x.Lhs) != 1 || len(x.Rhs) != 1 || sel(x.Lhs[0]) != acc {
				fail(x, "assignment involving the accumulator")
			}
			e, b := t.expr(x.Rhs[0])
			if b {
				fail(x, "boolean added")
			}
			switch x.Tok {
			case token.ADD_ASSIGN:
				return ind + "let " + acc + " : UInt64 := (" + acc + " + " + e + ")\n" + rec(ss[1:], ind)
			case token.ASSIGN:
				return ind + "let " + acc + " : UInt64 := " + e + "\n" + rec(ss[1:], ind)
			}
			fail(x, "accumulator assignment operator %s", x.Tok)
		}
		fail(ss[0], "statement on the accumulator of form %T", ss[0])
		return ""
	}
	return rec(rel, ind)
}

// feeDefs translates (*UtxosRegistry).CalculateFee's arithmetic: the two checked sums and the final fee rule
func feeDefs(repo string) string {
	path := filepath.Join(repo, "validatornode/application/verification/utxos_registry.go")
	f, err := parser.ParseFile(fset, path, nil, 0)
	if err != nil {
		fail(nil, "parse: %v", err)
	}
	var fn *ast.FuncDecl
	for _, d := range f.Decls {
		if fd, ok := d.(*ast.FuncDecl); ok && fd.Recv != nil && fd.Name.Name == "CalculateFee" {
			fn = fd
		}
	}
	if fn == nil {
		fail(nil, "CalculateFee not found")
	}
	var accs []string
	var sb strings.Builder
	var tail []ast.Stmt
	loops := 0
	for i, s := range fn.Body.List {
		switch x := s.(type) {
		case *ast.ExprStmt:
			if c, ok := x.X.(*ast.CallExpr); ok && sel(c.Fun) == "registry.mutex.RLock" {
				continue
			}
			fail(s, "expression statement")
		case *ast.DeferStmt:
			if sel(x.Call.Fun) == "registry.mutex.RUnlock" {
				continue
			}
			fail(s, "defer")
		case *ast.DeclStmt:
			gd, ok := x.Decl.(*ast.GenDecl)
			if !ok || gd.Tok != token.VAR || len(gd.Specs) != 1 {
				fail(s, "declaration")
			}
			vs := gd.Specs[0].(*ast.ValueSpec)
			if len(vs.Names) != 1 || len(vs.Values) != 0 || sel(vs.Type) != "uint64" {
				fail(s, "only `var x uint64`")
			}
			accs = append(accs, vs.Names[0].Name)
			continue
		case *ast.RangeStmt:
			c, ok := x.X.(*ast.CallExpr)
			if !ok || (sel(c.Fun) != "transaction.Inputs" && sel(c.Fun) != "transaction.Outputs") {
				fail(s, "loop over something else than the transaction's inputs / outputs")
			}
			// the accumulator of this loop: the declared one its body mentions
			var acc string
			for _, a := range accs {
				if mentions(x.Body, a) {
					if acc != "" {
						fail(s, "a loop mentions two accumulators")
					}
					acc = a
				}
			}
			if acc == "" {
				fail(s, "a loop mentions no accumulator")
			}
			t := &tr{u64: map[string]bool{acc: true}, calls: map[string]string{"output.InitialValue": "initialValue"}, used: map[string]bool{}}
			// the value added: an identifier defined in the body (value := utxo.Value(…)) or output.InitialValue()
			for _, b := range x.Body.List {
				if as, ok := b.(*ast.AssignStmt); ok && as.Tok == token.DEFINE && len(as.Lhs) == 1 {
					if c, ok := as.Rhs[0].(*ast.CallExpr); ok && sel(c.Fun) == "utxo.Value" {
						t.u64[as.Lhs[0].(*ast.Ident).Name] = true
						t.used[as.Lhs[0].(*ast.Ident).Name] = true
					}
				}
			}
			body := t.accStep(x.Body.List, acc, "  ")
			var ps []string
			for n := range t.used {
				ps = append(ps, n)
			}
			if len(ps) != 1 {
				fail(s, "the loop adds %d different values to its accumulator", len(ps))
			}
			name := map[string]string{"transaction.Inputs": "feeInputStep", "transaction.Outputs": "feeOutputStep"}[sel(c.Fun)]
			sb.WriteString("/-- one iteration of the loop over `" + sel(c.Fun) + "()` of `CalculateFee`, as far as `" + acc + "` is concerned (`none` = an error return) -/\n")
			sb.WriteString("def " + name + " (" + acc + " " + ps[0] + " : UInt64) : Option UInt64 :=\n" + body + "\n")
			loops++
			continue
		}
		tail = fn.Body.List[i:]
		break
	}
	if loops != 2 || len(accs) != 2 {
		fail(fn, "expected two accumulators and two loops, found %d and %d", len(accs), loops)
	}
	// the final rule
	t := &tr{u64: map[string]bool{accs[0]: true, accs[1]: true}, calls: map[string]string{}, used: map[string]bool{}}
	var rec func(ss []ast.Stmt, ind string) string
	rec = func(ss []ast.Stmt, ind string) string {
		if len(ss) == 0 {
			fail(fn, "the final rule does not end in a return")
		}
		switch x := ss[0].(type) {
		case *ast.IfStmt:
			if x.Init != nil || x.Else != nil || !allPathsErr(x.Body.List) {
				fail(x, "final check whose body does not end every path in `return 0, err`")
			}
			c, b := t.expr(x.Cond)
			if !b {
				fail(x, "non-boolean condition")
			}
			return ind + "if " + c + " then none\n" + ind + "else\n" + rec(ss[1:], ind+"  ")
		case *ast.AssignStmt:
			if len(x.Lhs) != 1 || len(x.Rhs) != 1 || x.Tok != token.DEFINE {
				fail(x, "final assignment")
			}
			name := x.Lhs[0].(*ast.Ident).Name
			if c, ok := x.Rhs[0].(*ast.CallExpr); ok && strings.HasPrefix(sel(c.Fun), "registry.settings.") && len(c.Args) == 0 {
				t.params = append(t.params, name)
				t.u64[name] = true
				return rec(ss[1:], ind)
			}
			e, b := t.expr(x.Rhs[0])
			if b {
				fail(x, "boolean assigned")
			}
			t.u64[name] = true
			return ind + "let " + name + " : UInt64 := " + e + "\n" + rec(ss[1:], ind)
		case *ast.ReturnStmt:
			if len(x.Results) != 2 || sel(x.Results[1]) != "nil" {
				fail(x, "final return")
			}
			e, b := t.expr(x.Results[0])
			if b {
				fail(x, "boolean returned")
			}
			return ind + "some " + e + "\n"
		}
		fail(ss[0], "final statement of form %T", ss[0])
		return ""
	}
	body := rec(tail, "  ")
	sb.WriteString("/-- the end of `CalculateFee`: the fee rule on the two sums (`none` = an error return) -/\n")
	sb.WriteString("def feeFinal (" + accs[0] + " " + accs[1])
	for _, p := range t.params {
		sb.WriteString(" " + p)
	}
	sb.WriteString(" : UInt64) : Option UInt64 :=\n" + body + "\n")
	return sb.String()
}

// section runs one translation unit; an error in it is recorded under its name and the unit emits nothing — the other
// units are unaffected (the theorems over the missing definitions no longer check; the engines report which)
var sectionErrors []string

func section(name string, f func() string) (out string) {
	defer func() {
		if r := recover(); r != nil {
			if x, ok := r.(xerr); ok {
				sectionErrors = append(sectionErrors, "SECTION-ERROR "+name+": "+x.msg)
				out = "-- " + name + ": not translated (" + strings.ReplaceAll(x.msg, "\n", " ") + ")\n\n"
				return
			}
			panic(r)
		}
	}()
	return f()
}

func blocksDef(repo string) string {
	path := filepath.Join(repo, "validatornode/application/verification/blockchain.go")
	f, err := parser.ParseFile(fset, path, nil, 0)
	if err != nil {
		fail(nil, "parse: %v", err)
	}
	var blocks, isEmpty *ast.FuncDecl
	for _, d := range f.Decls {
		if fd, ok := d.(*ast.FuncDecl); ok && fd.Recv != nil {
			switch fd.Name.Name {
			case "Blocks":
				blocks = fd
			case "isEmpty":
				isEmpty = fd
			}
		}
	}
	if blocks == nil || isEmpty == nil {
		fail(nil, "Blocks / isEmpty not found")
	}
	// isEmpty must be `return len(blockchain.blocks) == 0`
	okEmpty := false
	if len(isEmpty.Body.List) == 1 {
		if r, ok := isEmpty.Body.List[0].(*ast.ReturnStmt); ok && len(r.Results) == 1 {
			if b, ok := r.Results[0].(*ast.BinaryExpr); ok && b.Op == token.EQL {
				if c, ok := b.X.(*ast.CallExpr); ok && sel(c.Fun) == "len" && len(c.Args) == 1 && sel(c.Args[0]) == "blockchain.blocks" {
					if l, ok := b.Y.(*ast.BasicLit); ok && l.Value == "0" {
						okEmpty = true
					}
				}
			}
		}
	}
	if !okEmpty {
		fail(isEmpty, "isEmpty is no longer `return len(blockchain.blocks) == 0`")
	}
	if blocks.Type.Params.NumFields() != 1 || sel(blocks.Type.Params.List[0].Type) != "uint64" {
		fail(blocks, "Blocks no longer takes one uint64")
	}
	p0 := blocks.Type.Params.List[0].Names[0].Name
	t := &tr{u64: map[string]bool{p0: true}, calls: map[string]string{}, used: map[string]bool{}}
	body := t.stmts(blocks.Body.List, "  ")
	if t.count == "" {
		fail(blocks, "the blocks count is never bound")
	}
	var sb strings.Builder
	sb.WriteString("/-- `(*Blockchain).Blocks`: the bounds of the slice expression it returns (`none` = the empty list literal) -/\n")
	sb.WriteString("def blocksRange (" + p0)
	for _, p := range t.params {
		sb.WriteString(" " + p)
	}
	sb.WriteString(" : UInt64) (" + t.count + " : Nat) : Option (UInt64 × UInt64) :=\n")
	sb.WriteString(body)
	sb.WriteString("\n")
	return sb.String()
}

func main() {
	repo := flag.String("repo", "/repo", "repository root")
	out := flag.String("out", "", "output file (stdout when empty)")
	group := flag.String("group", "", "which Lean package the definitions are for: \"\" (lean/core) or neigh")
	flag.Parse()
	var sb strings.Builder
	sb.WriteString("-- generated by harness/cmd/ruextract-arith from the Go source; do not edit\n")
	sb.WriteString("namespace Gen\n\n")
	if *group == "" {
		sb.WriteString(section("blocks", func() string { return blocksDef(*repo) }))
		sb.WriteString(section("fee", func() string { return feeDefs(*repo) }))
	}
	for i := range guardSpecs {
		sp := &guardSpecs[i]
		if sp.group != *group {
			continue
		}
		sb.WriteString(section("guards:"+sp.fn, func() string { return guardDef(*repo, sp) }))
	}
	sb.WriteString("end Gen\n")
	text := sb.String()
	for _, e := range sectionErrors {
		fmt.Fprintln(os.Stderr, "ruextract-arith: "+e)
	}
	if *out == "" {
		fmt.Print(text)
		return
	}
	if err := os.WriteFile(*out, []byte(text), 0o644); err != nil {
		fmt.Fprintln(os.Stderr, err)
		os.Exit(1)
	}
}
