package main

// Guard conditions on timestamps and sums.
//
// For each function listed in guardSpecs, every `if` / `else if` condition of its body (nested ones included, in
// source order; goroutine bodies excluded) whose leaves are all INTEGER values of the function is translated into a
// Bool over Int64 / UInt64 / Int (Go's wrap-around arithmetic for the sized types; `int` values built from `len` are
// unbounded, `/` is truncated division).  The integer values are found, not listed: parameters and `var`
// declarations of type int64 / uint64 / int, variables whose only definition is an integer expression (these become
// `let`s), and the zero-argument reads and `len(…)` calls named in the spec (the "atoms": API names, not locals).  A
// variable that is re-assigned, accumulated or carried through a loop is an INPUT of the conditions that read it.
// The Lean parameters are positional — inputs in order of first use, then the atoms in the spec's order — so renaming a
// local changes nothing that the theorems see.  The result is one Lean definition per function returning the LIST of
// these conditions; the theorems in Core/Props/Cguards*.lean and C06guards.lean state, for the whole list, which
// conditions of the model they are.  A changed operator, operand or bound changes the definition and the theorem no
// longer checks; a condition that starts mentioning anything else drops out of the list and the theorem (stated about
// the whole list) no longer type-checks or no longer holds; an equivalent rewrite (`b >= a` for `a <= b`, operands
// swapped, a renamed or inlined local) still proves.  Conditions over other things (errors, strings, flags, nil) are
// not arithmetic and are left to the source skeleton and the correspondence.

import (
	"go/ast"
	"go/parser"
	"go/token"
	"path/filepath"
	"sort"
	"strings"
)

type gvar struct{ name, typ string }

type gspec struct {
	file, fn, lean, doc string
	group               string          // "" = lean/core (Core/GenBlocks.lean), "neigh" = lean/neigh (Neigh/Gen.lean)
	atoms               map[string]gvar // zero-argument calls read as integer inputs
	atomOrder           []string
}

var guardSpecs = []gspec{
	{
		file: "validatornode/application/verification/blockchain.go", fn: "AddBlock", lean: "addBlockGuards",
		doc:       "`(*Blockchain).AddBlock`: the integer conditions it tests (the not-after-tip refusal)",
		atoms:     map[string]gvar{"previousBlock.Timestamp": {"previousBlockTimestamp", "Int64"}},
		atomOrder: []string{"previousBlock.Timestamp"},
	},
	{
		file: "validatornode/application/verification/blockchain.go", fn: "verifyBlock", lean: "verifyBlockGuards",
		doc: "`(*Blockchain).verifyBlock`: the integer conditions it tests, in source order (block date, transaction window, reward)",
		atoms: map[string]gvar{"neighborBlock.Timestamp": {"blockTimestamp", "Int64"}, "blockchain.settings.ValidationTimestamp": {"validationTimestamp", "Int64"},
			"transaction.Timestamp": {"transactionTimestamp", "Int64"}},
		atomOrder: []string{"neighborBlock.Timestamp", "blockchain.settings.ValidationTimestamp", "transaction.Timestamp"},
	},
	{
		file: "validatornode/application/validation/transactions_pool.go", fn: "addTransaction", lean: "addTransactionGuards",
		doc: "`(*TransactionsPool).addTransaction`: the integer conditions it tests (empty chain, date window)",
		atoms: map[string]gvar{"pool.blocksManager.LastBlockTimestamp": {"lastTimestamp", "Int64"}, "pool.settings.ValidationTimestamp": {"validationTimestamp", "Int64"},
			"transaction.Timestamp": {"transactionTimestamp", "Int64"}},
		atomOrder: []string{"pool.blocksManager.LastBlockTimestamp", "pool.settings.ValidationTimestamp", "transaction.Timestamp"},
	},
	{
		file: "validatornode/application/validation/transactions_pool.go", fn: "Validate", lean: "validateGuards",
		doc: "`(*TransactionsPool).Validate`: the integer conditions it tests (genesis, same slot, missing block, date window of a pooled transaction)",
		atoms: map[string]gvar{"pool.blocksManager.LastBlockTimestamp": {"lastTimestamp", "Int64"}, "pool.settings.ValidationTimestamp": {"validationTimestamp", "Int64"},
			"transaction.Timestamp": {"transactionTimestamp", "Int64"}},
		atomOrder: []string{"pool.blocksManager.LastBlockTimestamp", "pool.settings.ValidationTimestamp", "transaction.Timestamp"},
	},
	{
		file: "validatornode/application/verification/utxos_registry.go", fn: "UpdateUtxos", lean: "updateUtxosGuards",
		doc: "`(*UtxosRegistry).UpdateUtxos`: the conditions over counts, values and income flags it tests, in source order (a transaction " +
			"creates outputs; the input's index is within the slots; a slot is still useful; the owner's list is empty)",
		atoms: map[string]gvar{"len(transaction.Outputs())": {"outputsCount", "Int"},
			"transaction.Outputs()[0].InitialValue()": {"firstInitialValue", "UInt64"}, "transaction.Outputs()[0].IsYielding()": {"firstIsYielding", "Bool"},
			"int(input.OutputIndex())": {"inputIndex", "Int"}, "len(utxosForInputTransactionId)": {"slotsCount", "Int"},
			"output != nil": {"outputPresent", "Bool"}, "output.InitialValue()": {"initialValue", "UInt64"}, "output.IsYielding()": {"isYielding", "Bool"},
			"len(utxosForUtxoAddress)": {"addressListLength", "Int"}},
		atomOrder: []string{"len(transaction.Outputs())", "transaction.Outputs()[0].InitialValue()", "transaction.Outputs()[0].IsYielding()",
			"int(input.OutputIndex())", "len(utxosForInputTransactionId)", "output != nil", "output.InitialValue()", "output.IsYielding()",
			"len(utxosForUtxoAddress)"},
	},
	{
		file: "validatornode/application/verification/blockchain.go", fn: "Update", lean: "updateGuards",
		doc: "`(*Blockchain).Update`: the integer conditions of the fork choice, in source order (host is a candidate, all-forks fallback, " +
			"shortest / longest bookkeeping, majority threshold, longest filter, oldest recipient, is-different, blocks to confirm); " +
			"Go `int` values built from `len` are unbounded integers here (`/` is truncated division)",
		atoms: map[string]gvar{"len(hostBlocks)": {"hostLength", "Int"}, "len(blocksByTarget)": {"candidatesCount", "Int"},
			"len(blocks)": {"blocksLength", "Int"}, "len(neighbors)": {"neighborsCount", "Int"}, "len(selectedBlocks)": {"selectedLength", "Int"}},
		atomOrder: []string{"len(hostBlocks)", "len(blocksByTarget)", "len(blocks)", "len(neighbors)", "len(selectedBlocks)"},
	},
	{
		group: "neigh", file: "validatornode/application/network/neighborhood.go", fn: "Synchronize", lean: "synchronizeGuards",
		doc:       "`(*Neighborhood).Synchronize`: the integer condition it tests (no known target: fall back to the seeds)",
		atoms:     map[string]gvar{"len(neighborhood.scoresByTargetValue)": {"knownCount", "Int"}},
		atomOrder: []string{"len(neighborhood.scoresByTargetValue)"},
	},
	{
		group: "neigh", file: "validatornode/application/network/neighborhood.go", fn: "selectOutbounds", lean: "selectOutboundsGuards",
		doc: "`(*Neighborhood).selectOutbounds`: the integer condition it tests (the bucket reaches the limit: take a part of it and stop)",
		atoms: map[string]gvar{"min(targetsCount, neighborhood.maxOutboundsCount)": {"outboundsLimit", "Int"}, "len(outbounds)": {"outboundsLength", "Int"},
			"len(neighborsByScore[keys[i]])": {"bucketLength", "Int"}},
		atomOrder: []string{"min(targetsCount, neighborhood.maxOutboundsCount)", "len(outbounds)", "len(neighborsByScore[keys[i]])"},
	},
	{
		group: "neigh", file: "validatornode/application/network/neighborhood.go", fn: "min", lean: "minGuards",
		doc:   "`min`: the condition it tests",
		atoms: map[string]gvar{}, atomOrder: []string{},
	},
}

// akey renders an expression as the text the specs use for atoms: selectors, calls with their arguments, indexing by a
// literal, comparison with nil, conversions
func akey(e ast.Expr) string {
	switch x := e.(type) {
	case *ast.Ident:
		return x.Name
	case *ast.BasicLit:
		return x.Value
	case *ast.ParenExpr:
		return akey(x.X)
	case *ast.SelectorExpr:
		if k := akey(x.X); k != "" {
			return k + "." + x.Sel.Name
		}
	case *ast.CallExpr:
		f := akey(x.Fun)
		if f == "" {
			return ""
		}
		var as []string
		for _, a := range x.Args {
			k := akey(a)
			if k == "" {
				return ""
			}
			as = append(as, k)
		}
		return f + "(" + strings.Join(as, ", ") + ")"
	case *ast.IndexExpr:
		if k, i := akey(x.X), akey(x.Index); k != "" && i != "" {
			return k + "[" + i + "]"
		}
	case *ast.BinaryExpr:
		if id, ok := x.Y.(*ast.Ident); ok && id.Name == "nil" && (x.Op == token.NEQ || x.Op == token.EQL) {
			if k := akey(x.X); k != "" {
				return k + " " + x.Op.String() + " nil"
			}
		}
	}
	return ""
}

type gtr struct {
	spec     *gspec
	typ      map[string]string // integer variable -> Lean type (parameters, typed declarations, integer assignments)
	writes   map[string]int    // assignments (any form) per identifier in the function body
	letBound map[string]bool
	useOrder []string // integer variables in order of first use
	used     map[string]bool
	usedAtom map[string]bool
	lines    []string
	guards   int
}

// gexpr translates an integer / boolean expression; ok=false when a leaf is not an integer value of the spec
func (g *gtr) gexpr(e ast.Expr) (s string, typ string, ok bool) {
	// a whole expression named in the spec is read as one input (`output != nil`, `int(input.OutputIndex())`, …)
	if k := akey(e); k != "" {
		if a, found := g.spec.atoms[k]; found {
			g.usedAtom[k] = true
			return a.name, a.typ, true
		}
	}
	switch x := e.(type) {
	case *ast.ParenExpr:
		s, typ, ok = g.gexpr(x.X)
		return "(" + s + ")", typ, ok
	case *ast.Ident:
		if t, known := g.typ[x.Name]; known {
			if !g.used[x.Name] {
				g.used[x.Name] = true
				g.useOrder = append(g.useOrder, x.Name)
			}
			return x.Name, t, true
		}
		return "", "", false
	case *ast.BasicLit:
		if x.Kind != token.INT {
			return "", "", false
		}
		return x.Value, "lit", true
	case *ast.CallExpr:
		if a, found := g.spec.atoms[sel(x.Fun)]; found && len(x.Args) == 0 {
			g.usedAtom[sel(x.Fun)] = true
			return a.name, a.typ, true
		}
		if id, isId := x.Fun.(*ast.Ident); isId && id.Name == "len" && len(x.Args) == 1 {
			key := "len(" + sel(x.Args[0]) + ")"
			if a, found := g.spec.atoms[key]; found {
				g.usedAtom[key] = true
				return a.name, a.typ, true
			}
		}
		return "", "", false
	case *ast.UnaryExpr:
		if x.Op == token.NOT {
			s, typ, ok = g.gexpr(x.X)
			if ok && typ == "Bool" {
				return "(!" + s + ")", "Bool", true
			}
		}
		return "", "", false
	case *ast.BinaryExpr:
		l, lt, lok := g.gexpr(x.X)
		r, rt, rok := g.gexpr(x.Y)
		if !lok || !rok {
			return "", "", false
		}
		unify := func() (string, bool) {
			switch {
			case lt == "lit" && rt == "lit":
				return "", false
			case lt == "lit":
				l = "(" + l + " : " + rt + ")"
				return rt, true
			case rt == "lit":
				r = "(" + r + " : " + lt + ")"
				return lt, true
			case lt == rt && lt != "Bool":
				return lt, true
			}
			return "", false
		}
		switch x.Op {
		case token.ADD, token.SUB, token.MUL:
			t, ok := unify()
			if !ok {
				fail(e, "arithmetic on operands of types %s and %s", lt, rt)
			}
			return "(" + l + " " + x.Op.String() + " " + r + ")", t, true
		case token.QUO:
			t, ok := unify()
			if !ok || t != "Int" {
				fail(e, "division on operands of types %s and %s", lt, rt)
			}
			return "(Int.tdiv " + l + " " + r + ")", t, true
		case token.LSS, token.GTR, token.LEQ, token.GEQ:
			if _, ok := unify(); !ok {
				fail(e, "comparison of operands of types %s and %s", lt, rt)
			}
			op := map[token.Token]string{token.LSS: "<", token.GTR: ">", token.LEQ: "≤", token.GEQ: "≥"}[x.Op]
			return "decide (" + l + " " + op + " " + r + ")", "Bool", true
		case token.EQL, token.NEQ:
			if _, ok := unify(); !ok {
				fail(e, "equality of operands of types %s and %s", lt, rt)
			}
			op := "=="
			if x.Op == token.NEQ {
				op = "!="
			}
			return "(" + l + " " + op + " " + r + ")", "Bool", true
		case token.LOR, token.LAND:
			if lt != "Bool" || rt != "Bool" {
				return "", "", false
			}
			op := "||"
			if x.Op == token.LAND {
				op = "&&"
			}
			return "(" + l + " " + op + " " + r + ")", "Bool", true
		}
		fail(e, "operator %s between integer values", x.Op)
	}
	return "", "", false
}

// goIntType maps the Go integer types the translator knows to Lean types
var goIntType = map[string]string{"int64": "Int64", "uint64": "UInt64", "int": "Int"}

// prepass counts the assignments to every identifier and records the declared integer types (parameters are typed by
// the caller); function literals (goroutine bodies) are not part of the function's own control flow
func (g *gtr) prepass(n ast.Node) {
	ast.Inspect(n, func(n ast.Node) bool {
		switch x := n.(type) {
		case *ast.FuncLit:
			return false
		case *ast.AssignStmt:
			for _, l := range x.Lhs {
				if id, ok := l.(*ast.Ident); ok {
					g.writes[id.Name]++
				}
			}
		case *ast.IncDecStmt:
			if id, ok := x.X.(*ast.Ident); ok {
				g.writes[id.Name] += 2 // a counter: never a single definition
			}
		case *ast.RangeStmt:
			for _, l := range []ast.Expr{x.Key, x.Value} {
				if id, ok := l.(*ast.Ident); ok {
					g.writes[id.Name] += 2
				}
			}
		case *ast.ValueSpec:
			if t, ok := goIntType[sel(x.Type)]; ok {
				for _, nm := range x.Names {
					if old, dup := g.typ[nm.Name]; dup && old != t {
						fail(x, "%s is declared with two integer types", nm.Name)
					}
					g.typ[nm.Name] = t
					if len(x.Values) > 0 {
						g.writes[nm.Name]++
					}
				}
			}
		}
		return true
	})
}

func (g *gtr) walk(n ast.Node) {
	ast.Inspect(n, func(n ast.Node) bool {
		switch x := n.(type) {
		case *ast.FuncLit:
			return false
		case *ast.AssignStmt:
			if len(x.Lhs) != 1 || len(x.Rhs) != 1 || (x.Tok != token.DEFINE && x.Tok != token.ASSIGN) {
				return true
			}
			id, isId := x.Lhs[0].(*ast.Ident)
			if !isId {
				return true
			}
			s, t, ok := g.gexpr(x.Rhs[0])
			if !ok || t == "Bool" {
				return true // not integer arithmetic: if the variable is a typed integer it is an input of what reads it
			}
			declared, typed := g.typ[id.Name]
			if t == "lit" {
				if !typed {
					return true
				}
				t = declared
				s = "(" + s + " : " + t + ")"
			}
			if typed && declared != t {
				fail(x, "%s : %s is assigned a value of type %s", id.Name, declared, t)
			}
			g.typ[id.Name] = t
			if g.writes[id.Name] == 1 && !g.used[id.Name] {
				// the variable's only definition, an integer expression: a `let`
				g.letBound[id.Name] = true
				g.lines = append(g.lines, "  let "+id.Name+" : "+t+" := "+s)
			}
			// otherwise (re-assigned, accumulated, carried through a loop): an input of every condition that reads it
		case *ast.IfStmt:
			if s, t, ok := g.gexpr(x.Cond); ok && t == "Bool" {
				g.lines = append(g.lines, "  let g"+itoa(g.guards)+" : Bool := "+s)
				g.guards++
			}
		}
		return true
	})
}

func itoa(n int) string {
	if n == 0 {
		return "0"
	}
	s := ""
	for n > 0 {
		s = string(rune('0'+n%10)) + s
		n /= 10
	}
	return s
}

var guardFiles = map[string]*ast.File{}

func guardDef(repo string, sp *gspec) string {
	var sb strings.Builder
	{
		f := guardFiles[sp.file]
		if f == nil {
			var err error
			f, err = parser.ParseFile(fset, filepath.Join(repo, sp.file), nil, 0)
			if err != nil {
				fail(nil, "parse: %v", err)
			}
			guardFiles[sp.file] = f
		}
		var fd *ast.FuncDecl
		for _, d := range f.Decls {
			if x, ok := d.(*ast.FuncDecl); ok && x.Name.Name == sp.fn {
				fd = x
			}
		}
		if fd == nil {
			fail(nil, "%s: method %s not found", sp.file, sp.fn)
		}
		g := &gtr{spec: sp, typ: map[string]string{}, writes: map[string]int{}, letBound: map[string]bool{}, used: map[string]bool{},
			usedAtom: map[string]bool{}}
		for _, p := range fd.Type.Params.List {
			if t, ok := goIntType[sel(p.Type)]; ok {
				for _, nm := range p.Names {
					g.typ[nm.Name] = t
				}
			}
		}
		g.prepass(fd.Body)
		g.walk(fd.Body)
		if g.guards == 0 {
			fail(fd, "%s tests no integer condition any more", sp.fn)
		}
		// parameters: the integer variables that are read and are not `let`s, in order of first use; then the atoms
		var params []string
		for _, v := range g.useOrder {
			if !g.letBound[v] {
				params = append(params, "("+v+" : "+g.typ[v]+")")
			}
		}
		for _, a := range sp.atomOrder {
			if g.usedAtom[a] {
				params = append(params, "("+sp.atoms[a].name+" : "+sp.atoms[a].typ+")")
			}
		}
		var unused []string
		for a := range sp.atoms {
			if !g.usedAtom[a] {
				unused = append(unused, a)
			}
		}
		sort.Strings(unused)
		if len(unused) > 0 {
			fail(fd, "%s no longer reads %s", sp.fn, strings.Join(unused, ", "))
		}
		sb.WriteString("/-- " + sp.doc + " -/\n")
		sb.WriteString("def " + sp.lean + " " + strings.Join(params, " ") + " : List Bool :=\n")
		for _, l := range g.lines {
			sb.WriteString(l + "\n")
		}
		var gs []string
		for i := 0; i < g.guards; i++ {
			gs = append(gs, "g"+itoa(i))
		}
		sb.WriteString("  [" + strings.Join(gs, ", ") + "]\n\n")
	}
	return sb.String()
}
