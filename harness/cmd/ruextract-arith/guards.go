package main

// Guard conditions on timestamps and sums.
//
// For each function listed in guardSpecs, every `if` / `else if` condition of its body (nested ones included, in
// source order) whose leaves are all INTEGER values of the function — the variables and zero-argument calls named in
// the spec, integer literals — is translated into a Bool over Int64 / UInt64 (Go's wrap-around arithmetic), together
// with the integer assignments it depends on (`x := a + b` becomes a `let`).  The result is one Lean definition per
// function returning the LIST of these conditions; the theorems in Core/Props/Cguards.lean state, for the whole list,
// which conditions of the model they are.  A changed operator, operand or bound changes the definition and the
// theorem no longer checks; a condition that starts mentioning anything else drops out of the list and the theorem
// (stated about the whole list) no longer type-checks or no longer holds; an equivalent rewrite (`b >= a` for
// `a <= b`, operands swapped) still proves.  Conditions over other things (errors, strings, flags, nil) are not
// arithmetic and are left to the source skeleton and the correspondence.

import (
	"go/ast"
	"go/parser"
	"go/token"
	"path/filepath"
	"sort"
	"strings"
)

type gvar struct{ name, typ string }

type gspec struct {
	file, fn, lean, doc string
	vars                []gvar          // integer variables (parameters or locals), Lean parameter order
	atoms               map[string]gvar // zero-argument calls read as integer inputs
	atomOrder           []string
}

var guardSpecs = []gspec{
	{
		file: "validatornode/application/verification/blockchain.go", fn: "AddBlock", lean: "addBlockGuards",
		doc:  "`(*Blockchain).AddBlock`: the integer conditions it tests (the not-after-tip refusal)",
		vars: []gvar{{"timestamp", "Int64"}},
		atoms: map[string]gvar{"previousBlock.Timestamp": {"previousBlockTimestamp", "Int64"}},
		atomOrder: []string{"previousBlock.Timestamp"},
	},
	{
		file: "validatornode/application/verification/blockchain.go", fn: "verifyBlock", lean: "verifyBlockGuards",
		doc:  "`(*Blockchain).verifyBlock`: the integer conditions it tests, in source order (block date, transaction window, reward)",
		vars: []gvar{{"previousBlockTimestamp", "Int64"}, {"timestamp", "Int64"}, {"currentBlockTimestamp", "Int64"}, {"expectedBlockTimestamp", "Int64"},
			{"reward", "UInt64"}, {"totalTransactionsFees", "UInt64"}},
		atoms: map[string]gvar{"neighborBlock.Timestamp": {"blockTimestamp", "Int64"}, "blockchain.settings.ValidationTimestamp": {"validationTimestamp", "Int64"},
			"transaction.Timestamp": {"transactionTimestamp", "Int64"}},
		atomOrder: []string{"neighborBlock.Timestamp", "blockchain.settings.ValidationTimestamp", "transaction.Timestamp"},
	},
	{
		file: "validatornode/application/validation/transactions_pool.go", fn: "addTransaction", lean: "addTransactionGuards",
		doc:  "`(*TransactionsPool).addTransaction`: the integer conditions it tests (empty chain, date window)",
		vars: []gvar{{"lastBlockTimestamp", "Int64"}, {"nextBlockTimestamp", "Int64"}, {"timestamp", "Int64"}, {"currentBlockTimestamp", "Int64"}},
		atoms: map[string]gvar{"pool.blocksManager.LastBlockTimestamp": {"lastTimestamp", "Int64"}, "pool.settings.ValidationTimestamp": {"validationTimestamp", "Int64"},
			"transaction.Timestamp": {"transactionTimestamp", "Int64"}},
		atomOrder: []string{"pool.blocksManager.LastBlockTimestamp", "pool.settings.ValidationTimestamp", "transaction.Timestamp"},
	},
	{
		file: "validatornode/application/validation/transactions_pool.go", fn: "Validate", lean: "validateGuards",
		doc:  "`(*TransactionsPool).Validate`: the integer conditions it tests (genesis, same slot, missing block, date window of a pooled transaction)",
		vars: []gvar{{"timestamp", "Int64"}, {"lastBlockTimestamp", "Int64"}, {"nextBlockTimestamp", "Int64"}},
		atoms: map[string]gvar{"pool.blocksManager.LastBlockTimestamp": {"lastTimestamp", "Int64"}, "pool.settings.ValidationTimestamp": {"validationTimestamp", "Int64"},
			"transaction.Timestamp": {"transactionTimestamp", "Int64"}},
		atomOrder: []string{"pool.blocksManager.LastBlockTimestamp", "pool.settings.ValidationTimestamp", "transaction.Timestamp"},
	},
}

type gtr struct {
	spec     *gspec
	typ      map[string]string // Lean name -> type, for everything in scope
	goVar    map[string]bool
	letBound map[string]bool
	usedAtom map[string]bool
	lines    []string
	guards   int
}

// gexpr translates an integer / boolean expression; ok=false when a leaf is not an integer value of the spec
func (g *gtr) gexpr(e ast.Expr) (s string, typ string, ok bool) {
	switch x := e.(type) {
	case *ast.ParenExpr:
		s, typ, ok = g.gexpr(x.X)
		return "(" + s + ")", typ, ok
	case *ast.Ident:
		if g.goVar[x.Name] {
			return x.Name, g.typ[x.Name], true
		}
		return "", "", false
	case *ast.BasicLit:
		if x.Kind != token.INT {
			return "", "", false
		}
		return x.Value, "lit", true
	case *ast.CallExpr:
		if a, found := g.spec.atoms[sel(x.Fun)]; found && len(x.Args) == 0 {
			g.usedAtom[sel(x.Fun)] = true
			return a.name, a.typ, true
		}
		return "", "", false
	case *ast.UnaryExpr:
		if x.Op == token.NOT {
			s, typ, ok = g.gexpr(x.X)
			if ok && typ == "Bool" {
				return "(!" + s + ")", "Bool", true
			}
		}
		return "", "", false
	case *ast.BinaryExpr:
		l, lt, lok := g.gexpr(x.X)
		r, rt, rok := g.gexpr(x.Y)
		if !lok || !rok {
			return "", "", false
		}
		unify := func() (string, bool) {
			switch {
			case lt == "lit" && rt == "lit":
				return "", false
			case lt == "lit":
				l = "(" + l + " : " + rt + ")"
				return rt, true
			case rt == "lit":
				r = "(" + r + " : " + lt + ")"
				return lt, true
			case lt == rt && lt != "Bool":
				return lt, true
			}
			return "", false
		}
		switch x.Op {
		case token.ADD, token.SUB, token.MUL:
			t, ok := unify()
			if !ok {
				fail(e, "arithmetic on operands of types %s and %s", lt, rt)
			}
			return "(" + l + " " + x.Op.String() + " " + r + ")", t, true
		case token.LSS, token.GTR, token.LEQ, token.GEQ:
			if _, ok := unify(); !ok {
				fail(e, "comparison of operands of types %s and %s", lt, rt)
			}
			op := map[token.Token]string{token.LSS: "<", token.GTR: ">", token.LEQ: "≤", token.GEQ: "≥"}[x.Op]
			return "decide (" + l + " " + op + " " + r + ")", "Bool", true
		case token.EQL, token.NEQ:
			if _, ok := unify(); !ok {
				fail(e, "equality of operands of types %s and %s", lt, rt)
			}
			op := "=="
			if x.Op == token.NEQ {
				op = "!="
			}
			return "(" + l + " " + op + " " + r + ")", "Bool", true
		case token.LOR, token.LAND:
			if lt != "Bool" || rt != "Bool" {
				return "", "", false
			}
			op := "||"
			if x.Op == token.LAND {
				op = "&&"
			}
			return "(" + l + " " + op + " " + r + ")", "Bool", true
		}
		fail(e, "operator %s between integer values", x.Op)
	}
	return "", "", false
}

func (g *gtr) walk(n ast.Node) {
	ast.Inspect(n, func(n ast.Node) bool {
		switch x := n.(type) {
		case *ast.FuncLit:
			return false
		case *ast.AssignStmt:
			if len(x.Lhs) != 1 || len(x.Rhs) != 1 {
				return true
			}
			id, isId := x.Lhs[0].(*ast.Ident)
			if !isId || !g.goVar[id.Name] {
				return true
			}
			if x.Tok != token.DEFINE && x.Tok != token.ASSIGN {
				// `x += e`: from here on x is whatever the loop made of it — it must be an input, not a let
				if g.letBound[id.Name] {
					fail(x, "%s is both computed from integer values and accumulated", id.Name)
				}
				return true
			}
			s, t, ok := g.gexpr(x.Rhs[0])
			if !ok {
				if g.letBound[id.Name] {
					fail(x, "%s is assigned both an integer expression and something else", id.Name)
				}
				return true // assigned from something that is not integer arithmetic: an input
			}
			if t == "lit" {
				t = g.typ[id.Name]
				s = "(" + s + " : " + t + ")"
			}
			if t != g.typ[id.Name] {
				fail(x, "%s : %s is assigned a value of type %s", id.Name, g.typ[id.Name], t)
			}
			if g.letBound[id.Name] {
				fail(x, "%s is assigned an integer expression twice", id.Name)
			}
			g.letBound[id.Name] = true
			g.lines = append(g.lines, "  let "+id.Name+" : "+t+" := "+s)
		case *ast.IfStmt:
			if s, t, ok := g.gexpr(x.Cond); ok && t == "Bool" {
				g.lines = append(g.lines, "  let g"+itoa(g.guards)+" : Bool := "+s)
				g.guards++
			}
		}
		return true
	})
}

func itoa(n int) string {
	if n == 0 {
		return "0"
	}
	s := ""
	for n > 0 {
		s = string(rune('0'+n%10)) + s
		n /= 10
	}
	return s
}

func guardDefs(repo string) string {
	var sb strings.Builder
	files := map[string]*ast.File{}
	for i := range guardSpecs {
		sp := &guardSpecs[i]
		f := files[sp.file]
		if f == nil {
			var err error
			f, err = parser.ParseFile(fset, filepath.Join(repo, sp.file), nil, 0)
			if err != nil {
				fail(nil, "parse: %v", err)
			}
			files[sp.file] = f
		}
		var fd *ast.FuncDecl
		for _, d := range f.Decls {
			if x, ok := d.(*ast.FuncDecl); ok && x.Recv != nil && x.Name.Name == sp.fn {
				fd = x
			}
		}
		if fd == nil {
			fail(nil, "%s: method %s not found", sp.file, sp.fn)
		}
		g := &gtr{spec: sp, typ: map[string]string{}, goVar: map[string]bool{}, letBound: map[string]bool{}, usedAtom: map[string]bool{}}
		for _, v := range sp.vars {
			g.typ[v.name] = v.typ
			g.goVar[v.name] = true
		}
		// a configured variable must exist in the function (parameter or declared local) with the configured type
		declared := map[string]string{}
		for _, p := range fd.Type.Params.List {
			for _, nm := range p.Names {
				declared[nm.Name] = sel(p.Type)
			}
		}
		ast.Inspect(fd.Body, func(n ast.Node) bool {
			switch x := n.(type) {
			case *ast.AssignStmt:
				if x.Tok == token.DEFINE {
					for _, l := range x.Lhs {
						if id, ok := l.(*ast.Ident); ok {
							if _, dup := declared[id.Name]; !dup {
								declared[id.Name] = ":="
							}
						}
					}
				}
			case *ast.ValueSpec:
				for _, nm := range x.Names {
					declared[nm.Name] = sel(x.Type)
				}
			}
			return true
		})
		goType := map[string]string{"Int64": "int64", "UInt64": "uint64"}
		for _, v := range sp.vars {
			d, ok := declared[v.name]
			if !ok {
				fail(fd, "%s no longer has a variable %s", sp.fn, v.name)
			}
			if d != ":=" && d != goType[v.typ] {
				fail(fd, "%s: %s is declared %s, expected %s", sp.fn, v.name, d, goType[v.typ])
			}
		}
		g.walk(fd.Body)
		if g.guards == 0 {
			fail(fd, "%s tests no integer condition any more", sp.fn)
		}
		var params []string
		for _, v := range sp.vars {
			if !g.letBound[v.name] {
				params = append(params, "("+v.name+" : "+v.typ+")")
			}
		}
		for _, a := range sp.atomOrder {
			if g.usedAtom[a] {
				params = append(params, "("+sp.atoms[a].name+" : "+sp.atoms[a].typ+")")
			}
		}
		var unused []string
		for a := range sp.atoms {
			if !g.usedAtom[a] {
				unused = append(unused, a)
			}
		}
		sort.Strings(unused)
		if len(unused) > 0 {
			fail(fd, "%s no longer reads %s", sp.fn, strings.Join(unused, ", "))
		}
		sb.WriteString("/-- " + sp.doc + " -/\n")
		sb.WriteString("def " + sp.lean + " " + strings.Join(params, " ") + " : List Bool :=\n")
		for _, l := range g.lines {
			sb.WriteString(l + "\n")
		}
		var gs []string
		for i := 0; i < g.guards; i++ {
			gs = append(gs, "g"+itoa(i))
		}
		sb.WriteString("  [" + strings.Join(gs, ", ") + "]\n\n")
	}
	return sb.String()
}
