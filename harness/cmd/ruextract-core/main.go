// ruextract-core: a syntactic "skeleton" of the functions the hand-written Lean model lean/core mirrors.
//
// For every function of the listed files it prints the sequence of control-flow and effect tokens (IF cond, FOR,
// RET, SET lhs := rhs, DO call, GO, DEFER) with
//   - local variables, parameters and receivers alpha-renamed (v0, v1, … in order of first appearance),
//   - logger calls, comments, blank lines and the TEXT of error / log messages dropped,
// so that renames, re-wording and logging changes leave it unchanged while a removed, added, reordered or altered
// check, a changed bound, a different collaborator call or a different slice/map operation changes it.
// The check compares the skeleton of the current tree with the one the model was written against
// (engines/core_skeleton.json): a difference means the model is no longer known to mirror the code.
//
// go/ast only (fail-closed: an unknown node kind is printed with its Go type name, which then differs).
package main

import (
	"crypto/sha256"
	"encoding/hex"
	"encoding/json"
	"flag"
	"fmt"
	"go/ast"
	"go/parser"
	"go/token"
	"os"
	"path/filepath"
	"sort"
	"strings"
)

var fileSets = map[string][]string{
	"core": {
		"validatornode/application/verification/blockchain.go",
		"validatornode/application/verification/utxos_registry.go",
		"validatornode/application/verification/addresses_registry.go",
		"validatornode/application/validation/transactions_pool.go",
		"validatornode/domain/ledger/input.go",
		"validatornode/domain/ledger/input_info.go",
		"validatornode/domain/ledger/output.go",
		"validatornode/domain/ledger/transaction.go",
		"validatornode/domain/ledger/block.go",
		"validatornode/domain/ledger/utxo.go",
		"validatornode/domain/encryption/signature.go",
		"validatornode/domain/encryption/public_key.go",
	},
	"neigh": {
		"validatornode/application/network/neighborhood.go",
		"validatornode/application/network/target.go",
	},
	"wallet": {
		"accessnode/presentation/api/payment/info_controller.go",
		"accessnode/presentation/api/payment/progress_controller.go",
		"accessnode/presentation/api/payment/progress_info.go",
		"accessnode/presentation/api/payment/transaction_info.go",
		"accessnode/presentation/api/wallet/amount_controller.go",
	},
	"clock": {
		"validatornode/domain/clock/engine.go",
	},
	"codec": {
		"validatornode/domain/ledger/input.go",
		"validatornode/domain/ledger/input_info.go",
		"validatornode/domain/ledger/output.go",
		"validatornode/domain/ledger/transaction.go",
		"validatornode/domain/ledger/transaction_request.go",
		"validatornode/domain/ledger/block.go",
		"validatornode/domain/ledger/utxo.go",
		"validatornode/presentation/api/history/blocks_controller.go",
		"validatornode/presentation/api/network/senders_controller.go",
		"validatornode/presentation/api/payment/transactions_controller.go",
		"validatornode/presentation/api/wallet/utxos_controller.go",
	},
}

// utxo.go's formula functions are the decay engine's subject (regenerated and tied by rfl there)
var skipFuncs = map[string]bool{"utxo.go:Utxo.g": true, "utxo.go:Utxo.f": true, "utxo.go:Utxo.k1": true, "utxo.go:Utxo.k2": true,
	"utxo.go:g": true, "utxo.go:f": true, "utxo.go:k1": true, "utxo.go:k2": true}

type namer struct {
	names map[*ast.Object]string
}

func (n *namer) of(id *ast.Ident) string {
	if id.Obj != nil && id.Obj.Kind == ast.Var {
		if s, ok := n.names[id.Obj]; ok {
			return s
		}
		s := fmt.Sprintf("v%d", len(n.names))
		n.names[id.Obj] = s
		return s
	}
	return id.Name
}

func isLoggerCall(e ast.Expr) bool {
	c, ok := e.(*ast.CallExpr)
	if !ok {
		return false
	}
	s, ok := c.Fun.(*ast.SelectorExpr)
	if !ok {
		return false
	}
	if in, ok := s.X.(*ast.SelectorExpr); ok && in.Sel.Name == "logger" {
		return true
	}
	return false
}

func isMessageCall(c *ast.CallExpr) bool {
	if s, ok := c.Fun.(*ast.SelectorExpr); ok {
		if x, ok := s.X.(*ast.Ident); ok {
			if (x.Name == "fmt" && (s.Sel.Name == "Errorf" || s.Sel.Name == "Sprintf")) || (x.Name == "errors" && s.Sel.Name == "New") {
				return true
			}
		}
	}
	return false
}

func (n *namer) expr(e ast.Expr) string {
	switch x := e.(type) {
	case nil:
		return ""
	case *ast.Ident:
		return n.of(x)
	case *ast.BasicLit:
		return x.Value
	case *ast.SelectorExpr:
		return n.expr(x.X) + "." + x.Sel.Name
	case *ast.CallExpr:
		if isMessageCall(x) {
			return "MSG"
		}
		var as []string
		for _, a := range x.Args {
			as = append(as, n.expr(a))
		}
		ell := ""
		if x.Ellipsis.IsValid() {
			ell = "..."
		}
		return n.expr(x.Fun) + "(" + strings.Join(as, ",") + ell + ")"
	case *ast.BinaryExpr:
		// comparisons are printed in one canonical direction (`a >= b` as `b <= a`, `a > b` as `b < a`; the operands of
		// `==` / `!=` in text order): turning a comparison round is not a change of the condition
		l, r, op := n.expr(x.X), n.expr(x.Y), x.Op
		switch op {
		case token.GEQ:
			l, r, op = r, l, token.LEQ
		case token.GTR:
			l, r, op = r, l, token.LSS
		case token.EQL, token.NEQ:
			if r < l {
				l, r = r, l
			}
		}
		return "(" + l + op.String() + r + ")"
	case *ast.UnaryExpr:
		return x.Op.String() + n.expr(x.X)
	case *ast.ParenExpr:
		return n.expr(x.X)
	case *ast.StarExpr:
		return "*" + n.expr(x.X)
	case *ast.IndexExpr:
		return n.expr(x.X) + "[" + n.expr(x.Index) + "]"
	case *ast.SliceExpr:
		s := n.expr(x.X) + "[" + n.expr(x.Low) + ":" + n.expr(x.High)
		if x.Slice3 {
			s += ":" + n.expr(x.Max)
		}
		return s + "]"
	case *ast.TypeAssertExpr:
		return n.expr(x.X) + ".(" + n.expr(x.Type) + ")"
	case *ast.CompositeLit:
		var es []string
		for _, el := range x.Elts {
			es = append(es, n.expr(el))
		}
		return n.expr(x.Type) + "{" + strings.Join(es, ",") + "}"
	case *ast.KeyValueExpr:
		return n.expr(x.Key) + ":" + n.expr(x.Value)
	case *ast.ArrayType:
		return "[" + n.expr(x.Len) + "]" + n.expr(x.Elt)
	case *ast.MapType:
		return "map[" + n.expr(x.Key) + "]" + n.expr(x.Value)
	case *ast.ChanType:
		return "chan " + n.expr(x.Value)
	case *ast.FuncLit:
		var toks []string
		n.block(x.Body, &toks)
		return "FUNC{" + strings.Join(toks, ";") + "}"
	case *ast.StructType:
		var fs []string
		if x.Fields != nil {
			for _, f := range x.Fields.List {
				tag := ""
				if f.Tag != nil {
					tag = f.Tag.Value
				}
				for _, nm := range f.Names {
					fs = append(fs, nm.Name+" "+n.expr(f.Type)+tag)
				}
			}
		}
		return "struct{" + strings.Join(fs, ";") + "}"
	case *ast.InterfaceType:
		return "interface"
	case *ast.FuncType:
		var ps, rs []string
		if x.Params != nil {
			for _, f := range x.Params.List {
				ps = append(ps, n.expr(f.Type))
			}
		}
		if x.Results != nil {
			for _, f := range x.Results.List {
				rs = append(rs, n.expr(f.Type))
			}
		}
		return "func(" + strings.Join(ps, ",") + ")" + strings.Join(rs, ",")
	case *ast.Ellipsis:
		return "..." + n.expr(x.Elt)
	default:
		return fmt.Sprintf("?%T", e)
	}
}

func (n *namer) exprs(es []ast.Expr) string {
	var r []string
	for _, e := range es {
		r = append(r, n.expr(e))
	}
	return strings.Join(r, ",")
}

func (n *namer) block(b *ast.BlockStmt, out *[]string) {
	if b == nil {
		return
	}
	for _, s := range b.List {
		n.stmt(s, out)
	}
}

func (n *namer) stmt(s ast.Stmt, out *[]string) {
	add := func(t string) { *out = append(*out, t) }
	switch x := s.(type) {
	case *ast.ExprStmt:
		if isLoggerCall(x.X) {
			return
		}
		add("DO " + n.expr(x.X))
	case *ast.AssignStmt:
		add("SET " + n.exprs(x.Lhs) + " " + x.Tok.String() + " " + n.exprs(x.Rhs))
	case *ast.DeclStmt:
		if g, ok := x.Decl.(*ast.GenDecl); ok {
			for _, sp := range g.Specs {
				if v, ok := sp.(*ast.ValueSpec); ok {
					var ns []string
					for _, nm := range v.Names {
						ns = append(ns, n.of(nm))
					}
					add("VAR " + strings.Join(ns, ",") + " " + n.expr(v.Type) + " = " + n.exprs(v.Values))
				} else if ts, ok := sp.(*ast.TypeSpec); ok {
					add("TYPE " + ts.Name.Name + " " + n.expr(ts.Type))
				} else {
					add(fmt.Sprintf("DECL ?%T", sp))
				}
			}
		}
	case *ast.ReturnStmt:
		add("RET " + n.exprs(x.Results))
	case *ast.IfStmt:
		if x.Init != nil {
			n.stmt(x.Init, out)
		}
		add("IF " + n.expr(x.Cond) + " {")
		n.block(x.Body, out)
		if x.Else != nil {
			add("} ELSE {")
			switch e := x.Else.(type) {
			case *ast.BlockStmt:
				n.block(e, out)
			default:
				n.stmt(e, out)
			}
		}
		add("}")
	case *ast.ForStmt:
		if x.Init != nil {
			n.stmt(x.Init, out)
		}
		post := ""
		if x.Post != nil {
			var p []string
			n.stmt(x.Post, &p)
			post = strings.Join(p, ";")
		}
		add("FOR " + n.expr(x.Cond) + " ; " + post + " {")
		n.block(x.Body, out)
		add("}")
	case *ast.RangeStmt:
		add("RANGE " + n.expr(x.Key) + "," + n.expr(x.Value) + " " + x.Tok.String() + " " + n.expr(x.X) + " {")
		n.block(x.Body, out)
		add("}")
	case *ast.IncDecStmt:
		add("SET " + n.expr(x.X) + x.Tok.String())
	case *ast.GoStmt:
		add("GO " + n.expr(x.Call))
	case *ast.DeferStmt:
		add("DEFER " + n.expr(x.Call))
	case *ast.BranchStmt:
		add(strings.ToUpper(x.Tok.String()))
	case *ast.BlockStmt:
		add("{")
		n.block(x, out)
		add("}")
	case *ast.SendStmt:
		add("SEND " + n.expr(x.Chan) + " <- " + n.expr(x.Value))
	case *ast.SelectStmt:
		add("SELECT {")
		for _, c := range x.Body.List {
			cc := c.(*ast.CommClause)
			if cc.Comm == nil {
				add("DEFAULT:")
			} else {
				var p []string
				n.stmt(cc.Comm, &p)
				add("CASE " + strings.Join(p, ";") + ":")
			}
			for _, b := range cc.Body {
				n.stmt(b, out)
			}
		}
		add("}")
	case *ast.SwitchStmt:
		if x.Init != nil {
			n.stmt(x.Init, out)
		}
		add("SWITCH " + n.expr(x.Tag) + " {")
		for _, c := range x.Body.List {
			cc := c.(*ast.CaseClause)
			add("CASE " + n.exprs(cc.List) + ":")
			for _, b := range cc.Body {
				n.stmt(b, out)
			}
		}
		add("}")
	case *ast.EmptyStmt:
	default:
		add(fmt.Sprintf("?%T", s))
	}
}

type fn struct {
	Name   string   `json:"name"`
	Sha    string   `json:"sha256"`
	Tokens []string `json:"tokens"`
}

func main() {
	repo := flag.String("repo", "/repo", "repository root")
	set := flag.String("set", "core", "file set: core | neigh | wallet | clock | codec")
	flag.Parse()
	files, ok := fileSets[*set]
	if !ok {
		fmt.Fprintln(os.Stderr, "unknown set", *set)
		os.Exit(2)
	}
	var res []fn
	fset := token.NewFileSet()
	for _, f := range files {
		p := filepath.Join(*repo, f)
		af, err := parser.ParseFile(fset, p, nil, 0)
		if err != nil {
			fmt.Fprintln(os.Stderr, "cannot parse", p, err)
			os.Exit(2)
		}
		base := filepath.Base(f)
		for _, d := range af.Decls {
			switch x := d.(type) {
			case *ast.FuncDecl:
				name := x.Name.Name
				n := &namer{names: map[*ast.Object]string{}}
				var toks []string
				if x.Recv != nil && len(x.Recv.List) == 1 {
					t := x.Recv.List[0].Type
					if s, ok := t.(*ast.StarExpr); ok {
						t = s.X
					}
					name = n.expr(t) + "." + name
					for _, nm := range x.Recv.List[0].Names {
						n.of(nm)
					}
				}
				key := base + ":" + name
				if skipFuncs[key] {
					continue
				}
				var ps []string
				for _, fl := range x.Type.Params.List {
					for _, nm := range fl.Names {
						ps = append(ps, n.of(nm)+" "+n.expr(fl.Type))
					}
				}
				rs := ""
				if x.Type.Results != nil {
					var rr []string
					for _, fl := range x.Type.Results.List {
						rr = append(rr, n.expr(fl.Type))
					}
					rs = strings.Join(rr, ",")
				}
				toks = append(toks, "FUNC("+strings.Join(ps, ",")+") "+rs)
				n.block(x.Body, &toks)
				h := sha256.Sum256([]byte(strings.Join(toks, "\n")))
				res = append(res, fn{key, hex.EncodeToString(h[:]), toks})
			case *ast.GenDecl:
				if x.Tok == token.TYPE || x.Tok == token.CONST || x.Tok == token.VAR {
					n := &namer{names: map[*ast.Object]string{}}
					for _, sp := range x.Specs {
						switch s := sp.(type) {
						case *ast.TypeSpec:
							toks := []string{"TYPE " + s.Name.Name + " " + n.expr(s.Type)}
							h := sha256.Sum256([]byte(strings.Join(toks, "\n")))
							res = append(res, fn{base + ":type " + s.Name.Name, hex.EncodeToString(h[:]), toks})
						case *ast.ValueSpec:
							var ns []string
							for _, nm := range s.Names {
								ns = append(ns, nm.Name)
							}
							toks := []string{x.Tok.String() + " " + strings.Join(ns, ",") + " " + n.expr(s.Type) + " = " + n.exprs(s.Values)}
							h := sha256.Sum256([]byte(strings.Join(toks, "\n")))
							res = append(res, fn{base + ":" + x.Tok.String() + " " + strings.Join(ns, ","), hex.EncodeToString(h[:]), toks})
						}
					}
				}
			}
		}
	}
	sort.Slice(res, func(i, j int) bool { return res[i].Name < res[j].Name })
	enc := json.NewEncoder(os.Stdout)
	enc.SetIndent("", " ")
	_ = enc.Encode(res)
}
